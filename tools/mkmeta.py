#!/usr/bin/env python3
"""mkmeta.py <seed-id> <summary> <needs> <detected_by>...: write seeded/<id>/meta.json"""
import json, sys
sid, summary, needs, *det = sys.argv[1:]
meta = {"property": sid.split("-")[0], "summary": summary, "needs_to_manifest": needs, "detected_by": det, "id": sid,
        "source": "independent sub-agent given only the property text and a scratch worktree",
        "demonstration": "demo.py exits 0 on the unchanged tree and 1 with the patch (verified here both ways in a scratch worktree)",
        "test_suite_with_patch": "see suite.txt (tools/confirm_seed.sh: pinned suite on a scratch worktree with the patch)",
        "ran": "tools/try_seed.sh seeded/%s/patch.diff <props> (scratch worktree, GLYLES_REPO)" % sid}
json.dump(meta, open("/verif/seeded/%s/meta.json" % sid, "w"), indent=1)
