#!/bin/bash
# confirm_all.sh [ids...]: run confirm_seed.sh for every seeded change lacking suite.txt (sequentially)
cd "$(dirname "$0")/.."
ids="$@"; [ -z "$ids" ] && ids=$(ls seeded)
for id in $ids; do
  [ -s "seeded/$id/suite.txt" ] && continue
  echo "== $id $(date +%T)"; tools/confirm_seed.sh "$id"
done
