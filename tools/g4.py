"""Parser for the subset of ANTLR-4 grammar syntax that Glycan.g4 uses.

Returns plain Python data:
  parser rules : name -> Rx   (tuples: ('eps',) ('tok', name|literal) ('ref', name) ('seq', a, b) ('alt', a, b) ('star', a))
  lexer rules  : ordered list (name, alts) where an alt is a list of (lo, hi, star) items
  implicit literal tokens (T__n) in order of first appearance in parser rules.
Anything outside the subset raises G4Error (reported by the checks as a broken translation).
"""
import re


class G4Error(Exception):
    pass


TOKEN_RE = re.compile(r"""
    \s+ | //[^\n]* | /\*.*?\*/
  | (?P<lit>'(?:\\.|[^'\\])*')
  | (?P<id>[A-Za-z_][A-Za-z_0-9]*)
  | (?P<range>\.\.)
  | (?P<sym>[:;|()*+?])
""", re.X | re.S)


def tokenize(text):
    pos, out = 0, []
    while pos < len(text):
        m = TOKEN_RE.match(text, pos)
        if not m:
            raise G4Error("unsupported grammar syntax at %r" % text[pos:pos + 30])
        pos = m.end()
        if m.lastgroup:
            out.append((m.lastgroup, m.group(m.lastgroup)))
    return out


def unquote(lit):
    body = lit[1:-1]
    out, i = [], 0
    while i < len(body):
        if body[i] == "\\":
            nxt = body[i + 1]
            out.append({"n": "\n", "t": "\t", "r": "\r", "\\": "\\", "'": "'"}.get(nxt, nxt))
            i += 2
        else:
            out.append(body[i])
            i += 1
    return "".join(out)


class P:
    def __init__(self, toks):
        self.t, self.i = toks, 0

    def peek(self):
        return self.t[self.i] if self.i < len(self.t) else (None, None)

    def eat(self, kind=None, val=None):
        k, v = self.peek()
        if (kind and k != kind) or (val and v != val):
            raise G4Error("expected %s %s, got %s %s" % (kind, val, k, v))
        self.i += 1
        return v


def seqs(items):
    if not items:
        return ("eps",)
    if len(items) == 1:
        return items[0]
    return ("seq", items[0], seqs(items[1:]))


def alts(items):
    if len(items) == 1:
        return items[0]
    return ("alt", items[0], alts(items[1:]))


def parse_alts(p, lexer):
    res = [parse_seq(p, lexer)]
    while p.peek() == ("sym", "|"):
        p.eat()
        res.append(parse_seq(p, lexer))
    return res


def parse_seq(p, lexer):
    items = []
    while True:
        k, v = p.peek()
        if k in ("lit", "id") or (k, v) == ("sym", "("):
            items.append(parse_elem(p, lexer))
        else:
            break
    return items


def parse_elem(p, lexer):
    k, v = p.peek()
    if k == "lit":
        p.eat()
        lit = unquote(v)
        if p.peek()[0] == "range":
            p.eat()
            hi = unquote(p.eat("lit"))
            if len(lit) != 1 or len(hi) != 1:
                raise G4Error("range bounds must be single characters")
            base = ("range", lit, hi)
        else:
            base = ("lit", lit)
    elif k == "id":
        p.eat()
        base = ("id", v)
    else:
        p.eat("sym", "(")
        inner = parse_alts(p, lexer)
        p.eat("sym", ")")
        base = ("group", inner)
    k, v = p.peek()
    if k == "sym" and v in "*+?":
        p.eat()
        return ("suffix", v, base)
    return base


def parse_grammar(text):
    toks = tokenize(text)
    p = P(toks)
    if p.peek() == ("id", "grammar"):
        p.eat()
        p.eat("id")
        p.eat("sym", ";")
    rules = []
    while p.peek()[0] is not None:
        name = p.eat("id")
        p.eat("sym", ":")
        lexer = name[0].isupper()
        body = parse_alts(p, lexer)
        p.eat("sym", ";")
        rules.append((name, lexer, body))
    return rules


def build(text):
    rules = parse_grammar(text)
    parser_rules = [(n, b) for n, lx, b in rules if not lx]
    lexer_rules = [(n, b) for n, lx, b in rules if lx]
    lexer_names = [n for n, _ in lexer_rules]
    parser_names = [n for n, _ in parser_rules]
    # implicit literal tokens: literals in parser rules that are not the single literal of a lexer rule
    single_lit = {}
    for n, body in lexer_rules:
        if len(body) == 1 and len(body[0]) == 1 and body[0][0][0] == "lit":
            single_lit.setdefault(body[0][0][1], n)
    implicit = []

    def conv(e):
        kind = e[0]
        if kind == "lit":
            if e[1] in single_lit:
                return ("tok", single_lit[e[1]])
            if e[1] not in implicit:
                implicit.append(e[1])
            return ("tok", "T__%d" % implicit.index(e[1]))
        if kind == "id":
            if e[1] in lexer_names:
                return ("tok", e[1])
            if e[1] in parser_names:
                return ("ref", e[1])
            raise G4Error("unknown symbol %s" % e[1])
        if kind == "group":
            return alts([seqs([conv(x) for x in alt]) for alt in e[1]])
        if kind == "suffix":
            inner = conv(e[2])
            if e[1] == "*":
                return ("star", inner)
            if e[1] == "+":
                return ("seq", inner, ("star", inner))
            return ("alt", inner, ("eps",))
        raise G4Error("unsupported element in parser rule: %r" % (e,))

    prules = [(n, alts([seqs([conv(x) for x in alt]) for alt in body])) for n, body in parser_rules]

    def lex_alt(alt):
        items = []
        for idx, e in enumerate(alt):
            star = False
            if e[0] == "suffix":
                if e[1] != "*" or idx != len(alt) - 1:
                    raise G4Error("only a trailing '*' is supported in lexer rules")
                star, e = True, e[2]
            if e[0] == "group":
                if len(e[1]) != 1 or len(e[1][0]) != 1:
                    raise G4Error("unsupported lexer group")
                e = e[1][0][0]
            if e[0] == "lit":
                if star and len(e[1]) != 1:
                    raise G4Error("starred multi-character literal")
                for ch in e[1]:
                    items.append((ch, ch, star))
            elif e[0] == "range":
                items.append((e[1], e[2], star))
            else:
                raise G4Error("unsupported element in lexer rule: %r" % (e,))
        return items

    lrules = [("T__%d" % i, [[(c, c, False) for c in lit]]) for i, lit in enumerate(implicit)]
    lrules += [(n, [lex_alt(a) for a in body]) for n, body in lexer_rules]
    token_types = {n: i + 1 for i, (n, _) in enumerate(lrules)}
    return {"parser_rules": prules, "lexer_rules": lrules, "token_types": token_types,
            "parser_names": parser_names, "implicit": implicit}
