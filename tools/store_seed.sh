#!/bin/bash
# store_seed.sh <worktree> <seed-id>: copy patch/demo/notes from <worktree>/_seed to seeded/<id>, verify the demo both ways in a fresh scratch worktree, drop the agent's worktree
wt="$1"; id="$2"; d="/verif/seeded/$id"
mkdir -p "$d"; cp "$wt/_seed/patch.diff" "$wt/_seed/demo.py" "$d/"; [ -f "$wt/_seed/notes.md" ] && cp "$wt/_seed/notes.md" "$d/"
t="/tmp/demo_$id"; git -C /repo worktree add --detach "$t" HEAD -q || exit 2
mkdir -p "$t/_seed"; cp "$d/demo.py" "$t/_seed/"
( cd "$t"; PYTHONPATH="$t" /venv/bin/python _seed/demo.py > /dev/null 2>&1; echo "$id clean: $?"; git apply "$d/patch.diff" || echo "PATCH DOES NOT APPLY"; PYTHONPATH="$t" /venv/bin/python _seed/demo.py > /dev/null 2>&1; echo "$id patched: $?" )
git -C /repo worktree remove --force "$t"; git -C /repo worktree remove --force "$wt"
