#!/bin/bash
# try_seed.sh <patch.diff> <prop> [<prop>...]: run quick checks against a scratch worktree of /repo with the patch applied
# (GLYLES_REPO points the harness and the translators at it; evidence goes to a scratch directory). /repo is not touched.
patch="$(readlink -f "$1")"; shift
wt="/tmp/try_$$"; ev="/tmp/try_ev_$$"
git -C /repo worktree add --detach "$wt" HEAD -q || exit 2
( cd "$wt" && git apply "$patch" ) || { git -C /repo worktree remove --force "$wt"; exit 2; }
cd "$(dirname "$0")/.."
for p in "$@"; do
  echo "== $p"; GLYLES_REPO="$wt" VERIF_EVIDENCE_DIR="$ev" ./check "$p" quick 2>&1 | grep -v "^KNOWN-FINDING\|^line " | tail -${TRY_TAIL:-6} | cut -c1-400
done
git -C /repo worktree remove --force "$wt"; rm -rf "$ev"
# the translators wrote Generated/* from the patched tree: restore them from /repo
/venv/bin/python tools/extract.py --repo /repo --out . > /dev/null
