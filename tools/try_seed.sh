#!/bin/bash
# try_seed.sh <patch.diff> <prop> [<prop>...]: run quick checks against a scratch worktree of /repo with the patch applied
# (GLYLES_REPO points the harness and the translators at it; evidence goes to a scratch directory). /repo is not touched.
patch="$(readlink -f "$1")"; shift
wt="/tmp/try_$$"; ev="/tmp/try_ev_$$"
git -C /repo worktree add --detach "$wt" HEAD -q || exit 2
if ! ( cd "$wt" && git apply "$patch" 2>/dev/null ); then
  # a later repair rewrote the lines the patch touches: fall back to the commit recorded in the seed's meta.json (base_commit)
  base=$(python3 -c "import json,os,sys; print(json.load(open(os.path.join(os.path.dirname(sys.argv[1]),'meta.json'))).get('base_commit',''))" "$patch" 2>/dev/null)
  git -C /repo worktree remove --force "$wt"
  [ -n "$base" ] || exit 2
  git -C /repo worktree add --detach "$wt" "$base" -q || exit 2
  ( cd "$wt" && git apply "$patch" ) || { git -C /repo worktree remove --force "$wt"; exit 2; }
  echo "(patch applied to its base commit $base, not to HEAD)"
fi
cd "$(dirname "$0")/.."
for p in "$@"; do
  echo "== $p"; GLYLES_REPO="$wt" VERIF_EVIDENCE_DIR="$ev" ./check "$p" quick 2>&1 | grep -v "^KNOWN-FINDING\|^line " | tail -${TRY_TAIL:-6} | cut -c1-400
done
git -C /repo worktree remove --force "$wt"; rm -rf "$ev"
# the translators wrote Generated/* from the patched tree: restore them from /repo
/venv/bin/python tools/extract.py --repo /repo --out . > /dev/null
