#!/usr/bin/env python3
"""Writes /verif/MANIFEST.json from the per-property table below (single place to keep the claims current)."""
import json
import os

HERE = os.path.dirname(os.path.dirname(os.path.abspath(__file__)))

NOTE = ("Trusted: Lean 4.33 kernel (axioms propext, Classical.choice, Quot.sound only; no native_decide/bv_decide/sorry; audited every run); "
        "the translators tools/extract.py + tools/g4.py; the correspondence harness harness/*.py and lean/Main.lean; the executable Spec oracles "
        "(harness/chem.py, RDKit canonical SMILES as molecule equality). Modelled, not verified: RDKit, ANTLR runtime, networkx, numpy, joblib.")

CLAIMS = {
    "C01": dict(
        technique="Lean 4 theorems (walker = compositional reading) + Spec judging of the real code by an RDKit molzip join + correspondence",
        text="Proof-level for the tree the assembly consumes (C03 theorems) and, as built so far, Spec-judged exploration of the assembly itself: "
             "every sampled well-formed glycan is compared, as a stereo-defined molecule, with an independent RDKit construction that joins the "
             "residues converted alone at positions found by a chemistry-level carbon numbering. The splice-algebra theorems are in progress.",
        note="partial: the graft theorem (sem_subst_leaf) is not yet proved; carbon numbering of modified residues is checked residue by residue against "
             "the chemistry-level rule, not proved. " + NOTE, ref="6 C01"),
    "C03": dict(
        technique="Lean 4 theorem by induction over the syntax tree (walker = pre-order numbering of the compositional reading) + correspondence",
        text="C03_walk_eq_denote is proved for all inputs (any depth/width, floating fragments). The Model (lexer, priority-ordered parser over the "
             "regenerated grammar, typed syntax, walker) is tied to the code by comparing node names and per-node ordered child lists on "
             "bounded-exhaustive tree shapes x notations, random trees to depth 60 with random grammar-derived names, and foreign-text insertions; "
             "the real code is also judged directly against the written tree (unordered) and must reject foreign text.",
        note="The ANTLR runtime and generated parser bodies are tied by correspondence only. " + NOTE, ref="6 C03"),
    "C15": dict(
        technique="Lean 4 theorems (longest-match lexer spec, parser soundness w.r.t. the regenerated grammar) + bounded-exhaustive correspondence",
        text="C15_lex_longest_match, C15_parse_sound and C15_accept_sound are proved for all inputs against the grammar regenerated from Glycan.g4 on "
             "every run; acceptance of the real code is compared with the Model's recogniser on all strings of <=4 (quick) / <=5 (thorough) symbols of a "
             "16-symbol alphabet, every token literal in 9 contexts, corpus names and single-edit mutants.",
        note="partial: the completeness direction (derivable => accepted) is carried by correspondence, and so is the adequacy of the concrete fuel bound; "
             "the ANTLR ALL(*) interpreter is not modelled. " + NOTE, ref="6 C15"),
}

PENDING = {}


def main():
    props = [json.loads(l) for l in open(os.path.join(HERE, "properties.jsonl"))]
    checks, na = [], []
    for p in props:
        pid = p["id"]
        if pid in CLAIMS:
            c = CLAIMS[pid]
            checks.append({
                "property_id": pid,
                "quick_cmd": "./check %s quick" % pid,
                "thorough_cmd": "./check %s thorough" % pid,
                "evidence_file": "evidence/%s.json" % pid,
                "replay_cmd_template": "./check replay {path}",
                "engine": "lean4-model+correspondence",
                "level_claimed": {"category": "proof", "text": c["text"], "design_ref": "DESIGN.md section " + c["ref"]},
                "level_note": c["note"],
                "technique": c["technique"],
            })
        else:
            na.append({"property_id": pid, "reason": PENDING.get(pid, "check under construction in this build round; not claimed yet")})
    man = {
        "version": 1,
        "setup_cmd": "./setup.sh",
        "hooks": {
            "guard": "GLYLES_VERIF",
            "enable": "no source hooks: the harness wraps module attributes of the working tree at run time when GLYLES_VERIF=1 (set by the harness itself)",
            "baseline_off_cmd": "cd /repo && /venv/bin/python -m pytest -ra -q -p no:cacheprovider --timeout=900 --continue-on-collection-errors",
            "source_commits": [],
            "add_only": True,
        },
        "engines": [{"name": "lean4-model+correspondence", "path": "lean/ harness/ tools/", "serves_properties": [c["property_id"] for c in checks],
                     "kind_free_text": "Lean 4 model + theorems (lake build, axiom audit), translator-regenerated tables, differential correspondence harness, executable Spec oracles"}],
        "checks": checks,
        "not_applicable": na,
        "notes": "See DESIGN.md. fix: commits in /repo are listed in known_findings.json (fixed entries); open findings are re-confirmed as KNOWN-FINDING lines.",
    }
    with open(os.path.join(HERE, "MANIFEST.json"), "w") as f:
        json.dump(man, f, indent=1)
    print("MANIFEST.json: %d checks, %d not claimed" % (len(checks), len(na)))


if __name__ == "__main__":
    main()
