#!/usr/bin/env python3
"""Writes /verif/MANIFEST.json from the per-property table below (single place to keep the claims current)."""
import json
import os

HERE = os.path.dirname(os.path.dirname(os.path.abspath(__file__)))

NOTE = ("Trusted: Lean 4.33 kernel (axioms propext, Classical.choice, Quot.sound only; no native_decide/bv_decide/sorry; audited every run); "
        "the translators tools/extract.py + tools/g4.py; the correspondence harness harness/*.py and lean/Main.lean; the executable Spec oracles "
        "(harness/chem.py, RDKit canonical SMILES as molecule equality). Modelled, not verified: RDKit, ANTLR runtime, networkx, numpy, joblib.")

CLAIMS = {
    "C01": dict(
        technique="Lean 4 theorems by structural induction over the residue tree (token-level merge_int refines the graft Spec for every tree of any depth/width: C01_tree_refines_spec, built on the graft lemma by simulation; the binding plan of Merger.mark / merge_int over the edge list refines the per-linkage Spec over the written forest: C01_linkage_plan) + proved-sound decidable certificates evaluated on every real merge, on the Model's and on the code's own intermediate strings + RDKit molzip Spec judging",
        text="C01_tree_refines_spec: for every tree of residue strings passing the decidable check wfTree (closed strings, pairwise different markers each once on a leaf atom, "
             "no child ring label open at its marker) the token-level Model of merge_int (mergeTok, O- and N-linkages) yields a SMILES denoting exactly specTree - every residue's "
             "atoms, ordered bond events and stereo marks carried over, one glycosidic bond per linkage - and never 'no molecule'. Built on Gly.Smi.graft (C01_graft: frame lemma, "
             "renaming simulation), splice_one, nblock (N-link block), slot_preserved, loop. C01_certified_splice / C01_certified_tree / certifyObserved_sound prove the certificates sound; "
             "the driver re-plays every real merge_int (boundary strings captured from RDKit), reproduces its output text-identically and certifies the whole tree both on the Model's strings "
             "and on the strings Monomer.to_smiles really returned together with the code's own result. Independently every sampled well-formed glycan (random trees + fixed bicyclic / 4-way / N-link cases) "
             "is compared as a stereo molecule with an RDKit molzip join of the residues converted alone. "
             "C01_linkage_plan (go_refines): the Model of Merger.mark / Merger.merge_int - recursion over the edge list of the walked tree - issues, for every syntax tree without floating fragments and "
             "at most four children per residue, exactly the calls of the structural Spec over the written forest: per written linkage (xA-B) mark(B, marker pair k) on the parent (k = the child's place among its siblings), "
             "root_atom_id(A) on the child, the label's anomer for a child without one of its own, ring offsets; tied by the call sequence observed inside real conversions. "
             "C01_linking_atom(_through_substituent) over the Model of find_oxygen / __check_root_id, C01_numbering_table over the Model of enumerate_carbon.",
        note="partial: RDKit's writing of the marked residue is a boundary input (its meaning is assumed to be the token semantics Smi.sem); sanitize_smiles: its )) rule is proved sound at token level (C02_sanitize_rr_sound), the character-level index arithmetic is validated per instance "
             "(same sem); enumerate_carbon is modelled (tied by correspondence) and C01_numbering_table proves Model = chemistry-level numbering on the library rows; on modified residues the numbering is compared with the chemistry-level rule per residue, not proved; find_oxygen / __check_root_id / root_atom_id and the tree-level Merger.mark / merge_int are modelled and tied by correspondence, the RDKit edit SetAtomicNum itself is judged by the molzip Spec; floating fragments are outside C01_linkage_plan; "
             "two open known findings (numbering of 1-amino-ketoses and 2,6-anhydro sugars). " + NOTE, ref="6 C01, 14"),
    "C03": dict(
        technique="Lean 4 theorems by induction over the syntax tree (walker = pre-order numbering of the compositional reading; one node per written residue; tree shape) + correspondence",
        text="C03_walk_eq_denote is proved for all inputs (any depth/width, floating fragments); C03_one_node_per_residue: node 0 is the reducing-end residue and the node list is a permutation of the written residues; C03_tree_shape: every node but the root has exactly one incoming edge, from a smaller id. The Model (lexer, priority-ordered parser over the "
             "regenerated grammar, typed syntax, walker) is tied to the code by comparing node names and per-node ordered child lists on "
             "bounded-exhaustive tree shapes x notations, random trees to depth 60 with random grammar-derived names, and foreign-text insertions; "
             "the real code is also judged directly against the written tree (unordered) and must reject foreign text. C03_forest_shape: for every Start, floating parts included, no node is a child twice, every edge points from a smaller to a larger existing id, and nodes minus edges = 1 + number of floating parts.",
        note="The ANTLR runtime and generated parser bodies are tied by correspondence only. " + NOTE, ref="6 C03"),
    "C15": dict(
        technique="Lean 4 theorems (longest-match lexer spec; generic priority parser sound and complete w.r.t. the grammar regenerated from Glycan.g4: C15_accept_iff; the serialized ATN of GlycanParser.py equals the grammar rule by rule: C15_atn_matches_grammar, by a proved-sound partial-derivative / subset-construction bisimulation check evaluated in the kernel) + bounded-exhaustive correspondence",
        text="C15_lex_longest_match, C15_parse_sound, C15_parse_complete, C15_accept_sound and C15_accept_iff (Model accepts s iff #s# tokenises by longest match and its whole token stream is a sentence of the start rule) and C15_atn_matches_grammar (for every parser rule, the rule's sub-automaton in the ATN regenerated from GlycanParser.py and the rule's right-hand side regenerated from Glycan.g4 accept the same words over token types and rule references; ruleOk_sound) and C15_lexer_atn_matches_token_table (every token rule of the lexer ATN regenerated from GlycanLexer.py has the token type of, and accepts exactly the literals / the same words as, the corresponding rule of the token table regenerated from Glycan.g4; lexRuleOk_sound) are proved for all inputs against the grammar regenerated from Glycan.g4 on "
             "every run; acceptance of the real code is compared with the Model's recogniser on all strings of <=4 (quick) / <=5 (thorough) symbols of a "
             "16-symbol alphabet, every token literal in 9 contexts, corpus names and single-edit mutants.",
        note="partial: the adequacy of the concrete fuel bound is a side condition of C15_accept_iff evaluated by the driver per input (doubling the fuel changes nothing); "
             "the ANTLR ALL(*) interpreter and lexer runtime and the generated recursive-descent method bodies are not modelled (tied by correspondence). " + NOTE, ref="6 C15"),
}

CLAIMS.update({
    "C02": dict(
        technique="Lean 4 theorems (no marker atom and nothing open survives the assembly of any well-formed tree: C02_no_marker_survives; label renaming invisible iff < 100; release gate decision logic; marker tables disjoint by kernel evaluation) + Spec judging of every result with RDKit",
        text="C02_no_marker_survives: for every tree passing wfTree the assembled string is a closed SMILES (every branch closed, every ring label paired, no dangling bond) without marker atoms. "
             "C02_shift_preserves_molecule / C02_labels_valid_below_100 / C02_label_100_counterexample: the per-level label renaming is invisible to the semantics exactly while labels stay below 100. "
             "C02_gate / C02_gate_transparent state the validation gate outright; C02_marker_tables_disjoint is decided by the kernel over the regenerated "
             "marker tables. Every non-empty result of well-formed, meaningless and ungrammatical inputs under random option combinations is judged by "
             "the executable Spec (parses, sanitises, one fragment, glycan elements only, no marker atom, no empty branch), also through convert. C02_every_delivery_released / C02_get_smiles_stable over the Model of the Glycan object's life (construction, eager / lazy assembly, cache, release gate; tied by feeding it the walk / merge / release results observed inside the code): nothing leaves the object without having passed the gate, for every option combination and every call. C02_sanitize_rr_sound: the )) rule of sanitize_smiles keeps the molecule for every string.",
        note="partial: valence / chemical sanity is RDKit's verdict (the gate's oracle), not a Lean predicate; the reactor's placeholder substitution (assemble_chains) is covered by the table theorem and by correspondence. " + NOTE, ref="6 C02"),
    "C05": dict(
        technique="Lean 4 theorems over the whole residue tree (atom balance for every counting predicate: C05_tree_atoms; ring-closure and bond balance of the Spec molecule: C05_tree_rings; per-splice corollaries of the graft lemma) + RDKit balance over the complete residue vocabulary",
        text="C05_tree_atoms: for every well-formed tree and every predicate on atom texts, atoms(result) + lost = gained, where lost = one marker per linkage (the parent's linking O/N) plus the anomeric O of N-linked children and gained = all residue atoms plus one N per N-linkage. "
             "C05_tree_rings: ring closures and bond events of the denoted molecule are the sums over the residues. Every sampled glycan's element counts (incl. H) and cyclomatic ring count are compared with the sum over its residues converted alone minus "
             "(n-1) H2O; every vocabulary residue appears as child and as parent, every alditol as reducing end. C05_mark_one_atom: over the Model of Monomer.mark (tied by the element change observed in every call) exactly one O or N becomes the marker of its kind and nothing else changes.",
        note="partial: the theorems count atom tokens, bond events and ring closures of the token semantics; implicit "
             "hydrogens are computed by RDKit in the sweep, not in Lean. " + NOTE, ref="6 C05"),
    "C06": dict(
        technique="Lean 4 theorems (edge normal form for all anomer/position texts, create resolution) + exhaustive connection forms + notation variants as molecules",
        text="C06_edge_full/condensed/short are proved for arbitrary anomer symbols and position texts; C06_notation_invariant_spec is the full-strength "
             "statement for a walker with the Spec's ketose test, C06_notation_invariant_partial the proved statement for the pinned (dead) test and "
             "C06_default_pos_counterexample its kernel-checked witness (known finding); C06_ring_default and C06_anomer_suffix are proved over the "
             "regenerated tables. All connection forms x anomer x positions are run exhaustively; random trees are rendered five ways and compared as molecules.",
        note="One open known finding (short-form linkage with a 2-ketose child). to_enantiomer as identity for the own series is checked as molecules only. " + NOTE, ref="6 C06"),
    "C07": dict(
        technique="Lean 4 theorem over List.Perm (permuting the children of a well-formed residue leaves the assembled token string unchanged: C07_children_order_immaterial; splices at distinct markers commute) + all permutations at all branching nodes give one canonical molecule (RDKit)",
        text="C07_children_order_immaterial: for any well-formed residue with any number of children and any subtrees below them, every permutation of the child list gives the same assembled string, token for token (C07_splices_commute, substAll_perm); C07_walk_children_order: the walker hangs bracketed branches and the main chain on the same parent in written order. For tree shapes up to 5/6 residues every permutation at every branching node (incl. the choice of the unbracketed main chain) and random "
             "permutations of larger random trees must give the same RDKit canonical SMILES.",
        note="partial: the theorems are token-level with each child keeping its marker; that RDKit's boundary strings for two written orders denote the same marked molecule is checked as molecules, not proved. " + NOTE, ref="6 C07"),
    "C09": dict(
        technique="Lean 4 theorems by list induction over a model of converter.py (any conv, any argument mix) + differential runs of convert/convert_generator",
        text="C09_pairs, C09_aligned, C09_isolated, C09_failing_input_empty, C09_generator_same are proved for every per-glycan behaviour and every "
             "argument combination; C09_file_lines_roundtrip / C09_line_terminators: the Model of reading a glycan file (universal newlines, Python's strip) returns exactly the glycans written one per line. The model - which receives the raw file content - is tied to converter.py by running both on the same call (conv table taken from direct Glycan calls); the "
             "real calls are also judged directly against the Spec pairs. Running time is measured (growth ratio on doubling), not proved. Inputs with control characters behind growing text are converted in their own interpreter under a 40 s budget (killed = violation).",
        note="partial: polynomial running time is a measurement; exceptions that do escape convert by design (missing file, raising user generator) are "
             "outside the theorem. " + NOTE, ref="6 C09"),
    "C10": dict(
        technique="Lean 4 theorems on the release gate and, by induction over the written forest, on the walker's accumulation of the full flag (C10_forest_full) + obstacle-injection runs under full=True/False",
        text="C10_full_true, C10_full_false, C10_full_false_same_as_true and the pinned counterexample are proved/decided; C10_fragments_not_full: for every written glycan the walked graph has one connected component plus one per floating part of any size (Model of the connectivity clause of TreeWalker.parse), so a floating part is never reported full; C10_react_full_never_recovers / C10_react_token_flag / C10_react_stall_not_full over the Model of all rounds of SMILESReaktor.react (tied by every round's side-chain table and the returned flag on the residues of every run): the flag is and'ed token by token, never recovers in a later round, a stalled round gives false. C10_addNodeEdge_full states how the "
             "walker accumulates the flag, C10_forest_full / C10_tree_full lift it to whole forests of any shape (full after numbering = full before, every residue realised, no '?' in a label) and the code's tree_full is compared with that conjunction per glycan. Random glycans with exactly one injected obstacle are converted under both settings and judged by the Spec.",
        note="An obstacle that makes Glycan() raise instead of returning '' (unknown sugar inside a glycan) is counted, not flagged: no molecule is released and convert returns ''. " + NOTE, ref="6 C10"),
    "C11": dict(
        technique="Lean 4 theorems over a World model (logger switch, stdout, files) + call histories replayed against fresh interpreters",
        text="C11_logger_restored(_generator), C11_stdout_clean, C11_files_untouched, C11_result_independent_of_world, C11_history_logger are proved for all "
             "argument combinations and all histories of convert calls; C11_tables_frame / C11_open_form_history_independent / C11_without_copy_counterexample over a heap model of the class-level open-form table (copy.copy before the rewrite). The World model's logger switch, stdout lines and file lines are compared with every observed convert call. Random call histories run in one fresh interpreter and every call alone in its own; "
             "results, logger switch, fd-level stdout, caller lists and a digest of the three class-level tables must agree. C11_get_smiles_keeps_the_tree (a tree_only object keeps its tree and flag across get_smiles - after repair d5e7703), C11_unstarted_generator_no_effect; histories contain never-advanced generators, the stdout fall-back for a missing output directory, and repeated count / tree / save_dot around get_smiles on tree_only objects.",
        note="partial: the deepcopy of the parse tree before marking (merger.py) and the recipe list shared with the walker are tied by the history runs (same method repeated around get_smiles, fresh-interpreter comparison), not by the heap model. " + NOTE, ref="6 C11, 14"),
    "C12": dict(
        technique="Lean 4 theorems (all sinks render the same pairs; executor-independence under joblib's order contract) + all delivery paths x cpu_count",
        text="C12_sinks_agree, C12_file_replaces_old_content (whatever the output file held before, afterwards exactly this call's lines; other files untouched), C12_schedule_independent, C12_direct_use are proved; batches are delivered through list/file/stdout/generator/CLI with cpu_count in "
             "{1,2,4,16,-1}, through every input container (glycan, glycan_list, glycan_file, glycan_generator) and their mixtures, into fresh and into already existing output files, and compared line by line with the Spec pairs; the sink Model is run on the same worlds. The stdout listing and the returned list are also requested under verbose in {DEBUG, NOTSET, False, INFO, ERROR}.",
        note="partial: joblib returning results in submission order is a hypothesis of the theorem; process start-up, pickling and fd inheritance are exercised, not modelled. " + NOTE, ref="6 C12"),
    "C13": dict(
        technique="Lean 4 theorems (one differing atom of the reducing-end residue = one differing atom of the whole glycan's Spec molecule, by induction over the children: C13_one_centre_whole_glycan; decision logic: suffix wins, option fallback, start fallback) + Model/code correspondence inside Merger.merge + RDKit stereocentre diff over anomer/option/start variants",
        text="C13_one_centre_whole_glycan: two reducing-end strings equal but for one atom token, with the same children of any depth, give Spec molecules with the same bond events that differ in exactly that atom (with C08_anomers_one_mark_* for the library rows and C01_tree_refines_spec for the assembled strings). "
             "C13_suffix_wins, C13_option_used_without_suffix, C13_unknown_option_is_undefined, C13_start_fallback are proved over Models (GlyModel/Api/Query.lean) that are compared with the start position and root configuration observed inside the real Merger.merge_int on every run. For vocabulary residues and random "
             "glycans the a / b / undefined forms must differ in exactly one anomeric-type centre (erase -> undefined, invert -> other anomer) and every start value must give the same molecule. C13_option_only_reaches_root / C13_root_call: in the binding plan (Model of Merger.mark / merge_int, compared with the calls observed for every option value) root_orientation reaches exactly one call - to_chirality on the reducing end, made only when it has no anomer of its own.",
        note="partial: that RDKit's rooted writings for different `start` atoms denote the same marked molecule is checked as molecules (canonical SMILES), not proved. " + NOTE, ref="6 C13, 14"),
    "C17": dict(
        technique="Lean 4 theorems over a model of __main__.py (expansion = flatMap, one line per glycan) + in-process and subprocess CLI runs",
        text="C17_expand, C17_lines and C17_file_argument are proved for every argument list and every file content (the Model splits and strips the raw file content itself); the CLI is run in-process and as `python -m glyles` on "
             "argument lists mixing literals and files and compared with the Spec lines and with the model. Argument lists include literals around and beyond the 255-byte file-name limit, longer than PATH_MAX, and path-like literals.",
        note="Zero glycans (single empty file): no output file is written; accepted as 'nothing to list' (C17_empty_writes_nothing documents it). An existing -o file triggers an interactive prompt: not exercised. " + NOTE, ref="6 C17"),
})

CLAIMS.update({
    "C04": dict(
        technique="Lean 4 theorems (reactor token dispatch Model: C04_single_mod, C04_commute; proved-sound graft certificate for the placeholder substitution of every observed assemble_chains call: C04_certified_assemble; table theorems by kernel evaluation) + exhaustive single modifications against a hand-written Spec fragment table (RDKit molzip)",
        text="C04_single_mod / C04_commute / C04_commute_all_shapes (tokens of any shape that write different positions commute) are proved over the Model of the reactor (token dispatch for positioned and position-less tokens, extract_bridge, set_fg, all rounds), which reproduces the code's side_chains on every observed call; the Model of assemble_chains' string half reproduces the stored residue SMILES text-identically and C04_certified_assemble proves that it denotes the placeholder molecule with every fragment grafted at its placeholder (every other atom and stereo mark unchanged). C04_fg_fragments_wellformed, C04_tables_consistent, C04_fragments_with_other_labels are decided by the kernel over the complete regenerated "
             "tables. Thorough runs every library sugar x every free position x every functional-group token (54k conversions); for ~95 tokens the expected "
             "molecule is built from a hand-written fragment table that says what the token stands for and whether the O/N carries it or is replaced; "
             "for all tokens the sugar skeleton must stay a stereo-substructure; sets of 2-4 modifications are written in all orders. C04_default_anchor_table: the Model of the reactor's ring_c (anchor of position-less groups; compared with self.ring_c on the features before check_for_anhydro) is the number of the anomeric carbon on every library row.",
        note="partial: which atom carries the placeholder (find_oxygen / carbon numbering: modelled in Mono/EnumC.lean and tied under C01, the RDKit edit itself not) is judged by the sweep; all rounds of react() are modelled (React.reactLoop) except parse_poly_carbon names; deoxy chains ('H') and the uronic '(=O)O' chain are outside the graft certificate; two open known-finding families "
             "(O replaced instead of carrying the group for 33 tokens; positional groups on amine positions). " + NOTE, ref="6 C04"),
    "C08": dict(
        technique="Lean 4 table theorems by kernel evaluation over the complete regenerated monosaccharide tables + exhaustive library sweep judged with RDKit",
        text="C08_anomers_one_mark_pyranose/furanose: for every code whose A_/B_ rows are written in the same atom order (all but PSE, LEG, ACI, THRE - listed by the "
             "theorem) the rows are equal modulo stereo marks and differ in exactly one mark; C08_plain_rows_*, C08_tables_wellformed. The sweep covers every code x "
             "ring form x anomer x series: one anomeric centre between a/b/undefined, ring-opening reduction = alditol entry, opposite series = mirror image, "
             "distinct molecules, ring size, class formula (hand-written table for the common classes). Kernel-checked over the complete regenerated tables as well: C08_anomeric_centre_* (the differing atom is the hemiacetal carbon, graph level), "
             "C08_ring_size (the ring closed by the row's ring bond has the tabulated size), C08_class_formula (C/H/N/O by valence rules = class table), C08_forms_same_formula (a / b / plain, pyranose / furanose rows of one code have one composition, the alditol row that plus H2), C08_erase_gives_plain, C08_all_rows_denote.",
        note="partial: the alditol (beyond composition) / mirror-image / distinctness clauses are decided by the RDKit sweep, not by "
             "a Lean isomorphism checker; class formulas cover 13 classes, other codes only get the structural clauses. " + NOTE, ref="6 C08"),
    "C14": dict(
        technique="Lean 4 theorems over a Model of reactor_basic.py (open-form rewrites at text and at graph level by kernel evaluation over all open rows; resizing extension) tied by correspondence inside real conversions + exhaustive prefix/suffix sweep against RDKit graph operations that define each transformation",
        text="C14_open_rows_shape, C14_onic_table, C14_aric_table (kernel, all open rows: the rewrites add exactly =O on C1 / the terminal carbon), C14_onic_text, C14_aric_text, C14_ol_is_the_table_row, C14_onic_is_the_c1_rewrite, C14_aric_is_both_rewrites are proved over GlyModel/Mono/OpenForm.lean, whose open-form text and resizing extension are compared with what check_for_open_form / check_for_resizing produce inside real conversions. Every library sugar x {-ol, -onic, -aric, A, n d, N, n e, x,y-Anhydro} "
             "x every applicable position (thorough: all pairs) and chain-length suffixes are compared with the Spec operation applied to the parent molecule "
             "(stereo-preserving, positions by chemistry-level numbering).",
        note="partial: the anhydro graph edit, deoxy / amino / epimer (RDKit level) are judged by the sweep, not modelled; 45 open known findings (anhydro bridges whose bicyclic product the carbon numbering cannot handle "
             "raise; the uronic walk on muramic acid). " + NOTE, ref="6 C14"),
    "C16": dict(
        technique="Lean 4 theorems (node count of the walked forest = size; node matchers of count: stricter matching never adds a match for one-token residues, kernel-checked counterexample otherwise) + Model/code correspondence of recipe_equality + summary/count/save_dot against the written tree and RDKit",
        text="C16_monomers is proved for every forest; C16_some_le_basic_partial / C16_some_gt_basic_counterexample over the matcher Model, which is compared with recipe_equality on 1500 residue pairs per run; summary() is compared with the written tree and with RDKit on get_smiles, count() with the Spec count for "
             "single-residue queries in all modes, self- and sub-chain queries must match at least once, monotonicity basic >= some >= every, save_dot parsed back. C16_contains_itself: over the Model of count(match_nodes=True) (Embed.count = number of induced sub-graph isomorphisms under the node / edge matchers, compared with glycan.py on about 1000 counts per run) every glycan contains itself for every reflexive node matcher, edge matching on or off, whatever the shape of its linkage labels; C16_matchers_reflexive. C16_leaves / C16_leaf_count / C16_depth: the Models of summary()['leaves'] (nodes without outgoing edge) and ['depth'] (longest parent chain from node 0) equal the leaves and the height of the written forest for every glycan without floating parts; both are compared with summary() on every sampled glycan. The strict count (match_all_fg) of a single-residue query is judged against 'residues that are the same molecule as the query'.",
        note="partial: count's Spec (countSpec over DiGraphMatcher) is executable only; one open known finding (every > some for differently spelled residues). " + NOTE, ref="6 C16"),
})

PENDING = {}


def main():
    props = [json.loads(l) for l in open(os.path.join(HERE, "properties.jsonl"))]
    checks, na = [], []
    for p in props:
        pid = p["id"]
        if pid in CLAIMS:
            c = CLAIMS[pid]
            checks.append({
                "property_id": pid,
                "quick_cmd": "./check %s quick" % pid,
                "thorough_cmd": "./check %s thorough" % pid,
                "evidence_file": "evidence/%s.json" % pid,
                "replay_cmd_template": "./check replay {path}",
                "engine": "lean4-model+correspondence",
                "level_claimed": {"category": "proof", "text": c["text"], "design_ref": "DESIGN.md section " + c["ref"]},
                "level_note": c["note"],
                "technique": c["technique"],
            })
        else:
            na.append({"property_id": pid, "reason": PENDING.get(pid, "check under construction in this build round; not claimed yet")})
    man = {
        "version": 1,
        "setup_cmd": "./setup.sh",
        "hooks": {
            "guard": "GLYLES_VERIF",
            "enable": "no source hooks: the harness wraps module attributes of the working tree at run time when GLYLES_VERIF=1 (set by the harness itself)",
            "baseline_off_cmd": "cd /repo && /venv/bin/python -m pytest -ra -q -p no:cacheprovider --timeout=900 --continue-on-collection-errors",
            "source_commits": [],
            "add_only": True,
        },
        "engines": [{"name": "lean4-model+correspondence", "path": "lean/ harness/ tools/", "serves_properties": [c["property_id"] for c in checks],
                     "kind_free_text": "Lean 4 model + theorems (lake build, axiom audit), translator-regenerated tables, differential correspondence harness, executable Spec oracles"}],
        "checks": checks,
        "not_applicable": na,
        "notes": "See DESIGN.md. fix: commits in /repo are listed in known_findings.json (fixed entries); open findings are re-confirmed as KNOWN-FINDING lines.",
    }
    with open(os.path.join(HERE, "MANIFEST.json"), "w") as f:
        json.dump(man, f, indent=1)
    print("MANIFEST.json: %d checks, %d not claimed" % (len(checks), len(na)))


if __name__ == "__main__":
    main()
