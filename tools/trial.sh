#!/bin/bash
# trial.sh <patch.diff> <prop>...: like try_seed.sh, but on a snapshot copy of /verif under /tmp/verif2 (own lean/.lake), so that work on
# /verif/lean can go on while a seeded change is being tried. The copy is refreshed on every call and is not needed by any registered command.
mkdir -p /tmp/verif2
rsync -a --delete --exclude .git --exclude replay /verif/ /tmp/verif2/
exec /tmp/verif2/tools/try_seed.sh "$@"
