#!/bin/bash
# confirm_seed.sh <seed-id>: apply seeded/<id>/patch.diff to a scratch worktree of /repo HEAD, run the pinned suite (xdist), record the summary.
id="$1"; wt="/tmp/confirm_$id"
git -C /repo worktree add --detach "$wt" HEAD -q || exit 2
( cd "$wt" && git apply "/verif/seeded/$id/patch.diff" && PYTHONPATH="$wt" /venv/bin/python -m pytest -q -p no:cacheprovider -n ${SEED_JOBS:-6} --dist loadscope --timeout=900 --ignore=tests/test_cli.py --ignore=tests/test_derivatives.py 2>&1 | tail -4 > "/verif/seeded/$id/suite.txt" )
git -C /repo worktree remove --force "$wt"
cat "/verif/seeded/$id/suite.txt"
