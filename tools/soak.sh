#!/bin/bash
# soak.sh "<seeds>" : every quick check once per seed; prints the summary line (and VIOLATION lines) of each run
cd "$(dirname "$0")/.."
for s in $1; do
  for p in C01 C02 C03 C04 C05 C06 C07 C08 C09 C10 C11 C12 C13 C14 C15 C16 C17; do
    echo "== seed $s $p"; VERIF_SEED=$s ./check $p quick 2>&1 | grep -v "^KNOWN-FINDING\|^extract ok\|^line " | tail -4 | cut -c1-300
  done
done
