"""C04 — a modification adds its named group at its named carbon, and only that."""
import itertools
import random

from rdkit import Chem

import chem
import chemgen
import gen
import real
from common import seed, pmap


def acyl(n):
    return "C(=O)" + "C" * (n - 1)


# Hand-written Spec, independent of reactor.functional_groups: token -> (fragment attached through its first atom, mode)
# mode "on": the position's O/N carries the group; mode "replace": the group stands in place of the position's O/N
SPEC = {
    "Ac": ("C(C)=O", "on"), "Bz": ("C(=O)c1ccccc1", "on"), "Bn": ("Cc1ccccc1", "on"), "Gc": ("C(=O)CO", "on"), "Allyl": ("CC=C", "on"),
    "S": ("S(=O)(=O)O", "on"), "P": ("P(=O)(O)O", "on"),
    "Me": ("C", "on"), "Et": ("CC", "on"), "Pr": ("CCC", "on"), "Prop": ("CCC", "on"), "Bu": ("CCCC", "on"), "Pe": ("C" * 5, "on"), "Hx": ("C" * 6, "on"),
    "Hp": ("C" * 7, "on"), "Oc": ("C" * 8, "on"), "Nn": ("C" * 9, "on"), "Dec": ("C" * 10, "on"), "Und": ("C" * 11, "on"), "Dod": ("C" * 12, "on"),
    "Fo": ("C=O", "on"), "Pp": (acyl(3), "on"), "But": (acyl(4), "on"), "Vl": (acyl(5), "on"), "Hxo": (acyl(6), "on"), "Hpo": (acyl(7), "on"), "Oco": (acyl(8), "on"),
    "Nno": (acyl(9), "on"), "Non": (acyl(9), "on"), "Dco": (acyl(10), "on"), "Udo": (acyl(11), "on"), "Lau": (acyl(12), "on"), "Myr": (acyl(14), "on"),
    "Pam": (acyl(16), "on"), "Mar": (acyl(17), "on"), "Ste": (acyl(18), "on"), "Ach": (acyl(20), "on"), "Beh": (acyl(22), "on"), "Crt": (acyl(26), "on"),
    "Mon": (acyl(28), "on"), "Mel": (acyl(30), "on"),
    "Piv": ("C(=O)C(C)(C)C", "on"), "TFA": ("C(=O)C(F)(F)F", "on"), "TCA": ("C(=O)C(Cl)(Cl)Cl", "on"), "ClAc": ("C(=O)CCl", "on"), "DCA": ("C(=O)C(Cl)Cl", "on"),
    "Lev": ("C(=O)CCC(C)=O", "on"), "Cin": ("C(=O)/C=C/c1ccccc1", "on"), "Ole": ("C(=O)CCCCCCC/C=C\\CCCCCCCC", "on"), "Suc": ("C(=O)CCC(=O)O", "on"),
    "Ts": ("S(=O)(=O)c1ccc(C)cc1", "on"), "Tf": ("S(=O)(=O)C(F)(F)F", "on"),
    "TMS": ("[Si](C)(C)C", "on"), "TES": ("[Si](CC)(CC)CC", "on"), "TBS": ("[Si](C)(C)C(C)(C)C", "on"), "TIPS": ("[Si](C(C)C)(C(C)C)C(C)C", "on"),
    "TBDPS": ("[Si](C(C)(C)C)(c1ccccc1)c1ccccc1", "on"), "Tr": ("C(c1ccccc1)(c1ccccc1)c1ccccc1", "on"), "PMB": ("Cc1ccc(OC)cc1", "on"), "MOM": ("COC", "on"),
    "Boc": ("C(=O)OC(C)(C)C", "on"), "Cbz": ("C(=O)OCc1ccccc1", "on"), "Troc": ("C(=O)OCC(Cl)(Cl)Cl", "on"), "Poc": ("C(=O)OCC#C", "on"), "tBu": ("C(C)(C)C", "on"),
    "F": ("F", "replace"), "Cl": ("Cl", "replace"), "Br": ("Br", "replace"), "I": ("I", "replace"), "N3": ("N=[N+]=[N-]", "replace"), "triN": ("N=[N+]=[N-]", "replace"),
    "N": ("N", "replace"), "Ala": ("N[C@@H](C)C(=O)O", "replace"), "Lys": ("NCCCC[C@H](N)C(=O)O", "replace"), "Cys": ("N[C@@H](CS)C(=O)O", "replace"),
    "Asp": ("N[C@@H](CC(=O)O)C(=O)O", "replace"),
}
AMINE_KEY = "positional group on a carbon that bears an amine (reactor.py react(): the O-slot chain is built for an oxygen: N-O-X or N dropped)"
KNOWN_FAMILY = "O-substituent written without its oxygen and not in preserve_elem: the position's O is replaced instead of carrying the group (reactor.py functional_groups / preserve_elem)"


def expected(parent_smi, pos, token):
    frag, mode = SPEC[token]
    m = chem.mol(parent_smi)
    num = chem.number_carbons(m)
    if num is None:
        return None
    h = chem.hetero_on(m, num, pos)
    if h is None or m.GetAtomWithIdx(h).GetDegree() != 1:
        return None
    w = Chem.RWMol(m)
    f = Chem.MolFromSmiles("[*:1]" + frag)
    if f is None:
        return None
    if mode == "on":
        d = w.AddAtom(Chem.Atom(0))
        w.GetAtomWithIdx(d).SetAtomMapNum(1)
        w.AddBond(h, d, Chem.BondType.SINGLE)
    else:
        a = w.GetAtomWithIdx(h)
        a.SetAtomicNum(0)
        a.SetAtomMapNum(1)
        a.SetNoImplicit(True)
        a.SetNumExplicitHs(0)
    try:
        z = Chem.molzip(w.GetMol(), f)
        Chem.SanitizeMol(z)
    except Exception:
        return None
    return Chem.MolToSmiles(Chem.MolFromSmiles(Chem.MolToSmiles(z)))


def skeleton_kept(parent_smi, pos, result_smi):
    """the unmodified sugar with the position's hetero atom opened up (any atom, any substituents) is a stereo-substructure of the result"""
    m = chem.mol(parent_smi)
    r = chem.mol(result_smi)
    if m is None or r is None:
        return False
    num = chem.number_carbons(m)
    if num is None:
        return True
    h = chem.hetero_on(m, num, pos)
    if h is None:
        return True
    w = Chem.RWMol(m)
    w.GetAtomWithIdx(h).SetAtomicNum(0)
    q = Chem.MolFromSmarts(Chem.MolToSmiles(w).replace("*", "[*]"))
    if q is None:
        return True
    ps = Chem.AdjustQueryParameters.NoAdjustments()
    return r.HasSubstructMatch(q, useChirality=True)


def _job(job):
    name, parent, pos, token = job
    kind, smi = real.smiles_of(name)
    pk, ps = real.smiles_of(parent)
    out = {"kind": kind, "smiles": smi if kind == "ok" else None, "exc": smi if kind != "ok" else None}
    if pk == "ok" and ps:
        out["parent"] = ps
        if token in SPEC:
            out["expected"] = expected(ps, pos, token)
        if kind == "ok" and smi:
            out["canon"] = chem.canon(smi)
            out["skeleton"] = skeleton_kept(ps, pos, smi)
    return out


def _heavy_job(name):
    """(number of heavy atoms, canonical SMILES) of what the name converts to; None if nothing"""
    kind, smi = real.smiles_of(name)
    if kind != "ok" or not smi:
        return None
    m = chem.mol(smi)
    return (m.GetNumHeavyAtoms(), chem.Chem.MolToSmiles(m)) if m is not None else None


def _canon_str_job(name):
    """canonical isomeric SMILES of what the name converts to ('' if nothing)"""
    kind, smi = real.smiles_of(name)
    if kind != "ok" or not smi:
        return ""
    m = chem.mol(smi)
    return chem.Chem.MolToSmiles(m) if m is not None else ""


def _bridge_job(job):
    """'<n>O<X>' / '<n>-O-<X>-': the position's oxygen is named explicitly, so it carries the group whatever preserve_elem says"""
    name, parent, pos, token = job
    toks = _recipe_tokens(name)
    kind, smi = real.smiles_of(name)
    pk, ps = real.smiles_of(parent)
    out = {"kind": kind, "smiles": smi if kind == "ok" else None, "tokens": toks}
    if pk == "ok" and ps and kind == "ok" and smi:
        save = SPEC[token]
        SPEC[token] = (save[0], "on")
        try:
            out["expected"] = expected(ps, pos, token)
        finally:
            SPEC[token] = save
        out["canon"] = chem.canon(smi)
    return out


def _canon_job(name):
    kind, smi = real.smiles_of(name)
    return (kind, chem.canon(smi) if kind == "ok" and smi else smi)


def _recipe_tokens(name):
    """the residue's recipe tokens as the real front-end reads the name (sorted): two spellings are the same set of
    modifications on the same sugar only if these agree (e.g. '4P' + 'LDManHep' re-lexes as the bridge token '4PLD')"""
    try:
        from glyles import Glycan
        t = Glycan(name, tree_only=True).get_tree()
        if t is None or len(t.nodes) != 1:
            return None
        return sorted(x[0] for x in t.nodes[0]["type"].recipe)
    except Exception:
        return None


def _multi_spec(job):
    """Spec of several modifications on one residue: the single-modification Spec edits applied one after the other"""
    sugar, mods = job
    pk, ps = real.smiles_of(sugar)
    if pk != "ok" or not ps:
        return None
    cur = ps
    for pos, tok in mods:
        cur = expected(cur, pos, tok)
        if cur is None:
            return None
    return cur


def run(rep, tier, driver):
    rng = random.Random(seed() * 47 + 4)
    vocab = gen.Vocab()
    cv = chemgen.ChemVocab(vocab, tier)
    tokens = [k for k in vocab.fg_tokens if not k[0].isdigit()]      # '<n><token>' would re-lex as a longer number
    # keys of functional_groups that the grammar reads through the bridge-letter token types rather than the FG rule
    tokens += [k for k in ("P", "N") if k in vocab.fg and k not in tokens]
    sugars = [s for s in vocab.sugars_p if s in cv.info] + [s + "f" for s in vocab.sugars_f if s + "f" in cv.info]
    sugars += [n for n in ["GlcN", "GalN", "ManN", "Neu", "Kdo"] if n in cv.info and n not in sugars]
    jobs = []
    for sg in sugars:
        info = cv.get(sg)
        for pos, elem in info["free"]:
            for tok in tokens:
                if sg.endswith("N") and pos == 3:
                    continue        # '<Sugar>N3<token>' lexes as the azide token N3: not the input that is meant
                jobs.append(("%s%d%s" % (sg, pos, tok), sg, pos, tok))
    if tier == "quick":
        core = [j for j in jobs if j[1] in ("Glc", "GlcN", "Neu", "Fruf")]
        rest = [j for j in jobs if j[1] not in ("Glc", "GlcN", "Neu", "Fruf")]
        jobs = core + rng.sample(rest, min(len(rest), 1500))
    rep.rule = ("every library sugar x every position with a free OH/NH2 x every functional-group token of the grammar that has chemistry (thorough: all; "
                "quick: all on Glc, GlcN, Neu, Fruf plus 1500 sampled), written as suffix '<Sugar><n><Token>'; Spec: for ~95 tokens a hand-written fragment "
                "table says which group the token stands for and whether the position's O/N carries it or is replaced by it - the expected molecule is "
                "built from the unmodified sugar by RDKit molzip; for every token the unmodified sugar (with that hetero atom opened up) must be a "
                "stereo-substructure of the result; sets of 2-4 modifications at different positions in all orders must give one molecule; "
                "non-trivial = distinct modified residue name with non-empty result")
    outs = pmap(_job, jobs, chunk=8)
    for (name, sg, pos, tok), o in zip(jobs, outs):
        rep.count("token-with-spec" if tok in SPEC else "token-generic")
        ok = o["kind"] == "ok" and bool(o.get("smiles"))
        rep.case(canon=name, nontrivial=ok, sample={"iupac": name, "result": o.get("smiles")} if rep.evaluations % 997 == 0 else None)
        if "parent" not in o:
            continue
        if not ok:
            rep.extra.setdefault("noresult_by_site", {})
            site = "%s@%d" % (sg, pos)
            rep.extra["noresult_by_site"][site] = rep.extra["noresult_by_site"].get(site, 0) + 1
            rep.violation("input", {"iupac": name, "parent": sg, "position": pos, "token": tok}, {"result": o.get("smiles"), "exc": o.get("exc")},
                          "a supported token on a free position converts", key="noresult:%s" % tok if o.get("exc") else "empty:%s" % tok)
            continue
        exp = o.get("expected")
        if tok in SPEC and exp is not None and o["canon"] != exp:
            # did the code replace the O although the group should sit on it? (the known family)
            alt = None
            if SPEC[tok][1] == "on":
                m = chem.mol(o["parent"])
                num = chem.number_carbons(m)
                h = chem.hetero_on(m, num, pos) if num else None
                if h is not None and m.GetAtomWithIdx(h).GetSymbol() == "O":
                    frag = SPEC[tok][0]
                    save = SPEC[tok]
                    SPEC[tok] = (frag, "replace")
                    alt = expected(o["parent"], pos, tok)
                    SPEC[tok] = save
            on_amine = False
            mm = chem.mol(o["parent"])
            nn = chem.number_carbons(mm)
            hh = chem.hetero_on(mm, nn, pos) if nn else None
            if hh is not None and mm.GetAtomWithIdx(hh).GetSymbol() == "N":
                on_amine = True
            key = ("replaces-O:%s" % tok) if (alt is not None and alt == o["canon"]) else (AMINE_KEY if on_amine else "group:%s:%s" % (tok, name))
            rep.violation("input", {"iupac": name, "parent": sg, "position": pos, "token": tok}, {"result": o["canon"]}, {"result": exp, "spec": SPEC[tok]}, key=key)
            continue
        if not o.get("skeleton", True):
            rep.extra.setdefault("skeleton_samples", [])
            if len(rep.extra["skeleton_samples"]) < 40:
                rep.extra["skeleton_samples"].append([name, o["canon"]])
            rep.violation("input", {"iupac": name, "parent": sg, "position": pos, "token": tok}, {"result": o["canon"]},
                          "every other atom and stereocentre of the sugar unchanged", key="skeleton:" + name)
    # bridge token shapes: the oxygen written explicitly
    bjobs = []
    on_toks = [t for t in tokens if t in SPEC and SPEC[t][1] == "on"]
    for sg, poss in (("Glc", (3, 6)), ("Gal", (4,)), ("Man", (2,)), ("Neu5Ac", (9,)), ("Kdo", (4,))):
        if sg not in cv.info:
            continue
        for pos in poss:
            for tok in (on_toks if (tier != "quick" or (sg, pos) == ("Glc", 3)) else rng.sample(on_toks, min(len(on_toks), 12))):
                bjobs.append(("%s%dO%s" % (sg, pos, tok), sg, pos, tok))
                bjobs.append(("%s%d-O-%s-" % (sg, pos, tok), sg, pos, tok))
    bouts = pmap(_bridge_job, bjobs, chunk=8)
    for (name, sg, pos, tok), o in zip(bjobs, bouts):
        want_toks = sorted([sg if sg != "Neu5Ac" else "Neu", name[len(sg):]] + (["5Ac"] if sg == "Neu5Ac" else []))
        if o.get("tokens") != want_toks:
            rep.count("bridge-shape-relexes-differently (dropped)")
            continue
        rep.count("bridge-shape")
        ok = o["kind"] == "ok" and bool(o.get("smiles"))
        rep.case(canon=name, nontrivial=ok)
        if not ok or o.get("expected") is None:
            rep.count("bridge-shape-not-converted-or-no-spec")
            continue
        if o["canon"] != o["expected"]:
            rep.violation("input", {"iupac": name, "parent": sg, "position": pos, "token": tok, "shape": "explicit O bridge"}, {"result": o["canon"]},
                          {"result": o["expected"], "note": "the position's O carries the group"}, key="bridge:%s:%s" % (tok, name))
    # position-less spellings ('GlcNAc' = 'Glc2NAc', 'GlcOMe' = 'Glc1OMe'): the default position is a property of the sugar (C2, for O-methyl
    # C1; one further for 2-ketoses) and must not move when the skeleton is changed by a prefix on the same residue (anhydro bridges
    # through C1 or elsewhere, deoxy, epimer, series prefix) or by other modifications
    pl = []
    pl_prefixes = ["", "1,6-Anhydro-", "3,6-Anhydro-", "D-", "L-", "6d", "4e", "3d", "1,4-Anhydro-"] if tier != "quick" else ["", "1,6-Anhydro-", "3,6-Anhydro-", "L-", "6d", "4e"]
    pl_tokens = [("NAc", 2), ("NS", 2), ("NGc", 2), ("NBz", 2), ("NFo", 2), ("PEtn", 2), ("PCho", 2), ("OAc", 2), ("NBut", 2), ("OMe", 1), ("OBn", 2), ("NMe", 1)]
    for sgr in (["Glc", "Man", "Gal"] if tier == "quick" else ["Glc", "Man", "Gal", "All", "Gul", "Tal", "Xyl", "Qui", "Fuc"]):
        for pre in pl_prefixes:
            for tok, pos in pl_tokens:
                for extra in ("", "3Ac", "4S"):
                    if pre and pre[0].isdigit() and str(pos) in pre.split("-")[0].replace("d", "").replace("e", "").split(","):
                        continue        # the prefix uses the default position itself
                    pl.append((pre + sgr + tok + extra, pre + sgr + str(pos) + tok + extra, sgr, pre, tok))
    plres = pmap(_canon_str_job, [a for a, _, _, _, _ in pl] + [b for _, b, _, _, _ in pl], chunk=8)
    half = len(pl)
    for i, (a, b, sgr, pre, tok) in enumerate(pl):
        ra, rb = plres[i], plres[half + i]
        rep.count("position-less-vs-explicit")
        ok = bool(ra) and bool(rb)
        rep.case(canon=["positionless", a], nontrivial=ok)
        if not ok:
            rep.count("position-less-not-both-converted")
            if bool(ra) != bool(rb):
                rep.violation("input", {"iupac": a, "explicit": b}, {"position_less": ra, "explicit": rb},
                              "both spellings convert, or neither", key="positionless-one-sided:%s" % a)
            continue
        if ra != rb:
            rep.violation("input", {"iupac": a, "explicit": b, "prefix": pre, "token": tok}, {"position_less": ra, "explicit": rb},
                          "the position-less spelling names the same molecule as the explicit one", key="positionless:%s" % a)
    # carbon-bound groups ('<n>C<group>', a group written for a carbon without O/N) together with O-/N-bound groups on other positions,
    # lower and higher, in both written orders: nothing may get lost - the heavy atoms each group adds alone add up, and the order of
    # writing does not matter
    add_jobs = []
    for sgr, cms, oms in [("Glc", ["3CMe", "2CMe", "4CMe"], ["2S", "3S", "4S", "6S", "6Ac", "2Ac", "4P"]), ("Gal", ["3CMe", "4CMe"], ["2S", "6S", "6Ac", "4Ac"]),
                          ("Man", ["2CMe", "3CMe"], ["4S", "6P", "3Ac", "6Ac"]), ("Neu", ["3F"], ["5Ac", "9Ac", "4S", "5Gc"]), ("Fuc", ["6F", "3CMe"], ["2S", "4Ac", "3S"])]:
        for cm in cms:
            for om in oms:
                if om[0] == cm[0]:
                    continue
                add_jobs.append((sgr, [cm, om]))
            for o1, o2 in itertools.combinations(oms, 2):
                if len({cm[0], o1[0], o2[0]}) == 3 and rng.random() < (0.25 if tier == "quick" else 1.0):
                    add_jobs.append((sgr, [cm, o1, o2]))
    anames = sorted({sgr for sgr, _ in add_jobs} | {sgr + m for sgr, ms in add_jobs for m in ms} |
                    {sgr + "".join(p) for sgr, ms in add_jobs for p in itertools.permutations(ms)})
    aheavy = dict(zip(anames, pmap(_heavy_job, anames, chunk=8)))
    for sgr, ms in add_jobs:
        base = aheavy.get(sgr)
        singles = [aheavy.get(sgr + m) for m in ms]
        if not base or any(not x for x in singles):
            rep.count("additivity-parent-or-single-not-converted")
            continue
        want_heavy = base[0] + sum(x[0] - base[0] for x in singles)
        ref = None
        for p in itertools.permutations(ms):
            nm = sgr + "".join(p)
            got = aheavy.get(nm)
            rep.count("carbon-bound-additivity")
            rep.case(canon=["additivity", nm], nontrivial=bool(got))
            if not got:
                rep.violation("input", {"iupac": nm, "parent": sgr, "mods": ms}, {"result": None}, {"heavy_atoms": want_heavy, "note": "each modification converts alone"},
                              key="additivity-empty:" + nm)
                continue
            if got[0] != want_heavy:
                rep.violation("input", {"iupac": nm, "parent": sgr, "mods": ms}, {"heavy_atoms": got[0], "smiles": got[1]},
                              {"heavy_atoms": want_heavy, "note": "the heavy atoms every modification adds alone add up"}, key="additivity:" + nm)
            if ref is None:
                ref = (nm, got[1])
            elif got[1] != ref[1]:
                rep.violation("input", {"iupac": nm, "reference": ref[0]}, {"result": got[1]}, {"result": ref[1], "note": "order of writing must not matter"}, key="order:" + nm)
    # reactor Model in the loop: token dispatch / extract_bridge / set_fg of the first round, side_chains compared cell by cell
    import reactx
    extra_names = ["Glc2NAc", "GlcNAc", "Glc3OMe", "Gal6-O-Me-", "Glc2-N-Ac-", "Neu5Ac", "Neu5Gc", "NeuAc", "GlcA", "Glc-uronic", "GlcN", "FruN", "Glc3d", "Glc3e", "Glc2NS", "Glc6PCho",
                   "Glc3CMe", "D-Glc", "L-Glc", "Glc2N3", "GlcNS6S", "Man6PEtn", "Gal3,4-Pyr", "Glc2NBz", "Glc6OAc", "Glc2,3,4Ac3", "1,6-Anhydro-Glc2Ac", "Glc-ol2Ac", "Glc7S", "GlcA2S",
                   "1,6-Anhydro-GlcNAc", "1,6-Anhydro-MurNAc", "1,6-Anhydro-GlcOMe", "3,6-Anhydro-GalNAc", "1,6-Anhydro-ManNAc3Ac", "FrufNAc", "Fruf1OMe", "NeuNAc", "KdoOMe", "Glc-olNAc"]
    reactx.run(rep, tier, driver, [j[0] for j in jobs][: (2500 if tier == "quick" else 60000)] + extra_names)
    # composition: several modifications, all orders
    mods_pool = ["Ac", "S", "P", "Bz", "F", "N3", "Gc", "Bn"]
    names, groups, specs = [], [], {}
    for gi in range(80 if tier == "quick" else 1000):
        sg = rng.choice(["Glc", "Gal", "Man", "GlcN", "Xyl", "Fuc", "Neu", "Kdo", "Neu", "Kdn", "Kdn", "LDManHep"])
        info = cv.get(sg)
        if not info:
            continue
        free = [p for p, e in info["free"] if e == "O"]
        k = rng.randint(2, min(4, len(free)))
        ps = rng.sample(free, k)
        toks = [rng.choice(mods_pool) for _ in ps]
        ms = ["%d%s" % (p, t) for p, t in zip(ps, toks)]
        specs[gi] = (sg, list(zip(ps, toks)))
        perms = list(itertools.permutations(ms))
        if len(perms) > 8:
            perms = rng.sample(perms, 8)
        for perm in perms:
            if sg.endswith("N") and perm[0].startswith("3"):
                continue           # '<Sugar>N3…' lexes as the azide token
            variants = [sg + "".join(perm)]
            if rng.random() < 0.3 and not (sg.endswith("N") and len(perm) > 1 and perm[1].startswith("3")):
                variants.append("".join(perm[:1]) + sg + "".join(perm[1:]))
            for v in variants:
                names.append(v)
                groups.append(gi)
    # groups that need a second reactor round (a group on a carbon that another group adds), in every written order
    gi0 = (max(groups) + 1) if groups else 0
    for k in range(12 if tier == "quick" else 120):
        sg = rng.choice(["Glc", "Gal", "Man", "Fuc"])
        add = rng.choice(["6Me", "6Et", "4Ac", "2Ac"])
        late = "%d%s" % (rng.choice([7, 8]), rng.choice(["S", "P", "Ac"]))
        third = rng.choice(["3S", "3Bz", "2F", ""])
        ms = [m for m in (add, late, third) if m]
        if len({m[0] for m in ms}) < len(ms):
            continue
        for perm in itertools.permutations(ms):
            names.append(sg + "".join(perm))
            groups.append(gi0 + k)
    # a spelling takes part only if the front-end reads it as the same tokens as the first spelling of its group
    toks = pmap(_recipe_tokens, names, chunk=8)
    ref_toks = {}
    keep = []
    for gi, nm, tk in zip(groups, names, toks):
        ref_toks.setdefault(gi, tk)
        if tk is None or tk != ref_toks[gi]:
            rep.count("composition-spelling-relexes-differently")
            continue
        keep.append((gi, nm))
    groups, names = [g for g, _ in keep], [n for _, n in keep]
    res = pmap(_canon_job, names, chunk=8)
    spec_keys = sorted(specs)
    spec_vals = dict(zip(spec_keys, pmap(_multi_spec, [specs[k] for k in spec_keys], chunk=4)))
    first = {}
    for gi, nm, r in zip(groups, names, res):
        rep.count("composition")
        rep.case(canon=nm, nontrivial=(r[0] == "ok" and bool(r[1])))
        if gi not in first:
            first[gi] = (nm, r)
            want = spec_vals.get(gi)
            if want is not None and r[0] == "ok" and r[1] and r[1] != want and not any(t in ("Me",) for _, t in specs[gi][1]):
                rep.violation("input", {"iupac": nm, "parent": specs[gi][0], "mods": specs[gi][1]}, {"result": r[1]},
                              {"result": want, "note": "each group at its own position"}, key="multi:" + nm)
        elif r != first[gi][1]:
            rep.extra.setdefault("order_samples", []).append([nm, r, first[gi]])
            rep.violation("input", {"iupac": nm, "reference": first[gi][0]}, {"result": r}, {"result": first[gi][1], "note": "order of writing must not matter"}, key="order:" + nm)


def replay(body):
    c = body["case"]
    r = _canon_job(c["iupac"])
    print(c, "->", r, "expected", body["expected"])
    return 0 if r[1] == body["expected"].get("result") else 1
