"""C13 — reducing-end anomer and SMILES start atom change only what they should."""
import random

from rdkit import Chem

import chem
import chemgen
import gen
import real
from common import seed, pmap

STARTS = [1, 2, 3, 4, 5, 6, 7, 8, 9, 100, 0, -1, 50, 101]


def _job(job):
    s, opts = job
    kind, smi = real.smiles_of(s, **opts)
    if kind != "ok":
        return ("exc", smi)
    return ("ok", smi)


def anomeric_atoms(m):
    """anomeric-type carbons: ring carbons bonded to a ring oxygen and to a second, exocyclic hetero atom. The reducing end's
    is the one that can change with the declared anomer; the children's are fixed by their linkages (judged by C01)."""
    out = []
    for a in m.GetAtoms():
        if a.GetSymbol() != "C" or not a.IsInRing():
            continue
        nbs = a.GetNeighbors()
        ro = [x for x in nbs if x.GetSymbol() == "O" and x.IsInRing() and x.GetDegree() == 2]
        ex = [x for x in nbs if x.GetSymbol() in ("O", "N", "S", "F", "Cl", "Br", "I") and x.GetIdx() not in [r.GetIdx() for r in ro]]
        if ro and ex:
            out.append(a.GetIdx())
    return out


def one_centre_relation(smi_a, smi_b, smi_n):
    """None if a/b/undefined differ exactly at the reducing end's anomeric carbon, else a reason"""
    ma, mb, mn = Chem.MolFromSmiles(smi_a), Chem.MolFromSmiles(smi_b), Chem.MolFromSmiles(smi_n)
    if ma is None or mb is None or mn is None:
        return "unparsable"
    ca, cb, cn = Chem.MolToSmiles(ma), Chem.MolToSmiles(mb), Chem.MolToSmiles(mn)
    if ca == cb:
        return "a equals b"
    cands = anomeric_atoms(ma)
    hits = []
    for i in [x.GetIdx() for x in ma.GetAtoms() if x.GetChiralTag() != Chem.ChiralType.CHI_UNSPECIFIED]:
        w = Chem.RWMol(ma)
        w.GetAtomWithIdx(i).SetChiralTag(Chem.ChiralType.CHI_UNSPECIFIED)
        if Chem.MolToSmiles(w) == cn:
            hits.append(i)
    if len(hits) != 1:
        return "erasing one centre of the a form gives the undefined form for %d centres" % len(hits)
    if hits[0] not in cands:
        return "the differing centre is not the reducing end's anomeric carbon"
    w = Chem.RWMol(ma)
    w.GetAtomWithIdx(hits[0]).InvertChirality()
    if Chem.MolToSmiles(w) != cb:
        return "inverting that centre of the a form does not give the b form"
    return None


def run(rep, tier, driver):
    rng = random.Random(seed() * 13 + 13)
    vocab = gen.Vocab()
    cv = chemgen.ChemVocab(vocab, tier)
    trees = []
    for name in rng.sample(cv.names, 60 if tier == "quick" else len(cv.names)):
        trees.append(gen.T(name))
    for i in range(60 if tier == "quick" else 800):
        t = cv.random_tree(rng, rng.randint(2, 8 if tier == "quick" else 16))
        trees.append(t)
    trees = [t for t in trees if cv.get(t.name).get("anomeric")]
    jobs, meta = [], []
    for gi, t in enumerate(trees):
        base = gen.render(t, "full")
        safe_suffix = not base.endswith(("a", "b")) and base[-1].isalpha()
        variants = [("none", base, {}), ("opt-n", base, {"root_orientation": "n"}),
                    ("suffix-a", base + " a", {}), ("suffix-b", base + " b", {}),
                    ("opt-a", base, {"root_orientation": "a"}), ("opt-b", base, {"root_orientation": "b"}),
                    ("suffix-a+opt-b", base + " a", {"root_orientation": "b"}), ("suffix-b+opt-a", base + " b", {"root_orientation": "a"}),
                    ("opt-x", base, {"root_orientation": "x"})]
        if safe_suffix:
            variants += [("tight-a", base + "a", {}), ("tight-b", base + "b", {})]
        for k, s, o in variants:
            jobs.append((s, o))
            meta.append((gi, k, None))
        for st in (rng.sample(STARTS, 4) if tier == "quick" else STARTS):
            for k, s in [("none", base), ("suffix-a", base + " a")]:
                jobs.append((s, {"start": st}))
                meta.append((gi, "start:" + k, st))
    rep.rule = ("single residues of the vocabulary and random well-formed glycans x root anomer {none,a,b} by suffix (' a' and 'a'), by option, both "
                "(suffix must win), unknown option value; x start in {1..9,100,0,-1,50,101}; Spec: a/b/undefined differ in exactly the reducing "
                "end's anomeric centre (erase -> undefined, invert -> other anomer), start never changes the canonical molecule; "
                "non-trivial = distinct (input, options) with non-empty result")
    res = pmap(_job, jobs, chunk=4)
    groups = {}
    for (gi, k, st), (s, o), r in zip(meta, jobs, res):
        rep.count(k if st is None else "start")
        rep.case(canon=[s, sorted(o.items())], nontrivial=(r[0] == "ok" and bool(r[1])),
                 sample={"iupac": s, "opts": o, "result": r[1] if r[0] == "ok" else r} if rep.evaluations % 401 == 0 else None)
        groups.setdefault(gi, {})[(k, st)] = (s, o, r)
    for gi, g in groups.items():
        base_s = g[("none", None)][0]

        def val(k):
            r = g[(k, None)][2]
            return r[1] if r[0] == "ok" and r[1] else None
        n, a, b = val("none"), val("suffix-a"), val("suffix-b")
        if n is None:
            rep.count("base-not-convertible")
            continue
        if a is None or b is None:
            rep.violation("input", {"iupac": base_s, "what": "declaring the reducing end a/b"}, {"a": g[("suffix-a", None)][2], "b": g[("suffix-b", None)][2]},
                          "non-empty results", key="anomer-empty:" + base_s)
            continue
        why = one_centre_relation(a, b, n)
        if why:
            rep.violation("input", {"iupac": base_s, "what": "a / b / undefined"}, {"a": a, "b": b, "none": n, "why": why},
                          "exactly the reducing end's anomeric centre differs", key="one-centre:" + base_s)
        ca, cb, cn = chem.canon(a), chem.canon(b), chem.canon(n)
        expect = {"opt-n": cn, "opt-x": cn, "opt-a": ca, "opt-b": cb, "suffix-a+opt-b": ca, "suffix-b+opt-a": cb, "tight-a": ca, "tight-b": cb}
        for k, want in expect.items():
            if (k, None) not in g:
                continue
            s, o, r = g[(k, None)]
            got = chem.canon(r[1]) if r[0] == "ok" and r[1] else r
            if got != want:
                rep.violation("input", {"iupac": s, "opts": o, "variant": k}, {"result": got}, {"result": want}, key="variant:%s:%s" % (k, s))
        for (k, st), (s, o, r) in g.items():
            if st is None:
                continue
            want = cn if k == "start:none" else ca
            got = chem.canon(r[1]) if r[0] == "ok" and r[1] else r
            if got != want:
                rep.violation("input", {"iupac": s, "opts": o}, {"result": got}, {"result": want, "note": "start must not change the molecule"},
                              key="start:%s:%s" % (st, s))
    # the Lean Models of the start-atom choice and of the root anomer decision (C13_start_fallback, C13_suffix_wins, ...) against
    # Merger.merge, observed inside real conversions
    import queryx
    sj = []
    for (gi, k, st), (s, o) in zip(meta, jobs):
        suffix = "a" if (k.startswith("suffix-a") or k == "tight-a" or k == "start:suffix-a") else "b" if (k.startswith("suffix-b") or k == "tight-b") else ""
        sj.append((s, o, suffix))
    if tier == "quick":
        sj = rng.sample(sj, min(len(sj), 500))
    queryx.run_start(rep, tier, driver, sj, None)
    # the binding plan (Poly/Plan.lean: which residue takes which anomer - the root from the option unless it has a suffix) against
    # the calls Merger.mark / merge_int issue, for every root-anomer variant of the sampled glycans
    import planx
    pj = []
    for s0, o, _sfx in sj[: (150 if tier == "quick" else 3000)]:
        pj.append((s0, (o or {}).get("root_orientation", "n")))
    pj += [(g, ro) for g in ["Neu5Ac", "Kdo", "Fruf", "Neu5Ac(a2-8)Neu5Ac", "Gal(b1-4)Fruf", "Man(a1-4)Glc", "Glc", "Neu5Ac a", "Kdo(a2-4)Kdo b"] for ro in ("a", "b", "n", "A", "alpha")]
    planx.run(rep, tier, driver, pj)


def replay(body):
    c = body["case"]
    r = _job((c["iupac"], c.get("opts") or {}))
    got = chem.canon(r[1]) if r[0] == "ok" and r[1] else r
    print(c, "->", got, "expected", body["expected"])
    exp = body["expected"]
    if isinstance(exp, dict) and "result" in exp:
        return 0 if got == exp["result"] else 1
    return 1
