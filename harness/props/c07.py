"""C07 — the order in which branches are written is immaterial."""
import itertools
import random

import chem
import chemgen
import gen
import real
from common import seed, pmap


def _smiles(s):
    kind, smi = real.smiles_of(s)
    if kind != "ok":
        return ("exc", smi)
    return ("ok", chem.canon(smi) if smi else "")


def permuted(t, rng, exhaustive_at=None):
    """one random permutation of every node's children"""
    kids = list(t.kids)
    rng.shuffle(kids)
    return gen.T(t.name, [(l, permuted(k, rng)) for l, k in kids])


def all_perms_at_root(t):
    for p in itertools.permutations(t.kids):
        yield gen.T(t.name, list(p))


def run(rep, tier, driver):
    rng = random.Random(seed() * 11 + 7)
    vocab = gen.Vocab()
    cv = chemgen.ChemVocab(vocab, tier)
    jobs, meta = [], []
    groups = 0
    # all shapes with <= 6 residues that have a node with >= 2 children: every permutation at every branching node
    maxn = 5 if tier == "quick" else 6
    shapes = [s for n in range(3, maxn + 1) for s in gen.all_shapes(n)]

    def has_branch(s):
        return len(s) >= 2 or any(has_branch(k) for k in s)
    shapes = [s for s in shapes if has_branch(s)]
    if tier == "quick":
        shapes = rng.sample(shapes, min(len(shapes), 40))

    def instantiate(shape):
        """well-formed tree of this shape if the positions allow it"""
        def go(sh, name):
            info = cv.get(name)
            free = [(p, e) for p, e in info["free"] if p != info.get("anomeric") and e == "O"]
            if len(free) < len(sh):
                return None
            rng.shuffle(free)
            node = gen.T(name)
            for sub, (p, e) in zip(sh, free):
                cname = rng.choice(cv.common)
                k = go(sub, cname)
                if k is None:
                    return None
                node.kids.append(({"anomer": rng.choice("ab"), "cpos": cv.get(cname)["anomeric"], "ppos": p}, k))
            return node
        for _ in range(5):
            t = go(shape, rng.choice(["Glc", "Man", "Gal", "GlcNAc"]))
            if t is not None:
                return t
        return None

    def all_perms(t):
        """every permutation at every node (cartesian)"""
        sub = [[(l, v) for v in all_perms(k)] for l, k in t.kids]
        out = []
        for combo in itertools.product(*sub) if sub else [()]:
            for p in itertools.permutations(combo):
                out.append(gen.T(t.name, list(p)))
        return out
    for sh in shapes:
        t = instantiate(sh)
        if t is None:
            continue
        variants = all_perms(t)
        if len(variants) > 48:
            variants = [variants[0]] + rng.sample(variants[1:], 47)
        for v in variants:
            jobs.append(gen.render(v, "full"))
            meta.append((groups, "exhaustive-shape"))
        groups += 1
    # non-reducing glycans (trehalose / sucrose / raffinose / kestose type): a residue sits on the root's own anomeric oxygen next to
    # one to three further branches - every written order
    def L(a, c, p):
        return {"anomer": a, "cpos": c, "ppos": p}
    nonred = [
        gen.T("Glc", [(L("b", 2, 1), gen.T("Fruf")), (L("a", 1, 6), gen.T("Gal"))]),
        gen.T("Glc", [(L("b", 2, 1), gen.T("Fruf")), (L("a", 1, 6), gen.T("Gal")), (L("a", 1, 3), gen.T("Man"))]),
        gen.T("Glc", [(L("b", 2, 1), gen.T("Fruf")), (L("a", 1, 6), gen.T("Gal")), (L("a", 1, 3), gen.T("Man")), (L("b", 1, 4), gen.T("Glc"))]),
        gen.T("Fruf", [(L("a", 1, 2), gen.T("Glc")), (L("b", 2, 1), gen.T("Fruf"))]),
        gen.T("Fruf", [(L("a", 1, 2), gen.T("Glc")), (L("b", 2, 1), gen.T("Fruf")), (L("b", 2, 6), gen.T("Fruf"))]),
        gen.T("Gal", [(L("a", 1, 1), gen.T("Gal")), (L("b", 1, 3), gen.T("Gal")), (L("a", 1, 6), gen.T("Man"))]),
        gen.T("Glc", [(L("a", 1, 1), gen.T("Glc", [(L("a", 1, 6), gen.T("Man"))])), (L("a", 1, 6), gen.T("Man")), (L("b", 1, 4), gen.T("Gal"))]),
    ]
    for t in nonred:
        for v in all_perms(t):
            jobs.append(gen.render(v, "full"))
            meta.append((groups, "non-reducing-root"))
        groups += 1
    # random larger trees: the written order against several random permutations
    for i in range(120 if tier == "quick" else 1500):
        t = cv.random_tree(rng, rng.randint(4, 14 if tier == "quick" else 30), chain_bias=0.25)
        if t.max_width() < 2:
            continue
        jobs.append(gen.render(t, "full"))
        meta.append((groups, "random"))
        for _ in range(3):
            jobs.append(gen.render(permuted(t, rng), "full"))
            meta.append((groups, "random"))
        groups += 1
    rep.rule = ("all permutations at every branching node for tree shapes with <=5 (quick, sampled) / <=6 (thorough, all) residues instantiated with "
                "well-formed linkages, plus random larger trees with random permutations at every node; same molecule required within a group; "
                "non-trivial = distinct written order converted non-empty")
    res = pmap(_smiles, jobs, chunk=4)
    first = {}
    for (g, tag), s, r in zip(meta, jobs, res):
        rep.count(tag)
        rep.case(canon=s, nontrivial=(r[0] == "ok" and bool(r[1])), sample={"group": g, "iupac": s} if rep.evaluations % 301 == 0 else None)
        if g not in first:
            first[g] = (s, r)
            continue
        if r != first[g][1]:
            rep.violation("input", {"iupac": s, "reference": first[g][0]}, {"result": r}, {"result": first[g][1]}, key="perm:" + s)
    rep.extra["groups"] = groups
    # tie of the Lean theorems (C07_children_order_immaterial is about wfTree trees) to the code: the whole-tree certificate on the
    # strings observed inside the real merge_int of these written orders
    import mergex
    mergex.run(rep, tier, driver, [s for s, r in zip(jobs, res) if r[0] == "ok" and r[1]][: (150 if tier == "quick" else 3000)], wellformed=True)
    # … and the binding plan of every written order (which sibling gets which marker pair, C01_sibling_slots_distinct)
    import planx
    planx.run(rep, tier, driver, [s for s, r in zip(jobs, res) if r[0] == "ok" and r[1]][: (200 if tier == "quick" else 4000)])


def replay(body):
    c = body["case"]
    a, b = _smiles(c["iupac"]), _smiles(c["reference"])
    print(c["iupac"], a)
    print(c["reference"], b)
    return 0 if a == b else 1
