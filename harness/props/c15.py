"""C15 — what is accepted is exactly the published grammar."""
import itertools
import os
import random

import gen
import real
from common import seed, pmap, REPO

ALPHABET = ["Glc", "Hex", "Ac", "N", "2", "-", "(", ")", "[", "]", "a", "?", " ", "p", ",", "d"]
EXTRA = ["Anhydro", "ol", "L", "0d", "{", "}", "e", "C", "=", "c", "ai", "i", "t", "A", "P", "O", "Neu", "5", "b", "f", "uronic", "10"]


def _job(s):
    r = real.real_tree(s)
    if isinstance(r, tuple) and r and r[0] == "EXC":
        return "EXC:" + r[1]
    return r is not None


def corpus(rng, n):
    path = os.path.join(REPO, "tests/data/glycowork.txt")
    lines = []
    if os.path.exists(path):
        lines = [l.strip() for l in open(path) if l.strip()]
    for f in ["general.tsv", "anhydro.tsv", "openforms.tsv", "pubchem_mono.tsv", "glycam.tsv", "pubchem_poly.tsv"]:
        p = os.path.join(REPO, "tests/data", f)
        if os.path.exists(p):
            lines += [l.split("\t")[0].strip() for l in open(p) if l.strip()]
    rng.shuffle(lines)
    return lines[:n]


def mutate(s, rng, toks):
    if not s:
        return rng.choice(toks)
    op = rng.choice(["del", "ins", "rep", "swap", "deltok", "instok"])
    i = rng.randrange(len(s))
    if op == "del":
        return s[:i] + s[i + 1:]
    if op == "ins":
        return s[:i] + rng.choice("abcdefpNOPCAIDL?-,()[]{} 0123456789#=") + s[i:]
    if op == "rep":
        return s[:i] + rng.choice("abcdefpNOPCAIDL?-,()[]{} 0123456789") + s[i + 1:]
    if op == "swap" and i + 1 < len(s):
        return s[:i] + s[i + 1] + s[i] + s[i + 2:]
    if op == "deltok":
        j = min(len(s), i + rng.randint(1, 4))
        return s[:i] + s[j:]
    return s[:i] + rng.choice(toks) + s[i:]


def run(rep, tier, driver):
    rng = random.Random(seed() * 104729 + 15)
    vocab = gen.Vocab()
    maxlen = 4 if tier == "quick" else 5
    cases = []
    for n in range(0, maxlen + 1):
        for tup in itertools.product(ALPHABET, repeat=n):
            cases.append(("".join(tup), "exhaustive-%d" % n))
    # sampled longer sequences over the larger alphabet
    nlong = 4000 if tier == "quick" else 60000
    big = ALPHABET + EXTRA
    for _ in range(nlong):
        n = rng.randint(maxlen + 1, 9)
        cases.append(("".join(rng.choice(big) for _ in range(n)), "sampled-long"))
    # every literal of every token rule in fixed contexts
    for name, lits in vocab.lits.items():
        for lit in lits:
            for ctx in ["%s", "Glc%s", "%sGlc", "Glc3%s", "Glc(a1-4)%s", "%s(a1-4)Glc", "3%sGlc", "Glc-%s", "Man%s(a1-4)Glc"]:
                cases.append((ctx % lit, "literal-" + name))
    # corpus and single-edit mutants
    toks = [l for ls in vocab.lits.values() for l in ls]
    corp = corpus(rng, 600 if tier == "quick" else 6000)
    for s in corp:
        cases.append((s, "corpus"))
        for _ in range(2):
            cases.append((mutate(s, rng, toks), "mutant"))
    # random grammar sentences (start rule) - mostly accepted
    for _ in range(300 if tier == "quick" else 3000):
        toks_ = vocab.expand(vocab.rules["begin"], rng, star_p=0.3)
        cases.append(("".join(t for _, t in toks_), "grammar-sentence"))
    seen, uniq = set(), []
    for s, tag in cases:
        if s not in seen:
            seen.add(s)
            uniq.append((s, tag))
    cases = uniq
    rep.rule = ("all strings of <=%d symbols over a 16-symbol reduced alphabet (one representative per syntactic class), sampled longer "
                "sequences over 38 symbols, every literal of every token rule in 9 contexts, reference-corpus names and single-edit "
                "mutants, random sentences of rule 'begin'; relation: same accept/reject verdict as the Model's recogniser over the "
                "regenerated grammar; non-trivial = distinct string accepted by both" % maxlen)
    strings = [c[0] for c in cases]
    reals = pmap(_job, strings, chunk=256)
    models = driver.ask_many({"op": "accepts", "s": s} for s in strings) if driver else [None] * len(strings)
    dis = 0
    for (s, tag), r, m in zip(cases, reals, models):
        rep.count(tag)
        if isinstance(r, str):
            rep.violation("input", {"iupac": s}, {"exception": r}, "accept or parse failure", key="exception:" + s)
            continue
        rep.case(canon=s, nontrivial=bool(r), sample={"input": s, "tag": tag, "accepted": r} if (r and rep.evaluations % 1500 == 0) else None)
        rep.count("accepted" if r else "rejected")
        if m is None:
            continue
        # the Model's three views must agree: first complete parse (what the walker consumes), recogniser with the Model's fuel,
        # recogniser with twice the fuel (adequacy of the concrete fuel bound; C15_accept_iff quantifies over the fuel)
        if m.get("any") is not None and not (m["any"] == m["any2"] == m["accepts"]):
            rep.broken.append("Model views disagree on %r: first-parse %s, recogniser %s, recogniser with double fuel %s" % (s, m["accepts"], m["any"], m["any2"]))
        if m.get("accepts") != r:
            dis += 1
            if dis <= 5:
                rep.broken.append("acceptance correspondence: code %s, model(grammar) %s on %r" % (r, m.get("accepts"), s))
            # the Model is the grammar (C15_accept_sound / regenerated tables): a disagreement is a violation of C15 itself
            rep.violation("input", {"iupac": s, "tag": tag}, {"accepted": r}, {"accepted": m.get("accepts"), "by": "grammar recogniser over Glycan.g4"},
                          key="accept:" + s)
    rep.extra["exhaustive"] = False
    rep.extra["exhaustive_part"] = "all strings of <=%d alphabet symbols" % maxlen
    rep.extra["correspondence_disagreements"] = dis


def replay(body):
    s = body["case"]["iupac"]
    r = _job(s)
    print("input:", repr(s), "accepted now:", r, "expected:", body.get("expected"))
    exp = body.get("expected")
    if isinstance(exp, dict) and "accepted" in exp:
        return 0 if r == exp["accepted"] else 1
    return 1
