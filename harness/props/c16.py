"""C16 — structural queries agree with the structure."""
import collections
import json
import random
import re

from rdkit import Chem
from rdkit.Chem import rdMolDescriptors

import apirun
import chem
import chemgen
import gen
import real
from common import seed, pmap

KNOWN_SOME = "count: match_some_fg exceeds basic matching for residues written with two sugar tokens (glycan.py:recipe_equality compares the first SAC entry / any entry)"
KNOWN_EVERY = "count: match_all_fg compares molecules while match_some_fg compares recipe tokens (glycan.py:recipe_equality)"


SACS = []


CODES = {}


def _code_job(name):
    """the sugar of a residue name as the front-end reads it: first SAC-typed token of its recipe ('6dTal' is 6d + Tal)"""
    try:
        from glyles import Glycan
        from glyles.grammar.GlycanLexer import GlycanLexer
        t = Glycan(name, tree_only=True).get_tree()
        if t is None or len(t.nodes) != 1:
            return None
        for tok, ty in t.nodes[0]["type"].recipe:
            if ty == GlycanLexer.SAC:
                return str(tok)
    except Exception:
        pass
    return None


def _mol_job(name):
    """canonical stereo SMILES of a residue name converted alone (what the tree holds for it before linkages set anomers)"""
    kind, smi = real.smiles_of(name)
    return chem.canon(smi) if kind == "ok" and smi else None


def code_of(name):
    """sugar code (the SAC / COUNT token) of a residue name of the generated vocabulary"""
    if CODES.get(name):
        return CODES[name]
    rest = re.sub(r"^\d,\d-Anhydro-", "", name)
    rest = re.sub(r"^(D-|L-)", "", rest)
    rest = re.sub(r"^(LD|DD|DL|LL)(?=[A-Z])", "", rest)
    best = None
    for lit in SACS:
        if rest.startswith(lit) and (best is None or len(lit) > len(best)):
            best = lit
    return best


def _self_job(case):
    s, queries, opts = case
    calls = [{"fn": "glycan", "iupac": s, "opts": opts, "methods": [["count", q, fl] for q, fl in queries] + [["get_smiles"], ["summary"]] +
              [["count", q, fl] for q, fl in queries]}]
    return apirun.run_calls(calls)[0]


def _job(case):
    s, queries = case
    calls = [{"fn": "glycan", "iupac": s, "methods": [["get_smiles"], ["summary"], ["tree"], ["save_dot"]] +
              [["count", q, fl] for q, fl in queries] + [["get_smiles"], ["summary"]]}]
    return apirun.run_calls(calls)[0]


def run(rep, tier, driver):
    rng = random.Random(seed() * 41 + 16)
    vocab = gen.Vocab()
    cv = chemgen.ChemVocab(vocab, tier)
    SACS[:] = vocab.sac + vocab.lits["COUNT"]
    cases = []
    n = 120 if tier == "quick" else 1500
    modes = [{}, {"match_some_fg": True}, {"match_all_fg": True}]
    for i in range(n):
        t = cv.random_tree(rng, rng.randint(1, 9 if tier == "quick" else 20), chain_bias=rng.choice([0.3, 0.6]))
        s = gen.render(t, "full")
        names = [nd.name for nd in t.nodes()]
        qs = set(rng.sample(names, min(3, len(names))))
        qs |= {rng.choice(cv.common), rng.choice(["Glc", "Gal", "Man", "GlcNAc", "Neu5Ac", "Fuc"])}
        queries = []
        for q in sorted(qs):
            for where in ("match_nodes", "match_leaves", "match_root"):
                for m in modes:
                    fl = dict(m)
                    fl[where] = True
                    queries.append((q, fl))
        # the glycan itself and each root-to-leaf sub-chain as query (nodes mode, with and without edges)
        chains = [s]

        def paths(node, acc):
            if not node.kids:
                return
            for l, k in node.kids:
                sub = gen.T(node.name, [(l, gen.T(k.name))])
                chains.append(gen.render(sub, "full"))
                paths(k, acc)
        paths(t, None)
        for c in chains[:6]:
            for m in modes:
                for edges in (False, True):
                    fl = dict(m)
                    fl["match_nodes"] = True
                    if edges:
                        fl["match_edges"] = True
                    queries.append((c, fl))
        cases.append((s, queries, t))
    # residues spelled in two equivalent ways (positional vs positionless modification): functional-group matching modes must stay monotone
    for s, q in [("Man(a1-4)Glc2NAc", "GlcNAc"), ("Gal(b1-4)GlcNAc6S", "GlcNAc"), ("Neu5Ac(a2-3)Gal", "Neu5Ac"), ("Gal6S(b1-4)Glc", "Gal"), ("Fuc(a1-2)Gal2N", "GalN"),
                 ("Gal(b1-4)ManHep", "Hep"), ("Glc(a1-3)LDManHep", "Hep")]:
        t = gen.T(s.split(")")[-1], [({"anomer": s.split("(")[1][0], "cpos": int(s.split("(")[1][1]), "ppos": int(s.split("-")[1][0])}, gen.T(s.split("(")[0]))])
        queries = [(q, dict(m, **{w: True})) for w in ("match_nodes", "match_leaves", "match_root") for m in modes]
        cases.append((s, queries, t))
    # residues that differ from the library sugar only by a series prefix or a bare epimer token (nothing the reactor writes into the
    # residue's stored text): the strict count must still tell them apart from the plain sugar
    from props.c01 import parse_full
    for s0, qs0 in [("L-Gal(a1-3)[Fuc(a1-2)]Gal(b1-4)GlcNAc", ["L-Gal", "Gal", "D-Gal", "Fuc", "D-Fuc", "L-Fuc", "GlcNAc"]),
                    ("D-Fuc(a1-2)Gal(b1-4)Glc", ["D-Fuc", "Fuc", "Gal", "Glc"]), ("L-Glc(a1-4)Glc(a1-4)L-Glc", ["L-Glc", "Glc", "D-Glc"]),
                    ("Gal4e(b1-4)Glc", ["Gal4e", "Gal", "Glc"]), ("L-Man(a1-3)[Man(a1-6)]Man", ["L-Man", "Man"]), ("D-Rha(a1-2)Rha(a1-3)L-Rha", ["D-Rha", "Rha", "L-Rha"]),
                    ("L-Xyl(b1-4)Xyl(b1-4)Glc", ["L-Xyl", "Xyl"]), ("Glc3e(a1-4)All", ["Glc3e", "All", "Glc"])]:
        try:
            t0 = parse_full(s0)
        except Exception:
            continue
        queries = [(q, dict(m, **{w_: True})) for q in qs0 for w_ in ("match_nodes", "match_leaves", "match_root") for m in modes]
        cases.append((s0, queries, t0))
    rep.rule = ("random well-formed glycans; summary() against the written tree (residue count, root, leaves, depth, type histogram) and against RDKit on "
                "get_smiles (formula, atoms, bonds, rings); count() for single-residue queries drawn from the tree and the vocabulary x {nodes, leaves, root} "
                "x {basic, some, every}; the glycan itself and its parent-child sub-chains as queries with and without edge matching; save_dot parsed "
                "back; summary/get_smiles repeated after the other calls; non-trivial = distinct glycan with >=2 residues and non-empty SMILES")
    outs = pmap(_job, [(s, q) for s, q, _ in cases], chunk=1)
    allnames = sorted({nd.name for _, _, t in cases for nd in t.nodes()} | {q for _, qs, _ in cases for q, _ in qs if "(" not in q})
    CODES.update({k: v for k, v in zip(allnames, pmap(_code_job, allnames, chunk=16)) if v})
    MOLS = dict(zip(allnames, pmap(_mol_job, allnames, chunk=8)))
    # the Model of summary()["leaves"] (Plan.outLeaves on the Model front-end's tree; C16_leaves): node ids without outgoing edge
    fronts = {}
    if driver is not None:
        strs = [s for s, _, _ in cases]
        fronts = dict(zip(strs, driver.ask_many({"op": "front", "s": s} for s in strs)))
    for (s, queries, t), o in zip(cases, outs):
        res = o["result"]
        if o["exc"] or res is None:
            rep.case(canon=s, nontrivial=False)
            rep.count("constructor-exception")
            continue
        smi, summ, tree, dot = res[0], res[1], res[2], res[3]
        counts = res[4:4 + len(queries)]
        smi2, summ2 = res[-2], res[-1]
        ok = isinstance(smi, str) and smi != "" and isinstance(summ, dict) and "exc" not in summ
        rep.case(canon=s, nontrivial=ok and t.size() >= 2, sample={"iupac": s, "summary": summ} if rep.evaluations % 29 == 0 else None)
        if not ok:
            rep.count("not-convertible")
            continue
        names = [nd.name for nd in t.nodes()]
        want = {"monomers": t.size(), "root": t.name, "leaves": sorted(nd.name for nd in t.nodes() if not nd.kids), "depth": t.depth() - 1,
                "types": dict(collections.Counter(names))}
        m = Chem.MolFromSmiles(smi)
        want.update({"formula": rdMolDescriptors.CalcMolFormula(m), "atoms": m.GetNumAtoms(), "bonds": m.GetNumBonds(), "rings": chem.ring_count(m)})
        got = dict(summ)
        got["leaves"] = sorted(got.get("leaves", []))
        for k, v in want.items():
            if got.get(k) != v:
                rep.violation("input", {"iupac": s, "query": "summary." + k}, {k: got.get(k)}, {k: v}, key="summary:%s:%s" % (k, s))
        fr = fronts.get(s)
        if fr and fr.get("verdict") == "ok" and isinstance(tree, list) and len(tree[0]) == len(fr["tree"]["names"]):
            rep.count("leaves-model-compared")
            mleaves = sorted(tree[0][i] for i in fr["tree"]["leaves"])
            if mleaves != got["leaves"]:
                rep.broken.append("leaves model: %r vs summary()['leaves'] %r on %r" % (mleaves, got["leaves"], s))
            if fr["tree"].get("depth") != got.get("depth"):
                rep.broken.append("depth model: %r vs summary()['depth'] %r on %r" % (fr["tree"].get("depth"), got.get("depth"), s))
        if smi2 != smi or summ2 != summ:
            rep.violation("history", {"iupac": s, "what": "get_smiles/summary repeated after summary, count, save_dot"}, {"smiles": smi2}, {"smiles": smi}, key="repeat:" + s)
        # save_dot: same nodes and edges as the tree
        if isinstance(dot, list) and isinstance(tree, list):
            nodes = {}
            edges = []
            for line in dot:
                mm = re.match(r'^(\d+) \[label="?([^"\]]*)"?\];?$', line)
                if mm:
                    nodes[int(mm.group(1))] = mm.group(2)
                mm = re.match(r'^(\d+) -- (\d+)\s*\[label="?([^"\]]*)"?\];?$', line) or re.match(r'^(\d+) -> (\d+)\s*\[label="?([^"\]]*)"?\];?$', line)
                if mm:
                    edges.append([int(mm.group(2)), int(mm.group(1)), mm.group(3)])
            tnames, tedges = tree
            if [nodes.get(i) for i in range(len(tnames))] != tnames or sorted(edges) != sorted(tedges):
                rep.violation("input", {"iupac": s, "query": "save_dot"}, {"nodes": nodes, "edges": sorted(edges)}, {"nodes": tnames, "edges": sorted(tedges)}, key="dot:" + s)
        # counts
        table = {}
        for (q, fl), c in zip(queries, counts):
            table[(q, json.dumps(fl, sort_keys=True))] = c
        for (q, fl), c in zip(queries, counts):
            rep.count("count-" + ("self/sub-chain" if "(" in q else "single"))
            if isinstance(c, dict):
                if "(" in q and (fl.get("match_all_fg") or fl.get("match_some_fg")) is None:
                    pass
                continue
            single = "(" not in q
            basic = not fl.get("match_some_fg") and not fl.get("match_all_fg")
            if single and basic:
                code = code_of(q)
                pool = names if fl.get("match_nodes") else ([nd.name for nd in t.nodes() if not nd.kids] if fl.get("match_leaves") else [t.name])
                wantc = sum(1 for nm in pool if code_of(nm) == code)
                if c != wantc:
                    rep.violation("input", {"iupac": s, "query": q, "flags": fl}, {"count": c}, {"count": wantc}, key="count:%s:%s:%s" % (s, q, sorted(fl)))
            if single:
                # never grows when functional-group matching is made stricter
                where = [k for k in ("match_nodes", "match_leaves", "match_root") if fl.get(k)][0]
                b = table.get((q, json.dumps({where: True}, sort_keys=True)))
                so = table.get((q, json.dumps({where: True, "match_some_fg": True}, sort_keys=True)))
                ev = table.get((q, json.dumps({where: True, "match_all_fg": True}, sort_keys=True)))
                if all(isinstance(x, int) for x in (b, so, ev)) and basic:
                    if so > b:
                        two = any(len([1 for lit in SACS if lit and lit in nm and nm.index(lit) >= 0]) >= 2 for nm in names)
                        rep.violation("input", {"iupac": s, "query": q, "where": where}, {"basic": b, "some": so, "every": ev}, "some <= basic",
                                      key=KNOWN_SOME if (q in ("Hep", "Hex", "Oct", "Pen") or two) else "mono-some:%s:%s" % (s, q))
                    if ev > so:
                        # the known mechanism: a residue spelled differently from the query but the same molecule is an 'every' match and
                        # not a 'some' match; anything else is reported under its own key
                        pool_ = names if where == "match_nodes" else ([nd.name for nd in t.nodes() if not nd.kids] if where == "match_leaves" else [t.name])
                        explained = MOLS.get(q) is not None and any(nm != q and MOLS.get(nm) == MOLS.get(q) for nm in pool_)
                        rep.violation("input", {"iupac": s, "query": q, "where": where}, {"basic": b, "some": so, "every": ev}, "every <= some <= basic",
                                      key=KNOWN_EVERY if explained else "every>some:%s:%s:%s" % (s, q, where))
            if single and fl.get("match_all_fg") and isinstance(c, int) and MOLS.get(q) is not None:
                # strict matching = the same molecule: the count is the number of residues (of the pool) that are the query's molecule
                where = [k for k in ("match_nodes", "match_leaves", "match_root") if fl.get(k)][0]
                pool_ = names if where == "match_nodes" else ([nd.name for nd in t.nodes() if not nd.kids] if where == "match_leaves" else [t.name])
                if all(MOLS.get(nm) is not None for nm in pool_):
                    wante = sum(1 for nm in pool_ if MOLS[nm] == MOLS[q])
                    rep.count("count-every-spec")
                    if c != wante:
                        rep.violation("input", {"iupac": s, "query": q, "flags": fl}, {"count": c}, {"count": wante, "note": "residues that are the same molecule as the query"},
                                      key="every-count:%s:%s:%s" % (s, q, where))
            if q == s and fl.get("match_nodes") and isinstance(c, int) and c < 1:
                rep.violation("input", {"iupac": s, "query": q, "flags": fl}, {"count": c}, ">= 1 (every glycan contains itself)", key="self:%s:%s" % (s, sorted(fl)))

    # glycans whose reducing end is written with its anomer: the glycan must contain itself in every matching mode, and count() must
    # say the same before and after get_smiles / summary (full=False: nothing is assembled before the first get_smiles)
    scases = []
    for i in range(40 if tier == "quick" else 400):
        t = cv.random_tree(rng, rng.randint(2, 7), chain_bias=0.5)
        if t.size() < 2 or not cv.get(t.name).get("anomeric"):
            continue
        sfx = rng.choice([" a", " b"])
        s = gen.render(t, "full") + sfx
        qs = [[s, dict(m, match_nodes=True, **({"match_edges": True} if e else {}))] for m in modes for e in (False, True)]
        qs += [[t.name + sfx, dict(m, match_root=True)] for m in modes]
        scases.append((s, qs, rng.choice([{}, {"full": False}])))
    souts = pmap(_self_job, scases, chunk=1)
    for (s, qs, opts), o in zip(scases, souts):
        res = o["result"]
        rep.count("self-with-root-anomer")
        if o["exc"] or res is None:
            rep.case(canon=["self", s], nontrivial=False)
            continue
        n = len(qs)
        before, smi, after = res[:n], res[n], res[n + 2:]
        rep.case(canon=["self", s, sorted(opts)], nontrivial=isinstance(smi, str) and smi != "")
        if not (isinstance(smi, str) and smi):
            continue
        for (q, fl), b, a in zip(qs, before, after):
            if b != a:
                rep.violation("history", {"iupac": s, "opts": opts, "query": q, "flags": fl, "what": "count before and after get_smiles/summary"}, {"before": b, "after": a},
                              "the same count", key="count-changes:%s:%s" % (s, sorted(fl)))
            if isinstance(a, int) and a < 1:
                rep.violation("input", {"iupac": s, "opts": opts, "query": q, "flags": fl}, {"count": a}, ">= 1 (every glycan contains itself / its root)", key="self:%s:%s" % (s, sorted(fl)))

    # linkage labels in every shape the grammar allows - no anomer '(1-4)', unknown anomer '(?1-4)', unknown parent position '(a1-?)',
    # two-digit positions, parenthesis-free notations: the glycan must contain itself and each of its parent-child sub-chains, with and
    # without edge matching
    import re as _re
    lcases = []

    def _variant(text, how):
        def f(m):
            a, c, p = m.group(1), m.group(2), m.group(3)
            if how == "no-anomer":
                return "(%s-%s)" % (c, p)
            if how == "q-anomer":
                return "(?%s-%s)" % (c, p)
            if how == "q-parent":
                return "(%s%s-?)" % (a, c)
            if how == "mixed":
                return rng.choice(["(%s-%s)", "(?%s-%s)"]) % (c, p) if rng.random() < 0.6 else m.group(0)
            return m.group(0)
        return _re.sub(r"\(([ab])(\d+)-(\d+)\)", f, text)

    for i in range(30 if tier == "quick" else 300):
        t = cv.random_tree(rng, rng.randint(2, 6), chain_bias=0.5)
        if t.size() < 2:
            continue
        how = ["no-anomer", "q-anomer", "q-parent", "mixed"][i % 4]
        s = _variant(gen.render(t, "full"), how)
        subs = []

        def paths2(node):
            for l, k in node.kids:
                subs.append(_variant(gen.render(gen.T(node.name, [(l, gen.T(k.name))]), "full"), how if how != "mixed" else "no-anomer"))
                paths2(k)
        paths2(t)
        qs = [[q, dict(m, match_nodes=True, **({"match_edges": True} if e else {}))] for q in [s] + (subs[:3] if how != "mixed" else []) for m in modes for e in (False, True)]
        lcases.append((s, qs, {"full": False}, how))
    for s0 in ["Neu5Gc(a2-11)Neu5Gc", "Mana1-4Glc", "Mana4Glc", "Man(a1-3)[Man(1-6)]Man(?1-4)GlcNAc", "Fruf(2-1)Glc", "Gal(1-4)Glc(1-4)Glc"]:
        lcases.append((s0, [[s0, dict(m, match_nodes=True, **({"match_edges": True} if e else {}))] for m in modes for e in (False, True)], {"full": False}, "fixed"))
    louts = pmap(_self_job, [(s, qs, o) for s, qs, o, _ in lcases], chunk=1)
    for (s, qs, opts, how), o in zip(lcases, louts):
        res = o["result"]
        rep.count("self-label-" + how)
        if o["exc"] or res is None:
            rep.case(canon=["label", s], nontrivial=False)
            continue
        n = len(qs)
        before = res[:n]
        parsed = any(isinstance(b, int) for b in before)
        rep.case(canon=["label", s], nontrivial=parsed)
        for (q, fl), b in zip(qs, before):
            if isinstance(b, int) and b < 1:
                rep.violation("input", {"iupac": s, "opts": opts, "query": q, "flags": fl}, {"count": b},
                              ">= 1 (every glycan contains itself and each of its own sub-chains, whatever the shape of its linkage labels)", key="self:%s:%s:%s" % (s, q, sorted(fl)))

    # the Lean Model of recipe_equality (matchBasic / matchSome: C16_some_le_basic_partial is about them) against glycan.py
    import queryx
    mnames = list(cv.names) + [c + x for c in ("Glc", "Gal", "Man", "Neu", "Kdo") for x in ("NAc", "2NAc", "6S", "A", "5Ac", "N", "3Me6S", "f", "p a")] + \
        ["ManHep", "LDManHep", "GalOct", "Hep", "Hex", "Oct", "D-Glc", "L-Fuc", "6dTal", "Glc-ol"]
    queryx.run_match(rep, tier, driver, mnames, rng)
    # the Lean Model of count(match_nodes=True) (Embed.count; C16_contains_itself) against glycan.py on small glycans: the glycan itself,
    # its sub-chains and single residues as queries, every linkage-label shape
    cpairs = []
    for s, queries, t in cases:
        if t.size() <= 6:
            for q in list(dict.fromkeys(q for q, fl in queries if fl.get("match_nodes")))[:5]:
                cpairs.append((s, q))
    for s, qs, _, _ in lcases:
        for q in list(dict.fromkeys(q for q, _ in qs))[:3]:
            cpairs.append((s, q))
    cpairs += [("Man(a1-3)[Man(a1-6)]Man", "Man(a1-6)Man"), ("Man(a1-3)[Man(a1-6)]Man", "Man"), ("Gal(b1-4)GlcNAc(b1-3)Gal(b1-4)GlcNAc", "Gal(b1-4)GlcNAc"),
               ("Gal(b1-4)GlcNAc(b1-3)Gal(b1-4)GlcNAc", "GlcNAc(b1-3)Gal"), ("Neu5Ac(a2-3)Gal(b1-4)Glc", "Neu5Ac(a2-6)Gal"), ("Glc6S(a1-4)Glc", "Glc(a1-4)Glc")]
    queryx.run_count(rep, tier, driver, cpairs)


def replay(body):
    c = body["case"]
    o = _job((c["iupac"], [(c["query"], c.get("flags", {"match_nodes": True}))] if "flags" in c or "(" in str(c.get("query", "")) else []))
    print(json.dumps(o)[:1500])
    print("expected", body["expected"])
    return 1
