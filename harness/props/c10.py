"""C10 — nothing is dropped silently: the meaning of 'full'."""
import random
import re

import chem
import chemgen
import gen
import real
from common import seed, pmap


def _job(job):
    s, full = job
    kind, smi = real.smiles_of(s, full=full)
    if kind != "ok":
        return ("exc", smi)
    return ("ok", chem.canon(smi) if smi else "")


def _tree_full(name):
    """(Glycan(name).tree_full, residue names, edge labels) - the flag the walker accumulated"""
    try:
        from glyles import Glycan
        import io
        import contextlib
        with contextlib.redirect_stdout(io.StringIO()), contextlib.redirect_stderr(io.StringIO()):
            g = Glycan(name)
        t = g.get_tree()
        if t is None:
            return None
        return (bool(g.tree_full), [t.nodes[i]["type"].get_name(full=True) for i in range(len(t.nodes))],
                [t.get_edge_data(a, b)["type"] for a, b in t.edges()])
    except Exception:
        return None


def _all_tokens(name):
    """all recipe tokens of all residues as the real front-end reads the string (sorted), or None"""
    try:
        from glyles import Glycan
        t = Glycan(name, tree_only=True).get_tree()
        if t is None:
            return None
        return sorted(x[0] for n in t.nodes for x in t.nodes[n]["type"].recipe)
    except Exception:
        return None


def run(rep, tier, driver):
    rng = random.Random(seed() * 37 + 10)
    vocab = gen.Vocab()
    cv = chemgen.ChemVocab(vocab, tier)
    fgs = set(k for k, _ in vocab.tables["functional_groups"])
    dead_fg = sorted(f for f in vocab.lits["FG"] if f not in fgs and len(f) > 1)
    keys = vocab.keys_p | vocab.keys_f | vocab.keys_o | {k[:-3] for k in vocab.keys_o if k.endswith("-OL")}
    unknown_sugars = sorted(s for s in vocab.sac if s.upper() not in keys and s not in ("Suc", "Sug")) or ["Unk"]
    rep.notes.append("grammar-accepted functional groups without chemistry: %s; sugars without a table entry: %s" % (dead_fg, unknown_sugars))
    jobs, meta, relex = [], [], []
    n = 120 if tier == "quick" else 1500
    for i in range(n):
        t = cv.random_tree(rng, rng.randint(1, 7 if tier == "quick" else 15))
        base = gen.render(t, "full")
        nodes = list(t.nodes())
        victim = rng.choice(nodes)
        kind = rng.choice(["none", "unknown-sugar", "second-sugar-token", "dead-mod", "missing-position", "qmark-link", "qmark-anomer", "fragment"])
        variant = None
        injected = None
        if kind == "unknown-sugar":
            old = victim.name
            victim.name = rng.choice(unknown_sugars)
            variant = gen.render(t, "full")
            victim.name = old
        elif kind == "second-sugar-token":
            # a residue written with a second sugar name directly behind the first ('ManUnk', 'GlcGal'): the grammar takes it as one
            # residue, the second name is not a chain-length name and cannot be realised
            old = victim.name
            # only behind a bare sugar code (after a ring letter 'Suc' is the succinyl group, a realisable modification)
            if old in vocab.sac and not old.endswith(("f", "p")):
                victim.name = old + rng.choice(["Unk", "Unk", "Gal", "Man", "Fuc", "Xyl"])
                if victim.name not in ("GalMan",):
                    variant = gen.render(t, "full")
                victim.name = old
        elif kind == "dead-mod" and dead_fg:
            old = victim.name
            free = [p for p, e in cv.get(old)["free"] if p != cv.get(old).get("anomeric")] or [3]
            injected = "%d%s" % (rng.choice(free), rng.choice(dead_fg))
            victim.name = old + injected
            variant = gen.render(t, "full")
            victim.name = old
        elif kind == "missing-position":
            # a supported group on a carbon the residue does not have (single-digit positions beyond the carbon skeleton)
            old = victim.name
            # the code numbers side-chain carbons (acetyl, lactyl, ...) after the main chain: "missing" = beyond every carbon of the residue
            nc = sum(1 for a in chem.mol(cv.get(old)["smiles"]).GetAtoms() if a.GetSymbol() == "C")
            beyond = [p for p in range(nc + 1, 10)]
            if beyond and not old[-1].isdigit():
                injected = "%d%s" % (rng.choice(beyond), rng.choice(["S", "P", "Ac", "Bz", "F"]))
                victim.name = old + injected
                variant = gen.render(t, "full")
                victim.name = old
        elif kind in ("qmark-link", "qmark-anomer"):
            links = [l for nd in nodes for l, _ in nd.kids]
            if links:
                l = rng.choice(links)
                if kind == "qmark-link":
                    old = l["ppos"]
                    l["ppos"] = "?"
                    variant = gen.render(t, "full")
                    l["ppos"] = old
                else:
                    old = l["anomer"]
                    l["anomer"] = "?"
                    variant = gen.render(t, "full")
                    l["anomer"] = old
        elif kind == "fragment":
            # one or more residues floating, with or without a '?' on the fragment's own outgoing linkage, one or two fragments
            a, b, c = rng.choice(cv.common), rng.choice(["Gal", "Glc", "Man", "GlcNAc"]), rng.choice(["Fuc", "Neu5Ac", "Gal"])
            variant = rng.choice(["{%s(a1-?)}%s" % (a, base), "{%s(a1-3)%s(b1-?)}%s" % (a, b, base), "{%s(a1-3)%s(b1-4)}%s" % (a, b, base),
                                  "{%s(a1-2)[%s(a1-3)]%s(b1-?)}%s" % (c, a, b, base), "{%s(a1-?)}{%s(a1-3)%s(b1-?)}%s" % (c, a, b, base),
                                  "{%s(a1-3)%s(b1-4)}{%s(a1-4)%s(b1-3)}%s" % (a, b, c, b, base)])
        if variant is not None and injected is not None:
            relex.append((i, base, variant, injected))
        for full in (True, False):
            jobs.append((base, full))
            meta.append((i, "base", full, kind, base))
            if variant is not None and kind != "none":
                jobs.append((variant, full))
                meta.append((i, "variant", full, kind, base))
    # directed: a second sugar name directly behind the first, at the root, at a leaf, inside, in an open form
    i0 = 10 ** 6
    for base, variant in [("Man", "ManUnk"), ("Man", "ManGal"), ("Glc", "GlcSuc"), ("Glc(a1-4)Glc", "GlcMan(a1-4)Glc"), ("Man(a1-4)Glc", "Man(a1-4)GlcUnk"),
                          ("Man(a1-3)[Man(a1-6)]Man(b1-4)GlcNAc", "ManUnk(a1-3)[Man(a1-6)]Man(b1-4)GlcNAc"), ("Man-ol", "ManGal-ol"),
                          ("Gal(b1-4)Glc(b1-3)Gal", "Gal(b1-4)GlcFuc(b1-3)Gal"), ("Fuc(a1-2)Gal", "FucXyl(a1-2)Gal")]:
        i0 += 1
        for full in (True, False):
            jobs.append((base, full))
            meta.append((i0, "base", full, "second-sugar-token", base))
            jobs.append((variant, full))
            meta.append((i0, "variant", full, "second-sugar-token", base))
    # directed: an unsupported modification next to modifications that make the reactor take a second round (a group on a carbon that
    # only exists after another group has added it: '6Me' + '7S'), in every written order, alone and inside a disaccharide
    multi = []
    adders = ["6Me", "6Ac", "2NAc", "NAc", "4NBz", "6Et"]
    for gi in range(40 if tier == "quick" else 600):
        sugar = rng.choice(["Glc", "Gal", "Man", "Fuc", "GlcN", "Xyl"])
        dead = "%d%s" % (rng.choice([2, 3, 4]), rng.choice(dead_fg)) if dead_fg else None
        if dead is None:
            break
        add = rng.choice(adders)
        if sugar.endswith("N") and add[0] == "N":
            add = "6Me"
        late = "%d%s" % (rng.choice([7, 8]), rng.choice(["S", "P", "Ac", "Et"]))
        mods = [dead, add, late] if rng.random() < 0.8 else [dead, late]
        if len({m[0] for m in mods if m[0].isdigit()}) < len([m for m in mods if m[0].isdigit()]):
            continue
        rng.shuffle(mods)
        name = sugar + "".join(mods)
        without = sugar + "".join(m for m in mods if m != dead)
        for variant, base in ((name, without), ("Man(a1-4)" + name, "Man(a1-4)" + without), (name + "(b1-4)Glc", without + "(b1-4)Glc")):
            relex.append((n + len(multi), base, variant, dead))
            for full in (True, False):
                jobs.append((base, full))
                meta.append((n + len(multi), "base", full, "dead-mod-second-round", base))
                jobs.append((variant, full))
                meta.append((n + len(multi), "variant", full, "dead-mod-second-round", base))
            multi.append(variant)
    rep.rule = ("random well-formed glycans, each also with exactly one obstacle injected (sugar without table entry, grammar-accepted modification "
                "without chemistry, supported modification on a carbon the residue does not have, '?' parent position, '?' anomer, floating {fragment}), converted under full=True and full=False; Spec: with "
                "full=True every obstacle gives ''; with full=False the unobstructed glycan gives the same molecule as under full=True and a glycan "
                "whose only obstacle is an unsupported modification gives the molecule without it; non-trivial = distinct (input, full) pair "
                "whose unobstructed form converts")
    # an injected modification counts only if the front-end reads the variant as the base's tokens plus exactly that token
    # ('GlcN' + '3LL' re-lexes as Glc, N3, LL: not the intended obstacle)
    toks = pmap(_all_tokens, [x for _, b, v, _ in relex for x in (b, v)], chunk=8)
    bad = set()
    for k, (i, b, v, inj) in enumerate(relex):
        tb, tv = toks[2 * k], toks[2 * k + 1]
        if tb is None or tv is None or sorted(tb + [inj]) != tv:
            bad.add(i)
            rep.count("variant-relexes-differently (dropped)")
    keep = [k for k, m in enumerate(meta) if not (m[1] == "variant" and m[0] in bad)]
    jobs, meta = [jobs[k] for k in keep], [meta[k] for k in keep]
    res = pmap(_job, jobs, chunk=4)
    base_true = {}
    for (i, role, full, kind, base), (s, _), r in zip(meta, jobs, res):
        if role == "base" and full:
            base_true[i] = r
    for (i, role, full, kind, base), (s, _), r in zip(meta, jobs, res):
        bt = base_true[i]
        ok_base = bt[0] == "ok" and bool(bt[1])
        rep.count("%s-%s-full=%s" % (role, kind if role == "variant" else "plain", full))
        rep.case(canon=[s, full], nontrivial=ok_base, sample={"iupac": s, "full": full, "obstacle": kind if role == "variant" else None, "result": r} if rep.evaluations % 97 == 0 else None)
        if not ok_base:
            continue
        if role == "base" and not full:
            if r != bt:
                rep.violation("input", {"iupac": s, "full": False}, {"result": r}, {"result": bt, "note": "full=False must give what full=True gives for a convertible input"},
                              key="full-false:" + s)
        if role == "variant" and full:
            if r[0] == "exc":
                rep.count("obstacle-raises-instead-of-empty (no molecule released; '' through convert)")
            elif not (r == ("ok", "")):
                # '?' anomer of a linkage: the child anomer stays undefined; the property lists an undetermined linkage as unrealisable
                rep.violation("input", {"iupac": s, "full": True, "obstacle": kind}, {"result": r}, {"result": ["ok", ""], "note": "an unrealisable part must give the empty string under full=True"},
                              key="full-true:%s:%s" % (kind, s))
        if role == "variant" and not full and kind in ("dead-mod", "missing-position", "dead-mod-second-round"):
            if r != bt:
                rep.violation("input", {"iupac": s, "full": False, "obstacle": kind, "without": base}, {"result": r}, {"result": bt, "note": "molecule without the unsupported modification"},
                              key="full-false-mod:" + s)
    # the accumulation of `full` over the tree (C10_forest_full / C10_tree_full): tree_full of a connected glycan = every residue's own
    # tree_full (the residue converted alone) and no '?' in any linkage label
    gl = sorted({s for (i, role, full, kind, base), (s, _) in zip(meta, jobs) if kind != "fragment"})[: (150 if tier == "quick" else 2000)]
    # … and is connected (Model `components`, C10_connected_without_fragments / C10_components_count): floating parts of any size
    gl += sorted({s for (i, role, full, kind, base), (s, _) in zip(meta, jobs) if kind == "fragment" and role == "variant"})[: (60 if tier == "quick" else 800)]
    comps = {}
    if driver is not None:
        for s0, a in zip(gl, driver.ask_many({"op": "front", "s": s0} for s0 in gl)):
            if a.get("verdict") == "ok":
                comps[s0] = a["tree"].get("components")
    tf = dict(zip(gl, pmap(_tree_full, gl, chunk=4)))
    residues = sorted({n for v in tf.values() if v for n in v[1]})
    rf = dict(zip(residues, pmap(_tree_full, residues, chunk=8)))
    for s0, v in tf.items():
        if not v or any(rf.get(n) is None for n in v[1]):
            continue
        if driver is not None and comps.get(s0) is None:
            continue
        want = all(rf[n][0] for n in v[1]) and not any("?" in l for l in v[2]) and (driver is None or comps[s0] == 1)
        rep.count("tree-full-components-%s" % comps.get(s0))
        rep.count("tree-full-accumulation")
        rep.case(canon=["tree_full", s0], nontrivial=len(v[1]) > 1)
        if v[0] != want:
            rep.violation("input", {"iupac": s0, "what": "Glycan.tree_full"}, {"tree_full": v[0]},
                          {"tree_full": want, "residues": {n: rf[n][0] for n in v[1]}, "labels": v[2]}, key="treefull:" + s0)
    # the reactor's own `full` flag over all rounds (Model: React.reactLoop; C10_react_full_never_recovers) on every residue the streams
    # above used, plus residues whose modifications need a second round or stall
    import reactx
    rnames = list(residues) + ["Glc6Ac8S", "Glc2Ac7Me9S", "Glc7S", "Glc6Alloc", "Glc6Alloc8Ac", "Glc6Et8S", "Glc2Gc8P", "Neu5Ac11Ac", "Neu5Gc11S", "Glc6Pyr7S", "Glc9S",
                               "Glc2Ac3Unk", "Glc6Lac9Me", "Glc6Et8Alloc", "Glc6Alloc7Et9S", "Kdo8Et10P", "Xyl4Ac6S", "Glc3Me7Me8Me", "GlcNAc8S", "GlcNGc9Ac"]
    reactx.run(rep, tier, driver, rnames[: (400 if tier == "quick" else 6000)])
    # the gate itself against the Lean model
    if driver is not None:
        for to in (False, True):
            for fu in (False, True):
                for tf in (False, True):
                    ans = driver.ask({"op": "gate", "tree_only": to, "full": fu, "tree_full": tf, "assembled": "OC"})
                    want = "" if (not to and fu and not tf) else "OC"
                    if ans.get("released") != want:
                        rep.broken.append("gate model table")


def replay(body):
    c = body["case"]
    r = _job((c["iupac"], c["full"]))
    print(c, "->", r, "expected", body["expected"])
    return 0 if list(r) == list(body["expected"]["result"]) else 1
