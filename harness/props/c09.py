"""C09 — batch conversion is total, aligned, ordered and verbatim."""
import itertools
import random
import time

import apigen
import apirun
import gen
import real
from common import seed, pmap


def _spec(x):
    return apigen.spec_smiles(x)


def _run(call):
    return apirun.run_calls([call])[0]


def _timed(s):
    t0 = time.time()
    real.smiles_of(s)
    return time.time() - t0


BUDGET_S = 40


def _timed_budget(s):
    """conversion time measured inside a fresh interpreter that is killed after BUDGET_S seconds (for inputs that may not come back)"""
    import json as _json
    import subprocess
    import sys as _sys
    from common import REPO
    code = ("import sys, time, json\nsys.path.insert(0, %r)\nfrom glyles import convert\ns = json.loads(sys.stdin.read())\n"
            "t0 = time.time()\nconvert(glycan_list=[s, 'Glc'], verbose=None)\nprint(json.dumps(time.time() - t0))\n") % REPO
    try:
        p = subprocess.run([_sys.executable, "-c", code], input=_json.dumps(s), capture_output=True, text=True, timeout=BUDGET_S)
        return float(_json.loads(p.stdout.strip().split("\n")[-1]))
    except subprocess.TimeoutExpired:
        return float("inf")
    except Exception:
        return -1.0


def strip(x):
    return x.strip() if isinstance(x, str) else x


def run(rep, tier, driver):
    rng = random.Random(seed() * 19 + 9)
    vocab = gen.Vocab()
    calls, expects = [], []
    n = 90 if tier == "quick" else 900
    combos = [c for r in range(1, 5) for c in itertools.combinations(["glycan", "glycan_list", "file", "generator"], r)]
    for i in range(n):
        combo = combos[i % len(combos)]
        call = {"fn": rng.choice(["convert", "convert", "convert_generator"])}
        order = []
        if "glycan" in combo:
            x = apigen.random_input(rng, vocab)
            call["glycan"] = x
            if not (isinstance(x, dict) and "none" in x):
                order.append(x)
        if "glycan_list" in combo:
            xs = [apigen.random_input(rng, vocab) for _ in range(rng.randint(0, 7))]
            call["glycan_list"] = xs
            if rng.random() < 0.2:
                call["as_tuple"] = True
            order += xs
        if "file" in combo:
            raw = []
            for _ in range(rng.randint(0, 6)):
                x = apigen.random_input(rng, vocab)
                if not isinstance(x, str) or "\n" in x or "\r" in x or "\x00" in x:
                    x = rng.choice(apigen.GOOD)
                raw.append(rng.choice(["", "", " ", "\t", "  "]) + x + rng.choice(["", " ", "\t"]))
            nl = rng.choice(["\n", "\n", "\r\n", "\r"])
            text = nl.join(raw)
            if raw and rng.random() < 0.7:
                text += nl
            call["file_lines"] = text
            order += apigen.file_lines_spec(text)
        if "generator" in combo:
            xs = [apigen.random_input(rng, vocab) for _ in range(rng.randint(0, 6))]
            call["generator"] = xs
            order += xs
        if rng.random() < 0.5:
            call["verbose_none"] = 1
        if rng.random() < 0.25:
            call["full"] = rng.choice([True, False])
        calls.append(call)
        expects.append(order)
    rep.rule = ("calls of convert / convert_generator through all 15 non-empty combinations of the single, list (list or tuple), file (LF/CRLF, "
                "padded lines) and generator arguments, inputs drawn from convertible glycans, malformed strings, truncations, control characters, "
                "None/ints/floats/bytes/lists, token soup up to 2000 characters; Spec: one pair per input in the documented order, input echoed "
                "verbatim (file lines stripped), SMILES = Glycan(input).get_smiles() or '' if that raises, no exception escapes; "
                "non-trivial = distinct call containing at least one convertible and one failing input")
    # Spec values for all distinct inputs
    distinct = {}
    for c, order in zip(calls, expects):
        for x in order:
            distinct.setdefault((apigen.json.dumps(x, sort_keys=True), c.get("full", True)), x)
    keys = list(distinct)
    spec = {}
    for full in (True, False):
        ks = [k for k in keys if k[1] == full]
        vals = pmap(_spec if full else _spec_false, [distinct[k] for k in ks], chunk=2)
        spec.update(dict(zip(ks, vals)))
    obs = pmap(_run, calls, chunk=1)
    model_reqs = []
    for c, order, o in zip(calls, expects, obs):
        want = [[x, spec[(apigen.json.dumps(x, sort_keys=True), c.get("full", True))]] for x in order]
        kinds = {bool(w[1]) for w in want}
        rep.count(c["fn"])
        rep.count("args-%d" % sum(k in c for k in ("glycan", "glycan_list", "file_lines", "generator")))
        rep.case(canon=c, nontrivial=(kinds == {True, False}), sample={"call": {k: (v if len(str(v)) < 200 else str(v)[:200]) for k, v in c.items()}, "pairs": len(want)} if rep.evaluations % 37 == 0 else None)
        for w in want:
            rep.count("input-" + ("convertible" if w[1] else ("non-string" if not isinstance(w[0], str) else "failing-string")))
        if o["exc"] is not None:
            rep.violation("batch", {"call": c}, {"exception": o["exc"]}, {"pairs": want}, key="raises:" + apigen.json.dumps(c, sort_keys=True)[:200])
            continue
        got = o["result"]
        if c["fn"] == "convert" and not order and "generator" not in c:
            if got is not None:
                rep.violation("batch", {"call": c}, {"result": got}, "None for an empty input set", key="empty:" + apigen.json.dumps(c, sort_keys=True)[:200])
            continue
        got = got or []
        if got != want:
            rep.violation("batch", {"call": c}, {"pairs": got}, {"pairs": want}, key="pairs:" + apigen.json.dumps(c, sort_keys=True)[:200])
        model_reqs.append((c, order, want, got))
    # correspondence with the Lean model of convert (same conv table)
    if driver is not None:
        for c, order, want, got in model_reqs[:400]:
            def enc(x):
                return {"s": x} if isinstance(x, str) else {"o": 1}
            single = [enc(c["glycan"])] if ("glycan" in c and not (isinstance(c["glycan"], dict) and "none" in c["glycan"])) else []
            req = {"op": "convert", "gen_fn": c["fn"] == "convert_generator",
                   "single": single, "list": [enc(x) for x in c.get("glycan_list", [])] if "glycan_list" in c else None,
                   "file": None, "file_content": c.get("file_lines"),       # the Model splits and strips the file content itself
                   "gen": [enc(x) for x in c["generator"]] if "generator" in c else None,
                   "conv": {x: s for x, s in [(w[0], w[1]) for w in want] if isinstance(x, str)}}
            ans = driver.ask(req)
            mp = ans.get("pairs")
            gp = [[(x if isinstance(x, str) else None), s] for x, s in got]
            if mp != gp:
                rep.broken.append("convert model: %r vs code %r on %r" % (mp, gp, c))
                break
    # running time on adversarial families (a measurement, not a theorem): sizes n, 2n, 4n per family; alarm only on
    # super-polynomial growth: the last doubling multiplies the time by more than 16 (exponent > 4) while taking > 5 s
    fam = []
    scale = 1 if tier == "quick" else 2
    for f, mk, n0 in [("deep-chain", lambda k: "Glc(a1-4)" * k + "Glc", 10 * scale),
                      ("wide-brackets", lambda k: "Man(a1-2)" + "[Man(a1-3)[Man(a1-6)]Man(a1-4)]" * k + "Man", 1 * scale),
                      ("nested-brackets", lambda k: "[" * k + "Glc(a1-4)" + "]" * k + "Glc", 25 * scale),
                      ("repeated-mods", lambda k: "Glc" + "2Ac" * k, 40 * scale),
                      ("mod-soup", lambda k: "".join("%d%s" % (1 + i % 9, ["Ac", "S", "Me", "P"][i % 4]) for i in range(k)) + "Glc", 40 * scale),
                      ("soup", lambda k: apigen.soup(rng, vocab, k), 500),
                      ("dash-soup", lambda k: "Glc" + "-" * k, 500),
                      ("paren-soup", lambda k: "Glc" + "(a1-4)" * k, 80 * scale)]:
        for mult in (1, 2, 4):
            fam.append((f, mult, mk(n0 * mult)))
    times = pmap(_timed, [s for _, _, s in fam], chunk=1)
    rep.extra["timing_s"] = [{"family": f, "size_factor": m, "length": len(s), "seconds": round(t, 3)} for (f, m, s), t in zip(fam, times)]
    byfam = {}
    for (f, m, s), t in zip(fam, times):
        rep.case(canon=["timing", f, m], nontrivial=False)
        byfam.setdefault(f, {})[m] = (t, s)
    growth = {}
    for f, d in byfam.items():
        r = d[4][0] / max(d[2][0], 1e-3)
        growth[f] = round(r, 2)
        if r > 16 and d[4][0] > 5:
            again = _timed(d[4][1]) / max(_timed(d[2][1]), 1e-3)
            if again > 16:
                rep.violation("input", {"iupac": d[4][1], "family": f}, {"seconds": d[4][0], "ratio_on_doubling": [r, again]},
                              "polynomial growth (time ratio on doubling the input <= 16)", key="slow:" + f)
    rep.extra["time_ratio_on_last_doubling"] = growth
    # inputs the lexer cannot tokenise (control characters - an unsplit table line 'glycan<TAB>name', a stray escape sequence) behind
    # more and more text: each conversion runs in its own interpreter with a budget of BUDGET_S seconds
    ctrl = []
    for f, mk in [("tsv-line", lambda k: "Man(a1-2)" * k + "Man\tsome name"), ("soup-bel", lambda k: apigen.soup(rng, vocab, 6 * k)[:9 * k] + "\x07"),
                  ("plain-text-esc", lambda k: "GlcNAcManGal" * k + "\x1b[0m"), ("ctrl-in-front", lambda k: "\x07" + "Man(a1-2)" * k + "Man"),
                  ("name-nul", lambda k: "Neu5Ac" * k + "\x00" + "Gal")]:
        for k in (2, 4, 8, 30):
            ctrl.append((f, k, mk(k)))
    ctimes = pmap(_timed_budget, [x for _, _, x in ctrl], chunk=1)
    rep.extra["timing_control_characters_s"] = [{"family": f, "k": k, "length": len(x), "seconds": (round(t, 3) if t != float("inf") else "timeout")}
                                                 for (f, k, x), t in zip(ctrl, ctimes)]
    for (f, k, x), t in zip(ctrl, ctimes):
        rep.case(canon=["timing-ctrl", f, k], nontrivial=False)
        rep.count("timing-control-characters")
        if t == float("inf"):
            rep.violation("input", {"iupac": x, "family": f}, {"seconds": "> %d (killed)" % BUDGET_S},
                          "a failing input is answered in time polynomial in its length (this one has %d characters)" % len(x), key="slow:%s:%d" % (f, k))
        elif t < 0:
            rep.broken.append("timing run failed for family %s" % f)


def _spec_false(x):
    return apigen.spec_smiles(x, full=False)


def replay(body):
    c = body["case"].get("call")
    if not c:
        return 2
    o = _run(c)
    print("call:", c)
    print("observed now:", o["result"], o["exc"])
    print("expected:", body["expected"])
    exp = body["expected"]
    if isinstance(exp, dict) and "pairs" in exp:
        return 0 if (o["exc"] is None and (o["result"] or []) == exp["pairs"]) else 1
    return 1
