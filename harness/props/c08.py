"""C08 — the monosaccharide library is stereochemically coherent."""
import random

import chem
import gen
import real
from common import seed, pmap
from props.c13 import one_centre_relation

# hand-written Spec: elemental composition of the classes (neutral, free sugar)
CLASS_FORMULA = {
    "C6H12O6": ["Glc", "Man", "Gal", "Gul", "Alt", "All", "Tal", "Ido", "Fru", "Tag", "Sor", "Psi", "Hex"],
    "C6H12O5": ["Qui", "Rha", "Fuc"],
    "C6H12O4": ["Oli", "Tyv", "Abe", "Par", "Dig", "Col"],
    "C5H10O5": ["Ara", "Lyx", "Xyl", "Rib", "Rul", "Xul", "Api", "Pen"],
    "C4H8O4": ["Ery", "Thre"],
    "C9H16O9": ["Kdn"],
    "C9H17NO8": ["Neu"],
    "C8H14O8": ["Kdo"],
    "C9H18N2O6": ["Pse", "Leg", "Aci"],
    "C6H14N2O3": ["Bac"],
    "C9H17NO7": ["Mur"],
    "C7H14O7": ["Hep", "Sed"],
    "C8H16O8": ["Oct"],
}
FORMULA_OF = {c: f for f, cs in CLASS_FORMULA.items() for c in cs}


def _smi(name):
    kind, smi = real.smiles_of(name)
    return smi if kind == "ok" else None


def run(rep, tier, driver):
    vocab = gen.Vocab()
    t = vocab.tables
    rows = {"p": {r["key"]: r for r in t["pyranose"]}, "f": {r["key"]: r for r in t["furanose"]}, "o": {r["key"]: r for r in t["open"]}}
    codes = [s for s in vocab.sac + vocab.lits["COUNT"] if s.upper() in rows["p"] or s.upper() in rows["f"]]
    names = []
    for c in codes:
        for ring in ("p", "f"):
            if c.upper() in rows[ring]:
                nm = c + ring
                names += [nm, nm + " a", nm + " b", "D-" + nm, "L-" + nm, "D-" + nm + " a", "D-" + nm + " b", "L-" + nm + " a", "L-" + nm + " b"]
        if c.upper() + "-OL" in rows["o"]:
            names += [c + "-ol", "D-" + c + "-ol", "L-" + c + "-ol"]
        names.append(c)
    names = sorted(set(names))
    smi = dict(zip(names, pmap(_smi, names, chunk=4)))
    rep.rule = ("exhaustive over the library: every code x {pyranose, furanose where tabulated} x {undefined, a, b} x {default series, D-, L-}, plus the "
                "alditol where tabulated; Spec (RDKit): a/b differ in exactly the anomeric centre and erasing it gives the undefined form; ring-opening "
                "reduction of each ring form equals the alditol; own series prefix = identity, opposite prefix = mirror image; different codes give "
                "different molecules; ring size fits the ring letter; class formula from a hand-written table; non-trivial = distinct (code, clause) evaluated")
    rep.extra["exhaustive"] = True
    canon_by_form = {"p": {}, "f": {}}
    for c in codes:
        for ring in ("p", "f"):
            key = c.upper()
            if key not in rows[ring]:
                continue
            nm = c + ring
            u, a, b = smi.get(nm), smi.get(nm + " a"), smi.get(nm + " b")
            row = rows[ring][key]
            rep.count("entries-" + ring)
            if not u:
                rep.case(canon=nm, nontrivial=False)
                rep.violation("table-row", {"iupac": nm}, {"smiles": u}, "library entry converts", key="entry:" + nm)
                continue
            # anomers
            if ("A_" + key) in rows[ring] and ("B_" + key) in rows[ring]:
                rep.case(canon=[nm, "anomers"], nontrivial=True, sample={"code": nm, "a": a, "b": b} if rep.evaluations % 40 == 0 else None)
                if not a or not b:
                    rep.violation("table-row", {"iupac": nm, "clause": "anomers"}, {"a": a, "b": b}, "both anomers convert", key="anomers:" + nm)
                else:
                    why = one_centre_relation(a, b, u)
                    if why:
                        rep.violation("table-row", {"iupac": nm, "clause": "anomers"}, {"a": a, "b": b, "undefined": u, "why": why},
                                      "a and b differ at exactly the anomeric carbon; erasing it gives the undefined form", key="anomers:" + nm)
            # alditol
            if key + "-OL" in rows["o"]:
                ol = smi.get(c + "-ol")
                red = chem.reduce_to_alditol(u)
                rep.case(canon=[nm, "alditol"], nontrivial=True)
                if red is None or not ol or chem.canon(ol) != red:
                    rep.violation("table-row", {"iupac": nm, "clause": "alditol", "alditol": c + "-ol"}, {"reduced_ring_form": red, "alditol_entry": chem.canon(ol) if ol else ol},
                                  "ring-opening reduction equals the alditol entry", key="alditol:" + nm)
            # series
            if row["isomer"] in (0, 1):
                own, opp = ("D-", "L-") if row["isomer"] == 0 else ("L-", "D-")
                so, sp = smi.get(own + nm), smi.get(opp + nm)
                rep.case(canon=[nm, "series"], nontrivial=True)
                cu = chem.canon(u)
                if not so or chem.canon(so) != cu:
                    rep.violation("table-row", {"iupac": own + nm, "clause": "own series"}, {"result": so}, {"result": cu}, key="own-series:" + nm)
                mir = chem.mirror(u)
                if not sp or chem.canon(sp) != mir:
                    rep.violation("table-row", {"iupac": opp + nm, "clause": "opposite series"}, {"result": chem.canon(sp) if sp else sp}, {"result": mir, "note": "mirror image"},
                                  key="mirror:" + nm)
                if mir == cu:
                    rep.count("achiral-or-meso entry")
                # the same for the declared anomers: the series prefix acts on the a and b entries as on the anomer-less one
                for an, x in (("a", a), ("b", b)):
                    if not x:
                        continue
                    xo, xp = smi.get(own + nm + " " + an), smi.get(opp + nm + " " + an)
                    rep.case(canon=[nm, "series", an], nontrivial=True)
                    cx = chem.canon(x)
                    if not xo or chem.canon(xo) != cx:
                        rep.violation("table-row", {"iupac": own + nm + " " + an, "clause": "own series (anomer)"}, {"result": chem.canon(xo) if xo else xo}, {"result": cx},
                                      key="own-series:%s %s" % (nm, an))
                    mx = chem.mirror(x)
                    if not xp or chem.canon(xp) != mx:
                        rep.violation("table-row", {"iupac": opp + nm + " " + an, "clause": "opposite series (anomer)"}, {"result": chem.canon(xp) if xp else xp},
                                      {"result": mx, "note": "mirror image"}, key="mirror:%s %s" % (nm, an))
            # ring size and class formula
            m = chem.mol(u)
            ringatoms = chem.main_ring(m, prefer_size=6 if ring == "p" else 5)
            rep.case(canon=[nm, "ring"], nontrivial=True)
            other = "f" if ring == "p" else "p"
            single_form = key in rows[other] and smi.get(c + other) and chem.canon(smi[c + other]) == chem.canon(u)
            if single_form:
                # the code is tabulated with one and the same molecule in both tables (apiose exists as furanose only): no ring-size claim per letter
                rep.count("single-ring-form code")
            elif ringatoms is None or len(ringatoms) != (6 if ring == "p" else 5):
                rep.violation("table-row", {"iupac": nm, "clause": "ring size"}, {"ring": None if ringatoms is None else len(ringatoms)}, {"ring": 6 if ring == "p" else 5}, key="ring:" + nm)
            if c in FORMULA_OF:
                f = chem.formula_of(u)
                rep.case(canon=[nm, "formula"], nontrivial=True)
                if f != FORMULA_OF[c]:
                    rep.violation("table-row", {"iupac": nm, "clause": "class formula"}, {"formula": f}, {"formula": FORMULA_OF[c]}, key="formula:" + nm)
            canon_by_form[ring].setdefault(chem.canon(u), []).append(c)
    # alditols x series: the prefix acts on the open chain as on the rings (own series = identity, opposite = mirror image),
    # and ring-opening commutes with the prefix
    for c in codes:
        key = c.upper()
        if key + "-OL" not in rows["o"]:
            continue
        ringrow = rows["p"].get(key) or rows["f"].get(key)
        if ringrow is None or ringrow["isomer"] not in (0, 1):
            continue
        own, opp = ("D-", "L-") if ringrow["isomer"] == 0 else ("L-", "D-")
        ol, so, sp = smi.get(c + "-ol"), smi.get(own + c + "-ol"), smi.get(opp + c + "-ol")
        rep.case(canon=[c, "alditol-series"], nontrivial=bool(ol))
        if not ol:
            continue
        col = chem.canon(ol)
        if not so or chem.canon(so) != col:
            rep.violation("table-row", {"iupac": own + c + "-ol", "clause": "own series (alditol)"}, {"result": chem.canon(so) if so else so}, {"result": col}, key="own-series-ol:" + c)
        mir = chem.mirror(ol)
        if not sp or chem.canon(sp) != mir:
            rep.violation("table-row", {"iupac": opp + c + "-ol", "clause": "opposite series (alditol)"}, {"result": chem.canon(sp) if sp else sp}, {"result": mir, "note": "mirror image"},
                          key="mirror-ol:" + c)
        for ring in ("p", "f"):
            if key in rows[ring]:
                for pre in (own, opp):
                    ringform = smi.get(pre + c + ring)
                    want = smi.get(pre + c + "-ol")
                    red = chem.reduce_to_alditol(ringform) if ringform else None
                    rep.case(canon=[c, ring, pre, "alditol-series-reduce"], nontrivial=bool(red))
                    if red is not None and want and chem.canon(want) != red:
                        rep.violation("table-row", {"iupac": pre + c + ring, "clause": "ring-opening with prefix", "alditol": pre + c + "-ol"},
                                      {"reduced_ring_form": red, "alditol": chem.canon(want)}, "ring-opening reduction of the prefixed ring form equals the prefixed alditol",
                                      key="alditol-prefix:%s%s%s" % (pre, c, ring))
    for ring, d in canon_by_form.items():
        for cs, group in d.items():
            rep.case(canon=["distinct", ring, cs], nontrivial=len(group) > 0)
            names_ = {rows[ring][g.upper()]["name"] for g in group}
            if len(group) > 1 and len(names_) > 1:
                rep.violation("table-row", {"codes": group, "ring": ring, "clause": "distinct"}, {"same_molecule": cs}, "different codes give different molecules",
                              key="distinct:%s:%s" % (ring, "+".join(sorted(group))))


def replay(body):
    c = body["case"]
    print(c, "now:", _smi(c.get("iupac", "")), "expected", body["expected"])
    return 1
