"""C05 — condensation mass balance."""
import random

import chemgen
import gen
from common import seed, pmap


def _through_job(job):
    """glycan whose child is linked onto a substituted position (through the substituent's free end): balance against the two
    residues converted alone"""
    import chem
    import real
    g, parent, child = job
    out = {}
    for k, x in (("g", g), ("p", parent), ("c", child)):
        kind, smi = real.smiles_of(x)
        m = chem.mol(smi) if kind == "ok" and smi else None
        if m is None:
            out[k] = None
        else:
            out[k] = (chem.atom_counts(m), chem.ring_count(m), smi)
    return out


def _multi_job(job):
    """glycan = parent with several children; balance against the residues converted alone"""
    import chem
    import real
    g, parent, children = job
    out = {"g": None, "parts": []}
    for k, x in [("g", g), ("p", parent)] + [("c", c) for c in children]:
        kind, smi = real.smiles_of(x)
        m = chem.mol(smi) if kind == "ok" and smi else None
        v = None if m is None else (chem.atom_counts(m), chem.ring_count(m), smi)
        if k == "g":
            out["g"] = v
            out["kind"] = kind
        else:
            out["parts"].append(v)
    return out


def run(rep, tier, driver):
    rng = random.Random(seed() * 7 + 5)
    vocab = gen.Vocab()
    cv = chemgen.ChemVocab(vocab, tier)
    cases = []
    n = 350 if tier == "quick" else 5000
    for i in range(n):
        t = cv.random_tree(rng, rng.randint(2, 12 if tier == "quick" else 30), chain_bias=rng.choice([0.2, 0.5, 0.9]))
        if t.size() < 2:
            continue
        cases.append({"iupac": gen.render(t, "full"), "tree": t.to_json(), "root_suffix": "", "tag": "random"})
    # every vocabulary residue once as child and once as parent (complete vocabulary coverage)
    for name in cv.names:
        info = cv.get(name)
        t = gen.T("Glc", [({"anomer": rng.choice("ab"), "cpos": info["anomeric"], "ppos": rng.choice([2, 3, 4, 6])}, gen.T(name))])
        cases.append({"iupac": gen.render(t, "full"), "tree": t.to_json(), "root_suffix": "", "tag": "each-as-child"})
        free = [p for p, e in info["free"] if p != info["anomeric"]]
        if free:
            t = gen.T(name, [({"anomer": rng.choice("ab"), "cpos": 1, "ppos": rng.choice(free)}, gen.T("Gal"))])
            cases.append({"iupac": gen.render(t, "full"), "tree": t.to_json(), "root_suffix": "", "tag": "each-as-parent"})
    # open forms as reducing end
    for s in vocab.sugars_ol:
        for pos in [2, 3, 4]:
            t = gen.T(s + "-ol", [({"anomer": "b", "cpos": 1, "ppos": pos}, gen.T("Gal"))])
            cases.append({"iupac": gen.render(t, "full"), "tree": t.to_json(), "root_suffix": "", "tag": "alditol-root"})
    rep.rule = ("random well-formed trees over the residue vocabulary, every vocabulary residue once as child and once as parent, every alditol as "
                "reducing end; Spec: atoms(result) = sum atoms(residues converted alone) - (n-1) H2O and rings(result) = sum rings; "
                "non-trivial = distinct glycan with >=2 residues, non-empty result and all residues convertible alone")
    outs = pmap(chemgen.eval_case, cases, chunk=2)
    for c, o in zip(cases, outs):
        rep.count(c["tag"])
        ok = bool(o.get("smiles")) and "spec_counts" in o
        rep.case(canon=c["iupac"], nontrivial=ok, sample={"iupac": c["iupac"], "atoms": o.get("counts"), "rings": o.get("rings")} if rep.evaluations % 173 == 0 else None)
        if "spec_counts" not in o:
            rep.count("residue-not-convertible-alone")
            continue
        if o["kind"] != "ok" or not o.get("smiles"):
            if c["tag"] in ("alditol-root",):
                rep.count("alditol-position-not-linkable")
                continue
            rep.count("empty-or-exception (judged by C01)")
            continue
        if o.get("counts") != o["spec_counts"] or o.get("rings") != o["spec_rings"]:
            rep.violation("input", {"iupac": c["iupac"]}, {"atoms": o.get("counts"), "rings": o.get("rings"), "smiles": o["smiles"]},
                          {"atoms": o["spec_counts"], "rings": o["spec_rings"], "residues": o["n"]}, key="balance:" + c["iupac"])
    # linkages onto a substituted position: the child is attached to the free end of the substituent (phosphate bridges, amino-alkyl
    # ethers, N-acyl amino acids, ...). Every modification token on a few parents; whenever the code returns a molecule it must balance.
    tj = []
    fgs = [f for f in vocab.fg if f]
    combos = [(par, pos, f) for par, poss in (("Glc", (2, 3, 4, 6)), ("Gal", (3, 6)), ("Man", (2, 6)), ("GlcN", (2,)), ("Rha", (2,)), ("Neu5Ac", (9,)), ("Fruf", (1, 6)))
              for pos in poss for f in fgs]
    if tier == "quick":
        # every token once on Glc O6, the rest sampled
        combos = [c for c in combos if c[0] == "Glc" and c[1] == 6] + rng.sample([c for c in combos if not (c[0] == "Glc" and c[1] == 6)], 150)
    for par, pos, f in combos:
        if par.endswith("N") and f[:1].isdigit():
            continue
        pname = "%s%d%s" % (par, pos, f) if not (par == "GlcN" and pos == 2) else "GlcN" + f      # 'GlcNPro', 'GlcNAc', ...
        if par == "Rha" and f.startswith("N"):
            pname = "Rha" + f
        child = rng.choice(["Man", "Gal", "Fuc", "Xyl"])
        tj.append(("%s(%s1-%d)%s" % (child, rng.choice("ab"), pos, pname), pname, child))
    touts = pmap(_through_job, tj, chunk=4)
    for (g, pname, child), o in zip(tj, touts):
        rep.count("through-substituent")
        ok = o["g"] is not None and o["p"] is not None and o["c"] is not None
        rep.case(canon=g, nontrivial=ok)
        if not ok:
            rep.count("through-substituent-not-linkable-or-not-convertible")
            continue
        want = dict(o["p"][0])
        for k, v in o["c"][0].items():
            want[k] = want.get(k, 0) + v
        want["H"] = want.get("H", 0) - 2
        want["O"] = want.get("O", 0) - 1
        want = {k: v for k, v in want.items() if v}
        rings = o["p"][1] + o["c"][1]
        if o["g"][0] != want or o["g"][1] != rings:
            rep.violation("input", {"iupac": g, "parent": pname, "child": child}, {"atoms": o["g"][0], "rings": o["g"][1], "smiles": o["g"][2]},
                          {"atoms": want, "rings": rings, "residues": 2}, key="balance:" + g)
    # two (three) residues written onto ONE position of the parent: a phosphodiester / glycerol bridge offers two free ends - both
    # residues are condensed, each costing one water - a plain hydroxyl offers one: no molecule. Whatever is returned must balance.
    mj = []
    for sgr in (["Glc", "Man", "GlcNAc"] if tier == "quick" else ["Glc", "Man", "Gal", "GlcNAc", "GlcN", "Xyl"]):
        for pos, sub in [(6, "P"), (3, "P"), (2, "P"), (3, "Gro"), (6, "Gro"), (4, ""), (6, ""), (3, "S"), (6, "PEtn"), (4, "P")]:
            if sgr == "Xyl" and pos == 6:
                continue
            if sgr in ("GlcNAc", "GlcN") and pos == 2:
                continue
            pname = "%s%d%s" % (sgr, pos, sub) if sub else sgr
            mj.append(("Gal(b1-%d)[Man(a1-%d)]%s" % (pos, pos, pname), pname, ["Gal", "Man"]))
            mj.append(("Man(a1-%d)[Gal(b1-%d)]%s" % (pos, pos, pname), pname, ["Man", "Gal"]))
            mj.append(("Glc(a1-%d)[Gal(b1-%d)]%s(a1-3)Man" % (pos, pos, pname), None, None))
    mj = [j for j in mj if j[1] is not None]
    mouts = pmap(_multi_job, mj, chunk=4)
    for (g, pname, children), o in zip(mj, mouts):
        rep.count("two-residues-on-one-position")
        conv = o["g"] is not None
        rep.case(canon=g, nontrivial=conv)
        if not conv:
            rep.count("two-residues-on-one-position-no-molecule")
            continue
        if any(p is None for p in o["parts"]):
            continue
        want = {}
        for p in o["parts"]:
            for k, v in p[0].items():
                want[k] = want.get(k, 0) + v
        nl = len(o["parts"]) - 1
        want["H"] = want.get("H", 0) - 2 * nl
        want["O"] = want.get("O", 0) - nl
        want = {k: v for k, v in want.items() if v}
        rings = sum(p[1] for p in o["parts"])
        if o["g"][0] != want or o["g"][1] != rings:
            rep.violation("input", {"iupac": g, "parent": pname, "children": children}, {"atoms": o["g"][0], "rings": o["g"][1], "smiles": o["g"][2]},
                          {"atoms": want, "rings": rings, "residues": len(o["parts"])}, key="balance:" + g)
    # linkages through substituents exercise __check_root_id's walk to the free end: Model against code
    import oxyx
    oxyx.run(rep, tier, driver, [g for (g, _, _), o in zip(tj, touts) if o["g"] is not None])
    # tie of the Lean tree theorems (C05_tree_atoms, C05_tree_rings) to the code: the whole-tree certificate on the strings observed
    # inside the real merge_int of these glycans
    import mergex
    mergex.run(rep, tier, driver, [c["iupac"] for c, o in zip(cases, outs) if o.get("smiles")][: (150 if tier == "quick" else 3000)], wellformed=True)


def replay(body):
    import chem
    import real
    s = body["case"]["iupac"]
    kind, smi = real.smiles_of(s)
    m = chem.mol(smi) if kind == "ok" and smi else None
    got = chem.atom_counts(m) if m is not None else None
    print(s, smi, got, "expected", body["expected"])
    return 0 if got == body["expected"]["atoms"] and chem.ring_count(m) == body["expected"]["rings"] else 1
