"""C02 — every non-empty result is a valid, whole, placeholder-free molecule."""
import random

import chem
import chemgen
import gen
import real
from common import seed, pmap


def _job(job):
    s, opts = job
    kind, smi = real.smiles_of(s, **opts)
    if kind != "ok":
        return ("exc", smi, None)
    if not smi:
        return ("ok", "", None)
    return ("ok", smi, chem.validity(smi))


def _convert_job(batch):
    """through glyles.convert (the other observation point)"""
    import glyles
    import io
    import contextlib
    out = []
    try:
        with contextlib.redirect_stdout(io.StringIO()):
            res = glyles.convert(glycan_list=list(batch), verbose=None, cpu_count=1)
    except Exception as e:
        return [("exc", type(e).__name__, None)] * len(batch)
    for (_, smi) in res:
        out.append(("ok", smi, chem.validity(smi) if smi else None))
    return out


def meaningless(rng, cv, vocab):
    """grammatical but chemically meaningless / stressing combinations"""
    r = rng.random()
    a = lambda: rng.choice(cv.common)
    if r < 0.15:      # anomeric oxygen used twice
        return "%s(a1-1)%s(a1-%d)%s" % (a(), a(), rng.choice([2, 3, 4, 6]), a())
    if r < 0.3:       # position used twice
        p = rng.choice([2, 3, 4, 6])
        return "%s(a1-%d)[%s(b1-%d)]%s" % (a(), p, a(), p, a())
    if r < 0.45:      # modification on a carbon without oxygen / odd position
        return "%s%d%s" % (rng.choice(["Fuc", "Rha", "Glc", "Neu", "Kdo", "Xyl", "Araf", "Fruf"]), rng.choice([1, 5, 6, 7, 8, 9]), rng.choice(vocab.fg_tokens))
    if r < 0.6:       # linkage to arbitrary positions
        return "%s(%s%d-%d)%s" % (a(), rng.choice("ab"), rng.choice([1, 2, 3]), rng.choice(range(1, 10)), rng.choice(cv.names))
    if r < 0.7:       # substituted anomeric oxygen used in a linkage
        return "%s1%s(a1-%d)%s" % (a(), rng.choice(["Me", "Ac", "S", "P", "Bn"]), rng.choice([2, 3, 4, 6]), a())
    if r < 0.85:      # random grammar-derived residue names in a small tree
        return "%s(a1-%d)%s" % (vocab.random_deriv(rng), rng.choice([2, 3, 4, 6]), vocab.random_deriv(rng))
    k = rng.randint(5, 6)   # too many substituents
    return "".join("[%s(a1-%d)]" % (a(), i + 1) for i in range(k - 1)) + "Glc(b1-4)Glc" if rng.random() < 0.5 else \
        "Man(a1-2)" + "".join("[%s(a1-%d)]" % (a(), i + 3) for i in range(k - 1)) + "Man"


def run(rep, tier, driver):
    rng = random.Random(seed() * 17 + 2)
    vocab = gen.Vocab()
    cv = chemgen.ChemVocab(vocab, tier)
    jobs = []

    def opts():
        o = {}
        if rng.random() < 0.3:
            o["full"] = rng.choice([True, False])
        if rng.random() < 0.15:
            o["tree_only"] = True
        if rng.random() < 0.3:
            o["root_orientation"] = rng.choice(["a", "b", "n"])
        if rng.random() < 0.3:
            o["start"] = rng.choice([1, 2, 3, 4, 5, 6, 100, 0, 9, -1])
        return o
    n = 250 if tier == "quick" else 3000
    for i in range(n):
        t = cv.random_tree(rng, rng.randint(1, 10 if tier == "quick" else 25))
        jobs.append((gen.render(t, rng.choice(["full", "full", "condensed"])), opts(), "well-formed"))
    for i in range(n):
        jobs.append((meaningless(rng, cv, vocab), opts(), "meaningless"))
    # single modifications over the whole functional-group table on a few sugars (marker leaks live here)
    for fg in vocab.fg_tokens:
        for sugar in (["Glc", "Neu", "Fuc"] if tier == "quick" else ["Glc", "Neu", "Fuc", "Kdo", "Xyl", "Fruf", "GlcNAc", "1,6-Anhydro-Glc"]):
            jobs.append(("%s%d%s" % (sugar, rng.choice([1, 2, 3, 4, 5, 6, 9]), fg), {}, "single-mod"))
    # two modifications on one residue, the second one addressing a carbon the first one added (second reactor round: position markers are
    # written onto substituent atoms - charged, ring members, ... - and must not survive in whatever is released)
    for fg in vocab.fg_tokens:
        for sugar, p1, late in ([("Glc", 2, (7, 8, 9))] if tier == "quick" else
                                [("Glc", 2, (7, 8, 9)), ("Glc", 3, (7, 8, 9, 10)), ("Xyl", 2, (6, 7, 8)), ("Neu", 5, (10, 11, 12)), ("Gal", 6, (7, 8, 9)), ("Fruf", 1, (7, 8, 9))]):
            for p2 in late:
                jobs.append(("%s%d%s%d%s" % (sugar, p1, fg, p2, rng.choice(["Ac", "Me", "S"])), {}, "late-position-pair"))
    for s in ["Gal(b1-4)Glc2PCho8Ac", "Glc2PCho8Ac(a1-4)Glc", "Glc3Cho9Me", "Xyl2PCho7Ac", "Glc6PCho", "Neu5Ac9Ac"]:
        jobs.append((s, {}, "late-position-pair"))
    # bicyclic residues (x,y-anhydro: two ring-closure labels in one residue) as children, parents and inner residues
    from props.c01 import bicyclic_cases
    for s_, _tag in bicyclic_cases(tier):
        jobs.append((s_, {}, "bicyclic"))
    # nesting depth / width stress
    for d in ([10, 40, 98, 99, 100, 130] if tier == "quick" else [10, 40, 60, 97, 98, 99, 100, 101, 130, 200]):
        jobs.append(("Glc(a1-4)" * d + "Glc", {}, "deep-chain"))
        jobs.append(("Glc(a1-4)" * d + "1,6-Anhydro-Glc", {}, "deep-chain"))
    for s in ["Man(a1-2)[Man(a1-3)][Man(a1-4)][Man(a1-6)]Man", "Man(a1-2)[Man(a1-3)][Man(a1-4)][Man(a1-6)][Man(a1-1)]Man", "Glc(a1-1)Glc(a1-4)Glc",
              "Glc1Me(a1-4)Glc", "Fuc6d", "FucA", "Qui6d", "Glc6Me", "1,6-Anhydro-Glc2Fmoc", "Glc-ol(a1-4)Glc", "Glc(a1-4)Glc-ol", "Neu5Ac(a2-8)Neu5Ac(a2-8)Neu5Ac",
              "GlcN(b1-4)GlcN", "Man(a1-2)GlcN2S", "{Fuc(a1-?)}Gal", "Unk(a1-4)Glc", "Glc(a1-?)Glc", "Glc(?1-4)Glc"]:
        for o in [{}, {"full": False}, {"tree_only": True}]:
            jobs.append((s, o, "fixed"))
    # ungrammatical text
    toks = [l for ls in vocab.lits.values() for l in ls]
    for i in range(200 if tier == "quick" else 2000):
        jobs.append(("".join(rng.choice(toks) for _ in range(rng.randint(1, 12))), opts(), "token-soup"))
    rep.rule = ("well-formed random glycans, grammatical-but-meaningless combinations (anomeric O used twice, position used twice, modification on "
                "an O-less carbon, arbitrary positions, >4 substituents, random grammar-derived names), every functional-group token on several "
                "sugars, chains of depth 10..200, token soup; random option combinations (full, tree_only, root_orientation, start); Spec: a "
                "non-empty result parses and sanitises as one connected molecule of glycan elements with no marker atom and no empty branch; "
                "non-trivial = distinct (input, options) with a non-empty result")
    res = pmap(_job, [(s, o) for s, o, _ in jobs], chunk=4)
    for (s, o, tag), r in zip(jobs, res):
        rep.count(tag)
        rep.count("result-" + ("exception" if r[0] == "exc" else ("empty" if not r[1] else "non-empty")))
        rep.case(canon=[s, sorted(o.items())], nontrivial=(r[0] == "ok" and bool(r[1])),
                 sample={"iupac": s[:120], "opts": o, "result": (r[1] or "")[:120]} if rep.evaluations % 257 == 0 else None)
        if r[0] == "ok" and r[1] and r[2] is not None:
            rep.violation("input", {"iupac": s, "opts": o}, {"smiles": r[1], "problem": r[2]}, "valid connected placeholder-free molecule or ''",
                          key="invalid:%s:%s" % (s, sorted(o.items())))
    # assembly Model in the loop: LabelsOK on the real boundary strings of every merge (a re-used open label gives a valid but wrong molecule)
    import mergex
    mergex.run(rep, tier, driver, [s for (s, o, tag), r in zip(jobs, res) if tag in ("well-formed", "fixed", "deep-chain") and not o and r[0] == "ok" and r[1] and "(" in s][:300 if tier == "quick" else 4000])
    # the life of the Glycan object (Model: Api/Lifecycle.lean): construction, eager / lazy assembly, release gate, repeated get_smiles
    import lifex
    ljobs = [(s, {k: v for k, v in o.items() if k in ("full", "tree_only", "root_orientation", "start")}) for s, o, tag in jobs
             if tag in ("meaningless", "fixed", "single-mod", "late-position-pair", "well-formed")]
    ljobs += [(s, o) for s in ["Glc1OMe(a1-4)Glc", "Man1Ac(a1-4)Glc", "Fuc1F(a1-4)Glc", "Glc2PCho8Ac", "Glc(a1-?)Glc", "Glc7S", "Man(a1-4)Glc", "Unk(a1-4)Glc"]
              for o in [{}, {"full": False}, {"tree_only": True}, {"tree_only": True, "full": False}]]
    rng.shuffle(ljobs)
    lifex.run(rep, tier, driver, ljobs)
    # the same inputs through convert (batches)
    strs = [s for s, o, _ in jobs if not o][: (300 if tier == "quick" else 3000)]
    batches = [strs[i:i + 25] for i in range(0, len(strs), 25)]
    for b, rs in zip(batches, pmap(_convert_job, batches, chunk=1)):
        for s, r in zip(b, rs):
            rep.count("via-convert")
            rep.case(canon=["convert", s], nontrivial=(r[0] == "ok" and bool(r[1])))
            if r[0] == "exc":
                rep.violation("batch", {"glycan_list": b}, {"exception": r[1]}, "convert never raises for string inputs", key="convert-raises:" + s)
                break
            if r[1] and r[2] is not None:
                rep.violation("input", {"iupac": s, "via": "convert"}, {"smiles": r[1], "problem": r[2]}, "valid molecule or ''", key="invalid-convert:" + s)


def replay(body):
    c = body["case"]
    if "iupac" not in c:
        print(_convert_job(c["glycan_list"]))
        return 1
    r = _job((c["iupac"], c.get("opts") or {}))
    print(c, "->", r)
    return 0 if not (r[0] == "ok" and r[1] and r[2] is not None) else 1
