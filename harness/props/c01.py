"""C01 — glycosidic assembly yields exactly the molecule the linkages describe."""
import random
import re

import chem
import chemgen
import gen
from common import seed, pmap


def build_cases(tier, rng, cv):
    cases = []
    n = 400 if tier == "quick" else 6000
    for i in range(n):
        r = rng.random()
        if r < 0.08:
            size, cb = rng.randint(15, 45 if tier == "quick" else 60), 0.92      # deep chains
        elif r < 0.25:
            size, cb = rng.randint(5, 14), 0.15                                   # wide
        else:
            size, cb = rng.randint(2, 10 if tier == "quick" else 25), 0.5
        t = cv.random_tree(rng, size, chain_bias=cb)
        if t.size() < 2:
            continue
        suffix = rng.choice(["", "", " a", " b"]) if cv.get(t.name).get("anomeric") else ""
        s = gen.render(t, "full") + suffix
        cases.append({"iupac": s, "tree": t.to_json(), "root_suffix": suffix.strip(), "tag": "random",
                      "size": t.size(), "depth": t.depth(), "width": t.max_width()})
    return cases


FIXED = [
    ("Man(a1-3)1,6-Anhydro-Glc", "anhydro-parent"), ("Glc6Ole(a1-4)Glc", "backslash-child"),
    ("Man(a1-3)[Man(a1-6)]Man(b1-4)GlcNAc(b1-4)GlcNAc", "n-glycan-core"), ("Neu5Ac(a2-3)Gal(b1-4)Glc", "ketose-child"),
    ("Gal(b1-3)3,6-Anhydro-Gal", "anhydro-parent"), ("Fruf(b2-1)Glc", "sucrose-type"), ("Man(a1-2)GlcN", "n-link"),
    ("Glc(a1-4)Man(a1-3)1,6-Anhydro-Glc", "anhydro-parent-deep"), ("Gal(b1-4)[Fuc(a1-3)]GlcNAc(b1-2)Man(a1-3)1,6-Anhydro-Man", "anhydro-parent-deep"),
    # bicyclic parents substituted at every free position, alone and together, and below / above other residues
    ("Man(a1-2)1,6-Anhydro-Glc", "anhydro-parent"), ("Man(a1-4)1,6-Anhydro-Glc", "anhydro-parent"),
    ("Man(a1-2)[Gal(b1-3)][Glc(a1-4)]1,6-Anhydro-Glc", "anhydro-parent-wide"), ("Gal(b1-4)1,6-Anhydro-Man", "anhydro-parent"),
    ("Man(a1-2)3,6-Anhydro-Glc(b1-4)Glc", "anhydro-inner"), ("Glc(b1-2)3,6-Anhydro-Gal(b1-4)1,6-Anhydro-Glc", "anhydro-nested"),
    ("Neu5Ac(a2-3)1,6-Anhydro-Gal", "anhydro-parent-ketose-child"), ("Gal(b1-2)3,6-Anhydro-Gal(a1-3)Gal", "anhydro-inner"),
    ("Glc(a1-2)[Glc(a1-3)][Glc(a1-4)][Glc(a1-6)]Glc", "four-children"), ("Man(a1-2)[Man(a1-3)][Man(a1-4)][Man(a1-6)]Man(b1-4)GlcNAc", "four-children"),
    ("GlcNAc(b1-2)GlcN", "n-link"), ("Gal(b1-4)GlcNAc(b1-2)ManN", "n-link-deep"), ("Fuc(a1-2)[Gal(b1-4)]GlcN", "n-link-and-o-link"),
]


def bicyclic_cases(tier):
    """x,y-anhydro residues (second ring: epoxides, oxetanes, 3,6- and 2,5-bridges on pyranoses and furanoses - their SMILES carry two
    ring-closure labels, sometimes on one atom) as children through their free anomeric OH, as parents at every free position, and nested"""
    sugars = ["Glc", "Gal", "Man"] if tier == "quick" else ["Glc", "Gal", "Man", "All", "Alt", "Gul", "Ido", "Tal"]
    out = []
    for sgr in sugars:
        for (a, b), ring in [((2, 3), ""), ((3, 4), ""), ((3, 6), ""), ((2, 3), "f"), ((3, 6), "f"), ((2, 5), "f"), ((5, 6), "f")]:
            x = "%d,%d-Anhydro-%s%s" % (a, b, sgr, ring)
            free = [p for p in (2, 3, 4, 5, 6) if p not in (a, b) and p != (4 if ring == "f" else 5)]
            out.append(("%s(a1-4)Glc" % x, "bicyclic-child"))
            out.append(("%s(a1-3)[%s(b1-6)]Man" % (x, x), "bicyclic-children"))
            out.append(("Gal(b1-4)[%s(a1-3)]GlcNAc(b1-2)Man" % x, "bicyclic-child-deep"))
            for p in free:
                out.append(("Man(a1-%d)%s" % (p, x), "bicyclic-parent"))
                out.append(("Man(a1-%d)%s(b1-4)Glc" % (p, x), "bicyclic-inner"))
            if len(free) >= 2:
                out.append(("Man(a1-%d)[Gal(b1-%d)]%s(a1-6)Glc" % (free[0], free[1], x), "bicyclic-inner-wide"))
    return out


def parse_full(s):
    """tree of a glycan written in full notation with plain residue names (inverse of gen.render)"""
    i = len(s)
    while i > 0 and s[i - 1] not in ")]":
        i -= 1
    name, rest = s[i:], s[:i]
    kids = []

    def split_link(x):
        assert x.endswith(")")
        j = x.rindex("(")
        body = x[j + 1:-1]
        c, p = body[1:].split("-")
        return x[:j], {"anomer": body[0], "cpos": int(c) if c.isdigit() else c, "ppos": int(p) if p.isdigit() else p}
    sides = []
    while rest.endswith("]"):
        depth, j = 0, len(rest) - 1
        while True:
            depth += 1 if rest[j] == "]" else -1 if rest[j] == "[" else 0
            if depth == 0:
                break
            j -= 1
        inner, rest = rest[j + 1:-1], rest[:j]
        g, l = split_link(inner)
        sides.insert(0, (l, parse_full(g)))
    if rest:
        g, l = split_link(rest)
        kids = sides + [(l, parse_full(g))]
    else:
        kids = sides
    return gen.T(name, kids)


def judge(rep, case, o):
    s = case["iupac"]
    tag = case.get("tag", "")
    rep.count(tag)
    rep.count("size-%s" % ("2-4" if case.get("size", 0) <= 4 else "5-10" if case.get("size", 0) <= 10 else "11-25" if case.get("size", 0) <= 25 else ">25"))
    rep.count("width-%d" % case.get("width", 0))
    spec = o.get("spec")
    nontrivial = bool(o.get("smiles")) and spec is not None
    rep.case(canon=s, nontrivial=nontrivial, sample={"iupac": s, "smiles": o.get("smiles")} if rep.evaluations % 131 == 0 else None)
    if spec is None:
        rep.count("spec-not-applicable")
        return
    if o["kind"] != "ok":
        rep.violation("input", {"iupac": s}, {"exception": o["exc"]}, {"molecule": spec}, key="exc:" + s)
    elif not o["smiles"]:
        rep.violation("input", {"iupac": s}, {"smiles": ""}, {"molecule": spec, "note": "well-formed glycans never come back empty"}, key="empty:" + s)
    elif o.get("canon") != spec:
        rep.violation("input", {"iupac": s}, {"smiles": o["smiles"], "canonical": o.get("canon")}, {"molecule": spec}, key="mol:" + s)


def run(rep, tier, driver):
    rng = random.Random(seed() * 31337 + 1)
    vocab = gen.Vocab()
    cv = chemgen.ChemVocab(vocab, tier)
    rep.notes.append("residue vocabulary: %d cyclic residues with an anomeric OH, %d root-only" % (len(cv.names), len(cv.root_only)))
    # carbon numbering (enum_c) against the chemistry-level numbering, residue by residue
    for name in cv.divergent:
        if chemgen.well_formed_name(name, {}) and not name.startswith("Fruf5"):
            rep.case(canon="numbering:" + name, nontrivial=True)
            rep.violation("input", {"iupac": name, "what": "carbon numbering of the residue"}, "enum_c numbers a linkable carbon differently from the chemistry-level rule",
                          "ring walk from the anomeric carbon away from the ring oxygen", key="numbering:" + name)
    rep.extra["residues_numbering_checked"] = len(cv.names) + len(cv.root_only) + len(cv.divergent)
    cases = build_cases(tier, rng, cv)
    for s, tag in FIXED + bicyclic_cases(tier):
        try:
            ft = parse_full(s)
            assert gen.render(ft, "full") == s
            cases.append({"iupac": s, "tree": ft.to_json(), "root_suffix": "", "tag": "fixed-" + tag, "size": ft.size(), "depth": ft.depth(), "width": ft.max_width(), "fixed": True})
        except Exception:
            cases.append({"iupac": s, "tree": None, "tag": "fixed-" + tag, "size": 3, "width": 1})
    rep.rule = ("random well-formed glycan trees (2-60 residues, <=4 substituents, O- and N-links, ketose/furanose/anhydro/amino residues with "
                "modifications) in full notation, root a/b/undefined; Spec = RDKit molzip join of the residues converted alone at positions "
                "found by a chemistry-level carbon numbering; non-trivial = distinct glycan with non-empty result and applicable Spec")
    outs = pmap(chemgen.eval_case, cases, chunk=2)
    for c, o in zip(cases, outs):
        if c["tree"] is None:
            # fixed regression inputs: judged for validity and non-emptiness only (the Spec tree is built for random cases)
            rep.count(c["tag"])
            rep.case(canon=c["iupac"], nontrivial=bool(o.get("smiles")))
            if o["kind"] != "ok" or not o.get("smiles") or o.get("validity"):
                rep.violation("input", {"iupac": c["iupac"]}, {"result": o.get("smiles"), "exc": o.get("exc"), "validity": o.get("validity")},
                              "non-empty valid molecule", key="fixed:" + c["iupac"])
            continue
        if c.get("fixed") and (o["kind"] != "ok" or not o.get("smiles") or o.get("validity")):
            # a 3,6-anhydro-hexofuranose linked through its anomeric OH: Monomer.get_structure takes the bridge ring for the main ring
            # (known finding, one entry per residue; a wrong molecule or any other residue is reported under the input's own key)
            m = re.search(r"(3,6-Anhydro-[A-Z][a-z]+f)\(", c["iupac"])
            rep.violation("input", {"iupac": c["iupac"]}, {"result": o.get("smiles"), "exc": o.get("exc"), "validity": o.get("validity")},
                          "non-empty valid molecule", key=("main-ring:" + m.group(1)) if (m and not o.get("smiles")) else ("fixed:" + c["iupac"]))
            continue
        judge(rep, c, o)
    merge_correspondence(rep, tier, driver, cases, outs)
    # the Lean Model of enumerate_carbon (the numbering every position lookup relies on) against enum_c.py, observed inside real
    # conversions of the whole residue vocabulary (ring forms, open forms, modified, resized, anhydro) and of the sampled glycans
    import enumx
    enames = list(cv.names) + sorted(cv.root_only) + list(cv.divergent) + [n + s for n in vocab.sugars_ol for s in ("-ol", "-onic", "-aric")] + \
        ["Gal3,4Pyr", "Glc2Cin", "Neu5Gc9Ac", "MurNAc", "Glc3Bz6Bn", "GlcN2Fmoc", "Glc6Lau", "Ins", "Suc", "GlcA6Me", "Kdo8P", "Glc1Me", "Fruf1P6P"] + \
        [c["iupac"] for c in cases[:120]]
    rng.shuffle(enames)
    enumx.run(rep, tier, driver, enames)
    # the Lean Model of find_oxygen / root_atom_id / __check_root_id (the choice of the linking hetero atom) against monomer.py
    import oxyx
    oxyx.run(rep, tier, driver, [c["iupac"] for c in cases if c.get("size", 0) <= 8] + ["Man(a1-6)Glc6P", "Man(a1-6)Glc6EtN", "Gal(b1-2)RhaNPro", "Kdo(a2-6)GlcN4P", "Gal(b1-3)GlcN2S"])
    # the Lean Model of Merger.mark / Merger.merge_int (which linkage marks which carbon with which marker pair, which label gives
    # which residue its anomer, where each child's SMILES starts, ring offsets) against the calls merger.py issues
    import planx
    planx.run(rep, tier, driver, PLAN_FIXED + [c["iupac"] for c in cases])


# directed inputs for the binding plan: N- and O-linked siblings in every written order, four and five children, labels without a
# parent position / without anomer, two-digit positions, ketose children, nested branches, parenthesis-free notations
PLAN_FIXED = [
    "Fuc(a1-2)[Gal(b1-3)]GlcNAc", "Gal(b1-3)[Fuc(a1-2)]GlcNAc", "Man(a1-2)[Gal(b1-3)][Fuc(a1-4)]GlcNAc", "Gal(b1-3)[Man(a1-2)][Fuc(a1-4)]GlcNAc",
    "Fuc(a1-4)[Gal(b1-3)][Man(a1-2)]GlcN", "Gal(b1-4)[Glc(a1-5)]Neu", "Glc(a1-5)[Gal(b1-4)]Neu", "Glc(a1-5)[Gal(b1-4)][Man(a1-8)]Neu(a2-3)Gal",
    "Man(a1-2)[Man(a1-3)][Man(a1-4)][Man(a1-6)]Glc", "Man(a1-2)[Man(a1-3)][Man(a1-4)][Man(a1-6)]Glc(b1-4)Glc",
    "Man(a1-2)[Man(a1-3)][Man(a1-4)][Man(a1-6)][Man(a1-1)]Glc", "Man(a1-?)Glc", "Man(?1-4)Glc", "Man(1-4)Glc", "Man(a1-4)[Gal(b1-?)]Glc",
    "Neu5Ac(a2-3)Gal(b1-4)Glc", "Neu5Ac(a2-8)Neu5Ac(a2-3)Gal", "Fruf(b2-1)Glc", "Kdo(a2-4)Kdo(a2-6)GlcN", "Neu5Gc(a2-11)Neu5Gc",
    "Mana1-3[Mana1-6]Manb1-4GlcNAc", "Mana3[Mana6]Manb4GlcNAc", "Man(a1-3)[Gal(b1-4)[Fuc(a1-3)]GlcNAc(b1-2)Man(a1-6)]Man(b1-4)GlcNAc b",
    "Gal(b1-4)[Fuc(a1-3)]GlcNAc(b1-2)[Gal(b1-4)GlcNAc(b1-4)]Man(a1-3)[Man(a1-6)]Man(b1-4)GlcNAc(b1-4)[Fuc(a1-6)]GlcNAc",
    "Glc(a1-4)Glc-ol", "Man(a1-4)Glca", "Man(a1-4)Glc b", "Gal(b1-4)GlcNAc(b1-2)Man a", "Man(a1-6)[Man(a1-3)]Man(a1-6)[Man(a1-3)]Man",
]


def merge_correspondence(rep, tier, driver, cases, outs):
    try:
        import mergex
    except ImportError:
        rep.notes.append("merge model correspondence not available")
        return
    mergex.run(rep, tier, driver, [c["iupac"] for c, o in zip(cases, outs) if o.get("smiles")], wellformed=True)


def replay(body):
    case = {"iupac": body["case"]["iupac"], "tree": None}
    o = chemgen.eval_case(case)
    print("input:", case["iupac"])
    print("observed now:", o.get("smiles"), o.get("exc"))
    print("expected:", body.get("expected"))
    exp = body.get("expected")
    if isinstance(exp, dict) and exp.get("molecule"):
        return 0 if o.get("canon") == exp["molecule"] else 1
    return 0 if (o.get("smiles") and not o.get("validity")) else 1
