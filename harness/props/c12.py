"""C12 — every delivery path and every worker count gives the same answer."""
import json
import os
import random
import shutil
import subprocess
import sys
import tempfile

import apigen
import apirun
import gen
from common import seed, pmap, REPO


def _spec(x):
    return apigen.spec_smiles(x)


def line_of(x, smi):
    return "%s,%s" % (x, smi)


def run(rep, tier, driver):
    rng = random.Random(seed() * 23 + 12)
    vocab = gen.Vocab()
    size = 90 if tier == "quick" else 700
    batches = []
    for b in range(2 if tier == "quick" else 4):
        xs = []
        for i in range(size):
            x = apigen.random_input(rng, vocab, p_bad=0.25)
            if not isinstance(x, str) or any(c in x for c in "\n\r\x0b\x0c\x1c\x1d\x1e\x85  \x00") or x != x.strip() or len(x) > 300:
                x = rng.choice(apigen.GOOD)
            xs.append(x)
        batches.append(xs)
    rep.rule = ("batches of %d inputs (convertible and failing strings) delivered through: returned list with cpu_count in {1,2,4,16,-1}, "
                "output file (cpu_count 1 and 4), stdout listing, generator, `python -m glyles` in a scratch directory; Spec: every path carries "
                "exactly the pairs (input, Glycan(input).get_smiles() or '') in input order, file/stdout = one line 'input,SMILES' per input and "
                "nothing else; non-trivial = distinct (batch, path) whose batch mixes convertible and failing inputs" % size)
    distinct = sorted({x for b in batches for x in b})
    spec = dict(zip(distinct, pmap(_spec, distinct, chunk=2)))
    scratch = tempfile.mkdtemp(prefix="glyverif_c12_")
    try:
        for bi, xs in enumerate(batches):
            want_pairs = [[x, spec[x]] for x in xs]
            want_lines = [line_of(x, spec[x]) for x in xs]
            mixed = len({bool(s) for _, s in want_pairs}) == 2
            paths = []
            for cpu in ([1, 2, 4, 16, -1] if tier != "quick" or bi == 0 else [1, 4]):
                paths.append(("return-cpu%s" % cpu, {"fn": "convert", "glycan_list": xs, "cpu_count": cpu, "verbose_none": 1}))
            paths.append(("file-cpu1", {"fn": "convert", "glycan_list": xs, "sink": "file", "verbose_none": 1}))
            paths.append(("file-cpu4", {"fn": "convert", "glycan_list": xs, "sink": "file", "cpu_count": 4, "verbose_none": 1}))
            paths.append(("stdout", {"fn": "convert", "glycan_list": xs, "sink": "stdout", "verbose_none": 1}))
            paths.append(("stdout-cpu2", {"fn": "convert", "glycan_list": xs, "sink": "stdout", "cpu_count": 2, "verbose_none": 1}))
            paths.append(("generator", {"fn": "convert_generator", "glycan_list": xs, "verbose_none": 1}))
            paths.append(("file-input", {"fn": "convert", "file_lines": "\n".join(xs) + "\n", "cpu_count": 2, "verbose_none": 1}))
            # every input container and their mixtures (glycan, glycan_list, glycan_file, glycan_generator: delivered in this order),
            # into an output file that exists already and holds the listing of an earlier run
            k = max(1, len(xs) // 3)
            old = "Glc,OLD-CONTENT\nMan(a1-4)Glc,OLD\n"
            paths.append(("file-prefilled-list", {"fn": "convert", "glycan_list": xs, "sink": "file", "prefill": old, "verbose_none": 1}))
            paths.append(("file-prefilled-generator-only", {"fn": "convert", "generator": xs, "sink": "file", "prefill": old, "cpu_count": 1 + bi % 2, "verbose_none": 1}))
            paths.append(("file-prefilled-list+generator", {"fn": "convert", "glycan_list": xs[:k], "generator": xs[k:], "sink": "file", "prefill": old, "verbose_none": 1}))
            paths.append(("file-prefilled-all-containers", {"fn": "convert", "glycan": xs[0], "glycan_list": xs[1:k], "file_lines": "\n".join(xs[k:2 * k]) + "\n",
                                                            "generator": xs[2 * k:], "sink": "file", "prefill": old, "cpu_count": 2, "verbose_none": 1}))
            # the listing on stdout under every verbosity a caller may pass: log records go to stderr, nothing but the listing to stdout
            for vname, v in (("debug", 10), ("notset", 0), ("false", False), ("info", 20), ("error", 40)):
                paths.append(("stdout-verbose-%s" % vname, {"fn": "convert", "glycan_list": xs, "sink": "stdout", "verbose": v, "cpu_count": 1 + (bi + len(vname)) % 3}))
            paths.append(("return-verbose-debug", {"fn": "convert", "glycan_list": xs, "verbose": 10, "cpu_count": 2}))
            paths.append(("stdout-generator-only", {"fn": "convert", "generator": xs, "sink": "stdout", "verbose_none": 1}))
            paths.append(("return-all-containers", {"fn": "convert", "glycan": xs[0], "glycan_list": xs[1:k], "file_lines": "\n".join(xs[k:2 * k]) + "\n",
                                                    "generator": xs[2 * k:], "cpu_count": 4, "verbose_none": 1}))
            paths.append(("generator-all-containers", {"fn": "convert_generator", "glycan": xs[0], "glycan_list": xs[1:k], "file_lines": "\n".join(xs[k:2 * k]) + "\n",
                                                       "generator": xs[2 * k:], "verbose_none": 1}))
            if tier != "quick" and bi >= 2:
                # thorough: the container / verbosity variants on the first two batches only (each batch has 700 inputs)
                paths = [pc for pc in paths if not (pc[0].startswith("stdout-verbose") or pc[0].startswith("file-prefilled") or
                                                     pc[0] in ("return-verbose-debug", "stdout-generator-only", "return-all-containers", "generator-all-containers"))]
            for name, call in paths:
                o = apirun.run_calls([call])[0]
                rep.count(name)
                rep.case(canon=[bi, name], nontrivial=mixed, sample={"path": name, "batch": bi, "n": len(xs)} if rep.evaluations % 5 == 0 else None)
                if o["exc"]:
                    rep.violation("batch", {"call": call, "path": name}, {"exception": o["exc"]}, {"pairs": want_pairs}, key="exc:%s:%d" % (name, bi))
                    continue
                if name.startswith("return") or name.startswith("generator") or name == "file-input":
                    got = o["result"]
                    if got != want_pairs:
                        bad = next((i for i, (a, b) in enumerate(zip(got or [], want_pairs)) if a != b), min(len(got or []), len(want_pairs)))
                        rep.violation("batch", {"call": call, "path": name}, {"first_difference_at": bad, "got": (got or [])[bad:bad + 2], "n": len(got or [])},
                                      {"want": want_pairs[bad:bad + 2], "n": len(want_pairs)}, key="pairs:%s:%d" % (name, bi))
                    if name.startswith("return") and o["stdout"] != "":
                        rep.violation("batch", {"call": call, "path": name}, {"stdout": o["stdout"][:300]}, "nothing on stdout when a list is returned", key="stdout-noise:%s:%d" % (name, bi))
                elif name.startswith("file"):
                    got = (o.get("file") or "").split("\n")
                    if got and got[-1] == "":
                        got = got[:-1]
                    if got != want_lines:
                        rep.violation("batch", {"call": call, "path": name}, {"lines": got[:5], "n": len(got)}, {"lines": want_lines[:5], "n": len(want_lines)}, key="file:%s:%d" % (name, bi))
                else:
                    got = o["stdout"].split("\n")
                    if got and got[-1] == "":
                        got = got[:-1]
                    if got != want_lines:
                        rep.violation("batch", {"call": call, "path": name}, {"lines": got[:5], "n": len(got)}, {"lines": want_lines[:5], "n": len(want_lines)}, key="stdout:%s:%d" % (name, bi))
            if bi == 0:
                for name, call, want in (
                        ("file-prefilled-empty-generator", {"fn": "convert", "generator": [], "sink": "file", "prefill": old, "verbose_none": 1}, ""),
                        ("file-prefilled-no-input", {"fn": "convert", "glycan_list": [], "sink": "file", "prefill": old, "verbose_none": 1}, old)):
                    o = apirun.run_calls([call])[0]
                    rep.count(name)
                    rep.case(canon=[bi, name], nontrivial=True)
                    mdl = None
                    if driver is not None:
                        a = driver.ask({"op": "convert", "gen_fn": False, "single": [], "list": None if "generator" in call else [], "file": None,
                                        "gen": [] if "generator" in call else None, "conv": {}, "verbose_none": True, "sink": "file",
                                        "logger_disabled": False, "prefill": old.split("\n")[:-1]})
                        mdl = "".join(l + "\n" for l in (a.get("file") or []))
                        if mdl != want:
                            rep.broken.append("sink model (%s): file afterwards %r, Spec %r" % (name, mdl, want))
                    if o["exc"] or o.get("file") != want:
                        rep.violation("batch", {"call": call, "path": name}, {"file": o.get("file"), "exception": o["exc"]},
                                      {"file": want, "why": "an empty generator is an input container: the listing of zero glycans replaces the old content; "
                                                            "no input at all: convert returns before opening the file"}, key="file:%s" % name)
            # tie of the Lean Model of the sinks (C12_sinks_agree, C12_direct_use) to converter.py: the model, given the same per-glycan
            # outcomes, must produce the same pairs / file lines / stdout lines as the Spec expects of the code
            if driver is not None:
                conv = {x: s for x, s in want_pairs if s}
                a = driver.ask({"op": "convert", "gen_fn": False, "single": [{"s": xs[0]}], "list": [{"s": x} for x in xs[1:k]], "file_content": "\n".join(xs[k:2 * k]) + "\n",
                                "gen": [{"s": x} for x in xs[2 * k:]], "conv": conv, "verbose_none": True, "sink": "file", "logger_disabled": False,
                                "prefill": old.split("\n")[:-1]})
                rep.count("sink-model-file-prefilled-all-containers")
                if a.get("file") != want_lines:
                    rep.broken.append("sink model (all containers into an existing file) disagrees with the Spec lines on batch %d" % bi)
                for sink in ("return", "file", "stdout"):
                    a = driver.ask({"op": "convert", "gen_fn": False, "single": [], "list": [{"s": x} for x in xs], "file": None, "gen": None,
                                    "conv": conv, "verbose_none": True, "sink": sink, "logger_disabled": False})
                    rep.count("sink-model-" + sink)
                    ok = (a.get("pairs") == want_pairs) if sink == "return" else ((a.get("file") if sink == "file" else a.get("stdout")) == want_lines)
                    if not ok or a.get("logger_after") is not False:
                        rep.broken.append("sink model (%s) disagrees with the Spec lines on batch %d" % (sink, bi))
                a = driver.ask({"op": "convert", "gen_fn": True, "single": [], "list": [{"s": x} for x in xs], "file": None, "gen": None, "conv": conv, "verbose_none": True})
                if a.get("pairs") != want_pairs:
                    rep.broken.append("generator model disagrees with the Spec pairs on batch %d" % bi)
            # command line tool in a scratch directory
            inp = os.path.join(scratch, "in_%d.txt" % bi)
            outp = os.path.join(scratch, "out_%d.txt" % bi)
            open(inp, "w").write("\n".join(xs) + "\n")
            env = dict(os.environ, PYTHONPATH=REPO)
            p = subprocess.run([sys.executable, "-m", "glyles", "-i", inp, "-o", outp], cwd=scratch, env=env, capture_output=True, text=True, timeout=1800)
            rep.count("cli")
            rep.case(canon=[bi, "cli"], nontrivial=mixed)
            got = open(outp).read().split("\n") if os.path.exists(outp) else None
            if got and got[-1] == "":
                got = got[:-1]
            if got != want_lines:
                rep.violation("argv", {"args": ["-i", "<file with the batch>", "-o", "<out>"], "batch": xs[:10]}, {"lines": (got or [])[:5], "rc": p.returncode, "stderr": p.stderr[-300:]},
                              {"lines": want_lines[:5]}, key="cli:%d" % bi)
    finally:
        shutil.rmtree(scratch, ignore_errors=True)


def replay(body):
    call = body["case"].get("call")
    if not call:
        return 2
    o = apirun.run_calls([call])[0]
    print(json.dumps(o)[:1500])
    return 1
