"""C03 — the parsed tree is the glycan that was written, all of it."""
import random

import gen
import real
from common import seed, pmap

FOREIGN = ["@", "!", "$", "~", "ü", "\n", "\t", "#", "%", "&", "*", "+", "/", ";", "<", ">", "\\", "^", "_", "`", "|", '"', "'", "."]
PLAIN = ["Glc", "Man", "Gal", "GlcNAc", "GalNAc", "Fuc", "Xyl", "Neu5Ac", "Kdo", "Gal6S", "GlcA", "Rha", "Araf", "Fruf", "Glc3Me",
         "ManNAc", "IdoA2S", "Neu5Gc", "Kdn", "Galf", "GlcN", "Man6P", "4dGlc", "Gal3,4-Pyr", "6dTal"]


def _job(s):
    return real.canon_tree(real.real_tree(s))


def unordered(tree):
    """canonical form of the tree as an unordered labelled tree (node ids and child order are not part of C03)"""
    names, kids = tree

    def go(i):
        return [names[i], sorted([[l, go(c)] for c, l in kids[i]], key=repr)]
    roots = set(range(len(names))) - {c for ks in kids for c, _ in ks}
    return sorted([go(r) for r in roots], key=repr)


def build_cases(tier, rng, vocab):
    cases = []   # (string, expected or None, tag)
    maxn = 5 if tier == "quick" else 6
    # bounded-exhaustive shapes x notations
    for n in range(1, maxn + 1):
        for sh in gen.all_shapes(n):
            for notation in ["full", "condensed", "short"]:
                t = gen.shape_to_tree(sh, lambda: rng.choice(PLAIN), lambda: gen.random_link(rng, cposs=(1,), pposs=(2, 3, 4, 6)))
                if notation == "short":
                    for node in t.nodes():
                        for l, _ in node.kids:
                            l["cpos"] = 1
                s = gen.render(t, notation)
                cases.append((s, gen.expected_tree(t), "shape-%s" % notation))
    nrand = 250 if tier == "quick" else 2500
    maxsize = 12 if tier == "quick" else 40
    for i in range(nrand):
        size = rng.randint(2, maxsize)
        deep = rng.random() < 0.15
        sh = gen.random_shape(rng, rng.randint(20, 60) if deep else size, chain_bias=0.9 if deep else 0.5)
        fancy = rng.random() < 0.5
        namef = (lambda: vocab.random_deriv(rng)) if fancy else (lambda: rng.choice(PLAIN))
        t = gen.shape_to_tree(sh, namef, lambda: gen.random_link(rng, anomers=("a", "b", "?"), cposs=(1, 2, 3), pposs=(1, 2, 3, 4, 5, 6, 8, 9, 12)))
        if fancy:
            s = gen.render(t, "full")
            tag = "random-deriv-full"
        else:
            if rng.random() < 0.5:
                s = gen.render(t, rng.choice(["full", "condensed"]))
            else:
                s = gen.render(t, "full", pick=lambda l: rng.choice(["full", "condensed"]))
            tag = "random-plain"
        exp = gen.expected_tree(t)
        r = rng.random()
        if r < 0.15:
            suffix = rng.choice(["a", "b"])
            sp = rng.choice(["", " "])
            s = s + sp + suffix
            exp = ([exp[0][0] + suffix] + exp[0][1:], exp[1])
            if sp == "" and fancy:
                exp = None   # the suffix may be absorbed differently by an arbitrary deriv; judged by the model only
            tag += "-anomer"
        cases.append((s, exp, tag))
    # foreign text: must be rejected
    base = [c[0] for c in cases if c[1] is not None]
    nf = 150 if tier == "quick" else 1500
    for i in range(nf):
        s = rng.choice(base)
        junk = rng.choice(FOREIGN) + rng.choice(["", "Man", "x", " "])
        where = rng.choice(["lead", "trail", "embed"])
        if where == "lead":
            s2 = junk + s
        elif where == "trail":
            s2 = s + junk
        else:
            k = rng.randrange(len(s) + 1)
            s2 = s[:k] + junk + s[k:]
        cases.append((s2, "REJECT", "foreign-" + where))
    for s in ["Glc#Man", "Glc#", "#Glc", "Glc#Man(a1-4)Gal", "Man(a1-4)Glc#(a1-3)Gal", "Glc##", "", " ", "Glc ", " Glc", "Glc  a"]:
        cases.append((s, "REJECT", "foreign-fixed"))
    # floating fragments and odd bracket forms: model only
    for s in ["{Fuc(a1-?)}Gal(b1-4)GlcNAc", "{Neu5Ac(a2-?)}{Fuc(a1-?)}Gal(b1-4)Glc", "{Man(a1-2)Man(a1-?)}Man", "Man(a1-2)[Man(a1-3)]",
              "[Man(a1-3)]Glc", "Man(a1-3)[[Man(a1-6)]]Glc", "{[Man(a1-3)]Fuc(a1-2)}Glc", "Man(a1-2)[Gal(a1-3)][Glc(a1-4)][Fuc(a1-6)]Man",
              "Man(a1-2)[Gal(a1-3)][Glc(a1-4)][Fuc(a1-6)][Xyl(b1-5)]Man", "{Man(a1-2)[Gal(a1-3)]}Glc"]:
        cases.append((s, None, "special"))
    return cases


def run(rep, tier, driver):
    rng = random.Random(seed() * 7919 + 3)
    vocab = gen.Vocab()
    global PLAIN
    ok = [real.real_tree(p) is not None for p in PLAIN]
    PLAIN = [p for p, o in zip(PLAIN, ok) if o]
    rep.notes.append("plain residue names usable: %d" % len(PLAIN))
    cases = build_cases(tier, rng, vocab)
    rep.rule = ("bounded-exhaustive ordered tree shapes (<=5 residues quick / <=6 thorough, <=4 substituents) x 3 notations; random trees "
                "(size<=12/40, chains to depth 60) with random grammar-derived residue names; foreign text inserted at random places; "
                "non-trivial = distinct string with >=2 residues accepted by code and model")
    strings = [c[0] for c in cases]
    reals = pmap(_job, strings)
    models = driver.ask_many({"op": "front", "s": s, "both": len(s) < 120} for s in strings) if driver else [None] * len(strings)
    disagreements = 0
    for (s, exp, tag), r, m in zip(cases, reals, models):
        rep.count(tag)
        mt = real.canon_tree(real.model_tree(m)) if m is not None else None
        accepted = r is not None and not (isinstance(r, (list, tuple)) and r and r[0] == "EXC")
        rep.case(canon=s, nontrivial=accepted and len(r[0]) >= 2, sample={"input": s, "tag": tag, "accepted": accepted} if rep.evaluations % 97 == 0 else None)
        rep.count("accepted" if accepted else "rejected")
        if isinstance(r, (list, tuple)) and r and r[0] == "EXC":
            rep.violation("input", {"iupac": s}, {"exception": r[1]}, "tree or clean rejection", key="exception:" + s)
            continue
        # --- Spec judgement of the real code
        if exp == "REJECT":
            if accepted:
                rep.violation("input", {"iupac": s, "tag": tag}, {"tree": r}, "parse failure (foreign text must not be ignored)", key="foreign:" + s)
        elif exp is not None and accepted:
            want = real.canon_tree(exp)
            if unordered(r) != unordered(want) or r[0][0] != want[0][0]:
                rep.violation("input", {"iupac": s, "tag": tag}, {"tree": r}, {"tree": want, "compare": "unordered"}, key="tree:" + s)
        # --- correspondence model <-> code
        if m is not None:
            if m.get("memo_agrees") is False:
                rep.broken.append("parseRxM disagrees with parseRx on %r" % s)
            if (mt is None) != (not accepted) or (accepted and mt != r):
                disagreements += 1
                if disagreements <= 5:
                    rep.broken.append("front-end correspondence: code %r vs model %r on %r" % (r, mt, s))
                # the Spec decides whether the code is wrong: a written tree that is rejected or mis-read is a violation
                if exp not in (None, "REJECT") and not accepted:
                    rep.violation("input", {"iupac": s, "tag": tag}, "rejected", {"tree": real.canon_tree(exp)}, key="rejected:" + s)
    rep.extra["correspondence_disagreements"] = disagreements


def replay(body):
    s = body["case"]["iupac"]
    r = _job(s)
    print("input:", repr(s))
    print("observed now:", r)
    print("expected:", body.get("expected"))
    exp = body.get("expected")
    if isinstance(exp, dict) and "tree" in exp:
        return 0 if (r is not None and unordered(r) == unordered(exp["tree"])) else 1
    return 0 if r is None else 1
