"""C14 — skeleton-changing prefixes and suffixes perform their defining transformation."""
import random

import chem
import gen
import real
from common import seed, pmap

KETO_N1 = ["Fru", "Tag", "Sor", "Psi"]


def _smi(name):
    kind, smi = real.smiles_of(name)
    return (kind, smi)


def run(rep, tier, driver):
    rng = random.Random(seed() * 43 + 14)
    vocab = gen.Vocab()
    t = vocab.tables
    codes_p = [s for s in vocab.sac if s.upper() in vocab.keys_p]
    codes_f = [s for s in vocab.sac if s.upper() in vocab.keys_f and s.upper() not in vocab.keys_p]
    parents = [c for c in codes_p] + [c + "f" for c in vocab.sac if c.upper() in vocab.keys_f]
    jobs = {}   # name -> (parent name, op, args)
    for p in parents:
        code = p[:-1] if p.endswith("f") and p[:-1] in vocab.sac else p
        jobs[p] = None
    infos = dict(zip(parents, pmap(chem.residue_info, parents, chunk=4)))
    for p in parents:
        info = infos[p]
        if not info.get("ok") or not info.get("cyclic") or info.get("numbering_agrees") is False:
            continue
        code = p[:-1] if p.endswith("f") and p[:-1] in vocab.sac else p
        ring = "f" if p != code else ""
        free = [n for n, e in info["free"] if e == "O"]
        an = info.get("anomeric")
        if an == 1:
            if code.upper() + "-OL" in vocab.keys_o and ring == "":
                jobs[code + "-ol"] = (p, "ol", ())
                jobs[code + "-onic"] = (p, "onic", ())
                jobs[code + "-aric"] = (p, "aric", ())
            jobs[code + ring + "A"] = (p, "uronic", ())
        for n in free:
            if n != an:
                jobs["%s%s%dd" % (code, ring, n)] = (p, "deoxy", (n,))
                jobs["%d-deoxy-style %dd%s%s" % (n, n, code, ring)] = None
                jobs["%dd%s%s" % (n, code, ring)] = (p, "deoxy", (n,))
        npos = 1 if code in KETO_N1 else 2
        if npos in free and (code in KETO_N1) == (an == 2):
            jobs[code + ring + "N"] = (p, "amino", (npos,))
        ncar = info["ncarbon"]
        for n in range(1, ncar + 1):
            jobs["%s%s%de" % (code, ring, n)] = (p, "epimer", (n,))
        pairs = [(x, y) for x in free for y in free if x < y and y - x >= 2]
        if tier == "quick":
            pairs = rng.sample(pairs, min(3, len(pairs)))
        for x, y in pairs:
            jobs["%d,%d-Anhydro-%s%s" % (x, y, code, ring)] = (p, "anhydro", (x, y))
    for nm, (par, n) in {"ManHep": ("Man", 7), "LDManHep": ("Man", 7), "DDManHep": ("Man", 7), "GlcHep": ("Glc", 7), "GalOct": ("Gal", 8), "AraHex": ("Ara", 6), "XylHex": ("Xyl", 6),
                         "GlcOct": ("Glc", 8), "LyxHex": ("Lyx", 6), "RibHex": ("Rib", 6), "DDGlcHep": ("Glc", 7), "LDGalHep": ("Gal", 7)}.items():
        jobs[nm] = (par, "length", (n,))
    jobs = {k: v for k, v in jobs.items() if v is not None}
    # the same transformations on parents written with an explicit series prefix ('D-Ido-ol' relative to 'D-Ido'): all open forms,
    # a sample of the others
    series = {}
    for row in t["pyranose"] + t["furanose"]:
        if "_" not in row["key"] and row.get("isomer") in (0, 1):      # Enantiomer.D / Enantiomer.L (2 = undefined series)
            series[row["key"]] = row["isomer"]
    pref_jobs = {}
    for name, (par, op, args) in sorted(jobs.items()):
        code = par[:-1] if par.endswith("f") and par[:-1] in vocab.sac else par
        if code.upper() not in series or op == "length" or name[0].isdigit():
            continue
        if op in ("ol", "onic", "aric") or rng.random() < (0.08 if tier == "quick" else 0.5):
            for pre in ("D-", "L-"):
                pref_jobs[pre + name] = (pre + par, op, args)
    jobs.update(pref_jobs)
    parents = parents + sorted({v[0] for v in pref_jobs.values()})
    # pairwise combinations (sampled)
    combos = []
    for _ in range(40 if tier == "quick" else 600):
        p = rng.choice([q for q in codes_p if infos.get(q, {}).get("anomeric") == 1])
        free = [n for n, e in infos[p]["free"] if e == "O" and n != 1]
        if len(free) < 2:
            continue
        a, b = rng.sample(free, 2)
        combos.append(("%s%dd%de" % (p, a, b), p, [("deoxy", (a,)), ("epimer", (b,))]))
        combos.append(("%sA%dd" % (p, a), p, [("uronic", ()), ("deoxy", (a,))]) if max(free) != a else ("%sA" % p, p, [("uronic", ())]))
        combos.append(("%s%deN" % (p, b), p, [("epimer", (b,)), ("amino", (2,))]) if 2 in free and b != 2 else ("%sN" % p, p, [("amino", (2,))]))
    # open-form suffixes combined with a positional prefix / amine: the position is a carbon of the *parent* ('2dGlc-aric' is the
    # 2-deoxy aldaric acid whichever end the open chain is numbered from)
    ol_codes = [c for c in codes_p if c.upper() + "-OL" in vocab.keys_o and infos.get(c, {}).get("anomeric") == 1 and infos[c].get("cyclic")]
    picks = [(c, suf, kind) for c in ol_codes for suf in ("-ol", "-onic", "-aric") for kind in ("d2", "d3", "d4", "e2", "e3", "e4", "N")]
    if tier == "quick":
        picks = rng.sample(picks, min(len(picks), 90))
    for c, suf, kind in picks:
        free = [n for n, e in infos[c]["free"] if e == "O"]
        sop = {"-ol": "ol", "-onic": "onic", "-aric": "aric"}[suf]
        if kind == "N":
            if 2 in free:
                combos.append(("%sN%s" % (c, suf), c, [("amino", (2,)), (sop, ())]))
        else:
            n = int(kind[1])
            if kind[0] == "d" and n in free:
                combos.append(("%dd%s%s" % (n, c, suf), c, [("deoxy", (n,)), (sop, ())]))
            elif kind[0] == "e" and n <= infos[c]["ncarbon"]:
                combos.append(("%de%s%s" % (n, c, suf), c, [("epimer", (n,)), (sop, ())]))
    # an anhydro bridge combined with an epimer / deoxy / uronic modification of the same residue
    for c in [x for x in ("Glc", "Gal", "Man", "All", "Tal", "Gul") if infos.get(x, {}).get("anomeric") == 1]:
        for (x, y) in ((1, 6), (3, 6)):
            for n in (2, 3, 4):
                if n in (x, y):
                    continue
                combos.append(("%d,%d-Anhydro-%s%de" % (x, y, c, n), c, [("epimer", (n,)), ("anhydro", (x, y))]))
                combos.append(("%d,%d-Anhydro-%s%dd" % (x, y, c, n), c, [("deoxy", (n,)), ("anhydro", (x, y))]))
            # the amine 'N' (position-less: C2 of an aldose) on a bridged residue – the bridge may go through C1
            if 2 not in (x, y):
                combos.append(("%d,%d-Anhydro-%sN" % (x, y, c), c, [("amino", (2,)), ("anhydro", (x, y))]))
    names = sorted(set(jobs) | set(parents) | {c[0] for c in combos})
    res = dict(zip(names, pmap(_smi, names, chunk=4)))
    rep.rule = ("every library sugar (pyranose and furanose entries) x {-ol, -onic, -aric, A, n d (suffix and prefix form) for every free position, N, n e for "
                "every carbon, x,y-Anhydro for free position pairs (all in thorough, 3 per sugar in quick)}, chain-length suffixes, sampled pairwise "
                "combinations; Spec: the RDKit graph operation that defines the transformation applied to the parent as the code converts it alone "
                "(positions from the chemistry-level numbering), compared as canonical stereo SMILES; non-trivial = distinct derived name whose parent converts and whose Spec operation applies")
    ops = {"ol": lambda s: chem.reduce_to_alditol(s), "onic": lambda s: chem.op_onic(s), "aric": lambda s: chem.op_onic(s, True), "uronic": chem.op_uronic,
           "deoxy": chem.op_deoxy, "amino": chem.op_amino, "epimer": chem.op_epimer, "anhydro": chem.op_anhydro}

    def judge(name, parent, steps):
        pk, ps = res[parent]
        kind, smi = res[name]
        if pk != "ok" or not ps:
            rep.case(canon=name, nontrivial=False)
            return
        exp = ps
        for op, args in steps:
            if op == "length":
                exp = None
                break
            exp = ops[op](exp, *args) if exp else None
            if exp is None:
                break
        tag = "+".join(op for op, _ in steps)
        rep.count(tag)
        if steps[0][0] == "length":
            n = chem.main_chain_length(smi) if kind == "ok" and smi else None
            rep.case(canon=name, nontrivial=True)
            if n != steps[0][1][0]:
                rep.violation("input", {"iupac": name, "parent": parent, "op": "length"}, {"result": res[name], "main_chain": n}, {"main_chain": steps[0][1][0]}, key="length:" + name)
            return
        if exp is None:
            rep.count("spec-operation-not-applicable")
            rep.case(canon=name, nontrivial=False)
            return
        rep.case(canon=name, nontrivial=True, sample={"iupac": name, "parent": parent, "op": tag, "result": smi} if rep.evaluations % 61 == 0 else None)
        got = chem.canon(smi) if kind == "ok" and smi else (kind, smi)
        if got != exp:
            rep.count("MISMATCH-" + tag)
            rep.extra.setdefault("mismatch_samples", {}).setdefault(tag, [])
            if len(rep.extra["mismatch_samples"][tag]) < 200:
                rep.extra["mismatch_samples"][tag].append({"iupac": name, "got": got, "want": exp})
            rep.violation("input", {"iupac": name, "parent": parent, "op": tag, "args": [list(a) for _, a in steps]}, {"result": got}, {"result": exp},
                          key=("uronic:muramic acid (reactor.py 'A' walk follows the lactyl side chain)" if ("uronic" in tag and parent.startswith("Mur")) else "%s:%s" % (tag, name)))
    for name, (parent, op, args) in sorted(jobs.items()):
        judge(name, parent, [(op, args)])
    # the Lean Model of reactor_basic.py (open-form rewrites, resizing extension) against the code, observed inside real conversions
    import basicx
    bnames = [n for n in names if any(x in n for x in ("-ol", "-onic", "-aric", "Hep", "Hex", "Oct", "Pen"))]
    bnames += [c + suf for c in vocab.sugars_ol for suf in ("-ulosonic", "-ulosaric", "-aric", "Hep-ol", "Oct-onic", "Hex-ulosonic", "Pen-ol")]
    bnames += [pre + c + suf for c in ("Man", "Gal", "Glc", "Ara", "Xyl", "Qui", "Fuc") for pre in ("LD", "DD", "LL", "DL", "L", "D", "LDD", "") for suf in ("Hep", "Oct", "Hex", "Pen")]
    basicx.run(rep, tier, driver, bnames if tier != "quick" else bnames[:500])
    for name, parent, steps in combos:
        judge(name, parent, steps)


def replay(body):
    c = body["case"]
    kind, smi = _smi(c["iupac"])
    got = chem.canon(smi) if kind == "ok" and smi else (kind, smi)
    print(c, "->", got, "expected", body["expected"])
    return 0 if got == body["expected"].get("result") else 1
