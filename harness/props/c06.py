"""C06 — the three notations are one language."""
import random
import re

import chem
import chemgen
import gen
import real
from common import seed, pmap

KNOWN_KEY = "short-form linkage whose child is a 2-ketose (walker.py:__add_edge ketoses2 lookup)"


def _smiles(s):
    kind, smi = real.smiles_of(s)
    if kind != "ok":
        return ("exc", smi)
    return ("ok", chem.canon(smi) if smi else "")


def _tree(s):
    return real.canon_tree(real.real_tree(s))


def spell_out(t, cv, vocab, rng, what):
    """copy of tree t with a default spelled out in every residue name where that is possible"""
    rows = {r["key"]: r for r in vocab.tables["pyranose"]}

    def conv(name):
        m = re.match(r"^((?:\d,\d-Anhydro-)?)(D-|L-)?([A-Z][a-z]+?)((?:Hep|Hex|Oct|Pen)?)((?![a-z]).*)$", name)
        if not m:
            return name
        pre, dl, code, size, rest = m.groups()
        if code.upper() not in rows and (code + size).upper() in rows:
            code, size = code + size, ""
        code_, code = code, code + size            # the ring letter follows the chain-length name ('ManHepp')
        row = rows.get(code_.upper())
        if what == "ring" and row and not rest.startswith(("p", "f")) and code_.upper() in vocab.keys_p:
            return pre + (dl or "") + code + "p" + rest
        if what == "series" and row and dl is None and row["isomer"] in (0, 1) and not rest.startswith("f"):
            return pre + ("D-" if row["isomer"] == 0 else "L-") + code + rest
        return name
    return gen.T(conv(t.name), [(l, spell_out(k, cv, vocab, rng, what)) for l, k in t.kids])


def has_ketose_short(t, cv):
    for node in t.nodes():
        for l, k in node.kids:
            if cv.get(k.name) and cv.get(k.name).get("anomeric") == 2:
                return True
    return False


def run(rep, tier, driver):
    rng = random.Random(seed() * 65537 + 6)
    vocab = gen.Vocab()
    cv = chemgen.ChemVocab(vocab, tier)
    rep.rule = ("(a) every connection form of rule 'con' x anomer {a,b,?} x child position {1,2,3} x parent position {1..9,?} on fixed residue "
                "pairs, exhaustively: edge label of code = Model = Spec normal form; (b) random well-formed trees rendered in full / condensed / "
                "short / mixed notation and with defaults spelled out (ring letter p, own D-/L- series, anomer as suffix vs after a blank): same "
                "molecule (RDKit canonical SMILES). non-trivial = distinct variant string converted non-empty")
    # ---------------- (a) exhaustive connection forms
    forms = []
    for child, parent in [("Gal", "Glc"), ("Neu5Ac", "Gal"), ("Kdo", "GlcN"), ("Fruf", "Glc"), ("Man", "Man")]:
        for a in ["a", "b", "?"]:
            for i in [1, 2, 3, 10]:
                for j in [1, 2, 3, 4, 5, 6, 7, 8, 9, 10, 11, 12, 25, "?"]:
                    forms.append((child, parent, "(%s%s-%s)" % (a, i, j), "(%s%s-%s)" % (a, i, j), "full"))
                    forms.append((child, parent, "%s%s-%s" % (a, i, j), "(%s%s-%s)" % (a, i, j), "condensed"))
                    if a != "?":
                        forms.append((child, parent, "(%s-%s)" % (i, j), "(%s-%s)" % (i, j), "nosym"))
            for j in [1, 2, 3, 4, 5, 6, 7, 8, 9, 10, 11, 12, 25]:
                d = 2 if child in ("Neu5Ac", "Kdo") else (2 if child == "Fruf" else 1)
                forms.append((child, parent, "%s%s" % (a, j), "(%s%d-%s)" % (a, d, j), "short"))
    seen = set()
    forms = [f for f in forms if not ((f[0], f[1], f[2]) in seen or seen.add((f[0], f[1], f[2])))]
    strings = [c + con + p for c, p, con, _, _ in forms]
    trees = pmap(_tree, strings, chunk=32)
    models = driver.ask_many({"op": "front", "s": s} for s in strings) if driver else [None] * len(strings)
    for (child, parent, con, want, kind), s, tr, m in zip(forms, strings, trees, models):
        rep.count("con-" + kind)
        ok = tr is not None and not (tr and tr[0] == "EXC")
        rep.case(canon=s, nontrivial=ok)
        if not ok:
            # the grammar decides acceptance (C15); here only check the model agrees
            if m is not None and m.get("verdict") == "ok":
                rep.broken.append("con form %r: code rejects, model accepts" % s)
            continue
        label = tr[1][0][0][1] if tr[1][0] else None
        if m is not None:
            mt = real.canon_tree(real.model_tree(m))
            if mt != tr:
                rep.broken.append("con form %r: code %r vs model %r" % (s, tr, mt))
        if label != want:
            ketose_short = kind == "short" and child in ("Neu5Ac", "Kdo")
            # Fruf is a 2-ketose by chemistry but not in ketoses2 as a furanose; the property text names Fru: judged with the pyranose list only
            if kind == "short" and child == "Fruf":
                rep.count("short-Fruf-default-1 (furanose not in ketoses2)")
                continue
            rep.violation("input", {"iupac": s, "form": kind}, {"label": label}, {"label": want}, key=KNOWN_KEY if ketose_short else "label:" + s)
    # ---------------- (b) random trees in all notations
    n = 150 if tier == "quick" else 1500
    jobs, meta = [], []
    for i in range(n):
        t = cv.random_tree(rng, rng.randint(2, 9 if tier == "quick" else 20))
        if t.size() < 2:
            continue
        suffix = rng.choice(["", "a", "b"]) if cv.get(t.name).get("anomeric") else ""
        # a linkage written without parentheses is only unambiguous when the following residue name does not begin with a digit or '-'
        for node in t.nodes():
            for l, k in node.kids:
                l["safe"] = not (node.name[0].isdigit() or node.name[0] == "-")
        ref = gen.render(t, "full") + ((" " + suffix) if suffix else "")
        variants = {"full": ref,
                    "condensed": gen.render(t, "full", pick=lambda l: "condensed" if l["safe"] else "full") + ((" " + suffix) if suffix else ""),
                    "mixed": gen.render(t, "full", pick=lambda l: rng.choice(["full", "condensed"]) if l["safe"] else "full") + ((" " + suffix) if suffix else ""),
                    "ring": gen.render(spell_out(t, cv, vocab, rng, "ring"), "full") + ((" " + suffix) if suffix else ""),
                    "series": gen.render(spell_out(t, cv, vocab, rng, "series"), "full") + ((" " + suffix) if suffix else "")}
        if suffix and re.match(r"^.*[A-Za-z]$", ref[:-2]) and not ref[:-2].endswith(("a", "b")):
            variants["suffix"] = gen.render(t, "full") + suffix
        # short notation only says the parent position: usable when every child position is its sugar's anomeric carbon (always here)
        variants["short"] = gen.render(t, "full", pick=lambda l: "short" if l["safe"] else "full") + ((" " + suffix) if suffix else "")
        for k, v in variants.items():
            jobs.append(v)
            meta.append((i, k, ref, has_ketose_short(t, cv)))
    # directed: residues written with several tokens (chain-length suffix, uronic / amino / deoxy / sulfate / alditol forms), alone,
    # as child and as parent, with the ring letter and the own series spelled out
    base_i = n
    rows_p = {r["key"]: r for r in vocab.tables["pyranose"]}
    dcodes = [c for c in ["Man", "Glc", "Gal", "Ara", "Xyl", "Fuc", "Rha", "Ido", "Alt", "Tal", "Gul", "All", "Rib", "Lyx", "Qui"] if c.upper() in rows_p]
    rests = ["Hep", "Oct", "Hex", "A", "N", "NAc", "6S", "2Ac", "-ol", "3Me", "Hep6S", "OctA"]
    picks = [(c, r) for c in dcodes for r in rests]
    if tier == "quick":
        picks = rng.sample(picks, 60)
    for c, r in picks:
        nm = c + r
        for shape in ("alone", "child", "parent"):
            if shape == "alone":
                t = gen.T(nm)
            elif shape == "child":
                if r == "-ol":
                    continue
                t = gen.T("Glc", [({"anomer": "a", "cpos": 1, "ppos": 4}, gen.T(nm))])
            else:
                t = gen.T(nm, [({"anomer": "b", "cpos": 1, "ppos": 3}, gen.T("Gal"))])
            ref = gen.render(t, "full")
            base_i += 1
            for k, v in {"full": ref, "ring": gen.render(spell_out(t, cv, vocab, rng, "ring"), "full"),
                         "series": gen.render(spell_out(t, cv, vocab, rng, "series"), "full")}.items():
                if k != "full" and v == ref:
                    continue
                jobs.append(v)
                meta.append((base_i, k, ref, False))
    res = pmap(_smiles, jobs, chunk=4)
    refs = {}
    for (i, k, ref, ks), s, r in zip(meta, jobs, res):
        if k == "full":
            refs[i] = r
    for (i, k, ref, ks), s, r in zip(meta, jobs, res):
        rep.count("variant-" + k)
        rep.case(canon=s, nontrivial=(r[0] == "ok" and bool(r[1])), sample={"variant": k, "iupac": s, "reference": ref} if rep.evaluations % 211 == 0 else None)
        if k == "full":
            continue
        if r != refs[i]:
            key = KNOWN_KEY if (k == "short" and ks) else "variant:" + s
            rep.violation("input", {"iupac": s, "variant": k, "reference": ref}, {"result": r}, {"result": refs[i]}, key=key)
    # ---------------- (c) the Lean Model of MonomerFactory.create (C06_ring_default, C06_anomer_suffix are about it) against factory.py
    import createx
    codes = vocab.sac + vocab.lits["COUNT"]
    names = [c + r + sfx for c in codes for r in ("", "p", "f") for sfx in ("", "a", "b", " a")]
    names += [pre + c + suf for c in codes for pre, suf in (("D-", ""), ("L-", "a"), ("", "-ol"), ("", "-onic"), ("6d", ""), ("", "2NAc"), ("", "A"))]
    names += cv.names
    rng.shuffle(names)
    names = [c + "-ol" for c in vocab.sugars_ol] + names          # open-table rows first: the quick tier truncates
    createx.run(rep, tier, driver, names)


def replay(body):
    c = body["case"]
    if "reference" in c:
        a, b = _smiles(c["iupac"]), _smiles(c["reference"])
        print(c["iupac"], a)
        print(c["reference"], b)
        return 0 if a == b else 1
    tr = _tree(c["iupac"])
    print(c["iupac"], tr, "expected", body["expected"])
    return 0 if tr and tr[1][0] and tr[1][0][0][1] == body["expected"]["label"] else 1
