"""C17 — command-line contract."""
import json
import os
import random
import shutil
import subprocess
import sys
import tempfile

import apigen
import apirun
import gen
from common import seed, pmap, REPO


def _spec(x):
    return apigen.spec_smiles(x)


def _run(call):
    return apirun.run_calls([call])[0]


def expand(args):
    out = []
    for a in args:
        if isinstance(a, dict):
            out += apigen.file_lines_spec(a["file"])
        else:
            out.append(a)
    return out


def run(rep, tier, driver):
    rng = random.Random(seed() * 29 + 17)
    vocab = gen.Vocab()

    def lit():
        x = apigen.random_input(rng, vocab, p_bad=0.3)
        # a literal argument containing a line terminator cannot be listed on one line: outside the contract, not generated
        if not isinstance(x, str) or x == "" or x.startswith("-") or "\x00" in x or len(x) > 200 or any(c in x for c in "\n\r\x0b\x0c\x1c\x1d\x1e\x85\u2028\u2029"):
            x = rng.choice(apigen.GOOD + ["Gal,Glc", "Glc,", "Man(a1-2)Man,Man"])
        return x

    def file_arg():
        k = rng.choice([0, 0, 1, 2, 3, 5])
        raw = []
        for _ in range(k):
            x = lit() if rng.random() < 0.85 else ""
            if "\n" in x or "\r" in x:
                x = "Glc"
            if rng.random() < 0.2:
                # characters that str.splitlines() treats as line boundaries but a text file read line by line does not
                sep = rng.choice(["\x0b", "\x0c", "\x1c", "\x1d", "\x1e", "\x85", "\u2028", "\u2029"])
                x = rng.choice([x + sep, x + sep + rng.choice(apigen.GOOD), sep + x])
            raw.append(rng.choice(["", "", " ", "\t"]) + x + rng.choice(["", " ", "  "]))
        nl = rng.choice(["\n", "\n", "\r\n", "\r"])
        text = nl.join(raw)
        if raw and rng.random() < 0.7:
            text += nl
        return {"file": text}
    calls = []
    shapes = ["single-lit", "single-file", "single-empty-file", "mixed", "mixed", "mixed", "lits", "files"]
    for i in range(60 if tier == "quick" else 600):
        sh = shapes[i % len(shapes)]
        if sh == "single-lit":
            args = [lit()]
        elif sh == "single-file":
            args = [file_arg()]
        elif sh == "single-empty-file":
            args = [{"file": rng.choice(["", "\n", "  \n"])}]
        elif sh == "lits":
            args = [lit() for _ in range(rng.randint(2, 5))]
        elif sh == "files":
            args = [file_arg() for _ in range(rng.randint(2, 3))]
        else:
            args = [file_arg() if rng.random() < 0.4 else lit() for _ in range(rng.randint(2, 6))]
        calls.append(({"fn": "cli", "args": args}, sh))
    # literal arguments that stress the "is this a file?" test: longer than a file-name component may be (255 bytes), longer than a
    # path may be, with path separators, naming a directory
    long_ok = ["Man(a1-2)" * k + "Man" for k in (27, 28, 29, 30, 45)] + ["Glc(a1-4)" * 460 + "Glc"]
    long_bad = ["Glc" + "2Ac" * 100, "Xyz" * 120, "Man(a1-2)" * 30 + "Unk"]
    odd = ["./Glc", "a/b/Man", "/", ".", "..", "~", "/tmp", "Glc/", "C:\\Glc"]
    for xs in ([long_ok[0]], [long_ok[3]], [long_bad[0]], [long_ok[2], "Glc", long_bad[1]], [{"file": "Glc\nMan\n"}, long_ok[4], "Gal"], ["Glc", long_bad[2], {"file": "Gal\n"}],
               [long_ok[5]], ["Gal", long_ok[5]], [odd[0], "Glc"], [odd[1], odd[2], "Man"], [odd[3]], ["Glc", odd[4], odd[5]], [odd[6], "Glc"], [odd[7], odd[8]], [long_ok[1], long_ok[1]]):
        calls.append(({"fn": "cli", "args": list(xs)}, "long-or-pathlike-literal"))
    rep.rule = ("argument lists mixing literal glycans (convertible, failing, with commas) and files (empty, blank lines, padded lines, LF/CRLF): single "
                "literal, single file, single empty file, several of each; run through glyles.__main__.main in-process and `python -m glyles` in a "
                "scratch directory; Spec: the -o file has one line 'glycan,SMILES' per glycan of args.flatMap(expand), in order, SMILES = "
                "Glycan(glycan).get_smiles() or ''; non-trivial = distinct argument list with >=2 glycans of which one fails and one converts")
    distinct = sorted({g for c, _ in calls for g in expand(c["args"])})
    spec = dict(zip(distinct, pmap(_spec, distinct, chunk=2)))
    obs = pmap(_run, [c for c, _ in calls], chunk=1)
    for (c, sh), o in zip(calls, obs):
        gs = expand(c["args"])
        want = ["%s,%s" % (g, spec[g]) for g in gs]
        mixed = len({bool(spec[g]) for g in gs}) == 2
        rep.count(sh)
        rep.case(canon=c, nontrivial=mixed, sample={"args": c["args"], "lines": want[:4]} if rep.evaluations % 13 == 0 else None)
        if o["exc"]:
            rep.violation("argv", c, {"exception": o["exc"]}, {"lines": want}, key="exc:" + json.dumps(c, sort_keys=True)[:200])
            continue
        got = o.get("file")
        if got is None:
            if want:
                rep.violation("argv", c, {"file": None}, {"lines": want}, key="nofile:" + json.dumps(c, sort_keys=True)[:200])
            else:
                rep.count("zero-glycans-no-file-written (accepted: nothing to list)")
            continue
        lines = got.split("\n")
        if lines and lines[-1] == "":
            lines = lines[:-1]
        if lines != want:
            rep.violation("argv", c, {"lines": lines}, {"lines": want}, key="lines:" + json.dumps(c, sort_keys=True)[:200])
        if driver is not None:
            # the Model splits the file content into lines (universal newlines) and strips them itself
            req = {"op": "cli", "args": [({"content": a["file"]} if isinstance(a, dict) else a) for a in c["args"]],
                   "conv": {g: spec[g] for g in gs}}
            ans = driver.ask(req)
            if ans.get("lines") != (lines if want or got is not None else None):
                rep.broken.append("cli model: %r vs code %r on %r" % (ans.get("lines"), lines, c))
    # the real command in a scratch directory
    scratch = tempfile.mkdtemp(prefix="glyverif_c17_")
    try:
        for i, (c, sh) in enumerate(calls[: (6 if tier == "quick" else 40)]):
            argv = []
            for j, a in enumerate(c["args"]):
                if isinstance(a, dict):
                    p = os.path.join(scratch, "a_%d_%d.txt" % (i, j))
                    open(p, "w", newline="").write(a["file"])
                    argv.append(p)
                else:
                    argv.append(a)
            outp = os.path.join(scratch, "o_%d.txt" % i)
            pr = subprocess.run([sys.executable, "-m", "glyles", "-i"] + argv + ["-o", outp], cwd=scratch, env=dict(os.environ, PYTHONPATH=REPO),
                                capture_output=True, text=True, timeout=900)
            gs = expand(c["args"])
            want = ["%s,%s" % (g, spec[g]) for g in gs]
            got = open(outp, newline="").read().split("\n") if os.path.exists(outp) else None
            if got and got[-1] == "":
                got = got[:-1]
            rep.count("subprocess")
            rep.case(canon=["subprocess", c], nontrivial=len(gs) >= 2)
            if (got or []) != want:
                rep.violation("argv", c, {"lines": got, "rc": pr.returncode, "stderr": pr.stderr[-300:]}, {"lines": want}, key="subprocess:" + json.dumps(c, sort_keys=True)[:200])
    finally:
        shutil.rmtree(scratch, ignore_errors=True)


def replay(body):
    o = _run(body["case"])
    print(json.dumps(o)[:2000])
    print("expected:", body["expected"])
    exp = body["expected"]
    lines = (o.get("file") or "").split("\n")
    if lines and lines[-1] == "":
        lines = lines[:-1]
    return 0 if isinstance(exp, dict) and lines == exp.get("lines") else 1
