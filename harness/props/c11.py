"""C11 — conversions do not influence each other or the host process."""
import json
import random

import apigen
import gen
from common import seed, pmap

GLY = ["Man(a1-4)Glc b", "Gal(b1-4)GlcNAc a", "Fuc(a1-2)[Gal(b1-3)]GlcNAc b", "Glc", "Glc-ol", "Gal-ol", "Man-onic", "Glc-aric", "GlcA", "Neu5Ac(a2-3)Gal", "Man(a1-3)[Man(a1-6)]Man", "LDManHep", "Kdo-ulosonic", "Gal(b1-4)Glc-ol",
       "1,6-Anhydro-Glc", "Glc3e", "D-Glc", "L-Glc", "GlcNAc a", "Fruf", "Ara-ol", "Api-ol", "ManHep", "Xyl-onic", "Gal(b1-4)GlcNAc b", "Glc6Ole(a1-4)Glc",
       "Gal-ulosonic", "3dGal-ulosonic", "Glc-ulosaric", "GalOct-ol", "3dGalOct-ulosonic", "ManHep-onic", "Man-ulosonic", "3dHex-ulosonic", "Hex-ol", "Gal-onic", "Man-aric"]
BAD = ["Glc(", "", "Unk", "Glc#Man", "Glc(a1-?)Glc", "Glc(a1-1)Glc(a1-4)Glc", "Glc9S", "Man(a1-2", "xyz", {"none": 1}, {"int": 3}]


def random_call(rng):
    r = rng.random()
    g = lambda: rng.choice(GLY) if rng.random() < 0.65 else rng.choice(BAD)
    if r < 0.35:
        c = {"fn": "convert", "glycan_list": [g() for _ in range(rng.randint(0, 4))]}
        if rng.random() < 0.5:
            c["verbose_none"] = 1
        if rng.random() < 0.3:
            c["glycan"] = g()
        if rng.random() < 0.2:
            c["sink"] = rng.choice(["file", "stdout"])
        if rng.random() < 0.2:
            c["full"] = False
        if rng.random() < 0.08:
            c["missing_file"] = 1
        if c.get("sink") == "file" and rng.random() < 0.4:
            c["bad_dir"] = True
        return c
    if r < 0.5:
        c = {"fn": "convert_generator", "glycan_list": [g() for _ in range(rng.randint(0, 4))]}
        if rng.random() < 0.6:
            c["verbose_none"] = 1
        if rng.random() < 0.4:
            c["take"] = 1
        elif rng.random() < 0.35:
            c["unstarted"] = rng.choice(["drop", "close", "islice0"])
        if rng.random() < 0.3:
            c["generator"] = [g() for _ in range(rng.randint(0, 3))]
        return c
    x = g()
    opts = {}
    if rng.random() < 0.2:
        opts["full"] = False
    if rng.random() < 0.2:
        opts["root_orientation"] = rng.choice(["a", "b"])
    if rng.random() < 0.15:
        opts["tree_only"] = True
    methods = []
    for _ in range(rng.randint(1, 5)):
        m = rng.choice(["get_smiles", "get_smiles", "summary", "count", "save_dot", "tree"])
        if m == "count":
            if isinstance(x, str) and rng.random() < 0.5:
                # the glycan's own reducing-end residue / the glycan itself, molecule-level matching
                q = x.split(")")[-1].split("]")[-1] if rng.random() < 0.5 else x
                methods.append(["count", q, {"match_all_fg": True, ("match_root" if "(" not in q else "match_nodes"): True}])
            else:
                methods.append(["count", rng.choice(["Glc", "Man", "Gal", "GlcNAc"]), {"match_nodes": True}])
        else:
            methods.append([m])
    return {"fn": "glycan", "iupac": x, "opts": opts, "methods": methods}


def _history(calls):
    try:
        return apigen.run_fresh(calls)
    except Exception as e:
        return {"error": repr(e)[:300]}


def clean(o):
    o = dict(o)
    return o


def run(rep, tier, driver):
    rng = random.Random(seed() * 31 + 11)
    nh = 16 if tier == "quick" else 120
    maxlen = 10 if tier == "quick" else 40
    histories = [[random_call(rng) for _ in range(rng.randint(3, maxlen))] for _ in range(nh)]
    # targeted histories: the same open-form / resized / anomer residue before and after other conversions, repeated calls
    for a, b in [("Glc-ol", "Glc-onic"), ("Gal-ol", "Gal-aric"), ("Man-onic", "Man-ol"), ("Kdo-ulosonic", "Kdo"), ("GlcNAc a", "GlcNAc"), ("LDManHep", "Man"), ("Glc-aric", "Glc-ol")]:
        histories.append([{"fn": "glycan", "iupac": a, "methods": [["get_smiles"]]}, {"fn": "glycan", "iupac": b, "methods": [["get_smiles"]]},
                          {"fn": "glycan", "iupac": a, "methods": [["get_smiles"], ["summary"], ["get_smiles"]]},
                          {"fn": "convert", "glycan_list": [a, b, a], "verbose_none": 1}, {"fn": "glycan", "iupac": b, "methods": [["get_smiles"]]}])
    # every open-form suffix of a sugar followed by every other open form of the same sugar (the class-level record must not remember anything)
    sufs = ["-ol", "-onic", "-aric", "-ulosonic", "-ulosaric"]
    for sugar in (["Gal", "Glc"] if tier == "quick" else ["Gal", "Glc", "Man", "Xyl", "Hex", "Ara"]):
        for pre in ["", "3d"]:
            for s1 in sufs:
                histories.append([{"fn": "glycan", "iupac": pre + sugar + s1, "methods": [["get_smiles"]]}] +
                                 [{"fn": "glycan", "iupac": sugar + s2, "methods": [["get_smiles"]]} for s2 in sufs] +
                                 [{"fn": "glycan", "iupac": sugar + "Oct-ol", "methods": [["get_smiles"]]}])
    # one Glycan object, the same query before and after the other methods (with and without full: with full=False nothing is assembled
    # before the first get_smiles)
    for g in ["Man(a1-4)Glc b", "Gal(b1-4)GlcNAc a", "Man(a1-3)[Man(a1-6)]Man b", "Neu5Ac(a2-3)Gal(b1-4)Glc a", "Gal(b1-4)Glc"]:
        root = g.split(")")[-1].split("]")[-1]
        for opts in ({}, {"full": False}):
            qs = [["count", root, {"match_all_fg": True, "match_root": True}], ["count", g, {"match_all_fg": True, "match_nodes": True}],
                  ["count", root, {"match_some_fg": True, "match_nodes": True}], ["tree"]]
            histories.append([{"fn": "glycan", "iupac": g, "opts": opts, "methods": qs + [["get_smiles"]] + qs + [["summary"], ["save_dot"]] + qs + [["get_smiles"]]}])
    # the same input under different options in one interpreter (a result remembered under one option value must not be handed out
    # under another): partially convertible glycans with full=False then full=True, and the reverse
    for g in ["Glc9S", "Man(a1-4)Glc7S", "Gal(b1-4)Glc6Leu", "Glc3Alloc", "Glc2en", "Glc3Leu", "Man(a1-4)Glc2en", "Glc(a1-?)Glc", "Glc"]:
        for first in (False, True):
            a, b = {"full": first}, {"full": not first}
            histories.append([dict({"fn": "convert", "glycan_list": [g, "Gal"]}, **a), dict({"fn": "convert", "glycan_list": ["Gal", g]}, **b),
                              dict({"fn": "convert_generator", "glycan_list": [g]}, **b), dict({"fn": "convert", "glycan": g}, **a),
                              {"fn": "glycan", "iupac": g, "opts": b, "methods": [["get_smiles"]]}, dict({"fn": "convert_generator", "glycan_list": [g, g]}, **a)])
    # tree_only objects: the tree handed out, counts and the dot file must be the same before and after get_smiles / summary
    for g in ["Glc6S", "Man(a1-4)Glc6S", "3dGalOct-ulosonic", "Neu5Ac(a2-3)Gal6S(b1-4)GlcNAc", "Glc2NAc3Me"]:
        root = g.split(")")[-1].split("]")[-1]
        for opts in ({"tree_only": True}, {"tree_only": True, "full": False}, {"tree_only": True, "root_orientation": "b"}):
            qs = [["count", root, {"match_all_fg": True, "match_root": True}], ["count", g, {"match_all_fg": True, "match_nodes": True}], ["tree"], ["save_dot"]]
            histories.append([{"fn": "glycan", "iupac": g, "opts": opts, "methods": qs + [["get_smiles"]] + qs + [["summary"]] + qs}])
    # generators that are never advanced (nothing may happen, the logger switch included), and the fall-back to stdout when the
    # directory of the output file does not exist (the host's stdout must stay open), followed by ordinary calls
    for how in ("drop", "close", "islice0"):
        histories.append([{"fn": "convert_generator", "glycan_list": ["Glc", "Man(a1-4)Glc"], "verbose_none": 1, "unstarted": how},
                          {"fn": "convert", "glycan": "Gal", "verbose_none": 1},
                          {"fn": "convert_generator", "glycan_list": ["Glc"], "generator": ["Gal", "Xyz"], "verbose_none": 1, "unstarted": how},
                          {"fn": "convert_generator", "glycan_list": ["Glc"]}])
    histories.append([{"fn": "convert", "glycan_list": ["Glc", "Man(a1-4)Glc"], "sink": "file", "bad_dir": True, "verbose_none": 1},
                      {"fn": "convert", "glycan": "Gal", "sink": "stdout", "verbose_none": 1},
                      {"fn": "convert", "glycan": "Gal", "sink": "file", "bad_dir": True}])
    rep.rule = ("random call histories (convert, convert_generator incl. abandoned generators, Glycan construction + get_smiles/summary/count/"
                "save_dot/get_tree in random order; good and failing inputs; verbose=None, file/stdout sinks, missing file) executed in one fresh "
                "interpreter, and every call of every history executed alone in its own fresh interpreter; Spec: identical result, root logger "
                "switch back to its prior value, stdout = the documented listing only, caller list unchanged, the three class-level tables "
                "unchanged; non-trivial = distinct (history position, call) that follows at least one other call")
    distinct = {}
    for h in histories:
        for c in h:
            distinct.setdefault(json.dumps(c, sort_keys=True), c)
    keys = list(distinct)
    jobs = [[distinct[k]] for k in keys] + histories
    res = pmap(_history, jobs, chunk=1)
    alone = {}
    for k, r in zip(keys, res[:len(keys)]):
        if isinstance(r, dict):
            rep.broken.append("fresh run failed: " + r["error"])
            return
        alone[k] = r[0]
    tables0 = None
    for h, r in zip(histories, res[len(keys):]):
        if isinstance(r, dict):
            rep.broken.append("history run failed: " + r["error"])
            continue
        for i, (c, o) in enumerate(zip(h, r)):
            k = json.dumps(c, sort_keys=True)
            ref = alone[k]
            rep.count(c["fn"])
            rep.case(canon=[i, k], nontrivial=i > 0, sample={"position": i, "call": c} if rep.evaluations % 41 == 0 else None)
            tables0 = tables0 or ref["tables"]
            for field, what in [("result", "result differs from the fresh-interpreter result"), ("exc", "exception differs"), ("file", "file content differs")]:
                if o.get(field) != ref.get(field):
                    rep.violation("history", {"history": h[:i + 1], "position": i}, {field: o.get(field)}, {field: ref.get(field), "note": what},
                                  key="history:%s:%s" % (field, json.dumps(h[:i + 1], sort_keys=True)[:300]))
            if c["fn"] == "glycan" and isinstance(o.get("result"), list):
                # the same method of the same object, called again after other methods, must answer the same
                seen_m = {}
                for mth, r in zip(c.get("methods", []), o["result"]):
                    mk = json.dumps(mth, sort_keys=True)
                    if mk in seen_m and seen_m[mk] != r:
                        rep.violation("history", {"history": h[:i + 1], "position": i, "method": mth}, {"again": r}, {"first": seen_m[mk], "note": "repeated method call on one Glycan object"},
                                      key="repeat:%s:%s" % (mk[:100], k[:200]))
                    seen_m.setdefault(mk, r)
            if o["logger_disabled"]:
                rep.violation("history", {"history": h[:i + 1], "position": i}, {"logger_disabled": True}, {"logger_disabled": False}, key="logger:" + k[:300])
            if o.get("stdout_closed"):
                rep.violation("history", {"history": h[:i + 1], "position": i}, {"sys.stdout.closed": True},
                              {"sys.stdout.closed": False, "note": "the fall-back to stdout must leave the host's stdout open"}, key="stdout-closed:" + k[:300])
            if o["tables"] != ref["tables"] or ref["tables"] != tables0:
                rep.violation("history", {"history": h[:i + 1], "position": i}, {"tables": o["tables"]}, {"tables": tables0, "note": "class-level monomer tables must not change"},
                              key="tables:" + k[:300])
            if o.get("caller_list_unchanged") is False:
                rep.violation("history", {"history": [c]}, {"caller_list_unchanged": False}, {"caller_list_unchanged": True}, key="callerlist:" + k[:300])
            # stdout: only the documented listing
            if c["fn"] == "convert" and c.get("sink") == "stdout":
                pass
            elif o["stdout"] != "":
                rep.violation("history", {"history": [c]}, {"stdout": o["stdout"][:300]}, {"stdout": ""}, key="stdout:" + k[:300])
    # every single call alone: logger / stdout / tables (position 0)
    for k, o in alone.items():
        c = distinct[k]
        rep.case(canon=[0, k], nontrivial=False)
        if o["logger_disabled"]:
            rep.violation("history", {"history": [c]}, {"logger_disabled": True}, {"logger_disabled": False}, key="logger:" + k[:300])
        if not (c["fn"] == "convert" and c.get("sink") == "stdout") and o["stdout"] != "":
            rep.violation("history", {"history": [c]}, {"stdout": o["stdout"][:300]}, {"stdout": ""}, key="stdout:" + k[:300])
    # tie of the Lean World model of convert / convert_generator (C11_logger_restored, C11_stdout_clean, C11_files_untouched, ...) to
    # converter.py: for every distinct call, the model's logger switch, stdout lines and file lines against what was observed
    if driver is not None:
        model_world(rep, driver, distinct, alone)


def model_world(rep, driver, distinct, alone):
    def enc(x):
        return {"s": x} if isinstance(x, str) else {"o": 1}
    n = bad = 0
    for k, c in distinct.items():
        o = alone[k]
        if c["fn"] not in ("convert", "convert_generator") or c.get("missing_file") or c.get("take") is not None or o.get("exc") or c.get("unstarted") or c.get("bad_dir"):
            continue
        # per-glycan outcomes as observed (the conv parameter of the model): from the returned pairs, or from the listing lines
        inputs = ([c["glycan"]] if "glycan" in c and not (isinstance(c["glycan"], dict) and "none" in c["glycan"]) else []) + \
            list(c.get("glycan_list", [])) + list(c.get("generator", []))
        conv = {}
        sink = c.get("sink", "return") if c["fn"] == "convert" else "return"
        if sink == "return":
            for a, b in (o["result"] or []):
                if isinstance(a, str):
                    conv[a] = b
        else:
            text = o["stdout"] if sink == "stdout" else (o.get("file") or "")
            lines = text.split("\n")[:-1] if text.endswith("\n") else text.split("\n")
            strs = [x for x in inputs]
            if len(lines) != len(strs):
                continue            # judged by the Spec part above / C12
            for x, l in zip(strs, lines):
                if isinstance(x, str) and l.startswith(x + ","):
                    conv[x] = l[len(x) + 1:]
        conv = {a: b for a, b in conv.items() if b != ""}
        req = {"op": "convert", "gen_fn": c["fn"] == "convert_generator",
               "single": [enc(c["glycan"])] if ("glycan" in c and not (isinstance(c["glycan"], dict) and "none" in c["glycan"])) else [],
               "list": [enc(x) for x in c["glycan_list"]] if "glycan_list" in c else None,
               "file": None, "gen": [enc(x) for x in c["generator"]] if "generator" in c else None,
               "conv": conv, "verbose_none": bool(c.get("verbose_none")), "sink": sink, "logger_disabled": False}
        a = driver.ask(req)
        n += 1
        rep.count("world-model-compared")
        want_stdout = o["stdout"].split("\n")[:-1] if o["stdout"].endswith("\n") else ([] if o["stdout"] == "" else o["stdout"].split("\n"))
        ftext = o.get("file")
        want_file = None if ftext is None else (ftext.split("\n")[:-1] if ftext.endswith("\n") else ftext.split("\n"))

        def norm(lines):
            # non-string inputs are printed with their Python repr by the code; the model writes a placeholder
            return None if lines is None else [l if not l.startswith("<obj") else "<obj>" for l in lines]
        objs = any(not isinstance(x, str) for x in inputs)
        ok = a.get("logger_after") == o["logger_disabled"]
        if not objs:
            ok = ok and norm(a.get("stdout")) == want_stdout and (sink != "file" or norm(a.get("file")) == want_file)
        else:
            ok = ok and len(a.get("stdout") or []) == len(want_stdout)
        if not ok:
            bad += 1
            if bad <= 3:
                rep.broken.append("convert world model: %r vs code stdout %r file %r logger %r on %r" % (a, want_stdout, want_file, o["logger_disabled"], c))
    rep.extra["world_model"] = {"calls_compared": n, "disagree": bad}


def replay(body):
    h = body["case"]["history"]
    r = apigen.run_fresh(h)
    ref = apigen.run_fresh([h[-1]])[0]
    print("in history:", json.dumps(r[-1])[:800])
    print("alone     :", json.dumps(ref)[:800])
    same = all(r[-1].get(f) == ref.get(f) for f in ("result", "exc", "file", "tables")) and not r[-1]["logger_disabled"]
    return 0 if same else 1
