"""Shared plumbing for the checks: paths, Lean driver process, real-code access, evidence, replay, known findings."""
import json
import os
import subprocess
import sys
import time
import logging
import hashlib

VERIF = os.path.dirname(os.path.dirname(os.path.abspath(__file__)))
REPO = os.environ.get("GLYLES_REPO", "/repo")
LEAN_DIR = os.path.join(VERIF, "lean")
DRIVER = os.path.join(LEAN_DIR, ".lake/build/bin/driver")
BUILD = os.path.join(VERIF, "build")
EVIDENCE = os.environ.get("VERIF_EVIDENCE_DIR", os.path.join(VERIF, "evidence"))   # trial runs against seeded changes write elsewhere
REPLAY = os.path.join(VERIF, "replay")
CORPUS = os.path.join(VERIF, "corpus")
GUARD = "GLYLES_VERIF"

TRUSTED_BASE = [
    "Lean 4.33.0 kernel (axioms allowed: propext, Classical.choice, Quot.sound; no native_decide/bv_decide/sorry)",
    "tools/extract.py + tools/g4.py (translator: Glycan.g4 and the data tables -> lean/GlyModel/Generated)",
    "harness/*.py (correspondence check, generators, canonicalisation) and lean/Main.lean (line-protocol driver)",
    "RDKit (MolFromSmiles/MolToSmiles/canonical SMILES as molecule-equality oracle), ANTLR 4.13 runtime, networkx, numpy, joblib: modelled at their interface, not verified",
]


def seed():
    try:
        return int(os.environ.get("VERIF_SEED", "0"))
    except ValueError:
        return 0


def import_glyles():
    """Import glyles from the working tree under check (never from an installed copy)."""
    if REPO not in sys.path:
        sys.path.insert(0, REPO)
    os.environ[GUARD] = "1"
    logging.disable(logging.CRITICAL)
    import glyles  # noqa
    path = os.path.abspath(glyles.__file__)
    if not path.startswith(os.path.abspath(REPO) + os.sep):
        raise RuntimeError("glyles imported from %s instead of %s" % (path, REPO))
    return glyles


class Driver:
    """The compiled Lean model behind a JSON line protocol."""

    def __init__(self):
        if not os.path.exists(DRIVER):
            raise RuntimeError("Lean driver not built: %s" % DRIVER)
        self.p = subprocess.Popen([DRIVER], stdin=subprocess.PIPE, stdout=subprocess.PIPE, text=True, bufsize=1)
        self.calls = 0

    def ask(self, req):
        self.p.stdin.write(json.dumps(req) + "\n")
        self.p.stdin.flush()
        line = self.p.stdout.readline()
        if not line:
            raise RuntimeError("Lean driver died on request %r" % (req,))
        self.calls += 1
        return json.loads(line)

    def ask_many(self, reqs):
        """Pipeline a batch (writer thread avoids pipe dead-lock)."""
        import threading
        reqs = list(reqs)

        def feed():
            for r in reqs:
                self.p.stdin.write(json.dumps(r) + "\n")
            self.p.stdin.flush()
        th = threading.Thread(target=feed)
        th.start()
        out = []
        for _ in reqs:
            line = self.p.stdout.readline()
            if not line:
                raise RuntimeError("Lean driver died in batch")
            out.append(json.loads(line))
        th.join()
        self.calls += len(reqs)
        return out

    def close(self):
        try:
            self.p.stdin.close()
            self.p.wait(timeout=10)
        except Exception:
            self.p.kill()


def generated():
    return json.load(open(os.path.join(BUILD, "generated.json")))


# ------------------------------------------------------------------------------------------------ findings / replay

def load_known_findings():
    path = os.path.join(VERIF, "known_findings.json")
    if not os.path.exists(path):
        return []
    return json.load(open(path)).get("findings", [])


def write_replay(prop, kind, case, observed, expected, extra=None):
    os.makedirs(REPLAY, exist_ok=True)
    body = {"property": prop, "kind": kind, "case": case, "observed": observed, "expected": expected, "seed": seed()}
    if extra:
        body.update(extra)
    h = hashlib.sha1(json.dumps(body, sort_keys=True, default=str).encode()).hexdigest()[:12]
    path = os.path.join(REPLAY, "%s_%s.json" % (prop, h))
    with open(path, "w") as f:
        json.dump(body, f, indent=1, default=str)
    return path


class Report:
    """Collects what a check run covered and what it found; writes the evidence file; decides the exit code."""

    def __init__(self, prop, tier):
        self.prop, self.tier = prop, tier
        self.t0 = time.time()
        self.evaluations = 0
        self.nontrivial = set()
        self.samples = []
        self.dist = {}
        self.violations = []          # (replay path, text, no_input_found)
        self.known_hits = []
        self.notes = []
        self.broken = []              # broken theorems / correspondence components (names)
        self.obligations = 0
        self.discharged = 0
        self.theorems = []
        self.rule = ""
        self.extra = {}
        self.known = [k for k in load_known_findings() if k.get("property") == prop and k.get("status", "open") == "open"]

    def count(self, key, n=1):
        self.dist[key] = self.dist.get(key, 0) + n

    def case(self, canon=None, nontrivial=False, sample=None):
        self.evaluations += 1
        if nontrivial and canon is not None:
            self.nontrivial.add(canon if isinstance(canon, (str, int)) else json.dumps(canon, sort_keys=True, default=str))
        if sample is not None and len(self.samples) < 8:
            self.samples.append(sample)

    def match_known(self, key):
        for k in self.known:
            if k.get("key") == key:
                return k
        return None

    def violation(self, kind, case, observed, expected, key=None, no_input=False, extra=None):
        """Record a property violation unless it is a listed known finding (matched by exact key)."""
        if key is not None:
            k = self.match_known(key)
            if k is not None:
                if key not in [h[0] for h in self.known_hits]:
                    self.known_hits.append((key, k.get("what_fails", "")))
                return False
        self.extra.setdefault("violation_keys", {})
        kk = (key or kind).split(":")[0] + ((":" + (key or "").split(":")[1]) if key and key.count(":") >= 1 and key.split(":")[0] in ("replaces-O", "noresult", "empty", "group") else "")
        self.extra["violation_keys"][kk] = self.extra["violation_keys"].get(kk, 0) + 1
        if len(self.violations) < 25:
            path = write_replay(self.prop, kind, case, observed, expected, extra)
            self.violations.append((path, no_input))
        else:
            self.violations.append((self.violations[0][0], no_input))
        return True

    def finish(self):
        wall = time.time() - self.t0
        cov = {
            "obligations": self.obligations, "discharged": self.discharged,
            "checker_cmd": "cd /verif && ./check %s %s   (= tools/extract.py; cd lean && lake build GlyModel driver GlyProofs.Props.%s; lake env lean ../build/Audit_%s.lean [#print axioms of every theorem, allowed: propext, Classical.choice, Quot.sound]; grep for sorry/admit/axiom/native_decide/bv_decide/implemented_by/unsafe; thorough: lake env leanchecker GlyProofs.Props.%s)" % (self.prop, self.tier, self.prop, self.prop, self.prop),
            "trusted_base": TRUSTED_BASE,
            "theorems": self.theorems,
            "evaluations": self.evaluations, "distinct_nontrivial": len(self.nontrivial),
            "rule": self.rule, "samples": self.samples, "distribution": self.dist,
            "broken_obligations": self.broken, "known_findings_reconfirmed": [k for k, _ in self.known_hits],
            "notes": self.notes,
        }
        cov.update(self.extra)
        ev = {"property_id": self.prop, "tier": self.tier, "seed": seed(), "level": "proof", "coverage": cov,
              "assumptions": TRUSTED_BASE, "wall_s": round(wall, 2), "violations": len(self.violations)}
        os.makedirs(EVIDENCE, exist_ok=True)
        with open(os.path.join(EVIDENCE, "%s.json" % self.prop), "w") as f:
            json.dump(ev, f, indent=1, default=str)
        for key, what in self.known_hits:
            print("KNOWN-FINDING: property=%s %s :: %s" % (self.prop, key, what))
        seen = set()
        for path, no_input in self.violations:
            if path in seen:
                continue
            seen.add(path)
            print("VIOLATION property=%s replay=%s%s" % (self.prop, path, " no-failing-input-found" if no_input else ""))
        print("%s %s: %d evaluations, %d distinct non-trivial, %d/%d obligations, %d violations, %.1fs" % (
            self.prop, self.tier, self.evaluations, len(self.nontrivial), self.discharged, self.obligations,
            len(seen), wall))
        return 1 if self.violations else 0


# ------------------------------------------------------------------------------------------------ parallel map

_POOL = None


def _init_worker():
    # the ANTLR runtime and RDKit write diagnostics to stderr; they are not observations of any check
    devnull = os.open(os.devnull, os.O_WRONLY)
    os.dup2(devnull, 2)
    import_glyles()


def pool():
    global _POOL
    if _POOL is None:
        import multiprocessing as mp
        ctx = mp.get_context("fork")
        _POOL = ctx.Pool(int(os.environ.get("VERIF_JOBS", "16")), initializer=_init_worker)
    return _POOL


def pmap(fn, items, chunk=8):
    items = list(items)
    if len(items) < 16:
        return [fn(x) for x in items]
    return pool().map(fn, items, chunksize=chunk)


def close_pool():
    global _POOL
    if _POOL is not None:
        _POOL.close()
        _POOL.join()
        _POOL = None
