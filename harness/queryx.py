"""Correspondence of the small decision-logic Models in GlyModel/Api/Query.lean with the code:
  * recipe_equality (count's node matchers, modes no / some) on pairs of real residues,
  * Merger.merge's start atom and root anomer, observed inside real conversions."""
from common import pmap


def _recipe(name):
    from glyles import Glycan
    try:
        t = Glycan(name, tree_only=True).get_tree()
    except Exception:
        return None
    if t is None or len(t.nodes) != 1:
        return None
    return [[str(a), int(b)] for a, b in t.nodes[0]["type"].recipe]


def _real_match(job):
    g, q = job
    from glyles.glycans.poly.glycan import recipe_equality

    class M:                                    # recipe_equality only calls get_recipe() in the modes no / some
        def __init__(self, r):
            self.r = [(a, b) for a, b in r]

        def get_recipe(self):
            return self.r
    out = {}
    for mode in ("no", "some"):
        try:
            out[mode] = bool(recipe_equality(M(g), M(q), **{mode: True}))
        except Exception as e:
            out[mode] = "exc:" + type(e).__name__
    return out


def run_match(rep, tier, driver, names, rng):
    if driver is None:
        return
    names = list(dict.fromkeys(names))
    recs = [r for r in pmap(_recipe, names, chunk=8) if r]
    pairs = []
    for _ in range(1500 if tier == "quick" else 20000):
        g, q = rng.choice(recs), rng.choice(recs)
        r = rng.random()
        if r < 0.3:
            q = [x for x in g if rng.random() < 0.7] or g[:1]          # sub-recipes: the interesting case for `some`
        elif r < 0.4:
            q = list(g)
        pairs.append((g, q))
    real = pmap(_real_match, pairs, chunk=32)
    answers = driver.ask_many([{"op": "match", "g": g, "q": q} for g, q in pairs])
    bad = 0
    for (g, q), r, a in zip(pairs, real, answers):
        rep.count("matcher-compared")
        want_no = r["no"] if isinstance(r["no"], bool) else None
        ok = (want_no is None and not (a["g_has_sac"] and a["q_has_sac"])) or (want_no is not None and a["basic"] == want_no)
        ok = ok and (not isinstance(r["some"], bool) or a["some"] == r["some"])
        if a["basic"]:
            rep.count("matcher-basic-true")
        if a["some"]:
            rep.count("matcher-some-true")
        if not ok:
            bad += 1
            if bad <= 3:
                rep.broken.append("matcher model: %r vs code %r on g=%r q=%r" % (a, r, g, q))
    rep.extra["matcher_model"] = {"pairs_compared": len(pairs), "disagree": bad}


def observe_merge(job):
    """one conversion with Merger.merge_int's first call observed: chosen start position, root config, root numbers"""
    s, opts = job
    import glyles.glycans.poly.merger as merger
    from glyles.glycans.poly.glycan import Glycan
    seen = {}
    orig = merger.Merger.merge_int

    def mi(self, t, node, start, ring_index):
        if node == 0 and "position" not in seen:
            m = t.nodes[0]["type"]
            seen["position"] = int(start)
            seen["numbers"] = [int(x) for x in m.get_features()[:, 1]]
            seen["config"] = int(m.get_config().value)
            seen["recipe"] = [[str(a), int(b)] for a, b in m.get_recipe()]
        return orig(self, t, node, start, ring_index)
    merger.Merger.merge_int = mi
    try:
        import io
        import contextlib
        with contextlib.redirect_stdout(io.StringIO()), contextlib.redirect_stderr(io.StringIO()):
            Glycan(s, **opts)
    except Exception as e:
        seen["exc"] = type(e).__name__
    finally:
        merger.Merger.merge_int = orig
    return seen


def run_start(rep, tier, driver, jobs, type_token):
    """jobs: (iupac, opts, suffix) with opts containing root_orientation / start"""
    if driver is None:
        return
    obs = pmap(observe_merge, [(s, o) for s, o, _ in jobs], chunk=4)
    bad = n = 0
    cfg_name = {0: None, 1: "a", 2: "b"}
    for (s, o, suffix), r in zip(jobs, obs):
        if "position" not in r:
            continue
        n += 1
        rep.count("merge-start-compared")
        a = driver.ask({"op": "start", "numbers": r["numbers"], "start": int(o.get("start", 100)), "suffix": suffix or "",
                        "option": str(o.get("root_orientation", "n"))})
        ok = a.get("position") == r["position"]
        # the root anomer: suffix wins, else the option (only for residues that can carry an anomer: the table has a/b rows)
        want_cfg = a.get("config")
        got_cfg = cfg_name.get(r["config"])
        if got_cfg != want_cfg:
            # residues without an anomeric centre (alditols, ...) keep 'undefined' whatever is asked for
            if not (got_cfg is None):
                ok = False
            else:
                rep.count("root-config-not-applicable")
        if not ok:
            bad += 1
            if bad <= 3:
                rep.broken.append("merge start/config model: %r vs code position %r config %r on %r %r" % (a, r["position"], got_cfg, s, o))
    rep.extra["start_model"] = {"merges_compared": n, "disagree": bad}


def _count_job(job):
    """the trees and recipes the code builds for a glycan and a query, and the code's own counts (match_nodes, modes no / some, edges off / on)"""
    s, q = job
    import io
    import contextlib
    from glyles import Glycan
    out = {"s": s, "q": q}
    try:
        with contextlib.redirect_stdout(io.StringIO()), contextlib.redirect_stderr(io.StringIO()):
            g, h = Glycan(s, full=False), Glycan(q, full=False)

            def graph(x):
                t = x.parse_tree
                if t is None or sorted(t.nodes) != list(range(len(t.nodes))):
                    return None
                return {"recipes": [[[str(a), int(b)] for a, b in t.nodes[i]["type"].get_recipe()] for i in range(len(t.nodes))],
                        "edges": [[int(u), int(v), str(t.get_edge_data(u, v)["type"])] for u, v in t.edges()]}
            out["g"], out["h"] = graph(g), graph(h)
            for key, fl in (("basic", {}), ("basic_edges", {"match_edges": True}), ("some", {"match_some_fg": True}),
                            ("some_edges", {"match_some_fg": True, "match_edges": True})):
                try:
                    out[key] = int(g.count(q, match_nodes=True, **fl))
                except Exception as e:
                    out[key] = "exc:" + type(e).__name__
    except Exception as e:
        out["exc"] = type(e).__name__
    return out


def run_count(rep, tier, driver, pairs):
    """Embed.count (GlyModel/Api/Embed.lean: number of induced sub-graph isomorphisms under the recipe matchers, C16_contains_itself) against
    Glycan.count on the trees and recipes the code itself built"""
    if driver is None:
        return
    pairs = list(dict.fromkeys(pairs))[: (250 if tier == "quick" else 4000)]
    obs = pmap(_count_job, pairs, chunk=2)
    reqs, keep = [], []
    for o in obs:
        if o.get("g") and o.get("h") and len(o["g"]["recipes"]) <= 7 and len(o["h"]["recipes"]) <= 4:
            reqs.append({"op": "count", "g": o["g"], "q": o["h"]})
            keep.append(o)
    ans = driver.ask_many(reqs)
    st = {"pairs": len(keep), "counts_compared": 0, "agree": 0, "code_raises": 0, "nonzero": 0, "above_one": 0}
    bad = 0
    for o, a in zip(keep, ans):
        for key in ("basic", "basic_edges", "some", "some_edges"):
            if not isinstance(o.get(key), int):
                st["code_raises"] += 1
                continue
            st["counts_compared"] += 1
            rep.count("count-model-" + key)
            st["nonzero"] += o[key] > 0
            st["above_one"] += o[key] > 1
            if a.get(key) == o[key]:
                st["agree"] += 1
            else:
                bad += 1
                if bad <= 3:
                    rep.broken.append("count model (%s): model %r vs code %r for query %r in %r" % (key, a.get(key), o[key], o["q"], o["s"]))
    st["disagree"] = bad
    rep.extra["count_model"] = st
