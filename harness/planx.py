"""Correspondence of the Lean Model of Merger.mark / Merger.merge_int (GlyModel/Poly/Plan.lean: which carbon of which residue is
marked with which marker pair, which residue takes the anomer of which label, where each child's SMILES starts and with which
ring offset) with merger.py: the sequence of calls the code issues on the residues inside real conversions is observed from
outside and compared with the Model's plan on the same tree."""
from common import pmap


def observe(name):
    ro = "n"
    if isinstance(name, (tuple, list)):
        name, ro = name[0], name[1]
    import glyles.glycans.mono.monomer as mono
    import glyles.glycans.poly.merger as merger
    M, G = mono.Monomer, merger.Merger
    o_mark, o_chir, o_smiles, o_root = M.mark, M.to_chirality, M.to_smiles, M.root_atom_id
    g_mark, g_merge = G.mark, G.merge_int
    rec = {"name": name, "ro": ro, "calls_mark": [], "calls_merge": [], "exc": None, "phase": None}
    state = {"t": None, "depth_mark": 0, "depth_merge": 0}
    slots = [pair[0][0] for pair in M.get_dummy_atoms()] if _pairs(M.get_dummy_atoms()) else None

    def node_of(obj):
        t = state["t"]
        if t is None:
            return None
        for i in t.nodes:
            if t.nodes[i].get("type") is obj:
                return int(i)
        return None

    def gmark(self, t, node, p_edge):
        if state["depth_mark"] == 0 and node == 0 and "edges" not in rec:
            state["t"] = t
            rec["pe"] = p_edge
            rec["edges"] = [[int(u), int(v), str(t.get_edge_data(u, v)["type"])] for u in t.nodes for (_, v) in t.edges(u)]
            rec["undef"] = [bool(t.nodes[i]["type"].is_non_chiral()) for i in sorted(t.nodes)]
            rec["ids"] = [int(i) for i in sorted(t.nodes)]
        state["depth_mark"] += 1
        try:
            return g_mark(self, t, node, p_edge)
        finally:
            state["depth_mark"] -= 1

    def mmark(self, position, o_atom, n_atom):
        if state["depth_mark"] > 0:
            n = node_of(self)
            k = slots.index(o_atom[0]) if slots is not None and o_atom[0] in slots else -1
            rec["calls_mark"].append(["mark", n, int(position), k])
        return o_mark(self, position, o_atom, n_atom)

    def mchir(self, chirality, factory):
        if state["depth_mark"] > 0:
            n = node_of(self)
            if n is not None:
                rec["calls_mark"].append(["chir", n, str(chirality).lower()])
        return o_chir(self, chirality, factory)

    def gmerge(self, t, node, start, ring_index):
        if state["depth_merge"] == 0 and "rings" not in rec:
            state["t"] = t
            rec["rings"] = [max(len(t.nodes[i]["type"].get_ring_info()), t.nodes[i]["type"].get_structure().GetRingInfo().NumRings()) for i in sorted(t.nodes)]
        state["depth_merge"] += 1
        try:
            return g_merge(self, t, node, start, ring_index)
        finally:
            state["depth_merge"] -= 1

    def msmiles(self, ring_index, root_idx=None, root_id=None):
        if state["depth_merge"] > 0:
            n = node_of(self)
            if n is not None:
                rec["calls_merge"].append(["smiles", n, int(ring_index)])
        return o_smiles(self, ring_index, root_idx, root_id)

    def mroot(self, binding_c_id):
        if state["depth_merge"] > 0:
            n = node_of(self)
            if n is not None:
                rec["calls_merge"].append(["root", n, int(binding_c_id)])
        return o_root(self, binding_c_id)

    M.mark, M.to_chirality, M.to_smiles, M.root_atom_id = mmark, mchir, msmiles, mroot
    G.mark, G.merge_int = gmark, gmerge
    try:
        import io
        import contextlib
        from glyles.glycans.poly.glycan import Glycan
        with contextlib.redirect_stdout(io.StringIO()), contextlib.redirect_stderr(io.StringIO()):
            # the exception (if any) of the merge is swallowed by Glycan: record it at the source
            orig_merge = G.merge

            def merge(self, t, *a, **kw):
                try:
                    return orig_merge(self, t, *a, **kw)
                except Exception as e:
                    rec["exc"] = type(e).__name__
                    rec["phase"] = "merge" if "rings" in rec else "mark"
                    raise
            G.merge = merge
            try:
                g = Glycan(name, root_orientation=ro)
                try:
                    g.get_smiles()
                except Exception:
                    pass
            finally:
                G.merge = orig_merge
    except Exception:
        pass
    finally:
        M.mark, M.to_chirality, M.to_smiles, M.root_atom_id = o_mark, o_chir, o_smiles, o_root
        G.mark, G.merge_int = g_mark, g_merge
    state["t"] = None
    return rec


def _pairs(d):
    try:
        return all(len(p) == 2 and len(p[0]) == 3 and len(p[1]) == 3 for p in d)
    except Exception:
        return False


def _is_prefix(a, b):
    return len(a) <= len(b) and b[:len(a)] == a


def run(rep, tier, driver, names):
    if driver is None:
        return
    names = list(dict.fromkeys(tuple(n) if isinstance(n, list) else n for n in names))[: (400 if tier == "quick" else 20000)]
    obs = pmap(observe, names, chunk=4)
    reqs, keep = [], []
    st = {"glycans": 0, "no_merge_reached": 0, "mark_exact": 0, "merge_exact": 0, "prefix_on_chemistry_error": 0,
          "model_raises_like_code": 0, "model_front_end_plan_equal": 0, "linkages": 0, "max_children": 0}
    for r in obs:
        if "edges" not in r or r.get("ids") != list(range(len(r.get("ids", [])))):
            st["no_merge_reached"] += 1
            continue
        q = {"op": "plan", "edges": r["edges"], "undef": r["undef"], "rings": r.get("rings", [0] * len(r["undef"])), "pe": r["pe"], "s": r["name"]}
        reqs.append(q)
        keep.append(r)
    ans = driver.ask_many(reqs)
    bad = 0

    def complain(msg):
        nonlocal bad
        bad += 1
        if bad <= 3:
            rep.broken.append(msg)

    for r, a in zip(keep, ans):
        st["glycans"] += 1
        st["linkages"] += len(r["edges"])
        kids = {}
        for p, _, _ in r["edges"]:
            kids[p] = kids.get(p, 0) + 1
        st["max_children"] = max([st["max_children"]] + list(kids.values()))
        rep.count("plan-width-%d" % max([0] + list(kids.values())))
        mm, mg = a.get("mark"), a.get("merge")
        for key in ("mark", "merge"):
            if key + "_m" in a and a.get(key + "_m") == a.get(key):
                st["model_front_end_plan_equal"] += 1
            elif key + "_m" in a:
                complain("plan on the Model front-end's tree differs from the plan on the code's tree for %r (%s)" % (r["name"], key))
        cm, cg = r["calls_mark"], r["calls_merge"]
        if r["exc"] is None:
            if mm == cm:
                st["mark_exact"] += 1
            else:
                complain("Merger.mark plan: model %r vs code %r on %r" % (mm, cm, r["name"]))
            if mg == cg:
                st["merge_exact"] += 1
            else:
                complain("Merger.merge_int plan: model %r vs code %r on %r" % (mg, cg, r["name"]))
            continue
        # the code raised inside merge(): tree-level causes are the Model's `none`, anything else is chemistry below the plan
        if r["phase"] == "mark":
            if mm is None:
                if r["exc"] in ("NotImplementedError", "IndexError"):
                    st["model_raises_like_code"] += 1
                else:
                    complain("Merger.mark: model raises, code raised %s on %r" % (r["exc"], r["name"]))
            elif r["exc"] in ("NotImplementedError", "IndexError") and _is_prefix(cm, mm) and len(cm) == len(mm):
                complain("Merger.mark: code raised %s where the model completes the plan, on %r" % (r["exc"], r["name"]))
            elif _is_prefix(cm, mm):
                st["prefix_on_chemistry_error"] += 1
            else:
                complain("Merger.mark plan (up to the exception %s): model %r vs code %r on %r" % (r["exc"], mm, cm, r["name"]))
        else:
            if mm != cm:
                complain("Merger.mark plan: model %r vs code %r on %r" % (mm, cm, r["name"]))
            else:
                st["mark_exact"] += 1
            if mg is None:
                if r["exc"] == "IndexError":
                    st["model_raises_like_code"] += 1
                else:
                    complain("merge_int: model raises, code raised %s on %r" % (r["exc"], r["name"]))
            elif _is_prefix(cg, mg):
                st["prefix_on_chemistry_error"] += 1
            else:
                complain("merge_int plan (up to the exception %s): model %r vs code %r on %r" % (r["exc"], mg, cg, r["name"]))
    st["disagree"] = bad
    rep.extra["binding_plan_model"] = st
