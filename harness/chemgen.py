"""Generator of chemically well-formed glycans (every linkage names the child's anomeric carbon and a free OH/NH2 of
the parent, each position used once) and the worker job that evaluates one of them on the real code and against the
Spec construction in chem.py."""
import functools

import chem
import gen
import real
from common import pmap

SIMPLE_MODS = ["NAc", "N", "A", "6S", "3S", "4S", "2S", "6P", "3Me", "2Ac", "4Ac", "6Ac", "5Ac", "5Gc", "3Bz", "2F", "6d", "2d", "9Ac", "4Me", "3P", "2N"]


BASE_OF = {}


def candidate_names(vocab, tier):
    names = []
    for s in vocab.sugars_p:
        names += [s, s + "p", "D-" + s, "L-" + s]
    for s in vocab.sugars_f:
        names += [s + "f", "L-" + s + "f"]
    base = ["Glc", "Gal", "Man", "Neu", "Kdo", "Fuc", "Xyl", "Rha", "Ido", "Fruf", "Araf", "Galf", "GalNAc", "GlcNAc", "Qui", "Tal", "All", "Gul", "Alt"]
    for s in base:
        for m in SIMPLE_MODS:
            names.append(s + m)
            BASE_OF[s + m] = (s, m)
    names += ["Neu5Ac", "Neu5Gc", "Neu5Ac9Ac", "Neu4,5Ac2", "GlcNAc6S", "GalNAc4S", "IdoA2S", "GlcNS", "GlcNS6S", "GlcN", "GalN", "ManN", "Kdn", "Neu5,9Ac2",
              "1,6-Anhydro-Glc", "3,6-Anhydro-Gal", "1,6-Anhydro-Man", "2,6-Anhydro-Man", "MurNAc", "Bac2,4NAc", "Leg5,7Ac2", "Pse5,7Ac", "GlcA3S", "ManA", "GulA", "GalA",
              "Glc6Ole", "Glc3Lin", "Glc2Cin", "LDManHep", "DDManHep", "6dTal", "6dAlt", "Gal3,4Pyr",
              # residues written with several tokens: chain-length names, two modifications, series prefix + modification
              "ManHep", "GalHep", "GlcOct", "AraHex", "XylHex", "GlcHep6S", "D-ManHep", "Glc3S6S", "GlcNAc3S6S", "Gal2Ac3Ac", "Man6P2Ac", "GlcN3S", "GlcN6S",
              "D-GlcNAc", "L-Fuc2Ac", "L-IdoA2S", "D-Araf", "L-Araf", "Neu5Ac8Ac9Ac", "Kdo8P", "Gal4S6S", "GalNAc4S6S", "Rha2Ac3Ac", "Xyl2S3S", "D-Galf", "L-Rha3Me",
              "ManNAc", "ManNAcA", "GlcNAcA", "FucNAc", "QuiNAc", "Fuc4N", "Qui4NAc", "GalA2Ac", "GlcA2S3S"]
    seen, out = set(), []
    for n in names:
        if n not in seen:
            seen.add(n)
            out.append(n)
    return out


def well_formed_name(name, infos):
    """positional modifications of the generated vocabulary must sit on a position that bears a free OH/NH2 in the base sugar"""
    if name not in BASE_OF:
        return True
    b, m = BASE_OF[name]
    if not m[0].isdigit():
        return True
    base = infos.get(b)
    if not base or not base.get("ok"):
        return False
    return int(m[0]) in [p for p, _ in base.get("free", [])]


def _info(name):
    return name, chem.residue_info(name)


class ChemVocab:
    def __init__(self, vocab, tier):
        self.vocab = vocab
        cands = candidate_names(vocab, tier)
        infos = pmap(_info, cands + [b for b, _ in BASE_OF.values() if b not in cands])
        self.divergent = sorted(n for n, i in infos if i.get("ok") and i.get("cyclic") and i.get("numbering_agrees") is False)
        infos = [(n, i) for n, i in infos if i.get("numbering_agrees") is not False and well_formed_name(n, dict(infos))]
        self.info = {n: i for n, i in infos if i.get("ok") and i.get("cyclic") and i.get("anomeric")}
        self.names = sorted(self.info)
        # parents may also be residues without a free anomeric OH (1,6-anhydro sugars): only as root
        self.root_only = {n: i for n, i in infos if i.get("ok") and i.get("cyclic") and not i.get("anomeric") and i.get("free")}
        self.common = [n for n in ["Glc", "Gal", "Man", "GlcNAc", "GalNAc", "Fuc", "Xyl", "Neu5Ac", "GlcA", "Kdo", "Rha", "Araf", "Fruf", "GlcN", "IdoA2S", "Gal6S"] if n in self.info]

    def pick(self, rng, root=False):
        if root and self.root_only and rng.random() < 0.08:
            return rng.choice(sorted(self.root_only))
        if rng.random() < 0.55 and self.common:
            return rng.choice(self.common)
        return rng.choice(self.names)

    def get(self, name):
        return self.info.get(name) or self.root_only.get(name)

    def random_tree(self, rng, size, max_kids=4, chain_bias=0.5, n_link_p=0.5):
        """a well-formed glycan tree with about `size` residues"""
        budget = [size - 1]

        def grow(name, is_root):
            info = self.get(name)
            node = gen.T(name)
            free = [(p, e) for p, e in info["free"] if p != info.get("anomeric")]
            if is_root and info.get("anomeric") and rng.random() < 0.05:
                free = list(info["free"])       # non-reducing linkage onto the root's anomeric OH (trehalose type)
            if not rng.random() < n_link_p:
                free = [(p, e) for p, e in free if e == "O"]
            rng.shuffle(free)
            if budget[0] <= 0 or not free:
                return node
            k = 1 if rng.random() < chain_bias else rng.randint(1, min(max_kids, len(free), budget[0]))
            k = min(k, len(free), budget[0])
            budget[0] -= k
            kids = []
            for p, e in free[:k]:
                cname = self.pick(rng)
                ci = self.info[cname]
                kids.append(({"anomer": rng.choice(["a", "b"]), "cpos": ci["anomeric"], "ppos": p, "elem": e}, cname))
            for link, cname in kids:
                node.kids.append((link, grow(cname, False)))
            return node
        return grow(self.pick(rng, root=True), True)


@functools.lru_cache(maxsize=20000)
def _residue_smiles(name):
    kind, smi = real.smiles_of(name)
    return smi if kind == "ok" else None


def spec_tree(t, root_suffix=""):
    """tree for chem.build_glycan from a gen.T, residues converted alone by the real code"""
    def go(node, anomer):
        nm = node.name + ((" " + anomer) if anomer else "")
        smi = _residue_smiles(nm)
        if not smi:
            return None
        kids = []
        for link, k in node.kids:
            sub = go(k, link["anomer"])
            if sub is None:
                return None
            kids.append([{"cpos": link["cpos"], "ppos": link["ppos"]}, sub])
        return {"smiles": smi, "kids": kids, "name": nm}
    return go(t, root_suffix)


def residues_of(spec):
    out = [spec["smiles"]]
    for _, k in spec["kids"]:
        out += residues_of(k)
    return out


def eval_case(case):
    """case: {"iupac":..., "tree": T-json or None, "opts": {...}, "root_suffix": ""} -> observations + Spec values"""
    s = case["iupac"]
    opts = case.get("opts") or {}
    kind, smi = real.smiles_of(s, **opts)
    out = {"iupac": s, "kind": kind, "smiles": smi if kind == "ok" else None, "exc": smi if kind != "ok" else None}
    if kind == "ok" and smi:
        out["validity"] = chem.validity(smi)
        m = chem.mol(smi)
        if m is not None:
            out["canon"] = chem.Chem.MolToSmiles(m)
            out["counts"] = chem.atom_counts(m)
            out["rings"] = chem.ring_count(m)
    tj = case.get("tree")
    if tj is not None:
        t = tree_from_json(tj)
        sp = spec_tree(t, case.get("root_suffix", ""))
        if sp is not None:
            out["spec"] = chem.build_glycan(sp)
            res = residues_of(sp)
            tot, rings, ok = {}, 0, True
            for r in res:
                m = chem.mol(r)
                if m is None:
                    ok = False
                    break
                for k, v in chem.atom_counts(m).items():
                    tot[k] = tot.get(k, 0) + v
                rings += chem.ring_count(m)
            if ok:
                n = len(res)
                tot["H"] = tot.get("H", 0) - 2 * (n - 1)
                tot["O"] = tot.get("O", 0) - (n - 1)
                out["spec_counts"] = {k: v for k, v in tot.items() if v}
                out["spec_rings"] = rings
                out["n"] = n
    return out


def tree_from_json(j):
    return gen.T(j["name"], [(l, tree_from_json(k)) for l, k in j["kids"]])


def shrink(tree_json, root_suffix, fails, max_steps=200):
    """greedy minimisation of a failing tree: promote a subtree to root, or drop a child (with its subtree), while it still fails"""
    cur = tree_json
    steps = 0

    def variants(t):
        # promote any child subtree
        for _, k in t["kids"]:
            yield k, ""
        # drop one child somewhere
        def drops(node):
            for i in range(len(node["kids"])):
                yield {"name": node["name"], "kids": node["kids"][:i] + node["kids"][i + 1:]}
            for i, (l, k) in enumerate(node["kids"]):
                for v in drops(k):
                    yield {"name": node["name"], "kids": node["kids"][:i] + [[l, v]] + node["kids"][i + 1:]}
        for v in drops(t):
            yield v, root_suffix
    changed = True
    suffix = root_suffix
    while changed and steps < max_steps:
        changed = False
        for v, suf in variants(cur):
            steps += 1
            if steps > max_steps:
                break
            if fails(v, suf):
                cur, suffix, changed = v, suf, True
                break
    return cur, suffix
