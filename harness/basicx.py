"""Correspondence of the Lean Model of reactor_basic.py (get_indices, the open-form text rewrites, the resizing extension
string) with the code: both functions are observed from outside inside real conversions."""
import re

from common import pmap


def observe(name):
    import glyles.glycans.mono.reactor_basic as rb
    from glyles.glycans.utils import find_longest_c_chain
    import numpy as np
    from rdkit.Chem import GetAdjacencyMatrix
    import glyles.glycans.mono.monomer as mono
    seen = []
    orig_open, orig_resize = rb.check_for_open_form, rb.check_for_resizing
    orig_ts = mono.Monomer.to_smiles
    state = {"in_resize": False, "ts": []}

    def ts(self_, *a, **k):
        r = orig_ts(self_, *a, **k)
        if state["in_resize"]:
            state["ts"].append(r)
        return r

    def w_open(monomer, names, types, longer=False):
        rec = {"fn": "open", "names": [str(x) for x in names], "types": [int(x) for x in types], "longer": bool(longer)}
        try:
            a_type = np.array([a.GetAtomicNum() for a in monomer.structure.GetAtoms()])
            adjacency = GetAdjacencyMatrix(monomer.structure, useBO=True)
            c_atoms = np.where(a_type == 6)[0].tolist()
            rec["chain"] = len(find_longest_c_chain(c_atoms, adjacency, a_type))
        except Exception:
            rec["chain"] = 0
        try:
            orig_open(monomer, names, types, longer)
            rec["out"] = monomer.smiles
        except Exception as e:
            rec["exc"] = type(e).__name__
            seen.append(rec)
            raise
        seen.append(rec)

    def w_resize(monomer, names, types):
        rec = {"fn": "resize", "names": [str(x) for x in names], "types": [int(x) for x in types],
               "c_count": int(np.count_nonzero(monomer.x[:, 0] == 6))}
        state["in_resize"], state["ts"] = True, []
        try:
            orig_resize(monomer, names, types)
            rec["out"] = monomer.smiles
            rec["marked"] = state["ts"][-1] if state["ts"] else None
        except Exception as e:
            rec["exc"] = type(e).__name__
            seen.append(rec)
            raise
        finally:
            state["in_resize"] = False
        seen.append(rec)
    rb.check_for_open_form, rb.check_for_resizing = w_open, w_resize
    mono.Monomer.to_smiles = ts
    try:
        from glyles.glycans.poly.glycan import Glycan
        import io
        import contextlib
        with contextlib.redirect_stdout(io.StringIO()), contextlib.redirect_stderr(io.StringIO()):
            Glycan(name)
    except Exception:
        pass
    finally:
        rb.check_for_open_form, rb.check_for_resizing = orig_open, orig_resize
        mono.Monomer.to_smiles = orig_ts
    return seen


SN = re.compile(r"\[SnH*\d*\]")


def run(rep, tier, driver, names):
    if driver is None:
        return
    names = list(dict.fromkeys(names))
    obs = pmap(observe, names, chunk=4)
    n_open = n_resize = bad = 0
    for name, recs in zip(names, obs):
        for r in recs:
            if r["fn"] == "open":
                a = driver.ask({"op": "openform", "names": r["names"], "types": r["types"], "chain": r["chain"] if r["longer"] else 0})
                rep.count("openform-compared")
                n_open += 1
                if "exc" in r and a.get("kind") == "ok":
                    # the rewritten text is handed to RDKit inside the same function; when that raises (e.g. '-aric' on a 6-deoxy
                    # row) the text is not observable: nothing to compare
                    rep.count("openform-raises-after-rewrite")
                    continue
                same = (a.get("kind") == "raises") == ("exc" in r) and (("exc" in r) or a.get("smiles") == r.get("out"))
                if not same:
                    bad += 1
                    if bad <= 3:
                        rep.broken.append("open-form model: %r vs code %r on %r (names %r)" % (a, r.get("out", r.get("exc")), name, r["names"]))
            else:
                a = driver.ask({"op": "extension", "names": r["names"], "types": r["types"], "c_count": r["c_count"]})
                rep.count("resize-compared")
                n_resize += 1
                if "exc" in r or a.get("kind") == "raises":
                    if ("exc" in r) != (a.get("kind") == "raises"):
                        # the extension string is only the first step; later RDKit steps may raise on their own
                        rep.count("resize-raises-after-extension" if "exc" in r else "resize-model-raises")
                        if a.get("kind") == "raises":
                            bad += 1
                            rep.broken.append("resize model raises, code does not, on %r" % name)
                    continue
                ext = a["extension"]
                marked = r.get("marked") or ""
                if not SN.search(marked):
                    ok = r["out"] == marked
                else:
                    cut = ext[ext.index(")") + 1:] if ")" in ext else ext
                    ok = r["out"] in (SN.sub(lambda _: ext, marked), SN.sub(lambda _: cut, marked))
                if not ok:
                    bad += 1
                    if bad <= 3:
                        rep.broken.append("resize model: extension %r does not explain %r -> %r on %r" % (ext, marked, r["out"], name))
    rep.extra["reactor_basic_model"] = {"open_form_calls_compared": n_open, "resizing_calls_compared": n_resize, "disagree": bad}
