#!/venv/bin/python
"""Executes a list of API calls against the real code, in this process, in order, and prints one JSON observation per
call. Used for call histories (one process for the whole history) and for the reference (one fresh process per call).

call = {"fn": "convert" | "convert_generator" | "glycan" | "cli", ...}; see `run_call`.
Observation = {"result": canonical result, "exc": class name or None, "stdout": captured text (fd level),
               "logger_disabled": bool, "caller_list_unchanged": bool, "tables": digest of the three class-level tables}
"""
import contextlib
import hashlib
import io
import json
import logging
import os
import sys
import tempfile

REPO = os.environ.get("GLYLES_REPO", "/repo")
if REPO not in sys.path:
    sys.path.insert(0, REPO)


def tables_digest():
    from glyles.glycans.factory.factory_p import PyranoseFactory
    from glyles.glycans.factory.factory_f import FuranoseFactory
    from glyles.glycans.factory.factory_o import OpenFactory
    h = hashlib.sha1()
    for cls in (PyranoseFactory, FuranoseFactory, OpenFactory):
        t = getattr(cls, "_%s__monomers" % cls.__name__)
        for k in sorted(t):
            rec = t[k]
            h.update(repr((k, rec["name"], rec["config"], rec["isomer"], rec["lactole"], rec["smiles"], sorted(rec.keys()))).encode())
    return h.hexdigest()[:16]


class FdCapture:
    """capture everything written to file descriptor 1 (python level and below)"""

    def __enter__(self):
        sys.stdout.flush()
        self.saved = os.dup(1)
        self.tmp = tempfile.TemporaryFile(mode="w+b")
        os.dup2(self.tmp.fileno(), 1)
        return self

    def __exit__(self, *a):
        sys.stdout.flush()
        os.dup2(self.saved, 1)
        os.close(self.saved)
        self.tmp.seek(0)
        self.text = self.tmp.read().decode("utf-8", "replace")
        self.tmp.close()


def decode_input(x):
    """JSON -> python input: {"none":1} -> None, {"int":n} -> n, {"float":x}, {"bytes":s}, {"list":[..]} -> list object"""
    if isinstance(x, dict):
        if "none" in x:
            return None
        if "int" in x:
            return x["int"]
        if "float" in x:
            return x["float"]
        if "bytes" in x:
            return x["bytes"].encode()
        if "list" in x:
            return [decode_input(y) for y in x["list"]]
    return x


def encode_value(x):
    if isinstance(x, str):
        return x
    if x is None:
        return {"none": 1}
    if isinstance(x, bool):
        return {"bool": x}
    if isinstance(x, int):
        return {"int": x}
    if isinstance(x, float):
        return {"float": x}
    if isinstance(x, bytes):
        return {"bytes": x.decode("latin1")}
    if isinstance(x, (list, tuple)):
        return {"list": [encode_value(y) for y in x]}
    return {"repr": repr(x)[:80]}


def run_call(call, scratch):
    import glyles
    from glyles import Glycan
    fn = call["fn"]
    obs = {"exc": None, "result": None}
    caller_list = None
    caller_copy = None
    cap = FdCapture()
    try:
        with cap:
            if fn in ("convert", "convert_generator"):
                kw = {}
                if "glycan" in call:
                    kw["glycan"] = decode_input(call["glycan"])
                if "glycan_list" in call:
                    caller_list = [decode_input(x) for x in call["glycan_list"]]
                    if call.get("as_tuple"):
                        caller_list = tuple(caller_list)
                    caller_copy = list(caller_list)
                    kw["glycan_list"] = caller_list
                if "file_lines" in call:
                    path = os.path.join(scratch, "in_%d.txt" % call.get("idx", 0))
                    with open(path, "w", newline="") as f:
                        f.write(call["file_lines"])
                    kw["glycan_file"] = path
                if "missing_file" in call:
                    kw["glycan_file"] = os.path.join(scratch, "does_not_exist.txt")
                if "generator" in call:
                    items = [decode_input(x) for x in call["generator"]]
                    kw["glycan_generator"] = (x for x in items)
                if "verbose_none" in call:
                    kw["verbose"] = None
                if "verbose" in call:
                    kw["verbose"] = call["verbose"]          # a logging level (10 = DEBUG, 20 = INFO, 0 = NOTSET) or False
                for k in ("cpu_count", "full"):
                    if k in call:
                        kw[k] = call[k]
                if fn == "convert":
                    sink = call.get("sink", "return")
                    if sink == "file" and call.get("bad_dir"):
                        # output file in a directory that does not exist: documented fall-back to stdout; the host's sys.stdout must
                        # stay usable afterwards (observed on a stand-in object so that the harness' own capture is not disturbed)
                        import io
                        stand_in = io.StringIO()
                        real_stdout = sys.stdout
                        sys.stdout = stand_in
                        try:
                            r = glyles.convert(output_file=os.path.join(scratch, "no_such_dir_%d" % call.get("idx", 0), "out.txt"), **kw)
                        finally:
                            sys.stdout = real_stdout
                        obs["stdout_closed"] = bool(stand_in.closed)
                        obs["fallback_stdout"] = None if stand_in.closed else stand_in.getvalue()
                        obs["result"] = encode_value(r)
                    elif sink == "file":
                        out = os.path.join(scratch, "out_%d.txt" % call.get("idx", 0))
                        if os.path.exists(out):
                            os.remove(out)
                        if call.get("prefill") is not None:
                            # the output file exists already and holds something (reused from an earlier run)
                            with open(out, "w", newline="") as f:
                                f.write(call["prefill"])
                        r = glyles.convert(output_file=out, **kw)
                        obs["file"] = open(out, newline="").read() if os.path.exists(out) else None
                        obs["result"] = encode_value(r)
                    elif sink == "stdout":
                        r = glyles.convert(returning=False, **kw)
                        obs["result"] = encode_value(r)
                    else:
                        r = glyles.convert(**kw)
                        obs["result"] = None if r is None else [[encode_value(a), b] for a, b in r]
                else:
                    g = glyles.convert_generator(**kw)
                    if call.get("unstarted"):
                        # the caller never advances the generator: dropped, closed before the first next(), or sliced to nothing
                        if call["unstarted"] == "close":
                            g.close()
                        elif call["unstarted"] == "islice0":
                            import itertools
                            list(itertools.islice(g, 0))
                        del g
                        import gc
                        gc.collect()
                        g = iter(())
                    take = call.get("take")
                    out = []
                    for i, (a, b) in enumerate(g):
                        out.append([encode_value(a), b])
                        if take is not None and i + 1 >= take:
                            g.close()
                            break
                    obs["result"] = out
            elif fn == "glycan":
                g = Glycan(decode_input(call["iupac"]), **call.get("opts", {}))
                res = []
                for m in call.get("methods", [["get_smiles"]]):
                    try:
                        if m[0] == "get_smiles":
                            res.append(g.get_smiles())
                        elif m[0] == "summary":
                            s = g.summary()
                            s["weight"] = round(s["weight"], 4)
                            res.append(s)
                        elif m[0] == "count":
                            res.append(g.count(m[1], **m[2]))
                        elif m[0] == "save_dot":
                            p = os.path.join(scratch, "g_%d.dot" % call.get("idx", 0))
                            g.save_dot(p)
                            res.append(sorted(l.strip() for l in open(p).read().splitlines()))
                        elif m[0] == "tree":
                            t = g.get_tree()
                            res.append(None if t is None else [[t.nodes[i]["type"].get_name(full=True) for i in range(len(t.nodes))],
                                                               sorted([a, b, t.get_edge_data(a, b)["type"]] for a, b in t.edges())])
                    except Exception as e:
                        res.append({"exc": type(e).__name__})
                obs["result"] = res
            elif fn == "cli":
                from glyles.__main__ import main
                argv = []
                for i, a in enumerate(call["args"]):
                    if isinstance(a, dict) and "file" in a:
                        path = os.path.join(scratch, "cli_%d_%d.txt" % (call.get("idx", 0), i))
                        with open(path, "w", newline="") as f:
                            f.write(a["file"])
                        argv.append(path)
                    else:
                        argv.append(a)
                out = os.path.join(scratch, "cliout_%d.txt" % call.get("idx", 0))
                if os.path.exists(out):
                    os.remove(out)
                main(["-i"] + argv + ["-o", out])
                obs["file"] = open(out, newline="").read() if os.path.exists(out) else None
            else:
                raise ValueError("unknown call " + fn)
    except SystemExit as e:
        obs["exc"] = "SystemExit"
    except Exception as e:
        obs["exc"] = type(e).__name__
    obs["stdout"] = cap.text
    obs["logger_disabled"] = logging.getLogger().disabled
    if caller_list is not None:
        obs["caller_list_unchanged"] = list(caller_list) == caller_copy
    obs["tables"] = tables_digest()
    return obs


def run_calls(calls):
    scratch = tempfile.mkdtemp(prefix="glyverif_api_")
    out = []
    try:
        saved_err = os.dup(2)
        devnull = os.open(os.devnull, os.O_WRONLY)
        os.dup2(devnull, 2)
        try:
            for i, c in enumerate(calls):
                c = dict(c)
                c.setdefault("idx", i)
                out.append(run_call(c, scratch))
        finally:
            os.dup2(saved_err, 2)
            os.close(saved_err)
            os.close(devnull)
    finally:
        import shutil
        shutil.rmtree(scratch, ignore_errors=True)
    return out


if __name__ == "__main__":
    calls = json.load(sys.stdin)
    print(json.dumps(run_calls(calls)))
