"""Access to the real code (always the working tree under /repo), canonicalised for comparison."""
import io
import os
import contextlib

from common import import_glyles

import_glyles()
from glyles import Glycan  # noqa: E402
from rdkit import Chem  # noqa: E402
from rdkit import RDLogger  # noqa: E402

RDLogger.DisableLog("rdApp.*")


def real_tree(s):
    """None if rejected, else (names by id, per-node ordered [(child, label)]), or ('EXC', class name)"""
    try:
        with contextlib.redirect_stdout(io.StringIO()), contextlib.redirect_stderr(io.StringIO()):
            g = Glycan(s, tree_only=True)
        t = g.get_tree()
    except Exception as e:  # an escaping exception is an observable result of its own
        return ("EXC", type(e).__name__)
    if t is None:
        return None
    n = len(t.nodes)
    try:
        names = [t.nodes[i]["type"].get_name(full=True) for i in range(n)]
    except KeyError:
        return ("EXC", "node ids not 0..n-1")
    kids = [[(c, t.get_edge_data(p, c)["type"]) for _, c in t.edges(i)] for i, p in ((i, i) for i in range(n))]
    return names, kids


def model_tree(ans):
    """driver answer -> same canonical form"""
    if ans.get("verdict") != "ok":
        return None
    tr = ans["tree"]
    names = tr["names"]
    kids = [[] for _ in names]
    for p, c, l in tr["edges"]:
        kids[p].append((c, l))
    return names, kids


def canon_tree(x):
    if x is None or (isinstance(x, tuple) and x and x[0] == "EXC"):
        return x
    names, kids = x
    return [list(names), [[list(e) for e in ks] for ks in kids]]


def smiles_of(s, **kw):
    """('ok', smiles) | ('exc', class)"""
    try:
        with contextlib.redirect_stdout(io.StringIO()), contextlib.redirect_stderr(io.StringIO()):
            return ("ok", Glycan(s, **kw).get_smiles())
    except Exception as e:
        return ("exc", type(e).__name__)


def canon_smiles(smi):
    m = Chem.MolFromSmiles(smi)
    if m is None:
        return None
    return Chem.MolToSmiles(m)
