#!/venv/bin/python
"""./check <ID> <quick|thorough>   |   ./check replay <path>   |   ./check setup

extract (translators) -> prove (lake build + axiom audit) -> correspond (+ Spec judging of the real code)
-> search when a proof obligation or the correspondence is broken -> known findings -> evidence.
Exit 0: property held on everything explored; 1: VIOLATION line printed; 2: infrastructure problem / timeout.
"""
import fcntl
import importlib
import json
import os
import re
import subprocess
import sys
import time
import traceback

HERE = os.path.dirname(os.path.abspath(__file__))
sys.path.insert(0, HERE)
import common  # noqa: E402
from common import VERIF, LEAN_DIR, BUILD, Report  # noqa: E402

ALLOWED_AXIOMS = {"propext", "Classical.choice", "Quot.sound"}
FORBIDDEN = re.compile(r"\bsorry\b|\badmit\b|^\s*axiom\s|native_decide|bv_decide|implemented_by|\bunsafe\s|maxHeartbeats\s+0")
PROPS = ["C%02d" % i for i in range(1, 18)]


def sh(cmd, cwd=None, timeout=3600):
    p = subprocess.run(cmd, cwd=cwd, shell=isinstance(cmd, str), stdout=subprocess.PIPE, stderr=subprocess.STDOUT, text=True, timeout=timeout)
    return p.returncode, p.stdout


def strip_comments(text):
    text = re.sub(r"/-.*?-/", lambda m: "\n" * m.group(0).count("\n"), text, flags=re.S)
    return "\n".join(l.split("--")[0] for l in text.split("\n"))


def grep_forbidden():
    hits = []
    for root in ["GlyModel", "GlyProofs"]:
        for dp, _, fns in os.walk(os.path.join(LEAN_DIR, root)):
            for fn in fns:
                if fn.endswith(".lean"):
                    p = os.path.join(dp, fn)
                    for i, line in enumerate(strip_comments(open(p).read()).split("\n"), 1):
                        if FORBIDDEN.search(line):
                            hits.append("%s:%d: %s" % (os.path.relpath(p, LEAN_DIR), i, line.strip()))
    return hits


def theorems_of(prop):
    path = os.path.join(LEAN_DIR, "GlyProofs/Props/%s.lean" % prop)
    if not os.path.exists(path):
        return []
    src = strip_comments(open(path).read())
    return re.findall(r"^\s*theorem\s+([A-Za-z0-9_'.]+)", src, re.M)


def prove(prop, rep):
    """build model + driver + this property's theorems; axiom audit. Returns (model_ok, proofs_ok)."""
    os.makedirs(BUILD, exist_ok=True)
    with open(os.path.join(BUILD, ".lock"), "w") as lock:
        fcntl.flock(lock, fcntl.LOCK_EX)
        rc, out = sh([sys.executable, os.path.join(VERIF, "tools/extract.py"), "--repo", common.REPO, "--out", VERIF])
        print(out.strip())
        extract_ok = rc == 0
        if not extract_ok:
            rep.broken.append("translator: " + out.strip().split("\n")[-1])
        rc, out = sh("lake build GlyModel driver", cwd=LEAN_DIR)
        model_ok = rc == 0
        if not model_ok:
            print(out[-3000:])
            rep.broken.append("lake build GlyModel driver failed")
        thms = theorems_of(prop)
        rep.obligations = len(thms)
        proofs_ok = False
        if model_ok:
            rc, out = sh("lake build GlyProofs.Props.%s" % prop, cwd=LEAN_DIR)
            if rc != 0:
                print(out[-4000:])
                bad = sorted(set(re.findall(r"error: .*?(GlyProofs/[A-Za-z0-9_/]+\.lean):(\d+)", out)))
                rep.broken.append("lake build GlyProofs.Props.%s failed at %s" % (prop, ", ".join("%s:%s" % b for b in bad[:6]) or "?"))
            else:
                proofs_ok = True
        if proofs_ok:
            audit = os.path.join(BUILD, "Audit_%s.lean" % prop)
            with open(audit, "w") as f:
                f.write("import GlyProofs.Props.%s\n" % prop)
                for t in thms:
                    f.write("#print axioms Gly.Props.%s.%s\n" % (prop, t))
            rc, out = sh("lake env lean %s" % audit, cwd=LEAN_DIR)
            flat = re.sub(r"\s+", " ", out)
            for t in thms:
                full = "Gly.Props.%s.%s" % (prop, t)
                m = re.search(r"'%s' (does not depend on any axioms|depends on axioms: \[([^\]]*)\])" % re.escape(full), flat)
                if not m:
                    rep.broken.append("axiom audit: no answer for %s" % full)
                    rep.theorems.append({"name": t, "axioms": None})
                    continue
                axs = [] if m.group(2) is None else [a.strip() for a in m.group(2).split(",") if a.strip()]
                rep.theorems.append({"name": t, "axioms": axs})
                if set(axs) <= ALLOWED_AXIOMS:
                    rep.discharged += 1
                else:
                    rep.broken.append("axiom audit: %s uses %s" % (full, sorted(set(axs) - ALLOWED_AXIOMS)))
            hits = grep_forbidden()
            if hits:
                rep.broken.append("forbidden construct: " + "; ".join(hits[:5]))
                rep.discharged = 0
        if os.environ.get("VERIF_TIER") == "thorough" or rep.tier == "thorough":
            if proofs_ok and os.environ.get("VERIF_LEANCHECKER", "1") == "1":
                rc, out = sh("lake env leanchecker GlyProofs.Props.%s" % prop, cwd=LEAN_DIR, timeout=1800)
                rep.notes.append("leanchecker GlyProofs.Props.%s: rc=%d %s" % (prop, rc, out.strip()[-200:]))
                if rc != 0:
                    rep.broken.append("leanchecker rejected GlyProofs.Props.%s" % prop)
    return model_ok, proofs_ok


def run_check(prop, tier):
    rep = Report(prop, tier)
    try:
        model_ok, proofs_ok = prove(prop, rep)
    except subprocess.TimeoutExpired:
        print("timeout in build")
        return 2
    mod = importlib.import_module("props.%s" % prop.lower())
    driver = None
    try:
        if model_ok:
            driver = common.Driver()
        mod.run(rep, tier, driver)
    except Exception:
        traceback.print_exc()
        print("infrastructure error in %s" % prop)
        common.close_pool()
        return 2
    finally:
        if driver:
            driver.close()
        common.close_pool()
    if rep.broken and not rep.violations:
        # a proof obligation / the translation / the correspondence no longer checks and the search above found no
        # failing input on the real code: still a violation (the property is no longer shown to hold)
        rep.violation("unchecked-theorem", {"broken": rep.broken}, "proof obligation or correspondence no longer checks",
                      "all obligations discharged and model = code", no_input=True)
    return rep.finish()


def replay(path):
    body = json.load(open(path))
    prop = body["property"]
    mod = importlib.import_module("props.%s" % prop.lower())
    if not hasattr(mod, "replay"):
        print("no replay support in", prop)
        return 2
    return mod.replay(body)


def setup():
    os.makedirs(BUILD, exist_ok=True)
    rc, out = sh([sys.executable, os.path.join(VERIF, "tools/extract.py"), "--repo", common.REPO, "--out", VERIF])
    print(out)
    if rc != 0:
        return 2
    rc, out = sh("lake build", cwd=LEAN_DIR, timeout=7200)
    print(out[-3000:])
    return 0 if rc == 0 else 2


def main():
    if len(sys.argv) >= 2 and sys.argv[1] == "setup":
        sys.exit(setup())
    if len(sys.argv) >= 3 and sys.argv[1] == "replay":
        sys.exit(replay(sys.argv[2]))
    if len(sys.argv) < 2 or sys.argv[1] not in PROPS:
        print(__doc__)
        sys.exit(2)
    tier = sys.argv[2] if len(sys.argv) > 2 else os.environ.get("VERIF_TIER", "quick")
    sys.exit(run_check(sys.argv[1], tier))


if __name__ == "__main__":
    main()
