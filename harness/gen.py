"""Input generators. Every random choice comes from the random.Random instance handed in."""
import itertools
import json
import os
import random

from common import generated, REPO


class Vocab:
    def __init__(self):
        g = generated()
        self.g = g
        gr = g["grammar"]
        self.tt = gr["token_types"]
        self.rule_names = gr["rule_names"]
        self.rules = {n: rx for n, rx in gr["parser_rules"]}
        self.lits = {}
        for name, alts in gr["lexer_rules"]:
            out = []
            for a in alts:
                if all(lo == hi and not st for lo, hi, st in a):
                    out.append("".join(lo for lo, _, _ in a))
            self.lits[name] = out
        self.type_name = {v: k for k, v in self.tt.items()}
        t = g["tables"]
        self.tables = t
        self.fg = [k for k, _ in t["functional_groups"] if k]
        self.fg_tokens = [k for k in self.fg if k in set(self.lits["FG"])]
        self.sac = list(self.lits["SAC"])
        keys_p = {r["key"] for r in t["pyranose"]}
        keys_f = {r["key"] for r in t["furanose"]}
        keys_o = {r["key"] for r in t["open"]}
        self.keys_p, self.keys_f, self.keys_o = keys_p, keys_f, keys_o
        self.sugars_p = [s for s in self.sac + self.lits["COUNT"] if s.upper() in keys_p]
        self.sugars_f = [s for s in self.sac + self.lits["COUNT"] if s.upper() in keys_f]
        self.sugars_ol = [s for s in self.sac + self.lits["COUNT"] if (s.upper() + "-OL") in keys_o]
        self.ketoses2 = {n for n, l in t["ketoses2"]}

    def tok_text(self, ty, rng):
        name = self.type_name[ty]
        if name == "NUM":
            return str(rng.choice([1, 2, 3, 4, 5, 6, 7, 8, 9, 10, 12, 18]))
        return rng.choice(self.lits[name])

    def expand(self, rx, rng, depth=0, star_p=0.35):
        """random sentence (list of (type, text)) of an Rx from the regenerated grammar"""
        k = rx[0]
        if k == "eps":
            return []
        if k == "tok":
            return [(rx[1], self.tok_text(rx[1], rng))]
        if k == "ref":
            return self.expand(self.rules[self.rule_names[rx[1]]], rng, depth + 1, star_p)
        if k == "seq":
            return self.expand(rx[1], rng, depth, star_p) + self.expand(rx[2], rng, depth, star_p)
        if k == "alt":
            alts = []
            e = rx
            while e[0] == "alt":
                alts.append(e[1])
                e = e[2]
            alts.append(e)
            if depth > 6:
                alts = sorted(alts, key=lambda a: len(json.dumps(a)))[:2]
            return self.expand(rng.choice(alts), rng, depth, star_p)
        if k == "star":
            out = []
            while rng.random() < star_p and len(out) < 6:
                out += self.expand(rx[1], rng, depth + 1, star_p * 0.6)
            return out
        raise ValueError(rx)

    def random_deriv(self, rng):
        toks = self.expand(self.rules["deriv"], rng)
        return "".join(t for _, t in toks)


class T:
    """ordered residue tree; kids in the walker's child order: bracketed branches first, main chain last"""

    def __init__(self, name, kids=None):
        self.name = name
        self.kids = kids or []      # list of (link, T); link = dict(anomer, cpos, ppos)

    def size(self):
        return 1 + sum(k.size() for _, k in self.kids)

    def depth(self):
        return 1 + max([k.depth() for _, k in self.kids], default=0)

    def max_width(self):
        return max([len(self.kids)] + [k.max_width() for _, k in self.kids])

    def nodes(self):
        yield self
        for _, k in self.kids:
            yield from k.nodes()

    def to_json(self):
        return {"name": self.name, "kids": [[l, k.to_json()] for l, k in self.kids]}


def link_str(link, notation):
    a, c, p = link["anomer"], str(link["cpos"]), str(link["ppos"])
    if notation == "full":
        return "(%s%s-%s)" % (a, c, p)
    if notation == "condensed":
        return "%s%s-%s" % (a, c, p)
    if notation == "short":
        return "%s%s" % (a, p)
    if notation == "nosym":
        return "(%s-%s)" % (c, p)
    raise ValueError(notation)


def render(t, notation="full", pick=None):
    """IUPAC-condensed text of a tree. `pick(link)` may choose the notation per link."""
    def chain(link, kid):
        n = pick(link) if pick else notation
        return render(kid, notation, pick) + link_str(link, n)
    if not t.kids:
        return t.name
    main = chain(*t.kids[-1])
    side = "".join("[" + chain(l, k) + "]" for l, k in t.kids[:-1])
    return main + side + t.name


def expected_tree(t, default_cpos=None):
    """(names by id, per-node ordered [(child id, label)]) in the walker's pre-order numbering; labels in normal form"""
    names, kids = [], []

    def go(node):
        my = len(names)
        names.append(node.name)
        kids.append([])
        for link, k in node.kids:
            cid = go(k)
            kids[my].append((cid, "(%s%s-%s)" % (link["anomer"], link["cpos"], link["ppos"])))
        return my
    go(t)
    return names, kids


def all_shapes(n, max_kids=4):
    """all ordered rooted trees with n nodes and at most max_kids children per node (as nested tuples)"""
    if n == 1:
        return [()]
    out = []

    def forests(m, k):
        # ordered forests with m nodes and at most k trees
        if m == 0:
            return [()]
        if k == 0:
            return []
        res = []
        for first in range(1, m + 1):
            for t in all_shapes(first, max_kids):
                for rest in forests(m - first, k - 1):
                    res.append((t,) + rest)
        return res
    return [f for f in forests(n - 1, max_kids)]


def shape_to_tree(shape, name_fn, link_fn):
    return T(name_fn(), [(link_fn(), shape_to_tree(s, name_fn, link_fn)) for s in shape])


def random_shape(rng, size, max_kids=4, chain_bias=0.5):
    """random ordered tree shape with `size` nodes"""
    if size <= 1:
        return ()
    if rng.random() < chain_bias:
        return (random_shape(rng, size - 1, max_kids, chain_bias),)
    k = rng.randint(1, min(max_kids, size - 1))
    rest = size - 1
    parts = [1] * k
    for _ in range(rest - k):
        parts[rng.randrange(k)] += 1
    return tuple(random_shape(rng, p, max_kids, chain_bias) for p in parts)


def random_link(rng, anomers=("a", "b", "?"), cposs=(1, 2), pposs=(1, 2, 3, 4, 5, 6, 7, 8, 9)):
    return {"anomer": rng.choice(anomers), "cpos": rng.choice(cposs), "ppos": rng.choice(pposs)}
