"""Correspondence of the Lean Model of Monomer.find_oxygen / root_atom_id (__check_root_id) with monomer.py: every call made inside
real conversions is observed with the monomer's current feature matrix."""
from common import pmap


def observe(name):
    import numpy as np
    import glyles.glycans.mono.monomer as mono
    seen = []
    orig_fo, orig_ra = mono.Monomer.find_oxygen, mono.Monomer.root_atom_id

    def snap(m):
        x = m.x
        adj = m.adjacency
        return {"atoms": [[int(x[i, 0]), int(x[i, 2]), int(x[i, 3])] for i in range(x.shape[0])],
                "adj": [[int(i), int(j), int(adj[i, j])] for i in range(adj.shape[0]) for j in range(i + 1, adj.shape[1]) if adj[i, j] != 0],
                "x": [int(v) for v in x[:, 1]]}

    def fo(self, binding_c_id=-1, position=None):
        rec = None
        try:
            if position is None and isinstance(binding_c_id, (int, np.integer)) and binding_c_id >= 0:
                rec = dict(snap(self), fn="find", binding=int(binding_c_id))
            elif position is not None and np.asarray(position).size == 1:
                rec = dict(snap(self), fn="find", position=int(np.asarray(position).item()))
        except Exception:
            rec = None
        try:
            r = orig_fo(self, binding_c_id, position)
        except Exception as e:
            if rec is not None:
                rec["exc"] = type(e).__name__
                seen.append(rec)
            raise
        if rec is not None:
            rec["out"] = int(r)
            seen.append(rec)
        return r

    def ra(self, binding_c_id):
        rec = None
        try:
            if isinstance(binding_c_id, (int, np.integer)) and binding_c_id >= 0:
                rec = dict(snap(self), fn="root", binding=int(binding_c_id))
        except Exception:
            rec = None
        try:
            r = orig_ra(self, binding_c_id)
        except Exception as e:
            if rec is not None:
                rec["exc"] = type(e).__name__
                seen.append(rec)
            raise
        if rec is not None:
            rec["out"] = int(r)
            seen.append(rec)
        return r
    orig_mark = mono.Monomer.mark

    def mk(self, position, o_atom, n_atom):
        rec = None
        try:
            if isinstance(position, (int, np.integer)) and position >= 0:
                rec = dict(snap(self), fn="mark", binding=int(position), o_marker=int(o_atom[0]), n_marker=int(n_atom[0]))
                before = [int(v) for v in self.x[:, 0]]
        except Exception:
            rec = None
        try:
            r = orig_mark(self, position, o_atom, n_atom)
        except Exception as e:
            if rec is not None:
                rec["exc"] = type(e).__name__
                seen.append(rec)
            raise
        if rec is not None:
            after = [int(v) for v in self.x[:, 0]]
            rec["out"] = [[i, b] for i, (a, b) in enumerate(zip(before, after)) if a != b]
            rec["rdkit_agrees"] = all(self.get_structure().GetAtomWithIdx(i).GetAtomicNum() == after[i] for i in range(len(after)))
            seen.append(rec)
        return r
    mono.Monomer.mark = mk
    mono.Monomer.find_oxygen, mono.Monomer.root_atom_id = fo, ra
    try:
        from glyles.glycans.poly.glycan import Glycan
        import io
        import contextlib
        with contextlib.redirect_stdout(io.StringIO()), contextlib.redirect_stderr(io.StringIO()):
            Glycan(name)
    except Exception:
        pass
    finally:
        mono.Monomer.find_oxygen, mono.Monomer.root_atom_id = orig_fo, orig_ra
        mono.Monomer.mark = orig_mark
    return seen


def run(rep, tier, driver, names):
    if driver is None:
        return
    names = list(dict.fromkeys(names))[: (300 if tier == "quick" else 10000)]
    obs = pmap(observe, names, chunk=4)
    reqs, keep, seen_keys = [], [], set()
    for nm, recs in zip(names, obs):
        for r in recs:
            key = (r["fn"], r.get("binding"), r.get("position"), r.get("o_marker"), tuple(map(tuple, r["atoms"])), tuple(map(tuple, r["adj"])), tuple(r["x"]))
            if key in seen_keys:
                continue
            seen_keys.add(key)
            q = {"op": "findox", "atoms": r["atoms"], "adj": r["adj"], "x": r["x"]}
            if r["fn"] == "mark":
                q["o_marker"], q["n_marker"] = r["o_marker"], r["n_marker"]
            if "binding" in r:
                q["binding"] = r["binding"]
            else:
                q["position"] = r["position"]
            reqs.append(q)
            keep.append((nm, r))
    if len(reqs) > (6000 if tier == "quick" else 200000):
        reqs, keep = reqs[:6000], keep[:6000]
    ans = driver.ask_many(reqs)
    st = {"calls_compared": 0, "agree": 0, "unmodelled": 0}
    bad = 0
    for (nm, r), a in zip(keep, ans):
        st["calls_compared"] += 1
        rep.count({"find": "find_oxygen-compared", "root": "root_atom_id-compared", "mark": "mark-compared"}[r["fn"]])
        got = a.get({"root": "root", "find": "find", "mark": "mark"}[r["fn"]])
        if got is None:
            st["unmodelled"] += 1
            continue
        if r["fn"] == "mark":
            # the code: exactly the atoms whose element changed, and to what; the Model: [atom, marker] or the exception
            want = (r["out"][0] if len(r["out"]) == 1 and r.get("rdkit_agrees") else {"changed": r["out"]}) if "out" in r else r["exc"]
            st["mark_calls"] = st.get("mark_calls", 0) + 1
        else:
            want = r["out"] if "out" in r else r["exc"]
        if got == want:
            st["agree"] += 1
        else:
            bad += 1
            if bad <= 3:
                rep.broken.append("%s model: %r vs code %r on %r (binding %r position %r)" % (r["fn"], got, want, nm, r.get("binding"), r.get("position")))
    st["disagree"] = bad
    rep.extra["find_oxygen_model"] = st
