"""Correspondence of the Lean Model of Monomer.find_oxygen / root_atom_id (__check_root_id) with monomer.py: every call made inside
real conversions is observed with the monomer's current feature matrix."""
from common import pmap


def observe(name):
    import numpy as np
    import glyles.glycans.mono.monomer as mono
    seen = []
    orig_fo, orig_ra = mono.Monomer.find_oxygen, mono.Monomer.root_atom_id

    def snap(m):
        x = m.x
        adj = m.adjacency
        return {"atoms": [[int(x[i, 0]), int(x[i, 2]), int(x[i, 3])] for i in range(x.shape[0])],
                "adj": [[int(i), int(j), int(adj[i, j])] for i in range(adj.shape[0]) for j in range(i + 1, adj.shape[1]) if adj[i, j] != 0],
                "x": [int(v) for v in x[:, 1]]}

    def fo(self, binding_c_id=-1, position=None):
        rec = None
        try:
            if position is None and isinstance(binding_c_id, (int, np.integer)) and binding_c_id >= 0:
                rec = dict(snap(self), fn="find", binding=int(binding_c_id))
            elif position is not None and np.asarray(position).size == 1:
                rec = dict(snap(self), fn="find", position=int(np.asarray(position).item()))
        except Exception:
            rec = None
        try:
            r = orig_fo(self, binding_c_id, position)
        except Exception as e:
            if rec is not None:
                rec["exc"] = type(e).__name__
                seen.append(rec)
            raise
        if rec is not None:
            rec["out"] = int(r)
            seen.append(rec)
        return r

    def ra(self, binding_c_id):
        rec = None
        try:
            if isinstance(binding_c_id, (int, np.integer)) and binding_c_id >= 0:
                rec = dict(snap(self), fn="root", binding=int(binding_c_id))
        except Exception:
            rec = None
        try:
            r = orig_ra(self, binding_c_id)
        except Exception as e:
            if rec is not None:
                rec["exc"] = type(e).__name__
                seen.append(rec)
            raise
        if rec is not None:
            rec["out"] = int(r)
            seen.append(rec)
        return r
    mono.Monomer.find_oxygen, mono.Monomer.root_atom_id = fo, ra
    try:
        from glyles.glycans.poly.glycan import Glycan
        import io
        import contextlib
        with contextlib.redirect_stdout(io.StringIO()), contextlib.redirect_stderr(io.StringIO()):
            Glycan(name)
    except Exception:
        pass
    finally:
        mono.Monomer.find_oxygen, mono.Monomer.root_atom_id = orig_fo, orig_ra
    return seen


def run(rep, tier, driver, names):
    if driver is None:
        return
    names = list(dict.fromkeys(names))[: (300 if tier == "quick" else 10000)]
    obs = pmap(observe, names, chunk=4)
    reqs, keep, seen_keys = [], [], set()
    for nm, recs in zip(names, obs):
        for r in recs:
            key = (r["fn"], r.get("binding"), r.get("position"), tuple(map(tuple, r["atoms"])), tuple(map(tuple, r["adj"])), tuple(r["x"]))
            if key in seen_keys:
                continue
            seen_keys.add(key)
            q = {"op": "findox", "atoms": r["atoms"], "adj": r["adj"], "x": r["x"]}
            if "binding" in r:
                q["binding"] = r["binding"]
            else:
                q["position"] = r["position"]
            reqs.append(q)
            keep.append((nm, r))
    if len(reqs) > (6000 if tier == "quick" else 200000):
        reqs, keep = reqs[:6000], keep[:6000]
    ans = driver.ask_many(reqs)
    st = {"calls_compared": 0, "agree": 0, "unmodelled": 0}
    bad = 0
    for (nm, r), a in zip(keep, ans):
        st["calls_compared"] += 1
        rep.count("find_oxygen-compared" if r["fn"] == "find" else "root_atom_id-compared")
        got = a.get("root") if r["fn"] == "root" else a.get("find")
        if got is None:
            st["unmodelled"] += 1
            continue
        want = r["out"] if "out" in r else r["exc"]
        if got == want:
            st["agree"] += 1
        else:
            bad += 1
            if bad <= 3:
                rep.broken.append("%s model: %r vs code %r on %r (binding %r position %r)" % (r["fn"], got, want, nm, r.get("binding"), r.get("position")))
    st["disagree"] = bad
    rep.extra["find_oxygen_model"] = st
