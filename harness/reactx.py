"""Correspondence of the reactor Model (first round of SMILESReaktor.react: dispatch, extract_bridge, set_fg) with reactor.py."""
import numpy as np

import real
from common import pmap


def observe(name):
    """convert one residue name with assemble_chains observed: the view of the residue at round start and side_chains"""
    import glyles.glycans.mono.reactor as reactor
    from glyles.grammar.GlycanLexer import GlycanLexer
    rec = {}
    orig_assemble = reactor.SMILESReaktor.assemble_chains
    orig_react = reactor.SMILESReaktor.react

    def view_of(self):
        m = self.monomer
        x = m.x
        nc = int(np.count_nonzero(x[:, 0] == 6))
        elems = []
        for p in range(0, nc + 2):
            try:
                idx = m.find_oxygen(p)
                sym = m.structure.GetAtomWithIdx(idx).GetSymbol()
                elems.append(sym[:1] if sym in ("O", "N", "C") else "X")
            except Exception:
                elems.append(None)
        try:
            if sum(x[:, 2] & 0b1) == 0:
                ur = int(np.max(x[x[:, 0] == 6, 1]).item())
            else:
                c_id = np.max(x[(x[:, 0] == 6) & (x[:, 2] & 0b1).astype(bool), 1]).item()
                c_id = np.where(x[:, 1] == c_id)[0].item()
                children = np.where(np.array(m.adjacency[c_id, :] == 1) & (x[:, 0] == 6) & (1 - x[:, 2] & 0b1))[0].tolist()
                while len(children) != 0:
                    c_id = int(children[0])
                    children = np.where(np.array(m.adjacency[c_id, :] == 1) & (x[:, 0] == 6) & (1 - x[:, 2] & 0b1) & (x[:, 1] > x[c_id, 1]))[0].tolist()
                ur = int(x[c_id, 1])
        except Exception:
            ur = 0
        return {"name": m.get_name(), "ncarbon": nc, "elemAt": elems, "ringC": int(self.ring_c), "uronic": ur}

    def assemble(self):
        # every call = the end of one round of react(): the residue as the round saw it, and the side-chain table it filled
        if rec.get("in_react"):
            try:
                rec.setdefault("rounds", []).append({"view": view_of(self), "chains": [[a, b] for a, b in self.side_chains]})
            except Exception as e:
                rec["rounds_broken"] = type(e).__name__
        if "chains" not in rec:
            m = self.monomer
            x = m.x
            nc = int(np.count_nonzero(x[:, 0] == 6))
            elems = []
            for p in range(0, nc + 1):
                try:
                    idx = m.find_oxygen(p)
                    elems.append(m.structure.GetAtomWithIdx(idx).GetSymbol()[:1] if m.structure.GetAtomWithIdx(idx).GetSymbol() in ("O", "N", "C") else "X")
                except Exception:
                    elems.append(None)
            # the carbon the 'A' walk ends at (boundary: RDKit adjacency)
            try:
                if sum(x[:, 2] & 0b1) == 0:
                    c_id = np.max(x[x[:, 0] == 6, 1]).item()
                    c_id = np.where(x[:, 1] == c_id)[0].item() if False else c_id
                    ur = int(c_id)
                else:
                    c_id = np.max(x[(x[:, 0] == 6) & (x[:, 2] & 0b1).astype(bool), 1]).item()
                    c_id = np.where(x[:, 1] == c_id)[0].item()
                    children = np.where(np.array(m.adjacency[c_id, :] == 1) & (x[:, 0] == 6) & (1 - x[:, 2] & 0b1))[0].tolist()
                    while len(children) != 0:
                        c_id = int(children[0])
                        children = np.where(np.array(m.adjacency[c_id, :] == 1) & (x[:, 0] == 6) & (1 - x[:, 2] & 0b1) & (x[:, 1] > x[c_id, 1]))[0].tolist()
                    ur = int(x[c_id, 1])
            except Exception:
                ur = 0
            rec["view"] = {"name": m.get_name(), "ncarbon": nc, "elemAt": elems, "ringC": int(self.ring_c), "uronic": ur}
            rec["chains"] = [[a, b] for a, b in self.side_chains]
            rec["offset"] = len(m.ring_info) - 1
            import glyles.glycans.mono.monomer as mono
            orig_ts = mono.Monomer.to_smiles
            marked = []

            def ts(self_, *a, **k):
                r = orig_ts(self_, *a, **k)
                marked.append(r)
                return r
            mono.Monomer.to_smiles = ts
            try:
                r = orig_assemble(self)
            finally:
                mono.Monomer.to_smiles = orig_ts
            if marked and "".join("".join(x) for x in rec["chains"]):
                rec["marked"] = marked[0]
                rec["final"] = self.monomer.smiles
            return r
        return orig_assemble(self)

    def react(self, names, types):
        first = "mods" not in rec
        if first:
            rec["mods"] = [n for n, t in zip(names, types) if t == GlycanLexer.MOD]
            rec["recipe_len"] = len(names)
            rec["in_react"] = True
        try:
            r = orig_react(self, names, types)
            rec.setdefault("full", bool(r[1]))
            return r
        except Exception as e:
            rec.setdefault("exc", type(e).__name__)
            raise
        finally:
            if first:
                rec["in_react"] = False
    orig_anh = reactor.SMILESReaktor.check_for_anhydro

    def anhydro(self, names, types):
        # the residue as `ring_c` has to see it: before any anhydro bridge is closed
        if rec.get("in_react") and "pre_anhydro" not in rec:
            try:
                x = self.monomer.x
                rec["pre_anhydro"] = {"atoms": [[int(x[i, 0]), int(x[i, 2]), int(x[i, 3])] for i in range(x.shape[0])], "x": [int(v) for v in x[:, 1]]}
            except Exception:
                pass
        return orig_anh(self, names, types)
    reactor.SMILESReaktor.check_for_anhydro = anhydro
    reactor.SMILESReaktor.assemble_chains = assemble
    reactor.SMILESReaktor.react = react
    try:
        kind, smi = real.smiles_of(name)
    finally:
        reactor.SMILESReaktor.assemble_chains = orig_assemble
        reactor.SMILESReaktor.react = orig_react
        reactor.SMILESReaktor.check_for_anhydro = orig_anh
    rec["result"] = (kind, smi)
    return rec


def run(rep, tier, driver, names):
    if driver is None:
        return
    names = list(dict.fromkeys(names))
    obs = pmap(observe, names, chunk=8)
    reqs, keep = [], []
    for nm, o in zip(names, obs):
        if "view" not in o or "mods" not in o:
            continue
        req = {"op": "react"}
        req.update(o["view"])
        req["mods"] = o["mods"]
        reqs.append(req)
        keep.append((nm, o))
    ans = driver.ask_many(reqs)
    stats = {"compared": 0, "unmodelled": 0, "model_error": 0, "agree": 0}
    bad = 0
    for (nm, o), a in zip(keep, ans):
        if a.get("kind") == "unmodelled":
            stats["unmodelled"] += 1
            continue
        if a.get("kind") == "error":
            stats["model_error"] += 1
            # the Model predicts that the Python raises in the first round before assemble_chains: but assemble was reached
            bad += 1
            if bad <= 3:
                rep.broken.append("reactor model predicts %s for %r but the code reached assemble_chains" % (a.get("what"), nm))
            continue
        stats["compared"] += 1
        if a["chains"] == o["chains"]:
            stats["agree"] += 1
        else:
            bad += 1
            if bad <= 3:
                rep.broken.append("reactor model side_chains differ on %r: model %r vs code %r" % (nm, [c for c in a["chains"] if c != ["", ""]], [c for c in o["chains"] if c != ["", ""]]))
    rep.extra["reactor_model"] = stats
    # all rounds of react(): side_chains of every round and the returned `full` flag (C10) against the Model's loop
    lreqs, lkeep = [], []
    for nm, o in zip(names, obs):
        if o.get("rounds") and "mods" in o and "full" in o and "exc" not in o and "rounds_broken" not in o:
            lreqs.append({"op": "react", "views": [r["view"] for r in o["rounds"]], "mods": o["mods"], "recipe_len": o["recipe_len"]})
            lkeep.append((nm, o))
    lans = driver.ask_many(lreqs)
    lst = {"residues": 0, "unmodelled": 0, "agree": 0, "two_or_more_rounds": 0, "full_false": 0, "model_error": 0}
    lbad = 0
    for (nm, o), a in zip(lkeep, lans):
        lst["residues"] += 1
        if a.get("kind") == "unmodelled":
            lst["unmodelled"] += 1
            continue
        if a.get("kind") != "ok":
            lst["model_error"] += 1
            lbad += 1
            if lbad <= 3:
                rep.broken.append("reactor loop model predicts %s for %r but react() returned" % (a.get("what"), nm))
            continue
        lst["two_or_more_rounds"] += len(o["rounds"]) > 1
        lst["full_false"] += not o["full"]
        if a["rounds"] == [r["chains"] for r in o["rounds"]] and a["full"] == o["full"]:
            lst["agree"] += 1
        else:
            lbad += 1
            if lbad <= 3:
                rep.broken.append("reactor loop model differs on %r: full model %r code %r; rounds model %r code %r" % (
                    nm, a.get("full"), o["full"], [[c for c in r if c != ["", ""]] for r in a["rounds"]],
                    [[c for c in r["chains"] if c != ["", ""]] for r in o["rounds"]]))
    rep.extra["reactor_loop_model"] = lst
    # the anchor of position-less groups: Model of ring_c on the features before check_for_anhydro against self.ring_c
    creqs, ckeep = [], []
    for nm, o in zip(names, obs):
        if "pre_anhydro" in o and o.get("rounds"):
            creqs.append(dict(op="ringc", **o["pre_anhydro"]))
            ckeep.append((nm, o))
    cans = driver.ask_many(creqs)
    cst = {"compared": 0, "agree": 0, "anchor_values": {}}
    cbad = 0
    for (nm, o), a in zip(ckeep, cans):
        cst["compared"] += 1
        want = o["rounds"][0]["view"]["ringC"]
        cst["anchor_values"][str(want)] = cst["anchor_values"].get(str(want), 0) + 1
        if a.get("ring_c") == want:
            cst["agree"] += 1
        else:
            cbad += 1
            if cbad <= 3:
                rep.broken.append("ring_c model %r vs self.ring_c %r on %r (features before check_for_anhydro)" % (a.get("ring_c"), want, nm))
    rep.extra["ring_c_model"] = cst
    # the string half of assemble_chains: Model text against the code's new residue SMILES, and the graft certificate
    areqs, akeep = [], []
    for nm, o in zip(names, obs):
        if "marked" in o and "final" in o:
            areqs.append({"op": "assemble", "marked": o["marked"], "chains": o["chains"], "offset": max(0, o.get("offset", 0)), "final": o["final"]})
            akeep.append((nm, o))
    aans = driver.ask_many(areqs)
    a_stats = {"compared": 0, "identical_text": 0, "certified_as_graft_of_the_fragments": 0, "deoxy_chains (outside the certificate)": 0, "uncertified_samples": []}
    abad = 0
    for (nm, o), a in zip(akeep, aans):
        a_stats["compared"] += 1
        if a.get("text") == o["final"]:
            a_stats["identical_text"] += 1
        else:
            abad += 1
            if abad <= 3:
                rep.broken.append("assemble model text differs on %r: model %r vs code %r (marked %r)" % (nm, a.get("text"), o["final"], o["marked"]))
        if a.get("certified"):
            a_stats["certified_as_graft_of_the_fragments"] += 1
        elif any(c[0] == "H" for c in o["chains"]):
            a_stats["deoxy_chains (outside the certificate)"] += 1
        elif len(a_stats["uncertified_samples"]) < 8:
            a_stats["uncertified_samples"].append(nm)
    rep.extra["assemble_model"] = a_stats
