"""Correspondence of the assembly Model (shift / splice / sanitize / merge_int) with merger.py, on the real boundary strings,
and evaluation of the decidable hypothesis LabelsOK on every real merge."""
import real
from common import pmap


def observe(s):
    """run one conversion with Monomer.to_smiles' RDKit call and Merger.merge_int observed from outside"""
    import glyles.glycans.mono.monomer as mono
    import glyles.glycans.poly.merger as merger
    from glyles import Glycan
    raws = []
    shifteds = []
    orig_ts = mono.Monomer.to_smiles

    def ts(self_, *a, **k):
        r = orig_ts(self_, *a, **k)
        if state["depth"] > 0:
            shifteds.append(r)
        return r
    orig_m2s = mono.MolToSmiles
    orig_mi = merger.Merger.merge_int
    calls = []
    state = {"depth": 0}

    def m2s(*a, **k):
        r = orig_m2s(*a, **k)
        if state["depth"] > 0:
            raws.append(r)
        return r

    def mi(self, t, node, start, ring_index):
        state["depth"] += 1
        idx = len(calls)
        calls.append({"node": node, "ring_index": ring_index, "kids": [x[1] for x in t.edges(node)],
                      "nrings": max(len(t.nodes[node]["type"].get_ring_info()), t.nodes[node]["type"].get_structure().GetRingInfo().NumRings()), "raw_index": len(raws), "shift_index": len(shifteds)})
        try:
            r = orig_mi(self, t, node, start, ring_index)
        finally:
            state["depth"] -= 1
        calls[idx]["out"] = r[0]
        return r
    orig_san = merger.sanitize_smiles
    san = {"calls": 0, "double_open": 0, "double_close": 0}

    def sanitize(sm, mask=None):
        san["calls"] += 1
        san["double_open"] += "((" in sm
        san["double_close"] += "))" in sm
        return orig_san(sm, mask)
    merger.sanitize_smiles = sanitize
    mono.MolToSmiles = m2s
    mono.Monomer.to_smiles = ts
    merger.Merger.merge_int = mi
    try:
        import io
        import contextlib
        with contextlib.redirect_stdout(io.StringIO()), contextlib.redirect_stderr(io.StringIO()):
            from glyles.glycans.poly.glycan import Glycan as G
            g = G(s)
            # the release gate may blank the result; the merge itself is what is observed
        ok = True
    except Exception as e:
        ok = False
    finally:
        mono.MolToSmiles = orig_m2s
        mono.Monomer.to_smiles = orig_ts
        merger.Merger.merge_int = orig_mi
        merger.sanitize_smiles = orig_san
    if not calls or "out" not in calls[0]:
        return None
    by_node = {c["node"]: c for c in calls}
    for c in calls:
        if c["raw_index"] >= len(raws):
            return None
        c["raw"] = raws[c["raw_index"]]
        c["shifted"] = shifteds[c["shift_index"]] if c["shift_index"] < len(shifteds) else None

    def build(n):
        c = by_node[n]
        return {"raw": c["raw"], "nrings": c["nrings"], "ring_index": c["ring_index"], "kids": [build(k) for k in c["kids"] if k in by_node]}
    def build_obs(n):
        c = by_node[n]
        return {"shifted": c["shifted"] or "", "kids": [build_obs(k) for k in c["kids"] if k in by_node]}
    return {"tree": build(0), "observed": build_obs(0), "out": calls[0]["out"], "n": len(calls), "sanitize": san}


def run(rep, tier, driver, iupacs, wellformed=False):
    if driver is None:
        return
    iupacs = list(dict.fromkeys(iupacs))[: (400 if tier == "quick" else 6000)]
    obs = pmap(observe, iupacs, chunk=2)
    reqs, keep = [], []
    for s, o in zip(iupacs, obs):
        if o is None:
            continue
        reqs.append({"op": "merge", "tree": o["tree"]})
        keep.append((s, o))
    answers = driver.ask_many(reqs)
    obs_answers = driver.ask_many([{"op": "observed", "tree": o["observed"], "out": o["out"]} for _, o in keep])
    # which rules of sanitize_smiles were exercised: the '))' rule is sound for every string (sanitize_rr_sound), the '((' rule is not
    # (sanitize_ll_counterexample) and must never be needed
    san_tot = {"calls": 0, "double_open": 0, "double_close": 0}
    for s, o in keep:
        for k in san_tot:
            san_tot[k] += o.get("sanitize", {}).get(k, 0)
        if o.get("sanitize", {}).get("double_open"):
            rep.broken.append("sanitize_smiles was given a string with '((' while assembling %r: its '((' rule is not semantics-preserving" % s)
    rep.extra["sanitize_rules_exercised"] = san_tot
    n_obs = 0
    obs_uncert = []
    for (s, o), a in zip(keep, obs_answers):
        if a.get("observed_certified"):
            n_obs += 1
        else:
            obs_uncert.append(s)
    for s in (obs_uncert[:25] if wellformed else []):
        # the theorem's decidable hypothesis fails on the strings the code itself produced for a glycan the generator built
        # as well-formed (a label of a child is open at its splice point, a marker is missing / doubled / not a leaf, a child has
        # no marker), or the code's output does not denote the token-level assembly of those strings
        rep.violation("input", {"iupac": s, "what": "whole-tree certificate on the strings observed inside merge_int (wfTree and sem(output) = sem(mergeTok))"},
                      {"observed_certified": False},
                      "C01_tree_refines_spec applies to the observed residue strings and the returned string denotes specTree", key="uncertified:" + s)
    n_ok, n_lbl_bad, n_text, n_cert, n_uncert, n_tree = 0, 0, 0, 0, 0, 0
    tree_uncert = []
    uncert = []
    for (s, o), a in zip(keep, answers):
        rep.count("merge-observed")
        if not a.get("ok"):
            rep.broken.append("merge model fails (%s) on %r" % (a.get("error"), s))
            continue
        if a["smiles"] != o["out"]:
            n_text += 1
            if n_text <= 3:
                rep.broken.append("merge model text differs on %r: model %r vs code %r" % (s, a["smiles"], o["out"]))
        else:
            n_ok += 1
        if a.get("tree_certified"):
            n_tree += 1
        elif len(tree_uncert) < 5:
            tree_uncert.append(s)
        if a.get("certified"):
            n_cert += 1
        elif a.get("labels_ok"):
            # LabelsOK holds but another hypothesis of the graft theorem fails (e.g. the marker is not a leaf: an N-link onto an
            # amine that carries a further substituent). The theorem does not cover this merge; the molecule is still judged by the Spec.
            n_uncert += 1
            if len(uncert) < 5:
                uncert.append(s)
        if not a.get("labels_ok"):
            n_lbl_bad += 1
            # hypothesis of the graft theorem violated by the real merge: a child label equals a label still open at its splice point
            rep.violation("input", {"iupac": s, "what": "LabelsOK on the real boundary strings", "tree": o["tree"]}, {"labels_ok": False, "assembled": o["out"]},
                          "no ring-closure label of a child is open in its parent at the splice point (and every label < 100)", key="labels:" + s)
    rep.extra["merge_model"] = {"merges_compared": len(keep), "identical_text": n_ok, "labels_ok_violations": n_lbl_bad, "merges_certified_as_graft_instances": n_cert,
                               "whole_trees_certified (wfTree + sem(model output) = sem(mergeTok): instance of C01_tree_refines_spec)": n_tree,
                               "tree_uncertified_samples": tree_uncert,
                               "observed_trees_certified (strings returned by Monomer.to_smiles inside the real merge_int, code's own output)": n_obs,
                               "observed_uncertified": obs_uncert[:10],
                               "merges_outside_the_theorem (marker not a leaf)": n_uncert, "outside_samples": uncert}
