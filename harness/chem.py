"""Chemistry-level Spec oracles, written against RDKit only (no GlyLES logic): carbon numbering from the molecule,
joining residues at named positions with stereo-preserving molzip, formulas, ring counts, stereocentre diffs."""
import functools
import re

from rdkit import Chem
from rdkit.Chem import rdMolDescriptors

import real

MARKERS = {"Ga", "Ge", "As", "Se", "In", "Sn", "Sb", "Te", "Tl", "Pb", "Bi", "Po", "Nh", "Fl", "Mc", "Lv", "Ts", "Og"}
GLYCAN_ELEMENTS = {"C", "H", "O", "N", "S", "P", "F", "Cl", "Br", "I", "Si"}


def mol(smi):
    return Chem.MolFromSmiles(smi) if smi else None


def canon(smi):
    m = mol(smi)
    return Chem.MolToSmiles(m) if m is not None else None


def formula(smi):
    m = mol(smi)
    return rdMolDescriptors.CalcMolFormula(m) if m is not None else None


def atom_counts(m):
    """element -> count, hydrogens included"""
    out = {}
    for a in m.GetAtoms():
        out[a.GetSymbol()] = out.get(a.GetSymbol(), 0) + 1
        h = a.GetTotalNumHs()
        if h:
            out["H"] = out.get("H", 0) + h
    return out


def ring_count(m):
    return m.GetNumBonds() - m.GetNumAtoms() + len(Chem.GetMolFrags(m))


def validity(smi):
    """None if smi is a valid, whole, placeholder-free molecule; else a short reason (Spec of C02)"""
    if "()" in smi:
        return "empty branch"
    m = Chem.MolFromSmiles(smi)
    if m is None:
        return "does not parse/sanitise"
    if len(Chem.GetMolFrags(m)) != 1:
        return "not connected"
    for a in m.GetAtoms():
        s = a.GetSymbol()
        if s in MARKERS:
            return "marker atom %s" % s
        if s not in GLYCAN_ELEMENTS:
            return "element %s" % s
        if a.GetNumRadicalElectrons():
            return "radical on %s" % s
    return None


# ------------------------------------------------------------------------------------------- carbon numbering (Spec)

def main_ring(m, prefer_size=None):
    """the sugar ring: exactly one O, otherwise carbons; the hemiacetal ring if several qualify"""
    cands = []
    for ring in m.GetRingInfo().AtomRings():
        syms = [m.GetAtomWithIdx(i).GetSymbol() for i in ring]
        if syms.count("O") == 1 and all(s in ("C", "O") for s in syms) and len(ring) in (5, 6, 7):
            cands.append(ring)
    if not cands:
        return None

    def score(ring):
        o = [i for i in ring if m.GetAtomWithIdx(i).GetSymbol() == "O"][0]
        hemi = 0
        for nb in m.GetAtomWithIdx(o).GetNeighbors():
            if any(x.GetSymbol() in ("O", "N") and x.GetIdx() not in ring for x in nb.GetNeighbors()):
                hemi = 1
        return (hemi, 1 if prefer_size == len(ring) else 0, len(ring) == 6)
    return max(cands, key=score)


def number_carbons(m, prefer_size=None):
    """atom idx -> carbon number for a cyclic monosaccharide (None when the chemistry-level rule does not apply)"""
    ring = main_ring(m, prefer_size)
    if ring is None:
        return None
    ring = list(ring)
    o = [i for i in ring if m.GetAtomWithIdx(i).GetSymbol() == "O"][0]
    nbs = [a.GetIdx() for a in m.GetAtomWithIdx(o).GetNeighbors() if a.GetIdx() in ring]

    def exo_hetero(c):
        return [x.GetIdx() for x in m.GetAtomWithIdx(c).GetNeighbors() if x.GetIdx() not in ring and x.GetSymbol() in ("O", "N", "S", "F", "Cl", "Br", "I")]

    def exo_carbon(c):
        return [x.GetIdx() for x in m.GetAtomWithIdx(c).GetNeighbors() if x.GetIdx() not in ring and x.GetSymbol() == "C"]
    anomeric = [c for c in nbs if exo_hetero(c)]
    if len(anomeric) != 1:
        return None
    an = anomeric[0]
    num = {}
    k = 1
    ec = exo_carbon(an)
    if len(ec) == 1:          # 2-ketose: the exocyclic carbon on the anomeric carbon is C1
        num[ec[0]] = 1
        k = 2
    elif len(ec) > 1:
        return None
    # walk the ring away from the ring oxygen
    prev, cur = o, an
    while True:
        num[cur] = k
        k += 1
        if cur != an and len(exo_carbon(cur)) > 0 and any(a.GetIdx() == o for a in m.GetAtomWithIdx(cur).GetNeighbors()) is False:
            return None          # carbon-branched sugar (apiose, yersiniose, ...): the simple rule does not apply
        nxt = [a.GetIdx() for a in m.GetAtomWithIdx(cur).GetNeighbors() if a.GetIdx() in ring and a.GetIdx() != prev]
        if not nxt or nxt[0] == o:
            break
        prev, cur = cur, nxt[0]
    # exocyclic tail from the last ring carbon
    tail = exo_carbon(cur)
    seen = set(num)
    while len(tail) == 1 and tail[0] not in seen:
        num[tail[0]] = k
        k += 1
        seen.add(tail[0])
        tail = [x.GetIdx() for x in m.GetAtomWithIdx(tail[0]).GetNeighbors() if x.GetSymbol() == "C" and x.GetIdx() not in seen]
    return num


def hetero_on(m, num, pos, ring=None):
    """the O / N substituent on carbon `pos` that can take part in a linkage (free OH / NH2 / NH-acyl), or None"""
    inv = {v: k for k, v in num.items()}
    if pos not in inv:
        return None
    c = m.GetAtomWithIdx(inv[pos])
    ring_atoms = set(main_ring(m) or [])
    cands = [x for x in c.GetNeighbors() if x.GetSymbol() in ("O", "N") and x.GetIdx() not in ring_atoms and x.GetIdx() not in num]
    cands = [x for x in cands if not x.IsInRing()]
    os_ = [x for x in cands if x.GetSymbol() == "O"]
    ns_ = [x for x in cands if x.GetSymbol() == "N"]
    if len(os_) == 1:
        return os_[0].GetIdx()
    if len(os_) == 0 and len(ns_) == 1:
        return ns_[0].GetIdx()
    return None


@functools.lru_cache(maxsize=4096)
def residue_info(name):
    """Facts about a single residue as the real code converts it alone, judged with the Spec numbering."""
    kind, smi = real.smiles_of(name)
    if kind != "ok" or not smi:
        return {"ok": False}
    m = mol(smi)
    if m is None:
        return {"ok": False}
    num = number_carbons(m)
    if num is None:
        return {"ok": True, "smiles": smi, "cyclic": False}
    inv = {v: k for k, v in num.items()}
    ring = set(main_ring(m))
    o = [i for i in ring if m.GetAtomWithIdx(i).GetSymbol() == "O"][0]
    an = [c for c in inv if inv[c] in ring and any(x.GetIdx() == o for x in m.GetAtomWithIdx(inv[c]).GetNeighbors())
          and hetero_on(m, num, c) is not None]
    free = []
    for pos in sorted(inv):
        h = hetero_on(m, num, pos)
        if h is None:
            continue
        a = m.GetAtomWithIdx(h)
        if a.GetSymbol() == "O" and a.GetDegree() == 1 and a.GetTotalNumHs() == 1:
            free.append((pos, "O"))
        elif a.GetSymbol() == "N" and a.GetDegree() == 1 and a.GetTotalNumHs() == 2:
            free.append((pos, "N"))
    # a residue can be a child (and be declared a / b) only through a *free* anomeric hydroxyl
    if len(an) == 1 and (an[0], "O") not in free:
        an = []
    return {"ok": True, "smiles": smi, "cyclic": True, "anomeric": an[0] if len(an) == 1 else None,
            "free": free, "ncarbon": len(num), "rings": ring_count(m), "numbering_agrees": code_numbering_agrees(name)}


def code_numbering_agrees(name):
    """does enum_c's numbering of the residue's main-chain carbons equal the chemistry-level numbering? (None: not comparable)"""
    try:
        from glyles import Glycan
        import io, contextlib
        with contextlib.redirect_stdout(io.StringIO()):
            g = Glycan(name)
        mono = g.get_tree().nodes[0]["type"]
        st = mono.get_structure()
        num = number_carbons(st)
        if num is None:
            return None
        x = mono.get_features()
        # only positions that can matter: carbons bearing a hetero substituent
        return all(int(x[i, 1]) == k for i, k in num.items() if hetero_on(st, num, k) is not None)
    except Exception:
        return None


# ------------------------------------------------------------------------------------------- joining (Spec of C01)

def build_glycan(tree):
    """Spec molecule of a glycan tree, independent of GlyLES's assembly: every residue is converted on its own by the
    real code (`name` = residue name incl. modifications, with the anomer the linkage states), located by the Spec
    numbering, and joined with RDKit's stereo-preserving molzip: the child's anomeric O(H) is given up, the parent's
    O/N on the named carbon keeps its place.
    tree = {"smiles": residue smiles, "kids": [[{"cpos":..,"ppos":..}, subtree], ...]}
    Returns canonical SMILES or None when the Spec construction does not apply (position not free, acyclic, ...)."""
    frags = []
    counter = [0]

    def go(node, up):
        m = mol(node["smiles"])
        if m is None:
            return False
        num = number_carbons(m)
        if num is None:
            return False
        w = Chem.RWMol(m)
        if up is not None:
            cpos, label = up
            ch = hetero_on(m, num, cpos)
            if ch is None or m.GetAtomWithIdx(ch).GetDegree() != 1 or m.GetAtomWithIdx(ch).GetSymbol() != "O":
                return False
            a = w.GetAtomWithIdx(ch)
            a.SetAtomicNum(0)
            a.SetAtomMapNum(label)
            a.SetNoImplicit(True)
            a.SetNumExplicitHs(0)
        used = set()
        for link, kid in node["kids"]:
            ph = hetero_on(m, num, link["ppos"])
            if ph is None or ph in used or m.GetAtomWithIdx(ph).GetTotalNumHs() < 1:
                return False
            if up is not None and ph == hetero_on(m, num, up[0]):
                return False
            used.add(ph)
            counter[0] += 1
            label = counter[0]
            d = w.AddAtom(Chem.Atom(0))
            w.GetAtomWithIdx(d).SetAtomMapNum(label)
            w.AddBond(ph, d, Chem.BondType.SINGLE)
            if not go(kid, (link["cpos"], label)):
                return False
        frags.append(w.GetMol())
        return True
    if not go(tree, None):
        return None
    try:
        combo = frags[0]
        for f in frags[1:]:
            combo = Chem.CombineMols(combo, f)
        z = Chem.molzip(combo)
        Chem.SanitizeMol(z)
    except Exception:
        return None
    return Chem.MolToSmiles(z)


def stereo_centres(smi):
    m = mol(smi)
    if m is None:
        return None
    return Chem.FindMolChiralCenters(m, includeUnassigned=True, useLegacyImplementation=False)


def mirror(smi):
    m = mol(smi)
    if m is None:
        return None
    for a in m.GetAtoms():
        a.InvertChirality()
    return Chem.MolToSmiles(m)


def erase_stereo_at(smi, idxs):
    m = mol(smi)
    for i in idxs:
        m.GetAtomWithIdx(i).SetChiralTag(Chem.ChiralType.CHI_UNSPECIFIED)
    return Chem.MolToSmiles(m)


# ------------------------------------------------------------------------------------------- Spec operations (C08 / C14)

def anomeric_carbon(m):
    """(carbon idx, ring O idx) of the hemiacetal/hemiketal carbon of a cyclic monosaccharide, or None"""
    ring = main_ring(m)
    if ring is None:
        return None
    o = [i for i in ring if m.GetAtomWithIdx(i).GetSymbol() == "O"][0]
    for nb in m.GetAtomWithIdx(o).GetNeighbors():
        if nb.GetIdx() in ring and any(x.GetSymbol() in ("O", "N") and x.GetIdx() not in ring and not x.IsInRing() for x in nb.GetNeighbors()):
            return nb.GetIdx(), o
    return None


def reduce_to_alditol(smi):
    """Spec.reduce: open the hemiacetal ring and reduce the carbonyl: the anomeric carbon gives up its bond to the ring oxygen and its
    stereo mark; both ends pick up a hydrogen. Every other atom, bond and stereocentre stays."""
    m = mol(smi)
    if m is None:
        return None
    ac = anomeric_carbon(m)
    if ac is None:
        return None
    c, o = ac
    w = Chem.RWMol(m)
    w.RemoveBond(c, o)
    w.GetAtomWithIdx(c).SetChiralTag(Chem.ChiralType.CHI_UNSPECIFIED)
    for i in (c, o):
        w.GetAtomWithIdx(i).SetNoImplicit(False)
        w.GetAtomWithIdx(i).SetNumExplicitHs(0)
    try:
        Chem.SanitizeMol(w)
    except Exception:
        return None
    out = Chem.MolToSmiles(w)
    return Chem.MolToSmiles(Chem.MolFromSmiles(out))


def formula_of(smi):
    m = mol(smi)
    return rdMolDescriptors.CalcMolFormula(m) if m is not None else None


def _numbered(smi):
    m = mol(smi)
    if m is None:
        return None, None
    return m, number_carbons(m)


def _finish(w):
    try:
        Chem.SanitizeMol(w)
    except Exception:
        return None
    return Chem.MolToSmiles(Chem.MolFromSmiles(Chem.MolToSmiles(w)))


def op_uronic(smi):
    """terminal CH2OH of the main chain -> COOH; nothing else changes"""
    m, num = _numbered(smi)
    if num is None:
        return None
    inv = {v: k for k, v in num.items()}
    c = m.GetAtomWithIdx(inv[max(inv)])
    oh = [x for x in c.GetNeighbors() if x.GetSymbol() == "O" and x.GetDegree() == 1]
    if len(oh) != 1 or c.GetTotalNumHs() != 2:
        return None
    w = Chem.RWMol(m)
    o = w.AddAtom(Chem.Atom(8))
    w.AddBond(c.GetIdx(), o, Chem.BondType.DOUBLE)
    return _finish(w)


def op_deoxy(smi, n):
    """remove the oxygen on carbon n (the carbon keeps everything else and stops being a stereocentre)"""
    m, num = _numbered(smi)
    if num is None:
        return None
    h = hetero_on(m, num, n)
    if h is None or m.GetAtomWithIdx(h).GetDegree() != 1:
        return None
    inv = {v: k for k, v in num.items()}
    w = Chem.RWMol(m)
    c = w.GetAtomWithIdx(inv[n])
    c.SetChiralTag(Chem.ChiralType.CHI_UNSPECIFIED)
    c.SetNoImplicit(False)
    c.SetNumExplicitHs(0)
    w.RemoveAtom(h)
    return _finish(w)


def op_amino(smi, n):
    """the hydroxyl on carbon n becomes an amine, in place"""
    m, num = _numbered(smi)
    if num is None:
        return None
    h = hetero_on(m, num, n)
    if h is None or m.GetAtomWithIdx(h).GetSymbol() != "O" or m.GetAtomWithIdx(h).GetDegree() != 1:
        return None
    w = Chem.RWMol(m)
    w.GetAtomWithIdx(h).SetAtomicNum(7)
    return _finish(w)


def op_epimer(smi, n):
    m, num = _numbered(smi)
    if num is None:
        return None
    inv = {v: k for k, v in num.items()}
    if n not in inv or m.GetAtomWithIdx(inv[n]).GetChiralTag() == Chem.ChiralType.CHI_UNSPECIFIED:
        return None
    w = Chem.RWMol(m)
    w.GetAtomWithIdx(inv[n]).InvertChirality()
    return _finish(w)


def op_anhydro(smi, x, y):
    """x,y-anhydro: the oxygen on carbon x takes the place of the oxygen on carbon y (one water lost, one ring more)"""
    m, num = _numbered(smi)
    if num is None:
        return None
    ox, oy = hetero_on(m, num, x), hetero_on(m, num, y)
    if ox is None or oy is None or ox == oy:
        return None
    if m.GetAtomWithIdx(ox).GetDegree() != 1 or m.GetAtomWithIdx(oy).GetDegree() != 1:
        return None
    w = Chem.RWMol(m)
    a = w.GetAtomWithIdx(oy)
    a.SetAtomicNum(0)
    a.SetAtomMapNum(1)
    a.SetNoImplicit(True)
    a.SetNumExplicitHs(0)
    d = w.AddAtom(Chem.Atom(0))
    w.GetAtomWithIdx(d).SetAtomMapNum(1)
    w.AddBond(ox, d, Chem.BondType.SINGLE)
    try:
        z = Chem.molzip(w.GetMol())
    except Exception:
        return None
    return _finish(Chem.RWMol(z))


def op_onic(smi, both_ends=False):
    """aldonic (aldaric) acid: ring opened, C1 (and the terminal carbon) oxidised to COOH; other centres kept"""
    m = mol(smi)
    if m is None:
        return None
    ac = anomeric_carbon(m)
    num = number_carbons(m)
    if ac is None or num is None:
        return None
    c, o = ac
    if num.get(c) != 1:
        return None
    w = Chem.RWMol(m)
    w.RemoveBond(c, o)
    w.GetAtomWithIdx(c).SetChiralTag(Chem.ChiralType.CHI_UNSPECIFIED)
    for i in (c, o):
        w.GetAtomWithIdx(i).SetNoImplicit(False)
        w.GetAtomWithIdx(i).SetNumExplicitHs(0)
    n = w.AddAtom(Chem.Atom(8))
    w.AddBond(c, n, Chem.BondType.DOUBLE)
    if both_ends:
        inv = {v: k for k, v in num.items()}
        t = m.GetAtomWithIdx(inv[max(inv)])
        if t.GetTotalNumHs() != 2 or not any(x.GetSymbol() == "O" and x.GetDegree() == 1 for x in t.GetNeighbors()):
            return None
        n2 = w.AddAtom(Chem.Atom(8))
        w.AddBond(t.GetIdx(), n2, Chem.BondType.DOUBLE)
    return _finish(w)


def main_chain_length(smi):
    m, num = _numbered(smi)
    return len(num) if num else None
