"""Generators of API inputs (batches, histories, argument lists) and the Spec for them."""
import json
import os
import subprocess
import sys

import real
from common import REPO

HERE = os.path.dirname(os.path.abspath(__file__))

GOOD = ["Glc", "Man(a1-2)Man", "Gal(b1-4)GlcNAc", "Neu5Ac(a2-3)Gal(b1-4)Glc", "Man(a1-3)[Man(a1-6)]Man", "GlcA", "Fuc(a1-2)Gal", "Xyl", "Glc-ol", "Kdo",
        "GalNAc(a1-3)[Fuc(a1-2)]Gal", "Araf", "GlcNAc6S", "Rha(a1-3)Glc a", "Man b", "1,6-Anhydro-Glc", "Gal(b1-4)Glc-ol", "IdoA2S(a1-4)GlcNS6S"]
BAD_STR = ["", " ", "Glc(", "Glc(a1-4", "(a1-4)Glc", "Glcc", "Man((a1-2))Man", "Glc#Man", "Glc\x00", "Glc\n", "\tGlc", "Gal(b1-4)", "][", "{}", "Unk", "Glc(a1-?)Glc",
           "Man(a1-2)[Man(a1-3)][Man(a1-4)][Man(a1-6)][Man(a1-1)]Man", "Glc9S", "Glc(a1-9)Glc", "Gal,Glc", "Glc,", "ü", "Glc(a1-4)Glc(a1-4", "NeuAc5", "aaaa", "---", "Glc1Me(a1-4)Glc",
           "Glc(a1-1)Glc(a1-4)Glc", "Man\x0cFuc", "Glc\x0bGlc", "Gal\x1cGlc", "Glc\x85Man", "Glc\u2028Man", "Man\x1dFuc", "Glc\x1eGal", "Glc\u2029Gal", "Glc Man",
           "Man\x0c", "\x0bGlc", "Glc\x1f"]


def file_lines_spec(text):
    """Spec of 'one glycan per line, surrounding whitespace removed': lines end at \\n, \\r\\n or \\r (universal newlines) and
    nowhere else; a trailing terminator does not start another line"""
    import re
    parts = re.split("\r\n|\r|\n", text)
    if parts and parts[-1] == "":
        parts = parts[:-1]
    return [p.strip() for p in parts]
NON_STR = [{"none": 1}, {"int": 7}, {"float": 1.5}, {"bytes": "Glc"}, {"list": ["Glc"]}, {"int": 0}]


def soup(rng, vocab, n):
    toks = [l for ls in vocab.lits.values() for l in ls]
    out = ""
    while len(out) < n:
        out += rng.choice(toks)
    return out[:n]


# grammatical inputs the assembly cannot realise (they fail with an exception from below the parser, or come back empty), to be
# prefixed by chains of arbitrary length: linkage onto a carbon without oxygen, two residues on one position, the anomeric oxygen used
# twice, a position beyond the skeleton, an unknown residue, a '?' linkage
UNASSEMBLABLE = ["Man(a1-6)Fuc", "Man(a1-4)[Gal(b1-4)]Glc", "Glc(a1-1)Glc(a1-4)Glc", "Gal(b1-9)Glc", "Man(a1-3)Unk", "Gal(b1-?)Glc", "Fuc(a1-2)Xyl5S",
                 "Glc(a1-4)Rha6S", "Man(a1-6)6dTal", "Gal(b1-4)GlcNAc(b1-6)Fuc"]


def unassemblable(rng):
    k = rng.choice([0, 1, 3, 14, 14, 20, 30, 40])
    return rng.choice(["Man(a1-4)", "Gal(b1-4)", "Glc(a1-6)"]) * k + rng.choice(UNASSEMBLABLE)


def random_input(rng, vocab, p_bad=0.4):
    r = rng.random()
    if r > p_bad:
        return rng.choice(GOOD) if rng.random() < 0.9 else "Man(a1-4)" * rng.choice([15, 30, 60]) + rng.choice(GOOD)
    r = rng.random()
    if r < 0.2:
        return unassemblable(rng)
    if r < 0.45:
        return rng.choice(BAD_STR)
    if r < 0.6:
        return rng.choice(NON_STR)
    if r < 0.75:
        g = rng.choice(GOOD)
        return g[:rng.randrange(1, len(g))] if len(g) > 1 else g
    if r < 0.9:
        return soup(rng, vocab, rng.randint(1, 40))
    return soup(rng, vocab, 2000)


def is_str(x):
    return isinstance(x, str)


def spec_smiles(x, full=True):
    """Spec of one pair: Glycan(x, full=full).get_smiles(), '' if that raises"""
    from apirun import decode_input
    kind, smi = real.smiles_of(decode_input(x), full=full)
    return smi if kind == "ok" else ""


def run_fresh(calls, timeout=600):
    """execute calls in a fresh interpreter; returns list of observations (or raises)"""
    env = dict(os.environ)
    env["GLYLES_REPO"] = REPO
    env["PYTHONPATH"] = REPO
    p = subprocess.run([sys.executable, os.path.join(HERE, "apirun.py")], input=json.dumps(calls), capture_output=True, text=True, timeout=timeout, env=env)
    if p.returncode != 0:
        raise RuntimeError("apirun failed: " + p.stderr[-500:])
    return json.loads(p.stdout.strip().split("\n")[-1])
