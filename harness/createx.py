"""Correspondence of the Lean Model of MonomerFactory.create (name resolution against the three tables: ring letter, anomer
suffix / config argument, Sug alias, succinic / unknown fall-backs, recipe extension) with factory.py, on recipes the real
walker builds."""
import copy

from common import pmap


def _recipes(name):
    """(recipe, config) pairs to try for one written residue name: its walker recipe as is, and with each config argument"""
    from glyles import Glycan
    try:
        t = Glycan(name, tree_only=True).get_tree()
    except Exception:
        return []
    if t is None or len(t.nodes) != 1:
        return []
    rec = [(str(a), int(b)) for a, b in t.nodes[0]["type"].recipe]
    return [(rec, c) for c in ("", "a", "b")]


def _real_create(job):
    rec, config = job
    from glyles.glycans.factory.factory import MonomerFactory
    fac = MonomerFactory()
    r = copy.deepcopy(rec)
    try:
        m, full = fac.create(r, config, tree_only=True)
    except Exception as e:
        return {"kind": "raises", "exc": type(e).__name__}
    lact = m.get_lactole()
    return {"kind": "ok", "smiles": m.get_smiles() if hasattr(m, "get_smiles") else m.smiles, "name": m.get_name(),
            "config": int(m.get_config().value), "isomer": int(m.get_isomer().value), "lactole": int(lact.value),
            "recipe": [[a, b] for a, b in r], "full": bool(full)}


def _real_create_history(jobs):
    """the same calls issued one after the other on ONE factory (as a Glycan does for its residues): create is a function of its
    arguments, earlier calls must not show"""
    from glyles.glycans.factory.factory import MonomerFactory
    fac = MonomerFactory()
    out = []
    for rec, config in jobs:
        r = copy.deepcopy(rec)
        try:
            m, full = fac.create(r, config, tree_only=True)
            out.append({"kind": "ok", "smiles": m.get_smiles() if hasattr(m, "get_smiles") else m.smiles, "name": m.get_name(),
                        "config": int(m.get_config().value), "isomer": int(m.get_isomer().value), "lactole": int(m.get_lactole().value),
                        "recipe": [[a, b] for a, b in r], "full": bool(full)})
        except Exception as e:
            out.append({"kind": "raises", "exc": type(e).__name__})
    return out


def run(rep, tier, driver, names):
    if driver is None:
        return
    names = list(dict.fromkeys(names))[: (400 if tier == "quick" else 20000)]
    jobs = [j for js in pmap(_recipes, names, chunk=8) for j in js]
    # hand-made recipes for the branches random names rarely reach
    SAC, TYPE, RING = None, None, None
    from common import generated
    tt = generated()["grammar"]["token_types"]
    SAC, TYPE, RING = tt["SAC"], tt["TYPE"], tt["RING"]
    jobs += [([("Sug", SAC)], ""), ([("Suc", SAC)], ""), ([("Suc", SAC)], "a"), ([("Glc", SAC), ("f", RING)], "b"), ([("Glc", SAC), ("p", RING), ("a", TYPE)], ""),
             ([("Glc", SAC), ("a", TYPE)], "b"), ([("Fru", SAC)], ""), ([("Fru", SAC), ("p", RING)], "a"), ([("Xxx", SAC)], ""), ([("3", 1), ("d", 1)], ""),
             ([("Glc", SAC), ("-ol", 1)], ""), ([("Api", SAC), ("p", RING)], ""), ([("Api", SAC), ("f", RING)], "")]
    real = pmap(_real_create, jobs, chunk=8)
    answers = driver.ask_many([{"op": "create", "recipe": [[a, b] for a, b in rec], "config": cfg} for rec, cfg in jobs])
    n_same, bad = 0, 0
    for (rec, cfg), r, a in zip(jobs, real, answers):
        rep.count("create-compared")
        if r["kind"] == "raises" or a.get("kind") == "raises":
            if r["kind"] != a.get("kind"):
                bad += 1
                if bad <= 3:
                    rep.broken.append("create model: %r vs code %r on recipe %r config %r" % (a.get("kind"), r, rec, cfg))
            else:
                n_same += 1
            continue
        ok = a.get("recipe") == r["recipe"]
        if a.get("table") in ("pyranose", "furanose", "open"):
            ok = ok and a.get("smiles") == r["smiles"] and a.get("name") == r["name"] and a.get("config") == r["config"] and \
                a.get("isomer") == r["isomer"] and a.get("lactole") == r["lactole"]
            rep.count("create-" + a.get("table"))
        elif a.get("table") == "unknown":
            ok = ok and r["lactole"] == 0
            rep.count("create-unknown")
        else:
            rep.count("create-succinic")
        if ok:
            n_same += 1
        else:
            bad += 1
            if bad <= 3:
                rep.broken.append("create model: %r vs code %r on recipe %r config %r" % (a, r, rec, cfg))
    # histories on one factory: every recipe with its three configs back to back, in chunks of 12 calls
    import random as _random
    hr = _random.Random(len(jobs))
    hjobs = [jobs[i] for i in hr.sample(range(len(jobs)), min(len(jobs), 600 if tier == "quick" else 6000))]
    extra = []
    for rec, cfg in hjobs[:200]:
        for c2 in ("a", "", "b", "a"):
            extra.append((rec, c2))
    hjobs = extra + hjobs
    chunks = [hjobs[i:i + 12] for i in range(0, len(hjobs), 12)]
    fresh = {}
    for (rec, cfg), r in zip(jobs, real):
        fresh[(tuple(map(tuple, rec)), cfg)] = r
    hist = pmap(_real_create_history, chunks, chunk=4)
    hbad = hn = 0
    for ch, outs in zip(chunks, hist):
        for (rec, cfg), o in zip(ch, outs):
            ref = fresh.get((tuple(map(tuple, rec)), cfg))
            if ref is None:
                continue
            hn += 1
            rep.count("create-history-compared")
            if o != ref:
                hbad += 1
                if hbad <= 3:
                    rep.broken.append("create on a used factory differs from create on a fresh one (the Model is a function of its arguments): recipe %r config %r: %r vs %r" % (rec, cfg, o, ref))
    rep.extra["create_model"] = {"recipes_compared": len(jobs), "agree": n_same, "disagree": bad, "calls_on_used_factories": hn, "history_dependent": hbad}
