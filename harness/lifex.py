"""Correspondence of the Lean Model of a Glycan object's life (GlyModel/Api/Lifecycle.lean: construction, eager / lazy assembly,
caching, release gate; C02_every_delivery_released, C02_get_smiles_stable) with glycan.py: the results of the walks, merges and
release decisions are observed inside the code and fed to the Model, which must hand out what two consecutive get_smiles() calls
handed out."""
from common import pmap


def observe(job):
    name, opts = job
    import io
    import contextlib
    import glyles.glycans.poly.walker as walker
    import glyles.glycans.poly.merger as merger
    import glyles.glycans.poly.glycan as glycan
    rec = {"name": name, "opts": opts, "walks": [], "merges": [], "release": {}}
    o_parse, o_merge = walker.TreeWalker.parse, merger.Merger.merge
    o_release = glycan.Glycan._Glycan__release

    def parse(self, t):
        r = o_parse(self, t)
        rec["walks"].append(bool(r[1]))
        return r

    def merge(self, t, *a, **k):
        try:
            r = o_merge(self, t, *a, **k)
        except Exception as e:
            rec["merges"].append({"exc": type(e).__name__})
            raise
        rec["merges"].append({"out": r})
        return r

    def release(self, smiles):
        r = o_release(self, smiles)
        if isinstance(smiles, str) and smiles:
            rec["release"][smiles] = bool(r)
        return r
    walker.TreeWalker.parse, merger.Merger.merge = parse, merge
    glycan.Glycan._Glycan__release = release
    try:
        with contextlib.redirect_stdout(io.StringIO()), contextlib.redirect_stderr(io.StringIO()):
            try:
                g = glycan.Glycan(name, **opts)
                rec["construct"] = "ok"
            except Exception as e:
                rec["construct"] = "raises:" + type(e).__name__
                g = None
            rec["after_ctor"] = {"walks": len(rec["walks"]), "merges": len(rec["merges"])}
            rec["calls"] = []
            if g is not None:
                for _ in range(2):
                    try:
                        rec["calls"].append(g.get_smiles())
                    except Exception as e:
                        rec["calls"].append({"exc": type(e).__name__})
    finally:
        walker.TreeWalker.parse, merger.Merger.merge = o_parse, o_merge
        glycan.Glycan._Glycan__release = o_release
    return rec


def run(rep, tier, driver, jobs):
    if driver is None:
        return
    jobs = jobs[: (600 if tier == "quick" else 12000)]
    obs = pmap(observe, jobs, chunk=4)
    reqs, keep = [], []
    for r in obs:
        if not r["walks"]:
            continue                      # the grammar rejected the input: no object life to speak of
        nw, nm = r["after_ctor"]["walks"], r["after_ctor"]["merges"]
        ctor_merge = r["merges"][0] if nm >= 1 else None
        lazy_merge = r["merges"][nm] if len(r["merges"]) > nm else None
        q = {"op": "life", "tree_only": bool(r["opts"].get("tree_only", False)), "full": bool(r["opts"].get("full", True)),
             "tf_ctor": r["walks"][0], "merged_ctor": (ctor_merge or {}).get("out"),
             "tf_lazy": r["walks"][nw] if len(r["walks"]) > nw else r["walks"][0], "merged_lazy": (lazy_merge or {}).get("out"),
             "valid": r["release"]}
        reqs.append(q)
        keep.append(r)
    ans = driver.ask_many(reqs)
    st = {"objects": 0, "agree": 0, "eager": 0, "lazy": 0, "gate_blocked": 0, "release_rejected": 0, "constructor_raises": 0}
    bad = 0
    for r, a in zip(keep, ans):
        st["objects"] += 1
        rep.count("life-compared")
        if r["construct"] != "ok":
            st["constructor_raises"] += 1
            if a.get("construct") != "raises":
                # an exception below the Model (walker / factory) is not the Model's business; one from the eager merge is
                if r["after_ctor"]["merges"] >= 1:
                    bad += 1
                    if bad <= 3:
                        rep.broken.append("life model: constructor raised %s for %r %r, model constructs" % (r["construct"], r["name"], r["opts"]))
            else:
                st["agree"] += 1
            continue
        if a.get("construct") != "ok":
            bad += 1
            if bad <= 3:
                rep.broken.append("life model: model says the constructor raises, code constructed %r %r" % (r["name"], r["opts"]))
            continue
        st["eager"] += r["after_ctor"]["merges"] >= 1
        st["lazy"] += len(r["merges"]) > r["after_ctor"]["merges"]
        st["release_rejected"] += any(v is False for v in r["release"].values())
        want = [c if isinstance(c, str) else None for c in r["calls"]]
        got = [a.get("first"), a.get("second")]
        st["gate_blocked"] += (want[0] == "" and not r["merges"])
        if want == got:
            st["agree"] += 1
        else:
            bad += 1
            if bad <= 3:
                rep.broken.append("life model: get_smiles() x2 of %r %r returned %r, model %r" % (r["name"], r["opts"], want, got))
            if any(isinstance(w, str) and w and r["release"].get(w) is False for w in want):
                rep.violation("input", {"iupac": r["name"], "opts": r["opts"]}, {"get_smiles": want},
                              "a string the release gate rejected must not be handed out", key="unreleased:%s:%s" % (r["name"], sorted(r["opts"].items())))
    st["disagree"] = bad
    rep.extra["object_life_model"] = st
