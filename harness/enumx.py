"""Correspondence of the Lean Model of enumerate_carbon (mono/enum_c.py + utils.Tree) with the code: the function is observed from
outside inside real conversions (every residue, also after modifications); inputs = atomic numbers, ring flags, iso flags, bond-order
adjacency (and c1_find's chain for open forms); output = the carbon numbers x[:,1]."""
from common import pmap


def observe(name):
    import numpy as np
    import glyles.glycans.mono.monomer as mono
    seen = []
    orig = mono.enumerate_carbon

    def wrapped(monomer):
        rec = {}
        try:
            x = monomer.x
            rec["atoms"] = [[int(x[i, 0]), int(x[i, 2]), int(x[i, 3])] for i in range(x.shape[0])]
            adj = monomer.adjacency
            rec["adj"] = [[int(i), int(j), int(adj[i, j])] for i in range(adj.shape[0]) for j in range(i + 1, adj.shape[1]) if adj[i, j] != 0]
            rec["before"] = [int(v) for v in x[:, 1]]
            ring_c = np.where((x[:, 0] == 6) & (x[:, 2] & 0b1) & (x[:, 3] == 1))[0]
            if ring_c.size == 0:
                try:
                    rec["chain_open"] = [int(c) for c in monomer.c1_find(monomer.structure)]
                except Exception:
                    rec["chain_open"] = None
        except Exception:
            rec = None
        try:
            orig(monomer)
            if rec is not None:
                rec["after"] = [int(v) for v in monomer.x[:, 1]]
        except Exception as e:
            if rec is not None:
                rec["exc"] = type(e).__name__
            if rec is not None:
                seen.append(rec)
            raise
        if rec is not None:
            seen.append(rec)
    mono.enumerate_carbon = wrapped
    try:
        from glyles.glycans.poly.glycan import Glycan
        import io
        import contextlib
        with contextlib.redirect_stdout(io.StringIO()), contextlib.redirect_stderr(io.StringIO()):
            Glycan(name)
    except Exception:
        pass
    finally:
        mono.enumerate_carbon = orig
    return seen


def run(rep, tier, driver, names):
    if driver is None:
        return
    names = list(dict.fromkeys(names))[: (500 if tier == "quick" else 20000)]
    obs = pmap(observe, names, chunk=4)
    reqs, keep = [], []
    seen_keys = set()
    for nm, recs in zip(names, obs):
        for r in recs:
            if r.get("chain_open", []) is None:
                continue
            key = (tuple(map(tuple, r["atoms"])), tuple(map(tuple, r["adj"])))
            if key in seen_keys:
                continue
            seen_keys.add(key)
            reqs.append({"op": "enumc", "atoms": r["atoms"], "adj": r["adj"], "chain_open": r.get("chain_open", [])})
            keep.append((nm, r))
    ans = driver.ask_many(reqs)
    st = {"calls_compared": 0, "agree": 0, "unmodelled": 0, "both_raise": 0}
    bad = 0
    for (nm, r), a in zip(keep, ans):
        st["calls_compared"] += 1
        rep.count("enum_c-compared")
        if a.get("kind") == "unmodelled":
            st["unmodelled"] += 1
            continue
        if "exc" in r or a.get("kind") == "raises":
            if ("exc" in r) and a.get("kind") == "raises":
                st["both_raise"] += 1
            else:
                bad += 1
                if bad <= 3:
                    rep.broken.append("enum_c model: %r vs code %r on %r" % (a, r.get("exc", r.get("after")), nm))
            continue
        if a.get("numbers") == r["after"]:
            st["agree"] += 1
        else:
            bad += 1
            if bad <= 3:
                rep.broken.append("enum_c model numbering differs on %r: model %r vs code %r" % (nm, a.get("numbers"), r["after"]))
    st["disagree"] = bad
    rep.extra["enum_c_model"] = st
