import GlyModel.Front.Parser
import GlyModel.Front.Ast
namespace Gly

/-- Declarative meaning of the grammar: which token strings an expression derives. -/
inductive Derives (g : Grammar) : Rx → List Token → Prop
  | eps : Derives g .eps []
  | tok {t : TokType} (x : Token) : x.ty = t → Derives g (.tok t) [x]
  | ref {r : Nat} {w : List Token} : Derives g (g.rule r) w → Derives g (.ref r) w
  | seq {a b : Rx} {u v : List Token} : Derives g a u → Derives g b v → Derives g (.seq a b) (u ++ v)
  | altL {a b : Rx} {w : List Token} : Derives g a w → Derives g (.alt a b) w
  | altR {a b : Rx} {w : List Token} : Derives g b w → Derives g (.alt a b) w
  | starNil {a : Rx} : Derives g (.star a) []
  | starCons {a : Rx} {u v : List Token} : Derives g a u → Derives g (.star a) v → Derives g (.star a) (u ++ v)

mutual
/-- Tokens at the leaves of a parse tree, left to right. -/
def PT.yield : PT → List Token
  | .leaf t => [t]
  | .node _ ks => PT.yieldList ks
def PT.yieldList : List PT → List Token
  | [] => []
  | k :: ks => PT.yield k ++ PT.yieldList ks
end

theorem yieldList_append (a b : List PT) : PT.yieldList (a ++ b) = PT.yieldList a ++ PT.yieldList b := by
  induction a with
  | nil => simp [PT.yieldList]
  | cons x xs ih => simp [PT.yieldList, ih, List.append_assoc]

theorem mem_dedupGo {xs : PRes} {seen : List Nat} {x : List PT × List Token} :
    x ∈ dedupGo xs seen → x ∈ xs := by
  induction xs generalizing seen with
  | nil => simp [dedupGo]
  | cons y ys ih =>
    obtain ⟨k, r⟩ := y
    unfold dedupGo
    split
    · intro h; exact List.mem_cons_of_mem _ (ih h)
    · intro h
      rcases List.mem_cons.mp h with h | h
      · exact h ▸ List.mem_cons_self
      · exact List.mem_cons_of_mem _ (ih h)

theorem mem_dedup {xs : PRes} {x : List PT × List Token} : x ∈ dedup xs → x ∈ xs := mem_dedupGo

/-- Soundness of the parser with respect to the grammar, and the yield law: every result consumed a
    prefix `w` of the input which the expression derives, and the trees' leaves are exactly `w`. -/
theorem parseRx_sound (g : Grammar) :
    ∀ (fuel : Nat) (e : Rx) (inp : List Token) (k : List PT) (r : List Token),
      (k, r) ∈ parseRx g fuel e inp →
      inp = PT.yieldList k ++ r ∧ Derives g e (PT.yieldList k) := by
  intro fuel
  induction fuel with
  | zero => intro e inp k r h; simp [parseRx] at h
  | succ n ih =>
    intro e inp k r h
    cases e with
    | eps =>
      simp [parseRx] at h
      obtain ⟨rfl, rfl⟩ := h
      exact ⟨by simp [PT.yieldList], Derives.eps⟩
    | tok t =>
      cases inp with
      | nil => simp [parseRx] at h
      | cons x xs =>
        simp only [parseRx] at h
        split at h
        · rename_i hty
          simp at h
          obtain ⟨rfl, rfl⟩ := h
          exact ⟨by simp [PT.yieldList, PT.yield], by simpa [PT.yieldList, PT.yield] using Derives.tok x hty⟩
        · simp at h
    | ref rr =>
      simp only [parseRx, List.mem_map] at h
      obtain ⟨⟨k', r'⟩, hm, heq⟩ := h
      simp at heq
      obtain ⟨rfl, rfl⟩ := heq
      have := ih _ _ _ _ hm
      refine ⟨by simpa [PT.yieldList, PT.yield] using this.1, ?_⟩
      simpa [PT.yieldList, PT.yield] using Derives.ref this.2
    | seq a b =>
      simp only [parseRx] at h
      have h := mem_dedup h
      simp only [List.mem_flatMap, List.mem_map] at h
      obtain ⟨⟨k1, r1⟩, h1, ⟨k2, r2⟩, h2, heq⟩ := h
      simp at heq
      obtain ⟨rfl, rfl⟩ := heq
      have e1 := ih _ _ _ _ h1
      have e2 := ih _ _ _ _ h2
      refine ⟨?_, ?_⟩
      · rw [yieldList_append, List.append_assoc, ← e2.1]; exact e1.1
      · rw [yieldList_append]; exact Derives.seq e1.2 e2.2
    | alt a b =>
      simp only [parseRx] at h
      have h := mem_dedup h
      rcases List.mem_append.mp h with h | h
      · have := ih _ _ _ _ h; exact ⟨this.1, Derives.altL this.2⟩
      · have := ih _ _ _ _ h; exact ⟨this.1, Derives.altR this.2⟩
    | star a =>
      simp only [parseRx] at h
      have h := mem_dedup h
      rcases List.mem_append.mp h with h | h
      · simp only [List.mem_flatMap, List.mem_map, List.mem_filter] at h
        obtain ⟨⟨k1, r1⟩, ⟨h1, _⟩, ⟨k2, r2⟩, h2, heq⟩ := h
        simp at heq
        obtain ⟨rfl, rfl⟩ := heq
        have e1 := ih _ _ _ _ h1
        have e2 := ih _ _ _ _ h2
        refine ⟨?_, ?_⟩
        · rw [yieldList_append, List.append_assoc, ← e2.1]; exact e1.1
        · rw [yieldList_append]; exact Derives.starCons e1.2 e2.2
      · simp at h
        obtain ⟨rfl, rfl⟩ := h
        exact ⟨by simp [PT.yieldList], Derives.starNil⟩

end Gly
