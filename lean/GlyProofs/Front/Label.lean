import GlyModel.Front.Model
import GlyModel.Mono.Factory
namespace Gly

def NoSep (l : List Char) : Prop := ∀ c ∈ l, c ≠ '(' ∧ c ≠ ')' ∧ c ≠ '-'

theorem contains_false_of {l : List Char} {x : Char} (h : ∀ c ∈ l, c ≠ x) : l.contains x = false := by
  induction l with
  | nil => rfl
  | cons y ys ih =>
    have hy : y ≠ x := h y (by simp)
    simp only [List.contains_cons]
    have : (x == y) = false := by simp; exact fun e => hy e.symm
    rw [this, ih (fun c hc => h c (by simp [hc]))]; rfl

theorem contains_append (a b : List Char) (x : Char) : (a ++ b).contains x = (a.contains x || b.contains x) := by
  induction a with
  | nil => simp
  | cons y ys ih => simp [List.contains_cons, ih, Bool.or_assoc]

/-- Fully parenthesised linkages are kept as written. -/
theorem normLabel_paren (w : WalkCfg) (child : Recipe) (body : List Char) :
    normLabel w child ('(' :: body) = '(' :: body := by
  simp [normLabel, List.contains_cons]

/-- `t i - j`  ↦  `( t i - j )`. -/
theorem normLabel_condensed (w : WalkCfg) (child : Recipe) (t i j : List Char)
    (ht : NoSep t) (hi : NoSep i) (hj : NoSep j) :
    normLabel w child (t ++ i ++ ['-'] ++ j) = '(' :: (t ++ i ++ ['-'] ++ j) ++ [')'] := by
  have nl : ∀ l, NoSep l → l.contains '(' = false ∧ l.contains ')' = false := fun l h =>
    ⟨contains_false_of (fun c hc => (h c hc).1), contains_false_of (fun c hc => (h c hc).2.1)⟩
  unfold normLabel
  simp only [contains_append, (nl t ht).1, (nl t ht).2, (nl i hi).1, (nl i hi).2, (nl j hj).1, (nl j hj).2]
  simp [List.contains_cons]

/-- `t j`  ↦  `( t d - j )` with `d` the default child position the walker inserts. -/
theorem normLabel_short (w : WalkCfg) (child : Recipe) (t : Char) (j : List Char)
    (ht : t ≠ '(' ∧ t ≠ ')' ∧ t ≠ '-') (hj : NoSep j) :
    normLabel w child (t :: j) =
      '(' :: t :: (if w.ketose2 child then '2' else '1') :: '-' :: j ++ [')'] := by
  have h1 : j.contains '(' = false := contains_false_of (fun c hc => (hj c hc).1)
  have h2 : j.contains ')' = false := contains_false_of (fun c hc => (hj c hc).2.1)
  have h3 : j.contains '-' = false := contains_false_of (fun c hc => (hj c hc).2.2)
  unfold normLabel
  have e1 : ('(' == t) = false := by simp; exact fun e => ht.1 e.symm
  have e2 : (')' == t) = false := by simp; exact fun e => ht.2.1 e.symm
  have e3 : ('-' == t) = false := by simp; exact fun e => ht.2.2 e.symm
  simp only [List.contains_cons, h1, h2, h3, e1, e2, e3]
  cases w.ketose2 child <;> simp

end Gly
