import GlyProofs.Front.LexAtnSmall
namespace Gly.Atn
set_option maxRecDepth 100000 in
theorem lex_SAC_ok : lexOkAt idxSAC = true := by decide +kernel
end Gly.Atn
