import GlyModel.Front.Atn
/-
  Soundness of the per-rule equivalence check between the generated parser's ATN and the grammar's right-hand sides.
-/
namespace Gly.Atn
open Gly

/-- the regular language of a right-hand side over (token types + rule references): rule references are letters -/
inductive Flat : Rx → List Sym → Prop
  | eps : Flat .eps []
  | tok (t : Nat) : Flat (.tok t) [.tok t]
  | ref (r : Nat) : Flat (.ref r) [.ref r]
  | seq {a b : Rx} {u v : List Sym} : Flat a u → Flat b v → Flat (.seq a b) (u ++ v)
  | altL {a b : Rx} {u : List Sym} : Flat a u → Flat (.alt a b) u
  | altR {a b : Rx} {u : List Sym} : Flat b u → Flat (.alt a b) u
  | starNil {a : Rx} : Flat (.star a) []
  | starCons {a : Rx} {u v : List Sym} : Flat a u → Flat (.star a) v → Flat (.star a) (u ++ v)

/-- the sub-automaton of one rule: paths through epsilon and symbol edges -/
inductive Path (n : RuleNfa) : Nat → List Sym → Nat → Prop
  | refl (q : Nat) : Path n q [] q
  | eps {q q' q'' : Nat} {w : List Sym} : (q, q') ∈ n.eps → Path n q' w q'' → Path n q w q''
  | sym {q q' q'' : Nat} {s : Sym} {w : List Sym} : (q, s, q') ∈ n.edges → Path n q' w q'' → Path n q (s :: w) q''

def FlatL (ps : List Rx) (w : List Sym) : Prop := ∃ p ∈ ps, Flat p w
def Acc (n : RuleNfa) (S : List Nat) (w : List Sym) : Prop := ∃ q ∈ S, Path n q w n.stop

/-! ### regular-expression side -/

theorem flat_nil_of_nullable (r : Rx) (h : nullable r = true) : Flat r [] := by
  induction r with
  | eps => exact Flat.eps
  | tok t => simp [nullable] at h
  | ref r => simp [nullable] at h
  | seq a b iha ihb =>
    simp only [nullable, Bool.and_eq_true] at h
    have := Flat.seq (iha h.1) (ihb h.2); simpa using this
  | alt a b iha ihb =>
    simp only [nullable, Bool.or_eq_true] at h
    rcases h with h | h
    · exact Flat.altL (iha h)
    · exact Flat.altR (ihb h)
  | star a _ => exact Flat.starNil

theorem nullable_of_flat_nil (r : Rx) (w : List Sym) (h : Flat r w) (hw : w = []) : nullable r = true := by
  induction h with
  | eps => rfl
  | tok t => simp at hw
  | ref r => simp at hw
  | seq _ _ iha ihb =>
    simp only [List.append_eq_nil_iff] at hw
    simp [nullable, iha hw.1, ihb hw.2]
  | altL _ ih => simp [nullable, ih hw]
  | altR _ ih => simp [nullable, ih hw]
  | starNil => rfl
  | starCons _ _ _ _ => rfl

theorem nullable_spec (r : Rx) : nullable r = true ↔ Flat r [] :=
  ⟨flat_nil_of_nullable r, fun h => nullable_of_flat_nil r [] h rfl⟩

theorem flat_eps (w : List Sym) (h : Flat .eps w) : w = [] := by cases h; rfl

theorem pd_sound (s : Sym) (r : Rx) : ∀ (p : Rx) (w : List Sym), p ∈ pd s r → Flat p w → Flat r (s :: w) := by
  induction r with
  | eps => intro p w hp; simp [pd] at hp
  | tok t =>
    intro p w hp hf
    simp only [pd] at hp
    by_cases hs : s = .tok t
    · simp only [hs, if_true, List.mem_singleton] at hp
      subst hp; rw [flat_eps w hf, hs]; exact Flat.tok t
    · simp [hs] at hp
  | ref r =>
    intro p w hp hf
    simp only [pd] at hp
    by_cases hs : s = .ref r
    · simp only [hs, if_true, List.mem_singleton] at hp
      subst hp; rw [flat_eps w hf, hs]; exact Flat.ref r
    · simp [hs] at hp
  | seq a b iha ihb =>
    intro p w hp hf
    simp only [pd, List.mem_append, List.mem_map] at hp
    rcases hp with ⟨p', hp', rfl⟩ | hp
    · cases hf with
      | seq h1 h2 => exact Flat.seq (iha p' _ hp' h1) h2
    · by_cases hn : nullable a = true
      · simp only [hn, if_true] at hp
        have := Flat.seq (flat_nil_of_nullable a hn) (ihb p w hp hf)
        simpa using this
      · simp [hn] at hp
  | alt a b iha ihb =>
    intro p w hp hf
    simp only [pd, List.mem_append] at hp
    rcases hp with hp | hp
    · exact Flat.altL (iha p w hp hf)
    · exact Flat.altR (ihb p w hp hf)
  | star a ih =>
    intro p w hp hf
    simp only [pd, List.mem_map] at hp
    obtain ⟨p', hp', rfl⟩ := hp
    cases hf with
    | seq h1 h2 => exact Flat.starCons (ih p' _ hp' h1) h2

theorem pd_complete (r : Rx) (x : List Sym) (h : Flat r x) : ∀ (s : Sym) (w : List Sym), x = s :: w → ∃ p ∈ pd s r, Flat p w := by
  induction h with
  | eps => intro s w hx; simp at hx
  | tok t =>
    intro s w hx
    simp only [List.cons.injEq] at hx
    obtain ⟨rfl, rfl⟩ := hx
    exact ⟨.eps, by simp [pd], Flat.eps⟩
  | ref r =>
    intro s w hx
    simp only [List.cons.injEq] at hx
    obtain ⟨rfl, rfl⟩ := hx
    exact ⟨.eps, by simp [pd], Flat.eps⟩
  | @seq a b u v h1 h2 ih1 ih2 =>
    intro s w hx
    cases u with
    | nil =>
      simp only [List.nil_append] at hx
      obtain ⟨p, hp, hf⟩ := ih2 s w hx
      have hn := nullable_of_flat_nil a [] h1 rfl
      exact ⟨p, by simp [pd, hn, hp], hf⟩
    | cons c u' =>
      simp only [List.cons_append, List.cons.injEq] at hx
      obtain ⟨rfl, rfl⟩ := hx
      obtain ⟨p, hp, hf⟩ := ih1 c u' rfl
      exact ⟨.seq p b, by simp only [pd, List.mem_append, List.mem_map]; exact Or.inl ⟨p, hp, rfl⟩, Flat.seq hf h2⟩
  | altL _ ih =>
    intro s w hx
    obtain ⟨p, hp, hf⟩ := ih s w hx
    exact ⟨p, by simp [pd, hp], hf⟩
  | altR _ ih =>
    intro s w hx
    obtain ⟨p, hp, hf⟩ := ih s w hx
    exact ⟨p, by simp [pd, hp], hf⟩
  | starNil => intro s w hx; simp at hx
  | @starCons a u v h1 h2 ih1 ih2 =>
    intro s w hx
    cases u with
    | nil =>
      simp only [List.nil_append] at hx
      exact ih2 s w hx
    | cons c u' =>
      simp only [List.cons_append, List.cons.injEq] at hx
      obtain ⟨rfl, rfl⟩ := hx
      obtain ⟨p, hp, hf⟩ := ih1 c u' rfl
      exact ⟨.seq p (.star a), by simp only [pd, List.mem_map]; exact ⟨p, hp, rfl⟩, Flat.seq hf h2⟩

theorem mem_dedup {α} [DecidableEq α] (x : α) (l : List α) : x ∈ dedup l ↔ x ∈ l := by
  induction l with
  | nil => simp [dedup]
  | cons a as ih =>
    simp only [dedup]
    by_cases h : a ∈ as
    · simp only [h, if_true, ih, List.mem_cons]
      constructor
      · intro hx; exact Or.inr hx
      · intro hx; rcases hx with rfl | hx
        · exact h
        · exact hx
    · simp [h, ih]

theorem pdL_spec (s : Sym) (ps : List Rx) (w : List Sym) : FlatL (pdL s ps) w ↔ FlatL ps (s :: w) := by
  constructor
  · rintro ⟨p, hp, hf⟩
    rw [pdL, mem_dedup, List.mem_flatMap] at hp
    obtain ⟨r, hr, hpr⟩ := hp
    exact ⟨r, hr, pd_sound s r p w hpr hf⟩
  · rintro ⟨r, hr, hf⟩
    obtain ⟨p, hp, hf'⟩ := pd_complete r _ hf s w rfl
    exact ⟨p, by rw [pdL, mem_dedup, List.mem_flatMap]; exact ⟨r, hr, hp⟩, hf'⟩

/-! ### automaton side -/

theorem path_trans (n : RuleNfa) {a b c : Nat} {u w : List Sym} (h1 : Path n a u b) (h2 : Path n b w c) : Path n a (u ++ w) c := by
  induction h1 with
  | refl q => simpa using h2
  | eps he _ ih => exact Path.eps he (ih h2)
  | sym he _ ih => exact Path.sym he (ih h2)

theorem closeStep_sup (n : RuleNfa) (S : List Nat) : ∀ q ∈ S, q ∈ closeStep n S := by
  intro q hq; rw [closeStep, mem_dedup]; exact List.mem_append_left _ hq

theorem closeStep_reach (n : RuleNfa) (S : List Nat) : ∀ q' ∈ closeStep n S, ∃ q ∈ S, Path n q [] q' := by
  intro q' hq'
  rw [closeStep, mem_dedup, List.mem_append] at hq'
  rcases hq' with h | h
  · exact ⟨q', h, Path.refl q'⟩
  · rw [List.mem_filterMap] at h
    obtain ⟨e, he, hsome⟩ := h
    by_cases hin : e.1 ∈ S
    · simp only [hin, if_true, Option.some.injEq] at hsome
      exact ⟨e.1, hin, Path.eps (by rw [← hsome]; exact he) (Path.refl q')⟩
    · simp [hin] at hsome

theorem closure_sup (n : RuleNfa) (f : Nat) : ∀ (S : List Nat), ∀ q ∈ S, q ∈ closure n f S := by
  induction f with
  | zero => intro S q hq; exact hq
  | succ f ih =>
    intro S q hq
    simp only [closure]
    split
    · exact closeStep_sup n S q hq
    · exact ih _ q (closeStep_sup n S q hq)

theorem closure_reach (n : RuleNfa) (f : Nat) : ∀ (S : List Nat), ∀ q' ∈ closure n f S, ∃ q ∈ S, Path n q [] q' := by
  induction f with
  | zero => intro S q' hq'; exact ⟨q', hq', Path.refl q'⟩
  | succ f ih =>
    intro S q' hq'
    simp only [closure] at hq'
    split at hq'
    · exact closeStep_reach n S q' hq'
    · obtain ⟨q1, hq1, hp1⟩ := ih _ q' hq'
      obtain ⟨q, hq, hp⟩ := closeStep_reach n S q1 hq1
      exact ⟨q, hq, by simpa using path_trans n hp hp1⟩

theorem isClosed_spec (n : RuleNfa) (T : List Nat) (h : isClosed n T = true) : ∀ a b, (a, b) ∈ n.eps → a ∈ T → b ∈ T := by
  intro a b he ha
  have := List.all_eq_true.mp h (a, b) he
  simpa [ha] using this

theorem acc_nil (n : RuleNfa) (T : List Nat) (hc : isClosed n T = true) : Acc n T [] ↔ n.stop ∈ T := by
  constructor
  · rintro ⟨q, hq, hp⟩
    have : ∀ (q : Nat) (w : List Sym) (r : Nat), Path n q w r → w = [] → q ∈ T → r ∈ T := by
      intro q w r hp
      induction hp with
      | refl q => intro _ h; exact h
      | eps he _ ih => intro hw h; exact ih hw (isClosed_spec n T hc _ _ he h)
      | sym _ _ _ => intro hw _; simp at hw
    exact this q [] n.stop hp rfl hq
  · intro h; exact ⟨n.stop, h, Path.refl _⟩

theorem step_spec (n : RuleNfa) (cf : Nat) (T : List Nat) (s : Sym) (w : List Sym) (hc : isClosed n T = true) :
    Acc n (stepSet n cf T s) w ↔ Acc n T (s :: w) := by
  constructor
  · rintro ⟨q', hq', hp⟩
    obtain ⟨p, hp1, hpp⟩ := closure_reach n cf _ q' hq'
    rw [targets, List.mem_filterMap] at hp1
    obtain ⟨e, he, hsome⟩ := hp1
    by_cases hcond : (decide (e.1 ∈ T) && decide (e.2.1 = s)) = true
    · simp only [hcond, if_true, Option.some.injEq] at hsome
      simp only [Bool.and_eq_true, decide_eq_true_eq] at hcond
      refine ⟨e.1, hcond.1, Path.sym (q' := p) ?_ (by simpa using path_trans n hpp hp)⟩
      rw [← hsome, ← hcond.2]; exact he
    · simp [hcond] at hsome
  · rintro ⟨q, hq, hp⟩
    have : ∀ (q : Nat) (x : List Sym) (r : Nat), Path n q x r → x = s :: w → q ∈ T → r = n.stop → Acc n (stepSet n cf T s) w := by
      intro q x r hp
      induction hp with
      | refl q => intro hx; simp at hx
      | eps he _ ih => intro hx h hr; exact ih hx (isClosed_spec n T hc _ _ he h) hr
      | @sym a b c s' w' he hp' _ =>
        intro hx h hr
        simp only [List.cons.injEq] at hx
        obtain ⟨rfl, rfl⟩ := hx
        subst hr
        refine ⟨b, closure_sup n cf _ b ?_, hp'⟩
        rw [targets, List.mem_filterMap]
        exact ⟨(a, s', b), he, by simp [h]⟩
    exact this q _ n.stop hp rfl hq rfl

/-! ### the checked bisimulation -/

theorem sameSet_spec {α} [DecidableEq α] (a b : List α) (h : sameSet a b = true) : ∀ x, x ∈ a ↔ x ∈ b := by
  simp only [sameSet, Bool.and_eq_true, List.all_eq_true, decide_eq_true_eq] at h
  intro x; exact ⟨h.1 x, h.2 x⟩

theorem pairIn_spec (p : Pair) (R : List Pair) (h : pairIn p R = true) :
    ∃ q ∈ R, (∀ x, x ∈ p.1 ↔ x ∈ q.1) ∧ (∀ x, x ∈ p.2 ↔ x ∈ q.2) := by
  simp only [pairIn, List.any_eq_true, Bool.and_eq_true] at h
  obtain ⟨q, hq, h1, h2⟩ := h
  exact ⟨q, hq, sameSet_spec _ _ h1, sameSet_spec _ _ h2⟩

theorem flatL_congr (a b : List Rx) (h : ∀ x, x ∈ a ↔ x ∈ b) (w : List Sym) : FlatL a w ↔ FlatL b w :=
  ⟨fun ⟨p, hp, hf⟩ => ⟨p, (h p).mp hp, hf⟩, fun ⟨p, hp, hf⟩ => ⟨p, (h p).mpr hp, hf⟩⟩

theorem acc_congr (n : RuleNfa) (a b : List Nat) (h : ∀ x, x ∈ a ↔ x ∈ b) (w : List Sym) : Acc n a w ↔ Acc n b w :=
  ⟨fun ⟨p, hp, hf⟩ => ⟨p, (h p).mp hp, hf⟩, fun ⟨p, hp, hf⟩ => ⟨p, (h p).mpr hp, hf⟩⟩

theorem flatL_nil (ps : List Rx) : FlatL ps [] ↔ ps.any nullable = true := by
  simp only [FlatL, List.any_eq_true]
  constructor
  · rintro ⟨p, hp, hf⟩; exact ⟨p, hp, (nullable_spec p).mpr hf⟩
  · rintro ⟨p, hp, hn⟩; exact ⟨p, hp, (nullable_spec p).mp hn⟩

theorem isBisim_sound (n : RuleNfa) (al : List Sym) (cf : Nat) (R : List Pair) (h : isBisim n al cf R = true) :
    ∀ (w : List Sym), (∀ s ∈ w, s ∈ al) → ∀ q ∈ R, (FlatL q.1 w ↔ Acc n q.2 w) := by
  have hR := List.all_eq_true.mp h
  intro w
  induction w with
  | nil =>
    intro _ q hq
    have hq' := hR q hq
    simp only [Bool.and_eq_true, beq_iff_eq] at hq'
    obtain ⟨⟨hc, hn⟩, _⟩ := hq'
    rw [flatL_nil, acc_nil n q.2 hc, hn]; simp
  | cons s w ih =>
    intro hal q hq
    have hq' := hR q hq
    simp only [Bool.and_eq_true] at hq'
    obtain ⟨⟨hc, _⟩, hstep⟩ := hq'
    have hs := List.all_eq_true.mp hstep s (hal s (by simp))
    obtain ⟨q', hq'R, h1, h2⟩ := pairIn_spec _ R hs
    have ihq := ih (fun x hx => hal x (by simp [hx])) q' hq'R
    rw [← pdL_spec, flatL_congr _ _ h1, ihq, ← acc_congr n _ _ h2, step_spec n cf q.2 s w hc]

/-- **Soundness of `ruleOk`**: the rule's sub-automaton in the serialized ATN and the rule's right-hand side in the grammar
    accept the same words over their joint alphabet of token types and rule references. -/
theorem ruleOk_sound (n : RuleNfa) (r : Rx) (h : ruleOk n r = true) :
    ∀ w : List Sym, (∀ s ∈ w, s ∈ alphabetOf n r) → (Flat r w ↔ Path n n.start w n.stop) := by
  simp only [ruleOk, Bool.and_eq_true] at h
  obtain ⟨hb, hin⟩ := h
  intro w hw
  obtain ⟨q, hqR, h1, h2⟩ := pairIn_spec _ _ hin
  have := isBisim_sound n _ _ _ hb w hw q hqR
  have e1 : Flat r w ↔ FlatL q.1 w := by
    rw [← flatL_congr _ _ h1]
    exact ⟨fun hf => ⟨r, by simp, hf⟩, fun ⟨p, hp, hf⟩ => by simp at hp; subst hp; exact hf⟩
  have e2 : Acc n q.2 w ↔ Path n n.start w n.stop := by
    rw [← acc_congr n _ _ h2]
    constructor
    · rintro ⟨x, hx, hp⟩
      obtain ⟨y, hy, hyp⟩ := closure_reach n _ _ x hx
      simp only [List.mem_singleton] at hy; subst hy
      simpa using path_trans n hyp hp
    · intro hp; exact ⟨n.start, closure_sup n _ _ _ (by simp), hp⟩
  rw [e1, this, e2]

/-! ### token rules: enumeration along a checked rank -/

theorem wordsFrom_sound (n : RuleNfa) : ∀ (f q : Nat) (w : List Sym), w ∈ wordsFrom n f q → Path n q w n.stop := by
  intro f
  induction f with
  | zero => intro q w h; simp [wordsFrom] at h
  | succ f ih =>
    intro q w h
    simp only [wordsFrom, List.mem_append, List.mem_flatMap, List.mem_filter, List.mem_map] at h
    rcases h with (h | ⟨e, ⟨he, hq⟩, hw⟩) | ⟨e, ⟨he, hq⟩, w', hw', rfl⟩
    · by_cases hs : (q == n.stop) = true
      · simp only [hs, if_true, List.mem_singleton] at h
        subst h
        have : q = n.stop := by simpa using hs
        rw [this]; exact Path.refl _
      · simp [hs] at h
    · have hq' : e.1 = q := by simpa using hq
      exact Path.eps (q' := e.2) (by rw [← hq']; exact he) (ih e.2 w hw)
    · have hq' : e.1 = q := by simpa using hq
      exact Path.sym (q' := e.2.2) (by rw [← hq']; exact he) (ih e.2.2 w' hw')

theorem rankOk_spec (n : RuleNfa) (rk : List (Nat × Nat)) (h : rankOk n rk = true) :
    (∀ a b, (a, b) ∈ n.eps → rankOf rk b < rankOf rk a) ∧ (∀ a s b, (a, s, b) ∈ n.edges → rankOf rk b < rankOf rk a) := by
  simp only [rankOk, Bool.and_eq_true, List.all_eq_true, decide_eq_true_eq] at h
  exact ⟨fun a b he => h.1 (a, b) he, fun a s b he => h.2 (a, s, b) he⟩

theorem wordsFrom_complete (n : RuleNfa) (rk : List (Nat × Nat)) (h : rankOk n rk = true) :
    ∀ (q : Nat) (w : List Sym) (r : Nat), Path n q w r → r = n.stop → ∀ f, rankOf rk q < f → w ∈ wordsFrom n f q := by
  obtain ⟨h1, h2⟩ := rankOk_spec n rk h
  intro q w r hp
  induction hp with
  | refl q =>
    intro hr f hf
    cases f with
    | zero => omega
    | succ f => simp [wordsFrom, hr]
  | @eps a b c w he _ ih =>
    intro hr f hf
    cases f with
    | zero => omega
    | succ f =>
      have := ih hr f (by have := h1 a b he; omega)
      simp only [wordsFrom, List.mem_append, List.mem_flatMap, List.mem_filter]
      exact Or.inl (Or.inr ⟨(a, b), ⟨he, by simp⟩, this⟩)
  | @sym a b c s w he _ ih =>
    intro hr f hf
    cases f with
    | zero => omega
    | succ f =>
      have := ih hr f (by have := h2 a s b he; omega)
      simp only [wordsFrom, List.mem_append, List.mem_flatMap, List.mem_filter, List.mem_map]
      exact Or.inr ⟨(a, s, b), ⟨he, by simp⟩, w, this, rfl⟩

theorem usesUp_spec : ∀ (a rem : List (List Sym)), usesUp a rem = true → ∀ x, x ∈ a ↔ x ∈ rem
  | [], rem, h => by
    simp only [usesUp, List.isEmpty_iff] at h
    subst h; intro x; simp
  | w :: ws, rem, h => by
    simp only [usesUp] at h
    by_cases hw : w ∈ rem
    · simp only [hw, if_true] at h
      have ih := usesUp_spec ws (rem.erase w) h
      intro x
      constructor
      · intro hx
        rcases List.mem_cons.mp hx with rfl | hx
        · exact hw
        · exact List.mem_of_mem_erase ((ih x).mp hx)
      · intro hx
        by_cases e : x = w
        · rw [e]; exact List.mem_cons_self
        · exact List.mem_cons_of_mem _ ((ih x).mpr ((List.mem_erase_of_ne e).mpr hx))
    · simp [hw] at h

/-- **Soundness of `lexRuleOk`**: a token rule of the lexer ATN and the rule of the token table (regenerated from `Glycan.g4`)
    accept the same character strings – for rules that are lists of literals, exactly those literals; for rules with character
    ranges or a star (`NUM`), the same words over the joint alphabet. -/
theorem lexRuleOk_sound (l : LexNfa) (r : LexRule) (h : lexRuleOk l r = true) :
    l.ty = r.ty ∧
    (∀ lits, literalsOf r = some lits → ∀ w, Path l.nfa l.nfa.start w l.nfa.stop ↔ w ∈ lits) ∧
    (literalsOf r = none → ∀ w, (∀ s ∈ w, s ∈ alphabetOf l.nfa (rxOfRule r)) →
      (Flat (rxOfRule r) w ↔ Path l.nfa l.nfa.start w l.nfa.stop)) := by
  simp only [lexRuleOk, Bool.and_eq_true, beq_iff_eq] at h
  obtain ⟨hty, hrest⟩ := h
  refine ⟨hty, ?_, ?_⟩
  · intro lits hl w
    simp only [hl, Bool.and_eq_true] at hrest
    obtain ⟨hrk, hsame⟩ := hrest
    have hs := usesUp_spec _ _ hsame w
    rw [← hs]
    exact ⟨fun hp => wordsFrom_complete l.nfa l.rank hrk _ w _ hp rfl _ (Nat.lt_succ_self _), wordsFrom_sound l.nfa _ _ w⟩
  · intro hl w hw
    simp only [hl] at hrest
    exact ruleOk_sound l.nfa (rxOfRule r) hrest w hw

end Gly.Atn
