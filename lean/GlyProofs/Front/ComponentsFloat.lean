import GlyProofs.Front.Components
import GlyProofs.Front.WalkDen
/-
  Every written glycan, floating parts included: the walked graph has one component for the main glycan and one per floating part.
-/
namespace Gly

/-- shape of the edge list of a walked graph: children strictly increasing in insertion order, each above its parent and an
    existing node; `k` = nodes minus edges -/
structure Shape (st : WState) (k : Nat) : Prop where
  sorted : (st.edges.map (·.2.1)).Pairwise (· < ·)
  bound : ∀ e ∈ st.edges, e.1 < e.2.1 ∧ e.2.1 < st.nodes.length
  count : st.edges.length + k = st.nodes.length

theorem fresh_of_sorted (n : Nat) : ∀ (es : List (Nat × Nat × List Char)) (b : Nat),
    (es.map (·.2.1)).Pairwise (· < ·) → (∀ e ∈ es, b ≤ e.2.1 ∧ e.1 < e.2.1 ∧ e.2.1 < n) → EdgesFresh n b es := by
  intro es
  induction es with
  | nil => intro b _ _; trivial
  | cons e rest ih =>
    intro b hs hb
    obtain ⟨p, c, l⟩ := e
    simp only [List.map_cons, List.pairwise_cons] at hs
    obtain ⟨h1, h2, h3⟩ := hb (p, c, l) (by simp)
    refine ⟨h1, h2, h3, ih (c + 1) hs.2 ?_⟩
    intro e he
    obtain ⟨_, h5, h6⟩ := hb e (by simp [he])
    have := hs.1 e.2.1 (List.mem_map_of_mem he)
    exact ⟨by omega, h5, h6⟩

theorem Shape.components {st : WState} {k : Nat} (h : Shape st k) : components st = k := by
  have hf : EdgesFresh st.nodes.length 0 st.edges :=
    fresh_of_sorted _ _ 0 h.sorted (fun e he => ⟨Nat.zero_le _, (h.bound e he).1, (h.bound e he).2⟩)
  have := components_fresh st hf
  have := h.count
  omega

/-- new edges whose children are `range' len m` (all above every old child) keep the shape -/
theorem Shape.extend {st st' : WState} {k : Nat} (h : Shape st k) (es : List (Nat × Nat × List Char)) (m extra : Nat)
    (hn : st'.nodes.length = st.nodes.length + m + extra) (he : st'.edges = st.edges ++ es)
    (hc : es.map (·.2.1) = List.range' (st.nodes.length + extra) m) (hp : ∀ e ∈ es, e.1 < e.2.1) :
    Shape st' (k + extra) := by
  have hlen : es.length = m := by have := congrArg List.length hc; simpa using this
  have hmem : ∀ e ∈ es, st.nodes.length + extra ≤ e.2.1 ∧ e.2.1 < st.nodes.length + extra + m := by
    intro e he'
    have : e.2.1 ∈ List.range' (st.nodes.length + extra) m := by rw [← hc]; exact List.mem_map_of_mem he'
    have := List.mem_range'_1.mp this
    omega
  refine ⟨?_, ?_, ?_⟩
  · rw [he, List.map_append, List.pairwise_append]
    refine ⟨h.sorted, ?_, ?_⟩
    · rw [hc]; exact List.pairwise_lt_range'
    · intro a ha b hb
      obtain ⟨e1, he1, rfl⟩ := List.mem_map.mp ha
      obtain ⟨e2, he2, rfl⟩ := List.mem_map.mp hb
      have := (h.bound e1 he1).2
      have := (hmem e2 he2).1
      omega
  · intro e he'
    rw [he] at he'
    rcases List.mem_append.mp he' with h1 | h1
    · have := h.bound e h1; exact ⟨this.1, by omega⟩
    · exact ⟨hp e h1, by have := (hmem e h1).2; omega⟩
  · rw [he, List.length_append, hlen, hn]; have := h.count; omega

theorem gf_size_len (G : GF) : (preNames G).length = G.size := by
  induction G with
  | nil => rfl
  | cons _ _ _ _ a b => simp [preNames, GF.size, a, b]; omega

/-- a forest hung on an existing node: one new edge per new node -/
theorem Shape.flatten (w : WalkCfg) (F : GF) (p : Nat) (st : WState) (k : Nat) (h : Shape st k) (hp : p < st.nodes.length) :
    Shape (flattenOnto w F p st) k ∧ (flattenOnto w F p st).nodes.length = st.nodes.length + F.size := by
  obtain ⟨hn, es, he, hc, hpp⟩ := flatten_shape w F p st hp
  have hlen : (flattenOnto w F p st).nodes.length = st.nodes.length + F.size := by
    rw [hn, List.length_append, gf_size_len]
  exact ⟨by simpa using h.extend es F.size 0 (by simpa using hlen) he (by simpa using hc) (fun e he' => (hpp e he').1), hlen⟩

/-- a floating part (numbered onto the id its first residue gets): one edge fewer than nodes – one more component -/
theorem Shape.flattenFloat (w : WalkCfg) (l : ConStr) (n : Recipe) (kids rest : GF) (st : WState) (k : Nat) (h : Shape st k) :
    Shape (flattenOnto w (.cons l n kids rest) st.nodes.length st) (k + 1) := by
  simp only [flattenOnto]
  have h1 : addNodeEdge w st.nodes.length n l st =
      (st.nodes.length, { st with nodes := st.nodes ++ [n], full := st.full && w.nodeFull n }) := by
    simp [addNodeEdge, addNode, addEdge]
  rw [h1]
  simp only
  generalize hst1 : ({ st with nodes := st.nodes ++ [n], full := st.full && w.nodeFull n } : WState) = st1
  have hs1 : Shape st1 (k + 1) := by
    subst hst1
    refine ⟨h.sorted, ?_, ?_⟩
    · intro e he; have := h.bound e he; exact ⟨this.1, by simp; omega⟩
    · simp; have := h.count; omega
  have hl1 : st1.nodes.length = st.nodes.length + 1 := by subst hst1; simp
  obtain ⟨hs2, hl2⟩ := Shape.flatten w kids st.nodes.length st1 (k + 1) hs1 (by omega)
  obtain ⟨hs3, _⟩ := Shape.flatten w rest st.nodes.length _ (k + 1) hs2 (by omega)
  exact hs3

theorem append_ne_nil (F G : GF) (h : F ≠ .nil) : F.append G ≠ .nil := by
  cases F with
  | nil => exact absurd rfl h
  | cons _ _ _ _ => simp [GF.append]

theorem den_ne_nil (b : Branch) : ∀ L : GF, den b L ≠ .nil := by
  induction b with
  | leaf d c => intro L; simp [den]
  | chain d c rest ih => intro L; exact ih _
  | brack b ih => intro L; exact append_ne_nil _ _ (ih .nil)
  | b1 d c s1 rest _ ihr => intro L; exact ihr _
  | b2 d c s1 s2 rest _ _ ihr => intro L; exact ihr _
  | b3 d c s1 s2 s3 rest _ _ _ ihr => intro L; exact ihr _

theorem Shape.floats (w : WalkCfg) (fs : List Branch) : ∀ (st : WState) (k : Nat), Shape st k →
    Shape (fs.foldl (fun st b => flattenOnto w (den b .nil) st.nodes.length st) st) (k + fs.length) := by
  induction fs with
  | nil => intro st k h; simpa using h
  | cons b rest ih =>
    intro st k h
    simp only [List.foldl_cons, List.length_cons]
    have hstep : Shape (flattenOnto w (den b .nil) st.nodes.length st) (k + 1) := by
      cases hd : den b .nil with
      | nil => exact absurd hd (den_ne_nil b .nil)
      | cons l n kids r => exact Shape.flattenFloat w l n kids r st k h
    have := ih _ (k + 1) hstep
    rw [show k + (rest.length + 1) = k + 1 + rest.length by omega]
    exact this

/-- **Shape of every walked graph**, floating parts included: edges in insertion order lead to strictly increasing children (no node
    is a child twice), each above its parent; nodes minus edges = 1 + number of floating parts. -/
theorem shape_walkStart (w : WalkCfg) (s : Start) : Shape (walkStart w s) (s.floats.length + 1) := by
  rw [walkStart_eq_denStart]
  unfold denStart
  have h0 : Shape WState.init 0 := ⟨by simp [WState.init], by simp [WState.init], by simp [WState.init]⟩
  have hf := Shape.floats w s.floats WState.init 0 h0
  generalize s.floats.foldl (fun st b => flattenOnto w (den b .nil) st.nodes.length st) WState.init = st at hf
  simp only [Nat.zero_add] at hf
  -- the root residue: a node without an edge
  have hroot : Shape (addNode w s.begin.d (s.begin.config.getD []) st).2 (s.floats.length + 1) := by
    simp only [addNode]
    refine ⟨hf.sorted, ?_, ?_⟩
    · intro e he; have := hf.bound e he; exact ⟨this.1, by simp; omega⟩
    · simp; have := hf.count; omega
  have hid : (addNode w s.begin.d (s.begin.config.getD []) st).1 = st.nodes.length := by simp [addNode]
  have hlen : (addNode w s.begin.d (s.begin.config.getD []) st).2.nodes.length = st.nodes.length + 1 := by simp [addNode]
  generalize hr : addNode w s.begin.d (s.begin.config.getD []) st = r at hroot hid hlen
  obtain ⟨id, st1⟩ := r
  simp only at hroot hid hlen
  subst hid
  cases hb : s.begin.branch with
  | none => simpa [hr] using hroot
  | some br =>
    simp only [hr]
    exact (Shape.flatten w (den br .nil) st.nodes.length st1 _ hroot (by omega)).1

/-- **Every written glycan**: one component for the main glycan plus one per floating part. -/
theorem components_walkStart (w : WalkCfg) (s : Start) : components (walkStart w s) = 1 + s.floats.length := by
  rw [(shape_walkStart w s).components]; omega

end Gly
