import GlyProofs.Front.WalkDen
/-
  Shape of the walked tree: one node per written residue (with its written name), ids consecutive, every node but the
  first has exactly one incoming edge, from a node with a smaller id.
-/
namespace Gly

/-- residues of a forest in pre-order -/
def preNames : GF → List Recipe
  | .nil => []
  | .cons _ n k r => n :: (preNames k ++ preNames r)

theorem preNames_append (F G : GF) : preNames (F.append G) = preNames F ++ preNames G := by
  induction F with
  | nil => simp [GF.append, preNames]
  | cons l n k r _ ihr => simp [GF.append, preNames, ihr]

/-- the residues of a branch as written, left to right -/
def Branch.written : Branch → List Recipe
  | .leaf d _ => [d]
  | .chain d _ rest => d :: rest.written
  | .brack b => b.written
  | .b1 d _ s1 rest => d :: (s1.written ++ rest.written)
  | .b2 d _ s1 s2 rest => d :: (s1.written ++ s2.written ++ rest.written)
  | .b3 d _ s1 s2 s3 rest => d :: (s1.written ++ s2.written ++ s3.written ++ rest.written)

/-- every written residue becomes exactly one residue of the forest, and nothing else does -/
theorem den_names_perm (b : Branch) : ∀ L : GF, (preNames (den b L)).Perm (b.written ++ preNames L) := by
  induction b with
  | leaf d c => intro L; simp [den, preNames, Branch.written]
  | chain d c rest ih =>
    intro L
    refine (ih _).trans ?_
    simp only [preNames, Branch.written, List.append_nil, List.cons_append]
    exact List.perm_middle
  | brack b ih =>
    intro L
    simp only [den, preNames_append, Branch.written]
    exact List.Perm.append_right _ (by simpa [preNames] using ih .nil)
  | b1 d c s1 rest ih1 ihr =>
    intro L
    refine (ihr _).trans ?_
    simp only [preNames_append, preNames, Branch.written, List.append_nil, List.cons_append]
    have h1 : (preNames (den s1 .nil)).Perm s1.written := by simpa [preNames] using ih1 .nil
    refine List.Perm.trans (List.Perm.append_left _ (List.Perm.append_right _ h1)) ?_
    -- rest ++ (s1 ++ d :: L)  ~  d :: (s1 ++ rest) ++ L
    refine List.Perm.trans (List.perm_append_comm) ?_
    simp only [List.append_assoc, List.cons_append]
    refine List.Perm.trans (List.perm_middle) ?_
    refine List.Perm.cons _ ?_
    refine List.Perm.append_left _ ?_
    exact List.perm_append_comm
  | b2 d c s1 s2 rest ih1 ih2 ihr =>
    intro L
    refine (ihr _).trans ?_
    simp only [preNames_append, preNames, Branch.written, List.append_nil, List.cons_append]
    have h1 : (preNames (den s1 .nil)).Perm s1.written := by simpa [preNames] using ih1 .nil
    have h2 : (preNames (den s2 .nil)).Perm s2.written := by simpa [preNames] using ih2 .nil
    refine List.Perm.trans (List.Perm.append_left _ (List.Perm.append (h1) (List.Perm.append_right _ h2))) ?_
    refine List.Perm.trans (List.perm_append_comm) ?_
    simp only [List.append_assoc, List.cons_append]
    refine List.Perm.trans (List.Perm.append_left _ List.perm_middle) ?_
    refine List.Perm.trans (List.perm_middle) ?_
    refine List.Perm.cons _ ?_
    refine List.Perm.append_left _ (List.Perm.append_left _ ?_)
    exact List.perm_append_comm
  | b3 d c s1 s2 s3 rest ih1 ih2 ih3 ihr =>
    intro L
    refine (ihr _).trans ?_
    simp only [preNames_append, preNames, Branch.written, List.append_nil, List.cons_append]
    have h1 : (preNames (den s1 .nil)).Perm s1.written := by simpa [preNames] using ih1 .nil
    have h2 : (preNames (den s2 .nil)).Perm s2.written := by simpa [preNames] using ih2 .nil
    have h3 : (preNames (den s3 .nil)).Perm s3.written := by simpa [preNames] using ih3 .nil
    refine List.Perm.trans (List.Perm.append_left _ (List.Perm.append h1 (List.Perm.append h2 (List.Perm.append_right _ h3)))) ?_
    refine List.Perm.trans (List.perm_append_comm) ?_
    simp only [List.append_assoc, List.cons_append]
    refine List.Perm.trans (List.Perm.append_left _ (List.Perm.append_left _ List.perm_middle)) ?_
    refine List.Perm.trans (List.Perm.append_left _ List.perm_middle) ?_
    refine List.Perm.trans (List.perm_middle) ?_
    refine List.Perm.cons _ ?_
    refine List.Perm.append_left _ (List.Perm.append_left _ (List.Perm.append_left _ ?_))
    exact List.perm_append_comm

/-! ### numbering -/

theorem addNodeEdge_spec (w : WalkCfg) (p : Nat) (n : Recipe) (l : ConStr) (st : WState) (hp : p < st.nodes.length) :
    (addNodeEdge w p n l st).1 = st.nodes.length ∧
    (addNodeEdge w p n l st).2.nodes = st.nodes ++ [n] ∧
    ∃ lab, (addNodeEdge w p n l st).2.edges = st.edges ++ [(p, st.nodes.length, lab)] := by
  have hne : (p == st.nodes.length) = false := by simp; omega
  simp [addNodeEdge, addNode, addEdge, hne]

/-- Numbering a forest onto an existing node: the new nodes are the forest's residues in pre-order; every new edge points from
    `parent` or a new node to a new node with a larger id; the children of the new edges are the new ids, each exactly once,
    in increasing order. -/
theorem flatten_shape (w : WalkCfg) (F : GF) : ∀ (p : Nat) (st : WState), p < st.nodes.length →
    (flattenOnto w F p st).nodes = st.nodes ++ preNames F ∧
    ∃ es, (flattenOnto w F p st).edges = st.edges ++ es ∧
      es.map (·.2.1) = List.range' st.nodes.length F.size ∧
      ∀ e ∈ es, e.1 < e.2.1 ∧ (e.1 = p ∨ st.nodes.length ≤ e.1) := by
  induction F with
  | nil => intro p st _; exact ⟨by simp [flattenOnto, preNames], [], by simp [flattenOnto], by simp [GF.size], by simp⟩
  | cons l n kids rest ihk ihr =>
    intro p st hp
    obtain ⟨hid, hn, lab, he⟩ := addNodeEdge_spec w p n l st hp
    simp only [flattenOnto]
    generalize hst1 : addNodeEdge w p n l st = r1 at hid hn he
    obtain ⟨id, st1⟩ := r1
    simp only at hid hn he
    subst hid
    have hlen1 : st1.nodes.length = st.nodes.length + 1 := by rw [hn]; simp
    obtain ⟨hkn, esk, hke, hkc, hkp⟩ := ihk st.nodes.length st1 (by omega)
    have hlen2 : (flattenOnto w kids st.nodes.length st1).nodes.length = st.nodes.length + 1 + (preNames kids).length := by
      rw [hkn, hn]; simp [List.length_append] <;> omega
    have hpk : ∀ G : GF, (preNames G).length = G.size := by
      intro G; induction G with
      | nil => rfl
      | cons _ _ _ _ a b => simp [preNames, GF.size, a, b]; omega
    obtain ⟨hrn, esr, hre, hrc, hrp⟩ := ihr p (flattenOnto w kids st.nodes.length st1) (by omega)
    refine ⟨?_, (p, st.nodes.length, lab) :: (esk ++ esr), ?_, ?_, ?_⟩
    · rw [hrn, hkn, hn]; simp [preNames]
    · rw [hre, hke, he]; simp
    · simp only [List.map_cons, List.map_append, hkc, hrc, GF.size, hlen1, hlen2, hpk]
      rw [show 1 + kids.size + rest.size = (kids.size + rest.size) + 1 by omega, List.range'_succ]
      congr 1
      rw [← List.range'_append_1]
    · intro e he'
      rcases List.mem_cons.mp he' with rfl | he'
      · exact ⟨hp, Or.inl rfl⟩
      · rcases List.mem_append.mp he' with h | h
        · obtain ⟨a, b⟩ := hkp e h
          exact ⟨a, Or.inr (by rcases b with b | b <;> omega)⟩
        · obtain ⟨a, b⟩ := hrp e h
          exact ⟨a, by rcases b with b | b; exact Or.inl b; exact Or.inr (by omega)⟩

end Gly
