import GlyModel.Front.Model
import GlyProofs.Front.ParseSound
import GlyProofs.Front.LexSpec
namespace Gly

theorem firstParse_sound (g : Grammar) (ts : List Token) (t : PT) (rest : List Token)
    (h : firstParse g ts = some (t, rest)) :
    ts = PT.yield t ++ rest ∧ Derives g (.ref 0) (PT.yield t) := by
  unfold firstParse at h
  split at h
  · rename_i k r tl heq
    simp at h
    obtain ⟨rfl, rfl⟩ := h
    have hm : ([k], r) ∈ parseRx g (parseFuel ts.length) (.ref 0) ts := by rw [heq]; simp
    have := parseRx_sound g _ _ _ _ _ hm
    simpa [PT.yieldList] using this
  · simp at h

/-- If the Model accepts `s`, the sentinel-wrapped text tokenises by maximal munch and the *whole* token
    stream is a sentence of the start rule of the regenerated grammar. -/
theorem accepts_sound (s : List Char) (h : Model.accepts s = true) :
    ∃ ts, lex Gen.lexRules (Model.sentinel s) = some ts ∧
          MaxMunch Gen.lexRules (Model.sentinel s) ts ∧
          Derives Gen.grammar (.ref 0) ts := by
  unfold Model.accepts at h
  cases hl : lex Gen.lexRules (Model.sentinel s) with
  | none => simp [hl] at h
  | some ts =>
    simp only [hl] at h
    refine ⟨ts, rfl, (lex_spec _ _ _ hl).1, ?_⟩
    unfold Model.parseTokens at h
    simp only [Bool.false_eq_true, if_false] at h
    cases hp : firstParse Gen.grammar ts with
    | none => simp [hp] at h
    | some p =>
      obtain ⟨t, rest⟩ := p
      cases rest with
      | nil =>
        have := firstParse_sound _ _ _ _ hp
        simp at this
        rw [this.1]; exact this.2
      | cons _ _ => simp [hp] at h

end Gly
