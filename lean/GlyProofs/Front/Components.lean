import GlyModel.Front.Connected
import GlyProofs.Front.TreeShape
/-
  The number of connected components of a walked graph: every edge of the walker joins a node that has never been a child to an
  older node, so every edge removes exactly one component.
-/
namespace Gly

/-- edges in insertion order whose children are new (at least `b`, below `n`), each larger than its parent -/
def EdgesFresh (n : Nat) : Nat → List (Nat × Nat × List Char) → Prop
  | _, [] => True
  | b, (p, c, _) :: rest => b ≤ c ∧ p < c ∧ c < n ∧ EdgesFresh n (c + 1) rest

structure LabInv (n b : Nat) (lab : List Nat) : Prop where
  len : lab.length = n
  hi : ∀ j, b ≤ j → j < n → lab.getD j j = j
  lo : ∀ i, i < b → lab.getD i i ≤ i

theorem getD_lt {lab : List Nat} {i d : Nat} (h : i < lab.length) : lab.getD i d = lab[i] := by
  simp [List.getD, h]

theorem getD_ge {lab : List Nat} {i d : Nat} (h : lab.length ≤ i) : lab.getD i d = d := by
  simp [List.getD, List.getElem?_eq_none h]

/-- under the invariant an edge `(p, c)` with a new child rewrites exactly position `c` -/
theorem mergeLabel_eq_set (n b : Nat) (lab : List Nat) (p c : Nat) (I : LabInv n b lab) (hbc : b ≤ c) (hpc : p < c) (hcn : c < n) :
    mergeLabel lab p c = lab.set c (lab.getD p p) ∧ lab.getD p p < c := by
  have hlb : lab.getD c c = c := I.hi c hbc hcn
  have hla : lab.getD p p < c := by
    by_cases hp : p < b
    · have := I.lo p hp; omega
    · have := I.hi p (by omega) (by omega); omega
  refine ⟨?_, hla⟩
  unfold mergeLabel
  simp only [hlb]
  apply List.ext_getElem
  · simp
  · intro i h1 h2
    simp only [List.getElem_map, List.getElem_set]
    have hi : i < n := by simpa [I.len] using h1
    have hil : i < lab.length := by rw [I.len]; exact hi
    by_cases hic : c = i
    · subst hic
      have : lab[c] = c := by rw [← getD_lt (d := c) hil]; exact hlb
      simp [this]
    · simp only [hic, if_false]
      have hne : lab[i] ≠ c := by
        by_cases hib : i < b
        · have := I.lo i hib
          rw [getD_lt (by rw [I.len]; exact hi)] at this
          omega
        · have := I.hi i (by omega) hi
          rw [getD_lt (by rw [I.len]; exact hi)] at this
          omega
      simp [hne]

theorem labInv_step (n b : Nat) (lab : List Nat) (p c : Nat) (I : LabInv n b lab) (hbc : b ≤ c) (hpc : p < c) (hcn : c < n) :
    LabInv n (c + 1) (mergeLabel lab p c) := by
  obtain ⟨he, hla⟩ := mergeLabel_eq_set n b lab p c I hbc hpc hcn
  rw [he]
  refine ⟨by simp [I.len], ?_, ?_⟩
  · intro j hj hjn
    have hne : c ≠ j := by omega
    rw [getD_lt (by simp [I.len]; exact hjn), List.getElem_set_ne hne]
    rw [← getD_lt (d := j) (by rw [I.len]; exact hjn)]
    exact I.hi j (by omega) hjn
  · intro i hi
    have hin : i < n := by omega
    rw [getD_lt (by simp [I.len]; exact hin)]
    by_cases hic : c = i
    · subst hic; rw [List.getElem_set_self]; omega
    · rw [List.getElem_set_ne hic, ← getD_lt (d := i) (by rw [I.len]; exact hin)]
      by_cases hib : i < b
      · exact I.lo i hib
      · have := I.hi i (by omega) hin; omega

/-- two predicates on `0 … n-1` that differ exactly at `c` (true before, false after): one element fewer -/
theorem filter_length_drop_one (P Q : Nat → Bool) (c : Nat) : ∀ n, c < n → P c = true → Q c = false →
    (∀ i, i ≠ c → Q i = P i) → ((List.range n).filter Q).length + 1 = ((List.range n).filter P).length := by
  intro n
  induction n with
  | zero => intro h; omega
  | succ n ih =>
    intro hcn hP hQ hag
    rw [List.range_succ, List.filter_append, List.filter_append, List.length_append, List.length_append]
    by_cases hc : c = n
    · subst hc
      have hsame : (List.range c).filter Q = (List.range c).filter P := by
        apply List.filter_congr
        intro x hx
        exact hag x (by have := List.mem_range.mp hx; omega)
      simp [hsame, hP, hQ]
    · have := ih (by omega) hP hQ hag
      have hn : Q n = P n := hag n (fun e => hc e.symm)
      simp only [List.filter_cons, List.filter_nil, hn]
      split <;> simp <;> omega

theorem ownLabel_step (n b : Nat) (lab : List Nat) (p c : Nat) (I : LabInv n b lab) (hbc : b ≤ c) (hpc : p < c) (hcn : c < n) :
    ownLabel (mergeLabel lab p c) n + 1 = ownLabel lab n := by
  obtain ⟨he, hla⟩ := mergeLabel_eq_set n b lab p c I hbc hpc hcn
  rw [he]
  generalize lab.getD p p = la at hla
  have hcl : c < lab.length := by rw [I.len]; exact hcn
  unfold ownLabel
  apply filter_length_drop_one _ _ c n hcn
  · have := I.hi c hbc hcn
    simp only [beq_iff_eq]; exact this
  · have h1 : (lab.set c la).getD c c = la := by
      rw [getD_lt (by simp; exact hcl), List.getElem_set_self]
    rw [h1]
    simp only [beq_eq_false_iff_ne, ne_eq]; omega
  · intro i hic
    by_cases hin : i < n
    · have hil : i < lab.length := by rw [I.len]; exact hin
      have h1 : (lab.set c la).getD i i = lab.getD i i := by
        rw [getD_lt (by simp; exact hil), getD_lt hil, List.getElem_set_ne (fun e => hic e.symm)]
      rw [h1]
    · have h1 : (lab.set c la).getD i i = i := getD_ge (by simp [I.len]; omega)
      have h2 : lab.getD i i = i := getD_ge (by rw [I.len]; omega)
      rw [h1, h2]

/-- **every edge to a new child removes exactly one component** -/
theorem ownLabel_fold (n : Nat) (es : List (Nat × Nat × List Char)) : ∀ (b : Nat) (lab : List Nat), LabInv n b lab →
    EdgesFresh n b es →
    ownLabel (es.foldl (fun lab e => mergeLabel lab e.1 e.2.1) lab) n + es.length = ownLabel lab n := by
  induction es with
  | nil => intro b lab _ _; simp
  | cons e rest ih =>
    intro b lab I hf
    obtain ⟨p, c, l⟩ := e
    obtain ⟨hbc, hpc, hcn, hrest⟩ := hf
    simp only [List.foldl_cons, List.length_cons]
    have := ih (c + 1) (mergeLabel lab p c) (labInv_step n b lab p c I hbc hpc hcn) hrest
    have h2 := ownLabel_step n b lab p c I hbc hpc hcn
    omega

theorem labInv_init (n : Nat) : LabInv n 0 (List.range n) :=
  ⟨by simp, by intro j _ hj; simp [List.getD, hj], by intro i hi; omega⟩

theorem ownLabel_init (n : Nat) : ownLabel (List.range n) n = n := by
  unfold ownLabel
  have : (List.range n).filter (fun i => (List.range n).getD i i == i) = List.range n := by
    apply List.filter_eq_self.mpr
    intro i hi
    have := List.mem_range.mp hi
    simp [List.getD, this]
  rw [this]; simp

/-- components of a graph whose edges all lead to new children: nodes minus edges -/
theorem components_fresh (st : WState) (h : EdgesFresh st.nodes.length 0 st.edges) :
    components st + st.edges.length = st.nodes.length := by
  unfold components labelsOfEdges
  have := ownLabel_fold st.nodes.length st.edges 0 (List.range st.nodes.length) (labInv_init _) h
  rw [ownLabel_init] at this
  exact this

/-- children `b, b+1, …` in order, each above its parent: fresh -/
theorem edgesFresh_of_range (n : Nat) : ∀ (es : List (Nat × Nat × List Char)) (b : Nat),
    es.map (·.2.1) = List.range' b es.length → (∀ e ∈ es, e.1 < e.2.1) → b + es.length ≤ n → EdgesFresh n b es := by
  intro es
  induction es with
  | nil => intro b _ _ _; trivial
  | cons e rest ih =>
    intro b hc hp hn
    obtain ⟨p, c, l⟩ := e
    simp only [List.map_cons, List.length_cons, List.range'_succ, List.cons.injEq] at hc
    obtain ⟨hcb, hrest⟩ := hc
    subst hcb
    simp only [List.length_cons] at hn
    refine ⟨Nat.le_refl _, hp (p, c, l) (by simp), by omega, ?_⟩
    exact ih (c + 1) hrest (fun e he => hp e (by simp [he])) (by omega)

theorem edgesFresh_mono (n : Nat) (es : List (Nat × Nat × List Char)) (b b' : Nat) (h : b' ≤ b) (hf : EdgesFresh n b es) :
    EdgesFresh n b' es := by
  cases es with
  | nil => trivial
  | cons e rest =>
    obtain ⟨p, c, l⟩ := e
    obtain ⟨h1, h2, h3, h4⟩ := hf
    exact ⟨by omega, h2, h3, h4⟩

end Gly
