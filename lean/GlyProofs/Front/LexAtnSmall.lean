import GlyModel.Generated.LexAtn
import GlyModel.Generated.Grammar
/-! Kernel evaluation of the lexer-rule check for all token rules except the two large literal tables (FG, SAC), which have
    their own modules so that the three evaluations run in parallel. -/
namespace Gly.Atn
open Gly

def idxFG : Nat := Gen.lexRules.findIdx (fun r => r.name == "FG")
def idxSAC : Nat := Gen.lexRules.findIdx (fun r => r.name == "SAC")

def lexOkAt (i : Nat) : Bool := lexRuleOk (Gen.lexerAtn.getD i default) (Gen.lexRules.getD i ⟨0, "", []⟩)

set_option maxRecDepth 100000 in
theorem lex_small_ok :
    Gen.lexerAtn.length = Gen.lexRules.length ∧
    ((List.range Gen.lexRules.length).all (fun i => i == idxFG || i == idxSAC || lexOkAt i)) = true := by
  decide +kernel

end Gly.Atn
