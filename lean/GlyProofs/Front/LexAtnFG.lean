import GlyProofs.Front.LexAtnSmall
namespace Gly.Atn
set_option maxRecDepth 100000 in
theorem lex_FG_ok : lexOkAt idxFG = true := by decide +kernel
end Gly.Atn
