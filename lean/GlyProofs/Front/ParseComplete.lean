import GlyProofs.Front.ParseSound
namespace Gly

/-- Derivations in which every iteration of a star consumes at least one token. -/
inductive DerivesN (g : Grammar) : Rx → List Token → Prop
  | eps : DerivesN g .eps []
  | tok {t : TokType} (x : Token) : x.ty = t → DerivesN g (.tok t) [x]
  | ref {r : Nat} {w : List Token} : DerivesN g (g.rule r) w → DerivesN g (.ref r) w
  | seq {a b : Rx} {u v : List Token} : DerivesN g a u → DerivesN g b v → DerivesN g (.seq a b) (u ++ v)
  | altL {a b : Rx} {w : List Token} : DerivesN g a w → DerivesN g (.alt a b) w
  | altR {a b : Rx} {w : List Token} : DerivesN g b w → DerivesN g (.alt a b) w
  | starNil {a : Rx} : DerivesN g (.star a) []
  | starCons {a : Rx} {u v : List Token} : u ≠ [] → DerivesN g a u → DerivesN g (.star a) v → DerivesN g (.star a) (u ++ v)

/-- Empty iterations of a star can be dropped: every derivation has a normal one. -/
theorem Derives.normalize {g : Grammar} {e : Rx} {w : List Token} (h : Derives g e w) : DerivesN g e w := by
  induction h with
  | eps => exact .eps
  | tok x hx => exact .tok x hx
  | ref _ ih => exact .ref ih
  | seq _ _ ih1 ih2 => exact .seq ih1 ih2
  | altL _ ih => exact .altL ih
  | altR _ ih => exact .altR ih
  | starNil => exact .starNil
  | @starCons a u v _ _ ih1 ih2 =>
    by_cases hu : u = []
    · subst hu; simpa using ih2
    · exact .starCons hu ih1 ih2

theorem dedupGo_keeps {xs : PRes} {seen : List Nat} {k : List PT} {r : List Token}
    (h : (k, r) ∈ xs) (hs : r.length ∉ seen) :
    ∃ k' r', (k', r') ∈ dedupGo xs seen ∧ r'.length = r.length := by
  induction xs generalizing seen with
  | nil => simp at h
  | cons y ys ih =>
    obtain ⟨ky, ry⟩ := y
    unfold dedupGo
    by_cases hc : seen.contains ry.length = true
    · simp only [hc, if_true]
      rcases List.mem_cons.mp h with h | h
      · injection h with _ h2; subst h2
        exact absurd (by simpa using hc) hs
      · exact ih h hs
    · simp only [hc]
      rcases List.mem_cons.mp h with h | h
      · injection h with h1 h2; subst h1 h2
        exact ⟨k, r, by simp, rfl⟩
      · by_cases hl : ry.length = r.length
        · exact ⟨ky, ry, by simp, hl⟩
        · obtain ⟨k', r', hm, hl'⟩ := ih (seen := ry.length :: seen) h (by
            intro hmem
            rcases List.mem_cons.mp hmem with e | e
            · exact hl e.symm
            · exact hs e)
          exact ⟨k', r', by simp [hm], hl'⟩

/-- Two remainders of the same input with the same length are the same list. -/
theorem suffix_eq_of_length {α} {inp a r b r' : List α} (h1 : inp = a ++ r) (h2 : inp = b ++ r') (hl : r'.length = r.length) : r' = r := by
  have hlen : a.length = b.length := by
    have := congrArg List.length h1
    have := congrArg List.length h2
    simp at *
    omega
  have := h1.symm.trans h2
  exact ((List.append_inj this hlen).2).symm

/-- A remainder reachable before deduplication is reachable after it. -/
theorem dedup_reach (g : Grammar) {xs : PRes} {inp : List Token} {k : List PT} {r : List Token}
    (hsound : ∀ k' r', (k', r') ∈ xs → inp = PT.yieldList k' ++ r')
    (h : (k, r) ∈ xs) : ∃ k', (k', r) ∈ dedup xs := by
  obtain ⟨k', r', hm, hl⟩ := dedupGo_keeps (seen := []) h (by simp)
  have e1 := hsound k r h
  have e2 := hsound k' r' (mem_dedup hm)
  have := suffix_eq_of_length e1 e2 hl
  subst this
  exact ⟨k', hm⟩

/-- **Completeness of the parser (as a recogniser) for ample fuel**: whatever the grammar derives is found – for every
    continuation `r` the remainder `r` is among the results once the fuel exceeds a bound that depends only on the derivation. -/
theorem parseRx_complete (g : Grammar) {e : Rx} {w : List Token} (h : DerivesN g e w) :
    ∃ N, ∀ fuel, N ≤ fuel → ∀ r, ∃ k, (k, r) ∈ parseRx g fuel e (w ++ r) := by
  induction h with
  | eps =>
    refine ⟨1, ?_⟩
    intro fuel hf r
    obtain ⟨n, rfl⟩ : ∃ n, fuel = n + 1 := ⟨fuel - 1, by omega⟩
    exact ⟨[], by simp [parseRx]⟩
  | @tok t x hx =>
    refine ⟨1, ?_⟩
    intro fuel hf r
    obtain ⟨n, rfl⟩ : ∃ n, fuel = n + 1 := ⟨fuel - 1, by omega⟩
    exact ⟨[.leaf x], by simp [parseRx, hx]⟩
  | @ref rr w _ ih =>
    obtain ⟨N, hN⟩ := ih
    refine ⟨N + 1, ?_⟩
    intro fuel hf r
    obtain ⟨n, rfl⟩ : ∃ n, fuel = n + 1 := ⟨fuel - 1, by omega⟩
    obtain ⟨k, hk⟩ := hN n (by omega) r
    exact ⟨[PT.node rr k], by simp only [parseRx, List.mem_map]; exact ⟨(k, r), hk, rfl⟩⟩
  | @seq a b u v _ _ ih1 ih2 =>
    obtain ⟨N1, h1⟩ := ih1
    obtain ⟨N2, h2⟩ := ih2
    refine ⟨max N1 N2 + 1, ?_⟩
    intro fuel hf r
    obtain ⟨n, rfl⟩ : ∃ n, fuel = n + 1 := ⟨fuel - 1, by omega⟩
    obtain ⟨k1, hk1⟩ := h1 n (by omega) (v ++ r)
    obtain ⟨k2, hk2⟩ := h2 n (by omega) r
    simp only [parseRx]
    apply dedup_reach g (inp := u ++ v ++ r) (k := k1 ++ k2)
    · intro k' r' hm
      simp only [List.mem_flatMap, List.mem_map] at hm
      obtain ⟨⟨ka, ra⟩, hma, ⟨kb, rb⟩, hmb, heq⟩ := hm
      simp at heq; obtain ⟨rfl, rfl⟩ := heq
      have ea := (parseRx_sound g _ _ _ _ _ hma).1
      have eb := (parseRx_sound g _ _ _ _ _ hmb).1
      simp only at eb
      rw [eb] at ea; simpa [yieldList_append, List.append_assoc] using ea
    · simp only [List.mem_flatMap, List.mem_map]
      exact ⟨(k1, v ++ r), by simpa [List.append_assoc] using hk1, (k2, r), hk2, rfl⟩
  | @altL a b w _ ih =>
    obtain ⟨N, hN⟩ := ih
    refine ⟨N + 1, ?_⟩
    intro fuel hf r
    obtain ⟨n, rfl⟩ : ∃ n, fuel = n + 1 := ⟨fuel - 1, by omega⟩
    obtain ⟨k, hk⟩ := hN n (by omega) r
    simp only [parseRx]
    apply dedup_reach g (inp := w ++ r) (k := k)
    · intro k' r' hm
      rcases List.mem_append.mp hm with hm | hm <;> exact (parseRx_sound g _ _ _ _ _ hm).1
    · exact List.mem_append_left _ hk
  | @altR a b w _ ih =>
    obtain ⟨N, hN⟩ := ih
    refine ⟨N + 1, ?_⟩
    intro fuel hf r
    obtain ⟨n, rfl⟩ : ∃ n, fuel = n + 1 := ⟨fuel - 1, by omega⟩
    obtain ⟨k, hk⟩ := hN n (by omega) r
    simp only [parseRx]
    apply dedup_reach g (inp := w ++ r) (k := k)
    · intro k' r' hm
      rcases List.mem_append.mp hm with hm | hm <;> exact (parseRx_sound g _ _ _ _ _ hm).1
    · exact List.mem_append_right _ hk
  | @starNil a =>
    refine ⟨1, ?_⟩
    intro fuel hf r
    obtain ⟨n, rfl⟩ : ∃ n, fuel = n + 1 := ⟨fuel - 1, by omega⟩
    simp only [parseRx, List.nil_append]
    apply dedup_reach g (inp := r) (k := [])
    · intro k' r' hm
      rcases List.mem_append.mp hm with hm | hm
      · simp only [List.mem_flatMap, List.mem_map, List.mem_filter] at hm
        obtain ⟨⟨ka, ra⟩, ⟨hma, _⟩, ⟨kb, rb⟩, hmb, heq⟩ := hm
        simp at heq; obtain ⟨rfl, rfl⟩ := heq
        have ea := (parseRx_sound g _ _ _ _ _ hma).1
        have eb := (parseRx_sound g _ _ _ _ _ hmb).1
        simp only at eb
        rw [eb] at ea; simpa [yieldList_append, List.append_assoc] using ea
      · simp at hm; obtain ⟨rfl, rfl⟩ := hm; simp [PT.yieldList]
    · exact List.mem_append_right _ (by simp)
  | @starCons a u v hu _ _ ih1 ih2 =>
    obtain ⟨N1, h1⟩ := ih1
    obtain ⟨N2, h2⟩ := ih2
    refine ⟨max N1 N2 + 1, ?_⟩
    intro fuel hf r
    obtain ⟨n, rfl⟩ : ∃ n, fuel = n + 1 := ⟨fuel - 1, by omega⟩
    obtain ⟨k1, hk1⟩ := h1 n (by omega) (v ++ r)
    obtain ⟨k2, hk2⟩ := h2 n (by omega) r
    simp only [parseRx]
    apply dedup_reach g (inp := u ++ v ++ r) (k := k1 ++ k2)
    · intro k' r' hm
      rcases List.mem_append.mp hm with hm | hm
      · simp only [List.mem_flatMap, List.mem_map, List.mem_filter] at hm
        obtain ⟨⟨ka, ra⟩, ⟨hma, _⟩, ⟨kb, rb⟩, hmb, heq⟩ := hm
        simp at heq; obtain ⟨rfl, rfl⟩ := heq
        have ea := (parseRx_sound g _ _ _ _ _ hma).1
        have eb := (parseRx_sound g _ _ _ _ _ hmb).1
        simp only at eb
        rw [eb] at ea; simpa [yieldList_append, List.append_assoc] using ea
      · simp at hm; obtain ⟨rfl, rfl⟩ := hm; simp [PT.yieldList]
    · apply List.mem_append_left
      simp only [List.mem_flatMap, List.mem_map, List.mem_filter]
      refine ⟨(k1, v ++ r), ⟨by simpa [List.append_assoc] using hk1, ?_⟩, (k2, r), hk2, rfl⟩
      have : 0 < u.length := List.length_pos_iff.mpr hu
      simp; omega

end Gly
