import GlyProofs.Front.AtnSound
import GlyProofs.Front.ParseSound
/-
  From the per-rule equivalence (regular languages over token types + rule references) to the token languages:
  the rule languages of the grammar are the least solution of the recursive-transition-network equations of the ATN.
-/
namespace Gly.Atn
open Gly

/-- a word over (token types + rule references) expanded to a token string: a token type by any token of that type, a rule
    reference by any string of the family `X` -/
inductive Expand (X : Nat → List Token → Prop) : List Sym → List Token → Prop
  | nil : Expand X [] []
  | tok {t : Nat} {σ : List Sym} {w : List Token} (x : Token) : x.ty = t → Expand X σ w → Expand X (.tok t :: σ) (x :: w)
  | ref {r : Nat} {σ : List Sym} {u w : List Token} : X r u → Expand X σ w → Expand X (.ref r :: σ) (u ++ w)

theorem expand_append {X : Nat → List Token → Prop} {σ1 σ2 : List Sym} {w1 w2 : List Token}
    (h1 : Expand X σ1 w1) (h2 : Expand X σ2 w2) : Expand X (σ1 ++ σ2) (w1 ++ w2) := by
  induction h1 with
  | nil => simpa using h2
  | tok x hx _ ih => exact Expand.tok x hx ih
  | ref hu _ ih => rw [List.append_assoc]; exact Expand.ref hu ih

theorem expand_append_inv {X : Nat → List Token → Prop} : ∀ (σ1 σ2 : List Sym) (w : List Token),
    Expand X (σ1 ++ σ2) w → ∃ w1 w2, w = w1 ++ w2 ∧ Expand X σ1 w1 ∧ Expand X σ2 w2
  | [], σ2, w, h => ⟨[], w, rfl, Expand.nil, h⟩
  | s :: σ1, σ2, w, h => by
    cases h with
    | tok x hx h' =>
      obtain ⟨w1, w2, e, h1, h2⟩ := expand_append_inv σ1 σ2 _ h'
      exact ⟨x :: w1, w2, by rw [e]; rfl, Expand.tok x hx h1, h2⟩
    | ref hu h' =>
      obtain ⟨w1, w2, e, h1, h2⟩ := expand_append_inv σ1 σ2 _ h'
      exact ⟨_ ++ w1, w2, by rw [e, List.append_assoc], Expand.ref hu h1, h2⟩

theorem expand_mono {X Y : Nat → List Token → Prop} (hXY : ∀ r w, X r w → Y r w) {σ : List Sym} {w : List Token}
    (h : Expand X σ w) : Expand Y σ w := by
  induction h with
  | nil => exact Expand.nil
  | tok x hx _ ih => exact Expand.tok x hx ih
  | ref hu _ ih => exact Expand.ref (hXY _ _ hu) ih

/-- the language family of the grammar: what each rule derives -/
def D (g : Grammar) (r : Nat) (w : List Token) : Prop := Derives g (g.rule r) w

/-- a derivation is a flat word of the expression, expanded – for any family `Y` that contains what the referenced rules derive -/
theorem derives_flat (g : Grammar) (Y : Nat → List Token → Prop) (hY : ∀ r w, Derives g (g.rule r) w → Y r w) :
    ∀ (e : Rx) (w : List Token), Derives g e w → ∃ σ, Flat e σ ∧ Expand Y σ w := by
  intro e w h
  induction h with
  | eps => exact ⟨[], Flat.eps, Expand.nil⟩
  | @tok t x hx => exact ⟨[.tok t], Flat.tok t, Expand.tok x hx Expand.nil⟩
  | @ref r w h _ =>
    exact ⟨[.ref r], Flat.ref r, by simpa using Expand.ref (hY r w h) Expand.nil⟩
  | seq _ _ iha ihb =>
    obtain ⟨σ1, f1, e1⟩ := iha
    obtain ⟨σ2, f2, e2⟩ := ihb
    exact ⟨σ1 ++ σ2, Flat.seq f1 f2, expand_append e1 e2⟩
  | altL _ ih => obtain ⟨σ, f, e⟩ := ih; exact ⟨σ, Flat.altL f, e⟩
  | altR _ ih => obtain ⟨σ, f, e⟩ := ih; exact ⟨σ, Flat.altR f, e⟩
  | starNil => exact ⟨[], Flat.starNil, Expand.nil⟩
  | starCons _ _ iha ihb =>
    obtain ⟨σ1, f1, e1⟩ := iha
    obtain ⟨σ2, f2, e2⟩ := ihb
    exact ⟨σ1 ++ σ2, Flat.starCons f1 f2, expand_append e1 e2⟩

/-- … and conversely -/
theorem flat_derives (g : Grammar) : ∀ (e : Rx) (σ : List Sym), Flat e σ → ∀ w, Expand (D g) σ w → Derives g e w := by
  intro e σ h
  induction h with
  | eps => intro w hw; cases hw; exact Derives.eps
  | tok t =>
    intro w hw
    cases hw with
    | tok x hx h' => cases h'; exact Derives.tok x hx
  | ref r =>
    intro w hw
    cases hw with
    | ref hu h' => cases h'; simp only [List.append_nil]; exact Derives.ref hu
  | @seq a b u v _ _ iha ihb =>
    intro w hw
    obtain ⟨w1, w2, e, h1, h2⟩ := expand_append_inv u v w hw
    rw [e]; exact Derives.seq (iha w1 h1) (ihb w2 h2)
  | altL _ ih => intro w hw; exact Derives.altL (ih w hw)
  | altR _ ih => intro w hw; exact Derives.altR (ih w hw)
  | starNil => intro w hw; cases hw; exact Derives.starNil
  | @starCons a u v _ _ iha ihb =>
    intro w hw
    obtain ⟨w1, w2, e, h1, h2⟩ := expand_append_inv u v w hw
    rw [e]; exact Derives.starCons (iha w1 h1) (ihb w2 h2)

theorem flat_syms (e : Rx) (σ : List Sym) (h : Flat e σ) : ∀ s ∈ σ, s ∈ symsOf e := by
  induction h with
  | eps => intro s hs; simp at hs
  | tok t => intro s hs; simpa [symsOf] using hs
  | ref r => intro s hs; simpa [symsOf] using hs
  | seq _ _ iha ihb =>
    intro s hs
    simp only [symsOf, List.mem_append] at hs ⊢
    rcases hs with h | h
    · exact Or.inl (iha s h)
    · exact Or.inr (ihb s h)
  | altL _ ih => intro s hs; simp only [symsOf, List.mem_append]; exact Or.inl (ih s hs)
  | altR _ ih => intro s hs; simp only [symsOf, List.mem_append]; exact Or.inr (ih s hs)
  | starNil => intro s hs; simp at hs
  | starCons _ _ iha ihb =>
    intro s hs
    simp only [List.mem_append] at hs
    rcases hs with h | h
    · exact iha s h
    · exact ihb s h

theorem path_syms (n : RuleNfa) {q r : Nat} {σ : List Sym} (h : Path n q σ r) : ∀ s ∈ σ, s ∈ n.edges.map (·.2.1) := by
  induction h with
  | refl q => intro s hs; simp at hs
  | eps _ _ ih => exact ih
  | @sym a b c s' w he _ ih =>
    intro s hs
    rcases List.mem_cons.mp hs with rfl | hs
    · exact List.mem_map.mpr ⟨(a, s, b), he, rfl⟩
    · exact ih s hs

theorem mem_alphabet_left (n : RuleNfa) (e : Rx) (s : Sym) (h : s ∈ symsOf e) : s ∈ alphabetOf n e := by
  rw [alphabetOf, mem_dedup]; exact List.mem_append_left _ h

theorem mem_alphabet_right (n : RuleNfa) (e : Rx) (s : Sym) (h : s ∈ n.edges.map (·.2.1)) : s ∈ alphabetOf n e := by
  rw [alphabetOf, mem_dedup]; exact List.mem_append_right _ h

/-- what "the ATN, read as a recursive transition network, accepts" means for a family of languages -/
def RtnClosed (atn : List RuleNfa) (Y : Nat → List Token → Prop) : Prop :=
  ∀ r σ w, Path (atn.getD r default) (atn.getD r default).start σ (atn.getD r default).stop → Expand Y σ w → Y r w

/-- **From rules to languages.** If every rule's sub-automaton agrees with the rule's right-hand side (`ruleOk`), then the
    grammar's rule languages (i) satisfy the recursive-transition-network equations of the ATN – a token string is derived by
    rule `r` iff it is the expansion of a word accepted by `r`'s sub-automaton, rule references expanded by what those rules
    derive – and (ii) are contained in every family closed under those equations: they are the least solution, i.e. the language
    of the ATN read as a recursive transition network. -/
theorem rtn_language (g : Grammar) (atn : List RuleNfa)
    (hok : ∀ r, r < g.rules.length → ruleOk (atn.getD r default) (g.rule r) = true) :
    (∀ r, r < g.rules.length → ∀ w, D g r w ↔
        ∃ σ, Path (atn.getD r default) (atn.getD r default).start σ (atn.getD r default).stop ∧ Expand (D g) σ w) ∧
    (∀ Y, RtnClosed atn Y → (∀ r, g.rules.length ≤ r → ∀ w, D g r w → Y r w) → ∀ r w, D g r w → Y r w) := by
  constructor
  · intro r hr w
    have heq := ruleOk_sound _ _ (hok r hr)
    constructor
    · intro h
      obtain ⟨σ, hf, he⟩ := derives_flat g (D g) (fun _ _ h => h) (g.rule r) w h
      exact ⟨σ, (heq σ (fun s hs => mem_alphabet_left _ _ s (flat_syms _ σ hf s hs))).mp hf, he⟩
    · rintro ⟨σ, hp, he⟩
      have hf := (heq σ (fun s hs => mem_alphabet_right _ _ s (path_syms _ hp s hs))).mpr hp
      exact flat_derives g (g.rule r) σ hf w he
  · intro Y hY hout
    -- every derivation of an expression is an expansion, over Y, of a flat word of that expression
    have key : ∀ (e : Rx) (w : List Token), Derives g e w → ∃ σ, Flat e σ ∧ Expand Y σ w := by
      intro e w h
      induction h with
      | eps => exact ⟨[], Flat.eps, Expand.nil⟩
      | @tok t x hx => exact ⟨[.tok t], Flat.tok t, Expand.tok x hx Expand.nil⟩
      | @ref r w h ih =>
        obtain ⟨σ, hf, he⟩ := ih
        have hYr : Y r w := by
          by_cases hr : r < g.rules.length
          · have heq := ruleOk_sound _ _ (hok r hr)
            exact hY r σ w ((heq σ (fun s hs => mem_alphabet_left _ _ s (flat_syms _ σ hf s hs))).mp hf) he
          · exact hout r (by omega) w h
        exact ⟨[.ref r], Flat.ref r, by simpa using Expand.ref hYr Expand.nil⟩
      | seq _ _ iha ihb =>
        obtain ⟨σ1, f1, e1⟩ := iha
        obtain ⟨σ2, f2, e2⟩ := ihb
        exact ⟨σ1 ++ σ2, Flat.seq f1 f2, expand_append e1 e2⟩
      | altL _ ih => obtain ⟨σ, f, e⟩ := ih; exact ⟨σ, Flat.altL f, e⟩
      | altR _ ih => obtain ⟨σ, f, e⟩ := ih; exact ⟨σ, Flat.altR f, e⟩
      | starNil => exact ⟨[], Flat.starNil, Expand.nil⟩
      | starCons _ _ iha ihb =>
        obtain ⟨σ1, f1, e1⟩ := iha
        obtain ⟨σ2, f2, e2⟩ := ihb
        exact ⟨σ1 ++ σ2, Flat.starCons f1 f2, expand_append e1 e2⟩
    intro r w h
    by_cases hr : r < g.rules.length
    · obtain ⟨σ, hf, he⟩ := key (g.rule r) w h
      have heq := ruleOk_sound _ _ (hok r hr)
      exact hY r σ w ((heq σ (fun s hs => mem_alphabet_left _ _ s (flat_syms _ σ hf s hs))).mp hf) he
    · exact hout r (by omega) w h

end Gly.Atn
