import GlyModel.Front.Lexer
namespace Gly

/-- Declarative language of one lexer alternative. -/
inductive AltDerives : LexAlt → List Char → Prop
  | nil : AltDerives [] []
  | cons {it : CItem} {rest : LexAlt} {c : Char} {w : List Char} :
      it.star = false → it.matches c = true → AltDerives rest w → AltDerives (it :: rest) (c :: w)
  | star {it : CItem} {w : List Char} :
      it.star = true → (∀ c ∈ w, it.matches c = true) → AltDerives [it] w

def RuleDerives (r : LexRule) (w : List Char) : Prop := ∃ a ∈ r.alts, AltDerives a w

theorem takeWhile_length_le {α} (p : α → Bool) (l : List α) : (l.takeWhile p).length ≤ l.length := by
  induction l with
  | nil => simp
  | cons x xs ih => simp [List.takeWhile]; split <;> simp <;> omega

theorem take_takeWhile_length {α} (p : α → Bool) (l : List α) :
    l.take (l.takeWhile p).length = l.takeWhile p := by
  induction l with
  | nil => simp
  | cons x xs ih =>
    simp only [List.takeWhile]
    split
    · simp [ih]
    · simp

theorem mem_takeWhile_sat {α} (p : α → Bool) (l : List α) (c : α) (h : c ∈ l.takeWhile p) : p c = true := by
  induction l with
  | nil => simp at h
  | cons x xs ih =>
    simp only [List.takeWhile] at h
    split at h
    · rcases List.mem_cons.mp h with rfl | h'
      · assumption
      · exact ih h'
    · simp at h

/-- What `matchAlt` returns is a match: a prefix of the input in the alternative's language. -/
theorem matchAlt_sound : ∀ (a : LexAlt) (inp : List Char) (n : Nat),
    matchAlt a inp = some n → n ≤ inp.length ∧ AltDerives a (inp.take n) := by
  intro a
  induction a with
  | nil => intro inp n h; simp [matchAlt] at h; subst h; exact ⟨by omega, by simpa using AltDerives.nil⟩
  | cons it rest ih =>
    intro inp n h
    unfold matchAlt at h
    by_cases hs : it.star = true
    · simp only [hs, if_true] at h
      cases rest with
      | nil =>
        simp at h; subst h
        refine ⟨takeWhile_length_le _ _, ?_⟩
        rw [take_takeWhile_length]
        exact AltDerives.star hs (fun c hc => mem_takeWhile_sat _ _ _ hc)
      | cons _ _ => simp at h
    · have hs' : it.star = false := by cases h' : it.star <;> simp_all
      simp only [hs', Bool.false_eq_true, if_false] at h
      cases inp with
      | nil => simp at h
      | cons c cs =>
        simp only at h
        split at h
        · rename_i hm
          cases hr : matchAlt rest cs with
          | none => simp [hr] at h
          | some m =>
            simp [hr] at h; subst h
            have := ih cs m hr
            exact ⟨by simp; omega, by simpa using AltDerives.cons hs' hm this.2⟩
        · simp at h

theorem takeWhile_prefix_max {α} (p : α → Bool) (w l : List α) (hp : w <+: l) (hall : ∀ c ∈ w, p c = true) :
    w.length ≤ (l.takeWhile p).length := by
  induction w generalizing l with
  | nil => simp
  | cons x xs ih =>
    obtain ⟨t, rfl⟩ := hp
    have hx : p x = true := hall x (by simp)
    simp [hx]
    exact ih (xs ++ t) ⟨t, rfl⟩ (fun c hc => hall c (by simp [hc]))

/-- Maximality: any prefix of the input in the alternative's language is no longer than what `matchAlt` returns. -/
theorem matchAlt_max : ∀ (a : LexAlt) (w inp : List Char),
    AltDerives a w → w <+: inp → ∃ n, matchAlt a inp = some n ∧ w.length ≤ n := by
  intro a w inp hd
  induction hd generalizing inp with
  | nil => intro _; exact ⟨0, by simp [matchAlt], by simp⟩
  | @cons it rest c w hs hm _ ih =>
    intro hp
    obtain ⟨t, rfl⟩ := hp
    obtain ⟨n, hn, hle⟩ := ih (w ++ t) ⟨t, rfl⟩
    refine ⟨n + 1, ?_, by simp; omega⟩
    simp [matchAlt, hs, hm, hn]
  | @star it w hs hall =>
    intro hp
    refine ⟨(inp.takeWhile it.matches).length, by simp [matchAlt, hs], ?_⟩
    exact takeWhile_prefix_max _ _ _ hp hall

theorem foldl_max_ge (f : LexAlt → Nat) (l : List LexAlt) (init : Nat) :
    init ≤ l.foldl (fun m a => max m (f a)) init ∧ ∀ a ∈ l, f a ≤ l.foldl (fun m a => max m (f a)) init := by
  induction l generalizing init with
  | nil => simp
  | cons x xs ih =>
    simp only [List.foldl]
    have := ih (max init (f x))
    refine ⟨by omega, ?_⟩
    intro a ha
    rcases List.mem_cons.mp ha with rfl | h
    · omega
    · exact this.2 a h

theorem foldl_max_attained (f : LexAlt → Nat) (l : List LexAlt) (init : Nat) :
    l.foldl (fun m a => max m (f a)) init = init ∨ ∃ a ∈ l, l.foldl (fun m a => max m (f a)) init = f a := by
  induction l generalizing init with
  | nil => simp
  | cons x xs ih =>
    simp only [List.foldl]
    rcases ih (max init (f x)) with h | ⟨a, ha, h⟩
    · by_cases hx : f x ≤ init
      · left; rw [h]; omega
      · right; exact ⟨x, by simp, by rw [h]; omega⟩
    · right; exact ⟨a, by simp [ha], h⟩

/-- `ruleLen` bounds every match of the rule … -/
theorem ruleLen_max (r : LexRule) (w inp : List Char) (h : RuleDerives r w) (hp : w <+: inp) :
    w.length ≤ ruleLen r inp := by
  obtain ⟨a, ha, hd⟩ := h
  obtain ⟨n, hn, hle⟩ := matchAlt_max a w inp hd hp
  have := (foldl_max_ge (fun a => (matchAlt a inp).getD 0) r.alts 0).2 a ha
  simp [hn] at this
  unfold ruleLen; omega

/-- … and, when positive, is itself a match of the rule. -/
theorem ruleLen_sound (r : LexRule) (inp : List Char) (h : 0 < ruleLen r inp) :
    ruleLen r inp ≤ inp.length ∧ RuleDerives r (inp.take (ruleLen r inp)) := by
  unfold ruleLen at h ⊢
  rcases foldl_max_attained (fun a => (matchAlt a inp).getD 0) r.alts 0 with h0 | ⟨a, ha, heq⟩
  · omega
  · rw [heq] at h ⊢
    cases hm : matchAlt a inp with
    | none => simp [hm] at h
    | some n =>
      simp only [hm, Option.getD_some] at h ⊢
      have := matchAlt_sound a inp n hm
      exact ⟨this.1, a, ha, this.2⟩

/-- Invariant of the `bestRule` scan. -/
def BestInv (seen : List LexRule) (inp : List Char) : Option (TokType × Nat) → Prop
  | none => ∀ r ∈ seen, ruleLen r inp = 0
  | some (t, n) => 0 < n ∧ (∃ r ∈ seen, r.ty = t ∧ ruleLen r inp = n) ∧ ∀ r ∈ seen, ruleLen r inp ≤ n

theorem bestRule_inv (rs seen : List LexRule) (inp : List Char) (acc : Option (TokType × Nat))
    (h : BestInv seen inp acc) : BestInv (seen ++ rs) inp (bestRule rs inp acc) := by
  induction rs generalizing seen acc with
  | nil => simpa [bestRule] using h
  | cons r rs ih =>
    simp only [bestRule]
    have : seen ++ r :: rs = (seen ++ [r]) ++ rs := by simp
    rw [this]
    apply ih
    cases acc with
    | none =>
      simp only [BestInv] at h
      by_cases hn : ruleLen r inp > 0
      · rw [if_pos hn]
        simp only [BestInv]
        refine ⟨hn, ⟨r, by simp, rfl, rfl⟩, ?_⟩
        intro r' hr'
        rcases List.mem_append.mp hr' with h' | h'
        · rw [h r' h']; omega
        · simp at h'; subst h'; omega
      · rw [if_neg hn]
        simp only [BestInv]
        intro r' hr'
        rcases List.mem_append.mp hr' with h' | h'
        · exact h r' h'
        · simp at h'; subst h'; omega
    | some p =>
      obtain ⟨t, m⟩ := p
      simp only [BestInv] at h
      obtain ⟨hpos, ⟨r0, hr0, ht0, hl0⟩, hall⟩ := h
      by_cases hn : ruleLen r inp > m
      · show BestInv _ _ (if ruleLen r inp > m then some (r.ty, ruleLen r inp) else some (t, m))
        rw [if_pos hn]
        simp only [BestInv]
        refine ⟨by omega, ⟨r, by simp, rfl, rfl⟩, ?_⟩
        intro r' hr'
        rcases List.mem_append.mp hr' with h' | h'
        · have := hall r' h'; omega
        · simp at h'; subst h'; omega
      · show BestInv _ _ (if ruleLen r inp > m then some (r.ty, ruleLen r inp) else some (t, m))
        rw [if_neg hn]
        simp only [BestInv]
        refine ⟨hpos, ⟨r0, by simp [hr0], ht0, hl0⟩, ?_⟩
        intro r' hr'
        rcases List.mem_append.mp hr' with h' | h'
        · exact hall r' h'
        · simp at h'; subst h'; omega

/-- One lexer step is a maximal munch. -/
theorem bestRule_spec (rules : List LexRule) (inp : List Char) (t : TokType) (n : Nat)
    (h : bestRule rules inp none = some (t, n)) :
    0 < n ∧ n ≤ inp.length ∧
    (∃ r ∈ rules, r.ty = t ∧ RuleDerives r (inp.take n)) ∧
    (∀ r ∈ rules, ∀ w, RuleDerives r w → w <+: inp → w.length ≤ n) := by
  have inv := bestRule_inv rules [] inp none (by simp [BestInv])
  simp only [List.nil_append, h, BestInv] at inv
  obtain ⟨hpos, ⟨r, hr, ht, hl⟩, hall⟩ := inv
  have hs := ruleLen_sound r inp (by omega)
  rw [hl] at hs
  refine ⟨hpos, hs.1, ⟨r, hr, ht, hs.2⟩, ?_⟩
  intro r' hr' w hw hp
  have := ruleLen_max r' w inp hw hp
  have := hall r' hr'
  omega

theorem bestRule_none (rules : List LexRule) (inp : List Char) (h : bestRule rules inp none = none) :
    ∀ r ∈ rules, ∀ w, RuleDerives r w → w <+: inp → w = [] := by
  have inv := bestRule_inv rules [] inp none (by simp [BestInv])
  simp only [List.nil_append, h, BestInv] at inv
  intro r hr w hw hp
  have := ruleLen_max r w inp hw hp
  rw [inv r hr] at this
  exact List.length_eq_zero_iff.mp (by omega)

/-- A tokenisation in which every token is the maximal munch at its position. -/
inductive MaxMunch (rules : List LexRule) : List Char → List Token → Prop
  | nil : MaxMunch rules [] []
  | cons {inp : List Char} {t : Token} {ts : List Token} :
      t.text ≠ [] → t.text <+: inp →
      (∃ r ∈ rules, r.ty = t.ty ∧ RuleDerives r t.text) →
      (∀ r ∈ rules, ∀ w, RuleDerives r w → w <+: inp → w.length ≤ t.text.length) →
      MaxMunch rules (inp.drop t.text.length) ts →
      MaxMunch rules inp (t :: ts)

theorem lexGo_spec (rules : List LexRule) : ∀ (fuel : Nat) (inp : List Char) (ts : List Token),
    lexGo rules fuel inp = some ts → MaxMunch rules inp ts := by
  intro fuel
  induction fuel with
  | zero =>
    intro inp ts h
    cases inp with
    | nil => simp [lexGo] at h; subst h; exact MaxMunch.nil
    | cons _ _ => simp [lexGo] at h
  | succ k ih =>
    intro inp ts h
    cases inp with
    | nil => simp [lexGo] at h; subst h; exact MaxMunch.nil
    | cons c cs =>
      simp only [lexGo] at h
      cases hb : bestRule rules (c :: cs) none with
      | none => simp [hb] at h
      | some p =>
        obtain ⟨t, n⟩ := p
        simp only [hb] at h
        cases hr : lexGo rules k ((c :: cs).drop n) with
        | none => simp [hr] at h
        | some rest =>
          simp [hr] at h; subst h
          obtain ⟨hpos, hle, hex, hmax⟩ := bestRule_spec rules (c :: cs) t n hb
          have hlen : ((c :: cs).take n).length = n := by rw [List.length_take]; omega
          refine MaxMunch.cons ?_ (List.take_prefix _ _) hex ?_ ?_
          · intro h0; have : ((c :: cs).take n).length = 0 := by simp only at h0; rw [h0]; rfl
            omega
          · intro r hr' w hw hp; rw [hlen]; exact hmax r hr' w hw hp
          · simp only [hlen]; exact ih _ _ hr

theorem MaxMunch.concat {rules : List LexRule} {inp : List Char} {ts : List Token}
    (h : MaxMunch rules inp ts) : (ts.map (·.text)).flatten = inp := by
  induction h with
  | nil => simp
  | @cons inp t ts _ hp _ _ _ ih =>
    simp only [List.map_cons, List.flatten_cons, ih]
    obtain ⟨s, rfl⟩ := hp
    simp

/-- The lexer model is longest-match tokenisation over the regenerated token table. -/
theorem lex_spec (rules : List LexRule) (inp : List Char) (ts : List Token) (h : lex rules inp = some ts) :
    MaxMunch rules inp ts ∧ (ts.map (·.text)).flatten = inp := by
  have := lexGo_spec rules _ _ _ h
  exact ⟨this, this.concat⟩

end Gly
