import GlyModel.Front.Spec
namespace Gly

theorem flattenOnto_append (w : WalkCfg) (F G : GF) (p : Nat) (st : WState) :
    flattenOnto w (F.append G) p st = flattenOnto w G p (flattenOnto w F p st) := by
  induction F generalizing st with
  | nil => simp [GF.append, flattenOnto]
  | cons l n k r _ ihr => simp [GF.append, flattenOnto, ihr]

/-- The imperative id-threading walker equals the pre-order numbering of the compositional reading,
    in continuation form: for every forest `L` still to be hung on this branch's attachment point. -/
theorem walk_den (w : WalkCfg) (b : Branch) :
    ∀ (L : GF) (p : Nat) (st : WState),
      flattenOnto w (den b L) p st = flattenOnto w L (walk w b p st).1 (walk w b p st).2 := by
  induction b with
  | leaf d c => intro L p st; simp [den, flattenOnto, walk]
  | chain d c rest ih => intro L p st; simp [den, walk, ih, flattenOnto]
  | brack b ih =>
    intro L p st
    simp [den, walk, flattenOnto_append, ih, flattenOnto]
  | b1 d c s1 rest ih1 ihr =>
    intro L p st
    simp [den, walk, flattenOnto_append, ih1, ihr, flattenOnto]
  | b2 d c s1 s2 rest ih1 ih2 ihr =>
    intro L p st
    simp [den, walk, flattenOnto_append, ih1, ih2, ihr, flattenOnto]
  | b3 d c s1 s2 s3 rest ih1 ih2 ih3 ihr =>
    intro L p st
    simp [den, walk, flattenOnto_append, ih1, ih2, ih3, ihr, flattenOnto]

theorem walk_den_nil (w : WalkCfg) (b : Branch) (p : Nat) (st : WState) :
    flattenOnto w (den b .nil) p st = (walk w b p st).2 := by
  rw [walk_den]; simp [flattenOnto]

theorem walkStart_eq_denStart (w : WalkCfg) (s : Start) : walkStart w s = denStart w s := by
  unfold walkStart denStart walkBegin
  have h : ∀ (fl : List Branch) (st0 : WState),
      fl.foldl (fun st b => (walk w b st.nodes.length st).2) st0 =
      fl.foldl (fun st b => flattenOnto w (den b .nil) st.nodes.length st) st0 := by
    intro fl
    induction fl with
    | nil => intro st0; rfl
    | cons b bs ih => intro st0; simp [List.foldl, walk_den_nil, ih]
  rw [h]
  cases hb : s.begin.branch with
  | none => simp
  | some br => simp [walk_den_nil]

end Gly
