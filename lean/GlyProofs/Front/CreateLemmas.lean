import GlyModel.Mono.Factory
namespace Gly.Model
open Gly

theorem firstOfType_cons (x : List Char × Nat) (xs : Recipe) (ty : Nat) :
    firstOfType (x :: xs) ty = if x.2 == ty then some x.1 else firstOfType xs ty := by
  unfold firstOfType
  rw [List.find?_cons]
  cases h : (x.2 == ty) <;> simp

theorem firstOfType_append_none (a b : Recipe) (ty : Nat) (h : firstOfType a ty = none) :
    firstOfType (a ++ b) ty = firstOfType b ty := by
  induction a with
  | nil => rfl
  | cons x xs ih =>
    rw [List.cons_append, firstOfType_cons]
    rw [firstOfType_cons] at h
    cases hx : (x.2 == ty)
    · simp only [hx] at h ⊢; exact ih h
    · simp [hx] at h

theorem firstOfType_append_some (a b : Recipe) (ty : Nat) (v : List Char) (h : firstOfType a ty = some v) :
    firstOfType (a ++ b) ty = some v := by
  induction a with
  | nil => simp [firstOfType] at h
  | cons x xs ih =>
    rw [List.cons_append, firstOfType_cons]
    rw [firstOfType_cons] at h
    cases hx : (x.2 == ty)
    · simp only [hx] at h ⊢; exact ih h
    · simp only [hx] at h ⊢; exact h

theorem firstOfType_insert_other (a b : Recipe) (x : List Char) (ty ty' : Nat) (hne : ty' ≠ ty) :
    firstOfType (a ++ (x, ty') :: b) ty = firstOfType (a ++ b) ty := by
  induction a with
  | nil =>
    rw [List.nil_append, firstOfType_cons]
    have : ((x, ty').2 == ty) = false := by simp [hne]
    simp [this]
  | cons y ys ih =>
    rw [List.cons_append, List.cons_append, firstOfType_cons, firstOfType_cons, ih]

end Gly.Model
