import GlyProofs.Smiles.TreeLemmas
namespace Gly.Smi

theorem lookup_some_mem (l : Nat) (os : List (Nat × Nat)) (a : Nat) (h : lookupLabel l os = some a) : (l, a) ∈ os := by
  induction os with
  | nil => simp [lookupLabel] at h
  | cons o rest ih =>
    obtain ⟨l', a'⟩ := o
    simp only [lookupLabel] at h
    by_cases e : l' = l
    · simp [e] at h; subst e; subst h; simp
    · simp [e] at h; exact List.mem_cons_of_mem _ (ih h)

theorem erase_subset (l : Nat) (os : List (Nat × Nat)) (x : Nat × Nat) (h : x ∈ eraseLabel l os) : x ∈ os := by
  induction os with
  | nil => simp [eraseLabel] at h
  | cons o rest ih =>
    obtain ⟨l', a'⟩ := o
    simp only [eraseLabel] at h
    by_cases e : l' = l
    · simp [e] at h; exact List.mem_cons_of_mem _ h
    · simp [e] at h
      rcases h with h | h
      · simp [h]
      · exact List.mem_cons_of_mem _ (ih h)

/-- every ring label that is open after a run was open before or was written during the run -/
theorem step_opens (s s' : St) (t : Tok) (h : step s t = some s') :
    ∀ x ∈ s'.opens, x ∈ s.opens ∨ x.1 ∈ labelsOf [t] := by
  obtain ⟨sa, se, sp, ss, sq, so⟩ := s
  cases t with
  | atom a => simp only [step] at h; injection h with h; subst h; intro x hx; exact Or.inl hx
  | bond b => cases sp <;> cases sq <;> simp [step] at h; subst h; intro x hx; exact Or.inl hx
  | lpar => cases sp <;> cases sq <;> simp [step] at h; subst h; intro x hx; exact Or.inl hx
  | rpar => cases ss <;> cases sq <;> simp [step] at h; subst h; intro x hx; exact Or.inl hx
  | ring l =>
    cases sp with
    | none => simp [step] at h
    | some p =>
      simp only [step] at h
      cases hl : lookupLabel l so with
      | none =>
        simp only [hl] at h; injection h with h; subst h
        intro x hx
        simp only [List.mem_cons] at hx
        rcases hx with rfl | hx
        · right; simp [labelsOf]
        · exact Or.inl hx
      | some v =>
        simp only [hl] at h; injection h with h; subst h
        intro x hx
        exact Or.inl (erase_subset l so x hx)

theorem labelsOf_cons (t : Tok) (ts : List Tok) : labelsOf (t :: ts) = labelsOf [t] ++ labelsOf ts := by
  cases t <;> simp [labelsOf]

theorem run_opens (ts : List Tok) : ∀ (s s' : St), run s ts = some s' → ∀ x ∈ s'.opens, x ∈ s.opens ∨ x.1 ∈ labelsOf ts := by
  induction ts with
  | nil => intro s s' h x hx; simp [run] at h; subst h; exact Or.inl hx
  | cons t ts ih =>
    intro s s' h x hx
    simp only [run] at h
    cases hs : step s t with
    | none => simp [hs] at h
    | some s1 =>
      simp only [hs] at h
      rcases ih s1 s' h x hx with h1 | h1
      · rcases step_opens s s1 t hs x h1 with h2 | h2
        · exact Or.inl h2
        · right; rw [labelsOf_cons]; exact List.mem_append_left _ h2
      · right; rw [labelsOf_cons]; exact List.mem_append_right _ h1

/-- **Label windows**: if every ring label written before the splice point is at most `B` and every label of the block to be
    spliced in is above `B`, none of the block's labels is open at the splice point – the label condition of `wfTree` follows from
    the arithmetic of the ring offsets (a child's labels start above all labels of its parent). -/
theorem labels_free_of_window (pre : List Tok) (S : St) (B : Nat) (labels : List Nat)
    (hrun : run St.init pre = some S) (hpre : ∀ l ∈ labelsOf pre, l ≤ B) (hblk : ∀ l ∈ labels, B < l) :
    labels.all (fun l => (lookupLabel l S.opens).isNone) = true := by
  rw [List.all_eq_true]
  intro l hl
  cases hlk : lookupLabel l S.opens with
  | none => rfl
  | some a =>
    have hm := lookup_some_mem l S.opens a hlk
    rcases run_opens pre St.init S hrun (l, a) hm with h | h
    · simp [St.init] at h
    · have := hpre l h
      have := hblk l hl
      omega

end Gly.Smi
