import GlyProofs.Smiles.TreeTheorem
/-
  Mass balance over the whole tree: atoms (token level, every way of counting) and ring closures (Spec level).
-/
namespace Gly.Smi

/-! ### what a glycan gains and loses, residue by residue -/

mutual
/-- all atoms of all residue strings, plus one `N` per N-linkage -/
def gained : TNode → List Atom
  | .mk toks kids => atomsOf toks ++ gainedKids kids
def gainedKids : List (Atom × Bool × TNode) → List Atom
  | [] => []
  | (_, nl, k) :: rest => (if nl then [['N']] else []) ++ gained k ++ gainedKids rest
end

mutual
/-- one marker atom per linkage (it stands for the parent's linking O or N), plus the anomeric O of every N-linked child -/
def lost : TNode → List Atom
  | .mk _ kids => lostKids kids
def lostKids : List (Atom × Bool × TNode) → List Atom
  | [] => []
  | (m, nl, k) :: rest => m :: ((if nl then (atomsOf (mergeTok k)).take 1 else []) ++ lost k ++ lostKids rest)
end

theorem atomsOf_blockOf (nl : Bool) (child : List Tok) (hs : startsWithAtom child = true) (P : Atom → Bool) :
    (atomsOf (blockOf nl child)).countP P + (if nl then (atomsOf child).take 1 else []).countP P =
      (atomsOf child).countP P + (if nl then [['N']] else []).countP P := by
  cases nl with
  | false => simp [blockOf]
  | true =>
    cases child with
    | nil => simp [startsWithAtom] at hs
    | cons t rest =>
      cases t <;> simp [startsWithAtom] at hs
      simp only [blockOf, if_true, List.drop_one, List.tail_cons, atomsOf, atomsOf_append, List.take_succ_cons, List.take_zero]
      simp [List.countP_cons, List.countP_append, atomsOf]
      omega

/-- one splice: the marker atom goes, the block's atoms come -/
theorem splice_atoms (ts : List Tok) (m : Atom) (L : List Nat) (b : List Tok) (hs : Slot ts m L) (P : Atom → Bool) :
    (atomsOf (substTok m b ts)).countP P + [m].countP P = (atomsOf ts).countP P + (atomsOf b).countP P := by
  obtain ⟨pre, post, S, p, hts, hm1, hm2, _, _, _, _⟩ := hs
  rw [hts, substTok_split m b pre post hm1 hm2]
  simp only [atomsOf_append, atomsOf, List.countP_append]
  omega

/-- the loop over the children, counting atoms -/
theorem loop_atoms (items : List (Atom × List Tok × Mol)) (P : Atom → Bool) :
    ∀ (ts : List Tok),
    (∀ it ∈ items, Slot ts it.1 (labelsOf it.2.1)) →
    (items.map (·.1)).Pairwise (· ≠ ·) →
    (∀ it ∈ items, ∀ it' ∈ items, Tok.atom it'.1 ∉ it.2.1) →
    (∀ it ∈ items, BlockOK it.2.1 it.2.2) →
    (atomsOf (substAll (items.map fun it => (it.1, it.2.1)) ts)).countP P + (items.map (·.1)).countP P =
      (atomsOf ts).countP P + ((items.map fun it => (atomsOf it.2.1).countP P).sum) := by
  induction items with
  | nil => intro ts _ _ _ _; simp [substAll]
  | cons it rest ih =>
    obtain ⟨m, b, C⟩ := it
    intro ts hslots hpw hfree hblocks
    have hslot := hslots (m, b, C) (by simp)
    have hblk := hblocks (m, b, C) (by simp)
    simp only [List.map_cons, List.pairwise_cons] at hpw
    obtain ⟨hne, hpw'⟩ := hpw
    have h1 := splice_atoms ts m _ b hslot P
    have h2 := ih (substTok m b ts)
      (by
        intro it' hit'
        have hne' : it'.1 ≠ m := fun e => hne it'.1 (List.mem_map.mpr ⟨it', hit', rfl⟩) e.symm
        exact slot_preserved ts it'.1 m _ b C hne' (hslots it' (by simp [hit'])) hslot hblk
          (hfree (m, b, C) (by simp) it' (by simp [hit'])))
      hpw'
      (fun it' hit' it'' hit'' => hfree it' (by simp [hit']) it'' (by simp [hit'']))
      (fun it' hit' => hblocks it' (by simp [hit']))
    simp only [List.map_cons, substAll, List.sum_cons, List.countP_cons] at h1 h2 ⊢
    simp only [List.countP_cons, List.countP_nil] at h1
    omega

theorem sum_blocks (items : List (Atom × List Tok × Mol)) (P : Atom → Bool) :
    (items.map fun it => (atomsOf it.2.1).countP P).sum =
      ((items.map fun it => (it.1, it.2.1)).map fun x => (atomsOf x.2).countP P).sum := by
  simp [List.map_map, Function.comp_def]

/-- **Atom balance of the whole glycan**, for every way `P` of counting atoms: the atoms of the assembled molecule plus what
    the linkages removed (`lost`) are the atoms of all residues (`gained`). -/
def BalOK (t : TNode) : Prop :=
  ∀ P : Atom → Bool, (atomsOf (mergeTok t)).countP P + (lost t).countP P = (gained t).countP P

mutual
theorem tree_balance (isMk : Atom → Bool) (hN : isMk ['N'] = false) : (t : TNode) → wfTree isMk t = true → BalOK t
  | .mk toks kids, h => by
    have hwf := h
    simp only [wfTree, Bool.and_eq_true] at h
    obtain ⟨⟨⟨⟨hsem, hst⟩, hnd⟩, hall⟩, hk⟩ := h
    obtain ⟨items, hmerge, _, hmarks, hslots, hismk, hfree, hblocks⟩ := kids_ok isMk hN kids toks hk
    have hpw : (items.map (·.1)).Pairwise (· ≠ ·) := by rw [hmarks]; exact nodupB_pairwise _ hnd
    intro P
    have hl := loop_atoms items P toks hslots hpw
      (fun it hit it' hit' => hfree it hit it'.1 (hismk it' hit')) hblocks
    have hk2 := kids_balance isMk hN kids toks hk P
    rw [sum_blocks, hmerge, hmarks] at hl
    simp only [mergeTok, lost, gained, List.countP_append]
    rw [mergeKidsTok_eq]
    omega
theorem kids_balance (isMk : Atom → Bool) (hN : isMk ['N'] = false) :
    (kids : List (Atom × Bool × TNode)) → (toks : List Tok) → wfKids isMk kids toks = true →
      ∀ P : Atom → Bool,
        ((kidBlocks kids).map fun x => (atomsOf x.2).countP P).sum + (lostKids kids).countP P =
          (gainedKids kids).countP P + (markersOf kids).countP P
  | [], toks, _ => by intro P; simp [kidBlocks, lostKids, gainedKids, markersOf]
  | (m, nl, k) :: rest, toks, h => by
    intro P
    simp only [wfKids, Bool.and_eq_true] at h
    obtain ⟨⟨⟨hm, hslot⟩, hk⟩, hrest⟩ := h
    obtain ⟨C, _, _, hstk, _⟩ := tree_ok isMk hN k hk
    have h1 := tree_balance isMk hN k hk P
    have h2 := kids_balance isMk hN rest toks hrest P
    have h3 := atomsOf_blockOf nl (mergeTok k) hstk P
    simp only [kidBlocks, List.map_cons, List.sum_cons, lostKids, gainedKids, markersOf, List.countP_cons, List.countP_append]
    omega
end

/-! ### ring closures and bonds (Spec level: no well-formedness needed) -/

def ringOpens (es : List Ev) : Nat := es.countP (fun e => match e with | .ropen _ _ _ => true | _ => false)

theorem ringOpens_map (f : Nat → Nat) (es : List Ev) : ringOpens (es.map (Ev.map f)) = ringOpens es := by
  induction es with
  | nil => rfl
  | cons e es ih =>
    cases e <;> simp [ringOpens, Ev.map, List.countP_cons] at ih ⊢ <;> omega

theorem ringOpens_append (a b : List Ev) : ringOpens (a ++ b) = ringOpens a + ringOpens b := by
  simp [ringOpens, List.countP_append]

theorem graft_rings (P C : Mol) (i : Nat) : ringOpens (P.graft i C).evs = ringOpens P.evs + ringOpens C.evs := by
  simp only [Mol.graft, ringOpens_append, ringOpens_map]
  have := congrArg ringOpens (List.take_append_drop (P.evs.findIdx (isBondTo i) + 1) P.evs)
  rw [ringOpens_append] at this
  omega

theorem graft_bonds (P C : Mol) (i : Nat) : (P.graft i C).evs.length = P.evs.length + C.evs.length := by
  simp only [Mol.graft, List.length_append, List.length_map, List.length_take, List.length_drop]
  omega

mutual
/-- number of ring closures / of bond events the residues have, one by one -/
def treeRings : TNode → Nat
  | .mk toks kids => (match sem toks with | some M => ringOpens M.evs | none => 0) + kidsRings kids
def kidsRings : List (Atom × Bool × TNode) → Nat
  | [] => 0
  | (_, _, k) :: rest => treeRings k + kidsRings rest
end

mutual
def treeBonds : TNode → Nat
  | .mk toks kids => (match sem toks with | some M => M.evs.length | none => 0) + kidsBonds kids
def kidsBonds : List (Atom × Bool × TNode) → Nat
  | [] => 0
  | (_, _, k) :: rest => treeBonds k + kidsBonds rest
end

mutual
theorem spec_rings : (t : TNode) → (M : Mol) → specTree t = some M →
    ringOpens M.evs = treeRings t ∧ M.evs.length = treeBonds t
  | .mk toks kids, M, h => by
    simp only [specTree] at h
    cases hs : sem toks with
    | none => simp [hs] at h
    | some P =>
      simp only [hs, Option.bind_some] at h
      have := kids_rings kids P M h
      simp only [treeRings, treeBonds, hs]; omega
theorem kids_rings : (kids : List (Atom × Bool × TNode)) → (P M : Mol) → specKids kids P = some M →
    ringOpens M.evs = ringOpens P.evs + kidsRings kids ∧ M.evs.length = P.evs.length + kidsBonds kids
  | [], P, M, h => by simp [specKids] at h; subst h; simp [kidsRings, kidsBonds]
  | (m, nl, k) :: rest, P, M, h => by
    simp only [specKids] at h
    cases hk : specTree k with
    | none => simp [hk] at h
    | some C =>
      simp only [hk, Option.bind_some] at h
      have h1 := spec_rings k C hk
      have h2 := kids_rings rest _ M h
      have h3 := graft_rings P (if nl then nCap C else C) (P.atoms.idxOf m)
      have h4 := graft_bonds P (if nl then nCap C else C) (P.atoms.idxOf m)
      have h5 : (if nl then nCap C else C).evs = C.evs := by cases nl <;> simp [nCap]
      rw [h5] at h3 h4
      simp only [kidsRings, kidsBonds]; omega
end

end Gly.Smi
