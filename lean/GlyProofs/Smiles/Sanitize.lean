import GlyProofs.Smiles.TreeLemmas
/-
  `sanitize_smiles` (utils.py) rewrites the assembled string with two rules. At token level:
    `))` rule:  `( T ))`  ↦  `T )`      – a branch that ends a branch is written without its own parentheses;
    `((` rule:  `(( T ) U`  ↦  `( T U`  – a branch that starts a branch loses its parentheses.
  The first is sound for every string (theorem below). The second is not (counterexample below); RDKit rejects a branch that
  starts with a branch, the assembly never produces one (a child block starts with an atom), and the driver counts occurrences.
-/
namespace Gly.Smi

/-- **The `))` rule is sound**: if the inner branch `T` is balanced on its own (run with an empty branch stack it ends with an
    empty stack and nothing pending), then from every state `( T ))` and `T )` lead to the same state – same atoms, same bond
    events in the same order, same open ring labels. -/
theorem inline_last_branch (s s1 : St) (T : List Tok) (a : Nat) (hp : s.prev = some a) (hpe : s.pend = none)
    (hT : run { s with stack := [] } T = some s1) (hs : s1.stack = []) (hq : s1.pend = none) :
    run s (Tok.lpar :: (T ++ [Tok.rpar, Tok.rpar])) = run s (T ++ [Tok.rpar]) := by
  have h1 := run_stackFrame T { s with stack := [] } s1 (a :: s.stack) hT
  have h2 := run_stackFrame T { s with stack := [] } s1 s.stack hT
  simp only [List.nil_append, hs] at h1 h2
  have e2 : ({ s with stack := s.stack } : St) = s := rfl
  rw [e2] at h2
  have hl : step s Tok.lpar = some { s with stack := a :: s.stack } := by simp [step, hp, hpe]
  simp only [run, hl]
  rw [run_append, h1, run_append, h2]
  simp only [run, step, hq]
  cases hst : s.stack with
  | nil => simp
  | cons o rest => simp

/-- … hence inside any string: the molecule denoted does not change. -/
theorem sanitize_rr_sound (pre post T : List Tok) (s s1 : St) (a : Nat) (hpre : run St.init pre = some s)
    (hp : s.prev = some a) (hpe : s.pend = none)
    (hT : run { s with stack := [] } T = some s1) (hs : s1.stack = []) (hq : s1.pend = none) :
    sem (pre ++ (Tok.lpar :: (T ++ [Tok.rpar, Tok.rpar])) ++ post) = sem (pre ++ (T ++ [Tok.rpar]) ++ post) := by
  unfold sem
  rw [run_append, run_append, hpre, run_append, run_append, hpre]
  simp only [Option.bind_some, inline_last_branch s s1 T a hp hpe hT hs hq]

/-- **The `((` rule is not sound** in the token semantics: `C((C)O)N` – carbon with the two branches `C` and `O` – becomes
    `C(CO)N`, an ethanol chain. (RDKit refuses to parse the left-hand side.) -/
theorem sanitize_ll_counterexample :
    let c := Tok.atom ['C']; let o := Tok.atom ['O']; let n := Tok.atom ['N']
    sem [c, .lpar, .lpar, c, .rpar, o, .rpar, n] ≠ sem [c, .lpar, c, o, .rpar, n] := by
  decide

end Gly.Smi
