import GlyModel.Smiles.Tokenize
import GlyProofs.Smiles.Graft
namespace Gly.Smi
open Gly.Asm

theorem splitAtMarker_spec (sym : List Char) (ts pre post : List Tok) (a : Atom)
    (h : splitAtMarker sym ts = some (pre, a, post)) : ts = pre ++ [Tok.atom a] ++ post := by
  unfold splitAtMarker at h
  split at h
  · rename_i i hi
    have hmem : i ∈ markerIdxs sym ts := by rw [hi]; simp
    have hlt : i < ts.length := by
      have := (List.mem_filter.mp hmem).1
      simpa using this
    split at h
    · rename_i a' ha
      simp only [Option.some.injEq, Prod.mk.injEq] at h
      obtain ⟨hpre, ha', hpost⟩ := h
      subst hpre ha' hpost
      have hg : ts[i] = Tok.atom a' := by
        have : ts.getD i .lpar = ts[i] := by simp [List.getD, hlt]
        rw [← this]; exact ha
      have := List.take_append_drop i ts
      conv => lhs; rw [← this]
      rw [List.drop_eq_getElem_cons hlt, hg]
      simp
    · simp at h
  · simp at h

/-- **Certified splice.** Whenever the decidable certificate accepts a character-level splice (`me` with marker `sym`
    replaced by `block`, giving `result`), the graft theorem applies: the result is a SMILES whenever `me` is, its atoms
    are those of `me` with the marker atom replaced by the atoms of the block, and its bond events are those of `me` and of
    the block, renumbered – nothing else. -/
theorem certifySplice_sound (sym me block result : List Char) (h : certifySplice sym me block result = true) :
    ∃ pre post C' M c0 S c p,
      tokenize me = some (pre ++ [Tok.atom M] ++ post) ∧
      tokenize block = some (Tok.atom c0 :: C') ∧
      tokenize result = some (pre ++ (Tok.atom c0 :: C') ++ post) ∧
      run St.init pre = some S ∧ S.prev = some p ∧ run St.init (Tok.atom c0 :: C') = some c ∧
      ∀ A, run St.init (pre ++ [Tok.atom M] ++ post) = some A →
        ∃ B as es, run St.init (pre ++ (Tok.atom c0 :: C') ++ post) = some B ∧
          A.atoms = S.atoms ++ [M] ++ as ∧
          A.evs = S.evs ++ [Ev.bond p S.atoms.length S.pend] ++ es ∧
          B.atoms = S.atoms ++ c.atoms ++ as ∧
          B.evs = S.evs ++ [Ev.bond p S.atoms.length S.pend] ++ c.evs.map (Ev.map (· + S.atoms.length)) ++
                    es.map (Ev.map (ren S.atoms.length (c.atoms.length - 1))) ∧
          B.stack = A.stack.map (ren S.atoms.length (c.atoms.length - 1)) ∧
          B.opens = A.opens.map (shiftO (ren S.atoms.length (c.atoms.length - 1))) ∧
          B.pend = A.pend := by
  unfold certifySplice at h
  split at h
  · rename_i tme c0 C' tres hme hblock hres
    split at h
    · rename_i pre M post hsplit
      split at h
      · rename_i S c hS hc
        simp only [Bool.and_eq_true] at h
        obtain ⟨⟨⟨⟨⟨⟨hprev, hleaf⟩, hcs⟩, hco⟩, hcp⟩, hlab⟩, hreseq⟩ := h
        obtain ⟨p, hp⟩ := Option.isSome_iff_exists.mp hprev
        have hts := splitAtMarker_spec sym tme pre post M hsplit
        have hreseq' : tres = pre ++ (Tok.atom c0 :: C') ++ post := by simpa using hreseq
        refine ⟨pre, post, C', M, c0, S, c, p, by rw [hme, hts], hblock, by rw [hres, hreseq'], hS, hp, hc, ?_⟩
        intro A hA
        have hleaf' : post = [] ∨ ∃ post', post = Tok.rpar :: post' := by
          cases post with
          | nil => exact Or.inl rfl
          | cons t ts =>
            cases t <;> simp at hleaf
            exact Or.inr ⟨ts, rfl⟩
        have hclosed : c.stack = [] ∧ c.opens = [] ∧ c.pend = none := by
          refine ⟨by simpa using hcs, by simpa using hco, by simpa using hcp⟩
        have hlab' : ∀ l ∈ labelsOf C', lookupLabel l S.opens = none := by
          intro l hl
          have := List.all_eq_true.mp hlab l hl
          simpa using this
        exact graft pre post C' M c0 S A c p hS hp hA hleaf' hc hclosed hlab'
      · simp at h
    · simp at h
  · simp at h

end Gly.Smi
