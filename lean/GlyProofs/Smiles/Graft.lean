import GlyProofs.Smiles.Frame
import GlyModel.Smiles.Tree
namespace Gly.Smi

/-! ### Well-formedness of reachable states: every stored index points at an existing atom -/

def WF (s : St) : Prop :=
  (∀ i, s.prev = some i → i < s.atoms.length) ∧ (∀ i ∈ s.stack, i < s.atoms.length) ∧
  (∀ o ∈ s.opens, o.2 < s.atoms.length)

theorem WF_init : WF St.init := by simp [WF, St.init]

theorem mem_eraseLabel {l : Nat} {os : List (Nat × Nat)} {o : Nat × Nat} (h : o ∈ eraseLabel l os) : o ∈ os := by
  induction os with
  | nil => simp [eraseLabel] at h
  | cons x rest ih =>
    obtain ⟨l', a⟩ := x
    simp only [eraseLabel] at h
    by_cases hl : l' = l
    · simp [hl] at h; exact List.mem_cons_of_mem _ h
    · simp only [hl, if_false] at h
      rcases List.mem_cons.mp h with h | h
      · exact h ▸ List.mem_cons_self
      · exact List.mem_cons_of_mem _ (ih h)

theorem step_WF (s s' : St) (t : Tok) (hw : WF s) (h : step s t = some s') : WF s' := by
  obtain ⟨sa, se, sp, ss, sq, so⟩ := s
  obtain ⟨h1, h2, h3⟩ := hw
  simp only at h1 h2 h3
  cases t with
  | atom a =>
    simp only [step] at h; injection h with h; subst h
    refine ⟨?_, ?_, ?_⟩
    · intro i hi; simp at hi; subst hi; simp
    · intro i hi; have := h2 i hi; simp; omega
    · intro o ho; have := h3 o ho; simp; omega
  | bond b =>
    cases sp <;> cases sq <;> simp [step] at h
    subst h; exact ⟨h1, h2, h3⟩
  | lpar =>
    cases sp <;> cases sq <;> simp [step] at h
    rename_i p
    subst h
    refine ⟨h1, ?_, h3⟩
    intro i hi
    rcases List.mem_cons.mp hi with rfl | hi
    · exact h1 _ rfl
    · exact h2 i hi
  | rpar =>
    cases ss <;> cases sq <;> simp [step] at h
    rename_i q rest
    subst h
    refine ⟨?_, ?_, h3⟩
    · intro i hi; simp at hi; subst hi; exact h2 _ (by simp)
    · intro i hi; exact h2 i (by simp [hi])
  | ring l =>
    cases sp with
    | none => simp [step] at h
    | some p =>
      simp only [step] at h
      cases hl : lookupLabel l so with
      | some x =>
        simp only [hl] at h; injection h with h; subst h
        exact ⟨h1, h2, fun o ho => h3 o (mem_eraseLabel ho)⟩
      | none =>
        simp only [hl] at h; injection h with h; subst h
        refine ⟨h1, h2, ?_⟩
        intro o ho
        rcases List.mem_cons.mp ho with rfl | ho
        · exact h1 _ rfl
        · exact h3 o ho

theorem run_WF (s s' : St) (ts : List Tok) (hw : WF s) (h : run s ts = some s') : WF s' := by
  induction ts generalizing s with
  | nil => simp [run] at h; subst h; exact hw
  | cons t ts ih =>
    simp only [run] at h
    cases hs : step s t with
    | none => simp [hs] at h
    | some s1 => simp only [hs] at h; exact ih s1 (step_WF s s1 t hw hs) h

/-! ### Simulation of the continuation under the index renaming -/

-- `ren N d` (indices below `N` stay, indices from `N` on move up by `d`) is defined with the Spec in `GlyModel.Smiles.Tree`

/-- `Y` is `X` seen through the renaming (for the part of the state a continuation can look at). -/
def Sim (N d : Nat) (X Y : St) : Prop :=
  Y.prev = X.prev.map (ren N d) ∧ Y.stack = X.stack.map (ren N d) ∧
  Y.opens = X.opens.map (shiftO (ren N d)) ∧ Y.pend = X.pend ∧
  N ≤ X.atoms.length ∧ Y.atoms.length = X.atoms.length + d

theorem step_sim (N d : Nat) (X Y X' : St) (t : Tok) (hs : Sim N d X Y) (h : step X t = some X') :
    ∃ Y' as es, step Y t = some Y' ∧ Sim N d X' Y' ∧
      X'.atoms = X.atoms ++ as ∧ X'.evs = X.evs ++ es ∧
      Y'.atoms = Y.atoms ++ as ∧ Y'.evs = Y.evs ++ es.map (Ev.map (ren N d)) := by
  obtain ⟨xa, xe, xp, xs, xq0, xo⟩ := X
  obtain ⟨ya, ye, yp, ys, yq, yo⟩ := Y
  obtain ⟨hp, hst, ho, hpe, hN, hlen⟩ := hs
  simp only at hp hst ho hpe hN hlen
  subst hp hst ho hpe
  have hr : ren N d xa.length = ya.length := by simp only [ren]; rw [if_neg (by omega)]; omega
  cases t with
  | atom a =>
    simp only [step] at h; injection h with h; subst h
    refine ⟨_, [a], (match xp with | some p => [Ev.bond p xa.length yq] | none => []), rfl, ?_, rfl, rfl, rfl, ?_⟩
    · exact ⟨by simp [hr], rfl, rfl, rfl, by simp; omega, by simp; omega⟩
    · cases xp with
      | none => simp
      | some p => simp [Ev.map, hr]
  | bond b =>
    cases xp <;> cases yq <;> simp [step] at h
    rename_i p
    subst h
    exact ⟨⟨ya, ye, some (ren N d p), xs.map (ren N d), some b, xo.map (shiftO (ren N d))⟩, [], [], by simp [step],
      ⟨rfl, rfl, rfl, rfl, hN, hlen⟩, by simp, by simp, by simp, by simp⟩
  | lpar =>
    cases xp <;> cases yq <;> simp [step] at h
    rename_i p
    subst h
    exact ⟨⟨ya, ye, some (ren N d p), ren N d p :: xs.map (ren N d), none, xo.map (shiftO (ren N d))⟩, [], [], by simp [step],
      ⟨rfl, by simp, rfl, rfl, hN, hlen⟩, by simp, by simp, by simp, by simp⟩
  | rpar =>
    cases xs <;> cases yq <;> simp [step] at h
    rename_i q rest
    subst h
    exact ⟨⟨ya, ye, some (ren N d q), rest.map (ren N d), none, xo.map (shiftO (ren N d))⟩, [], [], by simp [step],
      ⟨by simp, rfl, rfl, rfl, hN, hlen⟩, by simp, by simp, by simp, by simp⟩
  | ring l =>
    cases xp with
    | none => simp [step] at h
    | some p =>
      simp only [step] at h
      cases hl : lookupLabel l xo with
      | some x =>
        simp only [hl] at h; injection h with h; subst h
        refine ⟨⟨ya, ye ++ [Ev.rclose (ren N d p) (ren N d x) l yq], some (ren N d p), xs.map (ren N d), none, (eraseLabel l xo).map (shiftO (ren N d))⟩,
          [], [Ev.rclose p x l yq], by simp [step, lookupLabel_map, hl, eraseLabel_map], ?_, by simp, by simp, by simp, by simp [Ev.map]⟩
        exact ⟨rfl, rfl, rfl, rfl, hN, hlen⟩
      | none =>
        simp only [hl] at h; injection h with h; subst h
        refine ⟨⟨ya, ye ++ [Ev.ropen (ren N d p) l yq], some (ren N d p), xs.map (ren N d), none, ((l, p) :: xo).map (shiftO (ren N d))⟩,
          [], [Ev.ropen p l yq], by simp [step, lookupLabel_map, hl, shiftO], ?_, by simp, by simp, by simp, by simp [Ev.map]⟩
        exact ⟨rfl, rfl, rfl, rfl, hN, hlen⟩

theorem run_sim (N d : Nat) (ts : List Tok) (X Y X' : St) (hs : Sim N d X Y) (h : run X ts = some X') :
    ∃ Y' as es, run Y ts = some Y' ∧ Sim N d X' Y' ∧
      X'.atoms = X.atoms ++ as ∧ X'.evs = X.evs ++ es ∧
      Y'.atoms = Y.atoms ++ as ∧ Y'.evs = Y.evs ++ es.map (Ev.map (ren N d)) := by
  induction ts generalizing X Y with
  | nil =>
    simp [run] at h; subst h
    exact ⟨Y, [], [], rfl, hs, by simp, by simp, by simp, by simp⟩
  | cons t ts ih =>
    simp only [run] at h
    cases hx : step X t with
    | none => simp [hx] at h
    | some X1 =>
      simp only [hx] at h
      obtain ⟨Y1, as1, es1, hy1, hs1, ea1, ee1, fa1, fe1⟩ := step_sim N d X Y X1 t hs hx
      obtain ⟨Y2, as2, es2, hy2, hs2, ea2, ee2, fa2, fe2⟩ := ih X1 Y1 hs1 h
      refine ⟨Y2, as1 ++ as2, es1 ++ es2, ?_, hs2, ?_, ?_, ?_, ?_⟩
      · simp [run, hy1, hy2]
      · rw [ea2, ea1, List.append_assoc]
      · rw [ee2, ee1, List.append_assoc]
      · rw [fa2, fa1, List.append_assoc]
      · rw [fe2, fe1, List.map_append, List.append_assoc]

end Gly.Smi

namespace Gly.Smi

theorem map_ren_of_lt (N d : Nat) (l : List Nat) (h : ∀ i ∈ l, i < N) : l.map (ren N d) = l := by
  induction l with
  | nil => rfl
  | cons x xs ih =>
    have hx : x < N := h x (by simp)
    simp only [List.map_cons, ren, hx, if_true]
    rw [ih (fun i hi => h i (by simp [hi]))]

theorem map_shiftO_ren_of_lt (N d : Nat) (l : List (Nat × Nat)) (h : ∀ o ∈ l, o.2 < N) : l.map (shiftO (ren N d)) = l := by
  induction l with
  | nil => rfl
  | cons x xs ih =>
    have hx : x.2 < N := h x (by simp)
    simp only [List.map_cons, shiftO, ren, hx, if_true]
    rw [ih (fun o ho => h o (by simp [ho]))]

/-- **Graft lemma.** Let `pre ++ [M] ++ post` be a SMILES in which the atom token `M` is a leaf (what follows it is the end
    of the string or a closing parenthesis), and let `C` be a closed block – it starts with an atom, runs on its own to a
    state with no open branch, no open ring label and no pending bond – whose ring labels are not open at that point.
    Then `pre ++ C ++ post` is a SMILES too and denotes the graft: the atoms of `pre`, then the atoms of `C`, then the atoms
    of `post`; the bond events of `pre`, the bond from `M`'s parent to the first atom of `C`, the events of `C` shifted by
    the number of atoms before it, and the events of `post` with every index ≥ N moved up by `|C| - 1`. Every event – hence
    every ordered neighbour list and every stereo mark – of both parts is carried over as written. -/
theorem graft (pre post C' : List Tok) (M c0 : Atom) (S A c : St) (p : Nat)
    (hpre : run St.init pre = some S) (hp : S.prev = some p)
    (hA : run St.init (pre ++ [Tok.atom M] ++ post) = some A)
    (hleaf : post = [] ∨ ∃ post', post = Tok.rpar :: post')
    (hc : run St.init (Tok.atom c0 :: C') = some c) (hclosed : c.stack = [] ∧ c.opens = [] ∧ c.pend = none)
    (hlab : ∀ l ∈ labelsOf C', lookupLabel l S.opens = none) :
    ∃ B as es,
      run St.init (pre ++ (Tok.atom c0 :: C') ++ post) = some B ∧
      A.atoms = S.atoms ++ [M] ++ as ∧
      A.evs = S.evs ++ [Ev.bond p S.atoms.length S.pend] ++ es ∧
      B.atoms = S.atoms ++ c.atoms ++ as ∧
      B.evs = S.evs ++ [Ev.bond p S.atoms.length S.pend] ++ c.evs.map (Ev.map (· + S.atoms.length)) ++
                es.map (Ev.map (ren S.atoms.length (c.atoms.length - 1))) ∧
      B.stack = A.stack.map (ren S.atoms.length (c.atoms.length - 1)) ∧
      B.opens = A.opens.map (shiftO (ren S.atoms.length (c.atoms.length - 1))) ∧
      B.pend = A.pend := by
  have hwS : WF S := run_WF _ _ _ WF_init hpre
  obtain ⟨w1, w2, w3⟩ := hwS
  -- the block, run on its own: first atom, then the rest
  simp only [run, step, St.init] at hc
  -- state after the first atom of the block, from the empty state
  let s0 : St := ⟨[c0], [], some 0, [], none, []⟩
  have hc' : run s0 C' = some c := by simpa [s0] using hc
  -- from S, the first atom of the block gives `embed S p S.pend s0`
  have hstep0 : step S (Tok.atom c0) = some (embed S p S.pend s0) := by
    obtain ⟨sa, se, sp, ss, sq, so⟩ := S
    simp only at hp; subst hp
    simp [step, embed, s0]
  have hblock : run S (Tok.atom c0 :: C') = some (embed S p S.pend c) := by
    simp only [run, hstep0]
    exact run_embed S p S.pend C' s0 c (by simp [s0]) hlab hc'
  -- the marker, from S
  have hstepM : step S (Tok.atom M) = some (embed S p S.pend ⟨[M], [], some 0, [], none, []⟩) := by
    obtain ⟨sa, se, sp, ss, sq, so⟩ := S
    simp only at hp; subst hp
    simp [step, embed]
  -- lengths: the block has at least one atom
  have hclen : 1 ≤ c.atoms.length := by
    have : ∀ (ts : List Tok) (x y : St), run x ts = some y → x.atoms.length ≤ y.atoms.length := by
      intro ts
      induction ts with
      | nil => intro x y h; simp [run] at h; subst h; exact Nat.le_refl _
      | cons t ts ih =>
        intro x y h
        simp only [run] at h
        cases hs : step x t with
        | none => simp [hs] at h
        | some x1 =>
          simp only [hs] at h
          have h1 : x.atoms.length ≤ x1.atoms.length := by
            obtain ⟨xa, xe, xp, xs, xq, xo⟩ := x
            cases t with
            | atom a => simp [step] at hs; subst hs; simp
            | bond b => cases xp <;> cases xq <;> simp [step] at hs; subst hs; simp
            | lpar => cases xp <;> cases xq <;> simp [step] at hs; subst hs; simp
            | rpar => cases xs <;> cases xq <;> simp [step] at hs; subst hs; simp
            | ring l =>
              cases xp with
              | none => simp [step] at hs
              | some q =>
                simp only [step] at hs
                cases hl : lookupLabel l xo with
                | none => simp only [hl] at hs; injection hs with hs; subst hs; exact Nat.le_refl _
                | some v => simp only [hl] at hs; injection hs with hs; subst hs; exact Nat.le_refl _
          exact Nat.le_trans h1 (ih x1 y h)
    have := this C' s0 c hc'
    simpa [s0] using this
  obtain ⟨hcs, hco, hcp⟩ := hclosed
  -- split the A-run at the marker
  rw [List.append_assoc, run_append, hpre] at hA
  simp only [Option.bind_some, List.cons_append, List.nil_append, run, hstepM] at hA
  rw [List.append_assoc, run_append, hpre]
  simp only [Option.bind_some]
  rw [run_append, hblock]
  simp only [Option.bind_some]
  rcases hleaf with rfl | ⟨post', rfl⟩
  · -- nothing follows
    simp only [run] at hA ⊢
    injection hA with hA; subst hA
    refine ⟨_, [], [], rfl, by simp [embed], by simp [embed], by simp [embed], by simp [embed, Ev.map], ?_, ?_, by simp [embed, hcp]⟩
    · simp [embed, hcs, map_ren_of_lt _ _ _ w2]
    · simp [embed, hco, map_shiftO_ren_of_lt _ _ _ w3]
  · -- a closing parenthesis follows: both runs take their current atom from S's stack
    simp only [run] at hA ⊢
    cases hst : S.stack with
    | nil =>
      exfalso
      simp [step, embed, hst] at hA
    | cons q rest =>
      have hq : q < S.atoms.length := w2 q (by rw [hst]; simp)
      have hrest : ∀ i ∈ rest, i < S.atoms.length := fun i hi => w2 i (by rw [hst]; simp [hi])
      -- state of the A-run / B-run after the parenthesis
      let XA : St := ⟨S.atoms ++ [M], S.evs ++ [Ev.bond p S.atoms.length S.pend], some q, rest, none, S.opens⟩
      let YB : St := ⟨S.atoms ++ c.atoms, S.evs ++ [Ev.bond p S.atoms.length S.pend] ++ c.evs.map (Ev.map (· + S.atoms.length)),
                      some q, rest, none, S.opens⟩
      have hXA : step (embed S p S.pend ⟨[M], [], some 0, [], none, []⟩) Tok.rpar = some XA := by
        simp [step, embed, hst, XA]
      have hYB : step (embed S p S.pend c) Tok.rpar = some YB := by
        simp [step, embed, hst, hcs, hco, hcp, YB]
      rw [hXA] at hA
      rw [hYB]
      simp only at hA ⊢
      have hsim : Sim S.atoms.length (c.atoms.length - 1) XA YB := by
        refine ⟨?_, ?_, ?_, rfl, by simp [XA], by simp [XA, YB]; omega⟩
        · simp [XA, YB, ren, hq]
        · simp [XA, YB, map_ren_of_lt _ _ _ hrest]
        · simp [XA, YB, map_shiftO_ren_of_lt _ _ _ w3]
      obtain ⟨B, as, es, hB, hsB, ea, ee, fa, fe⟩ := run_sim _ _ post' XA YB A hsim hA
      obtain ⟨sp', sst, sop, spe, _, _⟩ := hsB
      refine ⟨B, as, es, hB, ?_, ?_, ?_, ?_, sst, sop, spe⟩
      · simpa [XA] using ea
      · simpa [XA] using ee
      · simpa [YB] using fa
      · simpa [YB] using fe

end Gly.Smi
