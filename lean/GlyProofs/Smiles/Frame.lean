import GlyModel.Smiles.Sem
namespace Gly.Smi

/-! ### run: basic facts -/

theorem run_append (s : St) (a b : List Tok) :
    run s (a ++ b) = (run s a).bind (fun s' => run s' b) := by
  induction a generalizing s with
  | nil => simp [run]
  | cons t ts ih =>
    simp only [List.cons_append, run]
    cases step s t with
    | none => simp
    | some s' => simp [ih]

def shiftO (f : Nat → Nat) (o : Nat × Nat) : Nat × Nat := (o.1, f o.2)

theorem lookupLabel_map (f : Nat → Nat) (l : Nat) (os : List (Nat × Nat)) :
    lookupLabel l (os.map (shiftO f)) = (lookupLabel l os).map f := by
  induction os with
  | nil => rfl
  | cons o rest ih =>
    obtain ⟨l', a⟩ := o
    simp only [List.map_cons, shiftO, lookupLabel]
    by_cases h : l' = l <;> simp [h, ih]

theorem eraseLabel_map (f : Nat → Nat) (l : Nat) (os : List (Nat × Nat)) :
    eraseLabel l (os.map (shiftO f)) = (eraseLabel l os).map (shiftO f) := by
  induction os with
  | nil => rfl
  | cons o rest ih =>
    obtain ⟨l', a⟩ := o
    simp only [List.map_cons, shiftO, eraseLabel]
    by_cases h : l' = l <;> simp [h, ih, shiftO]

theorem lookupLabel_append (l : Nat) (a b : List (Nat × Nat)) :
    lookupLabel l (a ++ b) = (lookupLabel l a).orElse (fun _ => lookupLabel l b) := by
  induction a with
  | nil => simp [lookupLabel]
  | cons o rest ih =>
    obtain ⟨l', x⟩ := o
    simp only [List.cons_append, lookupLabel]
    by_cases h : l' = l <;> simp [h, ih]

theorem eraseLabel_append_of_mem (l : Nat) (a b : List (Nat × Nat)) (x : Nat) (h : lookupLabel l a = some x) :
    eraseLabel l (a ++ b) = eraseLabel l a ++ b := by
  induction a with
  | nil => simp [lookupLabel] at h
  | cons o rest ih =>
    obtain ⟨l', y⟩ := o
    simp only [List.cons_append, eraseLabel, lookupLabel] at *
    by_cases hl : l' = l
    · simp [hl]
    · simp only [hl, if_false] at h ⊢
      rw [ih h]; rfl

/-! ### Frame: running a block from a base state = embedding its run from the empty state -/

/-- `embed S p pd s`: the state reached from base state `S` (whose current atom is `p`, pending bond `pd`) after a block
    whose own run from the empty state is `s` (which already contains at least its first atom). -/
def embed (S : St) (p : Nat) (pd : Option Char) (s : St) : St :=
  let N := S.atoms.length
  { atoms := S.atoms ++ s.atoms,
    evs := S.evs ++ [Ev.bond p N pd] ++ s.evs.map (Ev.map (· + N)),
    prev := s.prev.map (· + N),
    stack := s.stack.map (· + N) ++ S.stack,
    pend := s.pend,
    opens := s.opens.map (shiftO (· + N)) ++ S.opens }

theorem step_embed (S : St) (p : Nat) (pd : Option Char) (s s' : St) (t : Tok)
    (hprev : s.prev.isSome = true)
    (hlab : ∀ l, t = .ring l → lookupLabel l S.opens = none)
    (h : step s t = some s') :
    step (embed S p pd s) t = some (embed S p pd s') ∧ s'.prev.isSome = true := by
  obtain ⟨i, hi⟩ := Option.isSome_iff_exists.mp hprev
  cases t with
  | atom a =>
    simp only [step, hi] at h
    injection h with h; subst h
    simp [step, embed, hi, List.length_append, Nat.add_comm, Nat.add_left_comm, Ev.map]
  | bond b =>
    simp only [step, hi] at h
    cases hp : s.pend with
    | some _ => simp [hp] at h
    | none =>
      simp only [hp] at h
      injection h with h; subst h
      simp [step, embed, hi, hp]
  | lpar =>
    simp only [step, hi] at h
    cases hp : s.pend with
    | some _ => simp [hp] at h
    | none =>
      simp only [hp] at h
      injection h with h; subst h
      simp [step, embed, hi, hp]
  | rpar =>
    simp only [step] at h
    cases hs : s.stack with
    | nil => simp [hs] at h
    | cons q rest =>
      cases hp : s.pend with
      | some _ => simp [hs, hp] at h
      | none =>
        simp only [hs, hp] at h
        injection h with h; subst h
        simp [step, embed, hs, hp]
  | ring l =>
    simp only [step, hi] at h
    have hS := hlab l rfl
    cases hl : lookupLabel l s.opens with
    | some x =>
      simp only [hl] at h
      injection h with h; subst h
      have hl' : lookupLabel l ((s.opens.map (shiftO (· + S.atoms.length))) ++ S.opens) = some (x + S.atoms.length) := by
        rw [lookupLabel_append, lookupLabel_map, hl]; rfl
      have he := eraseLabel_append_of_mem l (s.opens.map (shiftO (· + S.atoms.length))) S.opens (x + S.atoms.length)
        (by rw [lookupLabel_map, hl]; rfl)
      simp only [step, embed, hi, Option.map_some, hl', he, eraseLabel_map]
      simp [Ev.map]
    | none =>
      simp only [hl] at h
      injection h with h; subst h
      have hl' : lookupLabel l ((s.opens.map (shiftO (· + S.atoms.length))) ++ S.opens) = none := by
        rw [lookupLabel_append, lookupLabel_map, hl]; simpa using hS
      simp only [step, embed, hi, Option.map_some, hl']
      simp [Ev.map, shiftO]

theorem run_embed (S : St) (p : Nat) (pd : Option Char) (ts : List Tok) (s s' : St)
    (hprev : s.prev.isSome = true)
    (hlab : ∀ l ∈ labelsOf ts, lookupLabel l S.opens = none)
    (h : run s ts = some s') :
    run (embed S p pd s) ts = some (embed S p pd s') := by
  induction ts generalizing s with
  | nil => simp [run] at h ⊢; rw [h]
  | cons t ts ih =>
    simp only [run] at h ⊢
    cases hs : step s t with
    | none => simp [hs] at h
    | some s1 =>
      simp only [hs] at h
      have := step_embed S p pd s s1 t hprev (by
        intro l hl; subst hl; exact hlab l (by simp [labelsOf])) hs
      rw [this.1]
      exact ih s1 this.2 (by
        intro l hl; apply hlab
        cases t <;> simp [labelsOf, hl]) h

end Gly.Smi
