import GlyModel.Smiles.Sem
import GlyModel.Smiles.Tree
namespace Gly.Smi

/-- Two tokens have the same shape: equal, or both atoms (whatever their texts – element, stereo mark, H count). -/
def SameShape (t t' : Tok) : Prop := t = t' ∨ ∃ a a', t = Tok.atom a ∧ t' = Tok.atom a'

/-- Two states that differ at most in the texts of their atoms. -/
def SameBonds (s s' : St) : Prop :=
  s'.evs = s.evs ∧ s'.prev = s.prev ∧ s'.stack = s.stack ∧ s'.pend = s.pend ∧ s'.opens = s.opens ∧
  s'.atoms.length = s.atoms.length

theorem step_shape (s s' x : St) (t t' : Tok) (hs : SameBonds s s') (ht : SameShape t t') (h : step s t = some x) :
    ∃ x', step s' t' = some x' ∧ SameBonds x x' := by
  obtain ⟨sa, se, sp, ss, sq, so⟩ := s
  obtain ⟨sa', se', sp', ss', sq', so'⟩ := s'
  obtain ⟨h1, h2, h3, h4, h5, h6⟩ := hs
  simp only at h1 h2 h3 h4 h5 h6
  subst h1 h2 h3 h4 h5
  rcases ht with rfl | ⟨a, a', rfl, rfl⟩
  · cases t with
    | atom a =>
      simp only [step] at h ⊢; injection h with h; subst h
      exact ⟨_, rfl, by simp [SameBonds, h6]⟩
    | bond b =>
      cases sp' <;> cases sq' <;> simp [step] at h ⊢
      subst h; simp [SameBonds, h6]
    | lpar =>
      cases sp' <;> cases sq' <;> simp [step] at h ⊢
      subst h; simp [SameBonds, h6]
    | rpar =>
      cases ss' <;> cases sq' <;> simp [step] at h ⊢
      subst h; simp [SameBonds, h6]
    | ring l =>
      cases sp' with
      | none => simp [step] at h
      | some p =>
        simp only [step] at h ⊢
        cases hl : lookupLabel l so' with
        | none => simp only [hl] at h ⊢; injection h with h; subst h; exact ⟨_, rfl, by simp [SameBonds, h6]⟩
        | some v => simp only [hl] at h ⊢; injection h with h; subst h; exact ⟨_, rfl, by simp [SameBonds, h6]⟩
  · simp only [step] at h ⊢; injection h with h; subst h
    exact ⟨_, rfl, by simp [SameBonds, h6]⟩

/-- token lists of the same shape, position by position -/
inductive ShapeList : List Tok → List Tok → Prop
  | nil : ShapeList [] []
  | cons {t t' : Tok} {ts ts' : List Tok} : SameShape t t' → ShapeList ts ts' → ShapeList (t :: ts) (t' :: ts')

/-- The bond structure a SMILES denotes – which atoms are bonded, in which order each atom sees its neighbours, which ring
    closures pair up – does not depend on the atoms' texts: strings of the same shape give the same events. -/
theorem run_shape (ts ts' : List Tok) (hf : ShapeList ts ts') (s s' x : St) (hs : SameBonds s s')
    (h : run s ts = some x) : ∃ x', run s' ts' = some x' ∧ SameBonds x x' := by
  induction hf generalizing s s' with
  | nil => simp [run] at h ⊢; subst h; exact hs
  | @cons t t' ts ts' ht _ ih =>
    simp only [run] at h ⊢
    cases hst : step s t with
    | none => simp [hst] at h
    | some s1 =>
      simp only [hst] at h
      obtain ⟨s1', hs1', hb⟩ := step_shape s s' s1 t t' hs ht hst
      rw [hs1']
      exact ih s1 s1' hb h

end Gly.Smi

namespace Gly.Smi

/-- The atom list of the denoted molecule is the list of atom tokens, in writing order. -/
theorem run_atoms (ts : List Tok) (s x : St) (h : run s ts = some x) : x.atoms = s.atoms ++ atomsOf ts := by
  induction ts generalizing s with
  | nil => simp [run] at h; subst h; simp [atomsOf]
  | cons t ts ih =>
    simp only [run] at h
    cases hst : step s t with
    | none => simp [hst] at h
    | some s1 =>
      simp only [hst] at h
      have := ih s1 h
      obtain ⟨sa, se, sp, ss, sq, so⟩ := s
      cases t with
      | atom a => simp [step] at hst; subst hst; simp [this, atomsOf]
      | bond b => cases sp <;> cases sq <;> simp [step] at hst; subst hst; simpa [atomsOf] using this
      | lpar => cases sp <;> cases sq <;> simp [step] at hst; subst hst; simpa [atomsOf] using this
      | rpar => cases ss <;> cases sq <;> simp [step] at hst; subst hst; simpa [atomsOf] using this
      | ring l =>
        cases sp with
        | none => simp [step] at hst
        | some p =>
          simp only [step] at hst
          cases hl : lookupLabel l so with
          | none => simp only [hl] at hst; injection hst with hst; subst hst; simpa [atomsOf] using this
          | some v => simp only [hl] at hst; injection hst with hst; subst hst; simpa [atomsOf] using this

end Gly.Smi
