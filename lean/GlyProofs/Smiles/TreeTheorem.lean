import GlyProofs.Smiles.TreeLemmas
import GlyModel.Smiles.Tokenize
/-
  Whole-tree assembly theorem: for every tree of boundary strings that passes the decidable check `wfTree`, the merged
  token string denotes exactly the Spec molecule (`specTree`), contains no marker atom, and starts with an atom.
-/
namespace Gly.Smi

theorem sem_eq_some (ts : List Tok) (M : Mol) :
    sem ts = some M ↔ ∃ s, run St.init ts = some s ∧ s.closed = true ∧ s.mol = M := by
  unfold sem
  cases h : run St.init ts with
  | none => simp
  | some s =>
    by_cases hc : s.closed = true
    · simp [hc, St.mol]
    · simp [hc]

theorem closed_parts (s : St) (h : s.closed = true) : s.stack = [] ∧ s.opens = [] ∧ s.pend = none := by
  simp only [St.closed, Bool.and_eq_true, List.isEmpty_iff, Option.isNone_iff_eq_none] at h
  exact ⟨h.1.1, h.1.2, h.2⟩

theorem blockOK_of_sem (block : List Tok) (C : Mol) (h : sem block = some C) (hs : startsWithAtom block = true) :
    BlockOK block C := by
  obtain ⟨s, hr, hc, hm⟩ := (sem_eq_some block C).mp h
  obtain ⟨h1, h2, h3⟩ := closed_parts s hc
  cases block with
  | nil => simp [startsWithAtom] at hs
  | cons t rest =>
    cases t <;> simp [startsWithAtom] at hs
    exact ⟨_, rest, s, rfl, hr, h1, h2, h3, hm⟩

theorem labelsOf_blockOf (nl : Bool) (child : List Tok) (hs : startsWithAtom child = true) :
    labelsOf (blockOf nl child) = labelsOf child := by
  cases nl with
  | false => simp [blockOf]
  | true =>
    cases child with
    | nil => simp [startsWithAtom] at hs
    | cons t rest =>
      cases t <;> simp [startsWithAtom] at hs
      simp [blockOf, labelsOf, labelsOf_append]

theorem markerFree_blockOf (isMk : Atom → Bool) (hN : isMk ['N'] = false) (nl : Bool) (child : List Tok)
    (h : ∀ a, isMk a = true → Tok.atom a ∉ child) : ∀ a, isMk a = true → Tok.atom a ∉ blockOf nl child := by
  intro a ha hm
  cases nl with
  | false => exact h a ha (by simpa [blockOf] using hm)
  | true =>
    simp only [blockOf, if_true, List.mem_cons, List.mem_append, List.mem_singleton] at hm
    rcases hm with hm | hm | hm | hm | hm
    · injection hm with hm; subst hm; rw [hN] at ha; cases ha
    · cases hm
    · exact h a ha (List.mem_of_mem_drop hm)
    · cases hm
    · cases hm

theorem blockOK_blockOf (nl : Bool) (child : List Tok) (C : Mol) (hb : BlockOK child C) :
    BlockOK (blockOf nl child) (if nl then nCap C else C) := by
  cases nl with
  | false => simpa [blockOf] using hb
  | true => simpa using nblock child C hb

/-- what the induction establishes for one subtree -/
def TreeOK (isMk : Atom → Bool) (t : TNode) : Prop :=
  ∃ M, sem (mergeTok t) = some M ∧ specTree t = some M ∧ startsWithAtom (mergeTok t) = true ∧
    ∀ a, isMk a = true → Tok.atom a ∉ mergeTok t

/-- marker and block of every child -/
def kidBlocks : List (Atom × Bool × TNode) → List (Atom × List Tok)
  | [] => []
  | (m, nl, k) :: rest => (m, blockOf nl (mergeTok k)) :: kidBlocks rest

theorem mergeKidsTok_eq (kids : List (Atom × Bool × TNode)) : ∀ ts, mergeKidsTok kids ts = substAll (kidBlocks kids) ts := by
  induction kids with
  | nil => intro ts; simp [mergeKidsTok, kidBlocks, substAll]
  | cons kid rest ih =>
    obtain ⟨m, nl, k⟩ := kid
    intro ts; simp only [mergeKidsTok, kidBlocks, substAll]; exact ih _

/-- … and for the list of children of a residue with boundary string `toks` -/
def KidsOK (isMk : Atom → Bool) (kids : List (Atom × Bool × TNode)) (toks : List Tok) : Prop :=
  ∃ items : List (Atom × List Tok × Mol),
    (items.map fun it => (it.1, it.2.1)) = kidBlocks kids ∧
    (∀ P, specKids kids P = some (graftAll (items.map fun it => (it.1, it.2.2)) P)) ∧
    items.map (·.1) = markersOf kids ∧
    (∀ it ∈ items, Slot toks it.1 (labelsOf it.2.1)) ∧
    (∀ it ∈ items, isMk it.1 = true) ∧
    (∀ it ∈ items, ∀ a, isMk a = true → Tok.atom a ∉ it.2.1) ∧
    (∀ it ∈ items, BlockOK it.2.1 it.2.2)

theorem nodupB_pairwise (l : List Atom) (h : nodupB l = true) : l.Pairwise (· ≠ ·) := by
  induction l with
  | nil => exact List.Pairwise.nil
  | cons a as ih =>
    simp only [nodupB, Bool.and_eq_true, Bool.not_eq_true'] at h
    refine List.Pairwise.cons ?_ (ih h.2)
    intro b hb e
    subst e
    have : as.contains a = true := List.contains_iff_mem.mpr hb
    rw [this] at h; exact absurd h.1 (by simp)

mutual
theorem tree_ok (isMk : Atom → Bool) (hN : isMk ['N'] = false) : (t : TNode) → wfTree isMk t = true → TreeOK isMk t
  | .mk toks kids, h => by
    simp only [wfTree, Bool.and_eq_true] at h
    obtain ⟨⟨⟨⟨hsem, hst⟩, hnd⟩, hall⟩, hk⟩ := h
    obtain ⟨items, hmerge, hspec, hmarks, hslots, hismk, hfree, hblocks⟩ := kids_ok isMk hN kids toks hk
    obtain ⟨P, hP⟩ := Option.isSome_iff_exists.mp hsem
    obtain ⟨A, hA, hAc, hAm⟩ := (sem_eq_some toks P).mp hP
    have hpw : (items.map (·.1)).Pairwise (· ≠ ·) := by rw [hmarks]; exact nodupB_pairwise _ hnd
    have hmk : ∀ a, isMk a = true → Tok.atom a ∈ toks → a ∈ items.map (·.1) := by
      intro a ha hm
      rw [hmarks]
      have hf : a ∈ (atomsOf toks).filter isMk := by
        simp only [List.mem_filter]; exact ⟨(mem_atomsOf a toks).mpr hm, ha⟩
      have := (List.all_eq_true.mp hall) a hf
      exact List.contains_iff_mem.mp this
    obtain ⟨B, hB, hBc, hBm, hnomk, hst'⟩ :=
      loop isMk items toks A hA hslots hpw hismk hfree hblocks hmk hst
    refine ⟨B.mol, ?_, ?_, ?_, ?_⟩
    · simp only [mergeTok]; rw [mergeKidsTok_eq, ← hmerge]
      exact (sem_eq_some _ _).mpr ⟨B, hB, by rw [hBc]; exact hAc, rfl⟩
    · simp only [specTree, hP, Option.bind_some]; rw [hspec, hBm, hAm]
    · simp only [mergeTok]; rw [mergeKidsTok_eq, ← hmerge]; exact hst'
    · simp only [mergeTok]; rw [mergeKidsTok_eq, ← hmerge]; exact hnomk
theorem kids_ok (isMk : Atom → Bool) (hN : isMk ['N'] = false) :
    (kids : List (Atom × Bool × TNode)) → (toks : List Tok) → wfKids isMk kids toks = true → KidsOK isMk kids toks
  | [], toks, _ => ⟨[], by simp [kidBlocks], by intro P; simp [specKids, graftAll], by simp [markersOf],
      by simp, by simp, by simp, by simp⟩
  | (m, nl, k) :: rest, toks, h => by
    simp only [wfKids, Bool.and_eq_true] at h
    obtain ⟨⟨⟨hm, hslot⟩, hk⟩, hrest⟩ := h
    obtain ⟨C, hsemk, hspeck, hstk, hfreek⟩ := tree_ok isMk hN k hk
    obtain ⟨items, hmerge, hspec, hmarks, hslots, hismk, hfree, hblocks⟩ := kids_ok isMk hN rest toks hrest
    refine ⟨(m, blockOf nl (mergeTok k), if nl then nCap C else C) :: items, ?_, ?_, ?_, ?_, ?_, ?_, ?_⟩
    · simp only [List.map_cons, kidBlocks, hmerge]
    · intro P; simp only [specKids, hspeck, Option.bind_some, List.map_cons, graftAll]; rw [hspec]
    · simp [markersOf, hmarks]
    · intro it hit
      rcases List.mem_cons.mp hit with rfl | hit
      · simp only; rw [labelsOf_blockOf nl _ hstk]; exact slotOK_spec _ _ _ hslot
      · exact hslots it hit
    · intro it hit
      rcases List.mem_cons.mp hit with rfl | hit
      · exact hm
      · exact hismk it hit
    · intro it hit
      rcases List.mem_cons.mp hit with rfl | hit
      · exact markerFree_blockOf isMk hN nl _ hfreek
      · exact hfree it hit
    · intro it hit
      rcases List.mem_cons.mp hit with rfl | hit
      · exact blockOK_blockOf nl _ C (blockOK_of_sem _ C hsemk hstk)
      · exact hblocks it hit
end

end Gly.Smi

namespace Gly.Smi
open Gly.Asm

theorem isMkDummy_N : isMkDummy ['N'] = false := by decide +kernel

/-- **Soundness of the whole-merge certificate** the driver evaluates on every real `merge_int` tree: what the
    character-level Model returns denotes the Spec molecule of the tree of boundary strings, and no marker atom is in it. -/
theorem certifyTree_sound (fuel : Nat) (node : Node) (h : certifyTree fuel node = true) :
    ∃ t out to M, toTNode fuel node 0 = some t ∧ mergeInt fuel node 0 = .ok out ∧ tokenize out = some to ∧
      sem to = some M ∧ specTree t = some M ∧ ∀ a ∈ M.atoms, isMkDummy a = false := by
  unfold certifyTree at h
  cases ht : toTNode fuel node 0 with
  | none => simp [ht] at h
  | some t =>
    cases ho : mergeInt fuel node 0 with
    | error e => simp [ht, ho] at h
    | ok out =>
      simp only [ht, ho, Bool.and_eq_true] at h
      obtain ⟨hwf, h2⟩ := h
      cases hto : tokenize out with
      | none => simp [hto] at h2
      | some to =>
        simp only [hto, Bool.and_eq_true, beq_iff_eq] at h2
        obtain ⟨_, heq⟩ := h2
        obtain ⟨M, hsem, hspec, _, hfree⟩ := tree_ok isMkDummy isMkDummy_N t hwf
        refine ⟨t, out, to, M, rfl, rfl, hto, by rw [heq]; exact hsem, hspec, ?_⟩
        intro a ha
        obtain ⟨s, hr, _, hm⟩ := (sem_eq_some _ _).mp hsem
        have hat : s.atoms = atomsOf (mergeTok t) := by simpa [St.init] using run_atoms _ St.init s hr
        have : a ∈ atomsOf (mergeTok t) := by rw [← hat]; rw [← hm] at ha; exact ha
        cases hmk : isMkDummy a with
        | false => rfl
        | true => exact absurd ((mem_atomsOf a _).mp this) (hfree a hmk)

/-- **Soundness of the certificate on observed strings**: if the strings `Monomer.to_smiles` returned inside a real
    `merge_int` pass the check, the string `merge_int` returned denotes `specTree` of those strings and holds no marker. -/
theorem certifyObserved_sound (node : ONode) (out : List Char) (h : certifyObserved node out = true) :
    ∃ t to M, obsTNode node = some t ∧ tokenize out = some to ∧
      sem to = some M ∧ specTree t = some M ∧ ∀ a ∈ M.atoms, isMkDummy a = false := by
  unfold certifyObserved at h
  cases ht : obsTNode node with
  | none => simp [ht] at h
  | some t =>
    cases hto : tokenize out with
    | none => simp [ht, hto] at h
    | some to =>
      simp only [ht, hto, Bool.and_eq_true, beq_iff_eq] at h
      obtain ⟨⟨hwf, _⟩, heq⟩ := h
      obtain ⟨M, hsem, hspec, _, hfree⟩ := tree_ok isMkDummy isMkDummy_N t hwf
      refine ⟨t, to, M, rfl, rfl, by rw [heq]; exact hsem, hspec, ?_⟩
      intro a ha
      obtain ⟨s, hr, _, hm⟩ := (sem_eq_some _ _).mp hsem
      have hat : s.atoms = atomsOf (mergeTok t) := by simpa [St.init] using run_atoms _ St.init s hr
      have : a ∈ atomsOf (mergeTok t) := by rw [← hat]; rw [← hm] at ha; exact ha
      cases hmk : isMkDummy a with
      | false => rfl
      | true => exact absurd ((mem_atomsOf a _).mp this) (hfree a hmk)

end Gly.Smi
