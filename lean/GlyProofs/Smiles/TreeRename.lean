import GlyProofs.Smiles.TreePerm
/-
  The assembled string does not depend on *which* marker element stands for which child: renaming the markers of a residue
  (in its string and in its child list) by an injective map that only moves marker atoms gives the same result.
  Together with `mergeTok_perm` this covers a change of the written order of the branches: the k-th written child gets the
  k-th marker pair, so writing the branches in another order permutes the children *and* renames their markers.
-/
namespace Gly.Smi

def mapTok (ρ : Atom → Atom) : Tok → Tok
  | .atom a => .atom (ρ a)
  | t => t

theorem mapTok_atom_iff (ρ : Atom → Atom) (hinj : ∀ a b, ρ a = ρ b → a = b) (m : Atom) (t : Tok) :
    mapTok ρ t = Tok.atom (ρ m) ↔ t = Tok.atom m := by
  cases t with
  | atom a =>
    simp only [mapTok, Tok.atom.injEq]
    exact ⟨fun h => hinj a m h, fun h => by rw [h]⟩
  | bond b => simp [mapTok]
  | lpar => simp [mapTok]
  | rpar => simp [mapTok]
  | ring l => simp [mapTok]

theorem substTok_map (ρ : Atom → Atom) (hinj : ∀ a b, ρ a = ρ b → a = b) (m : Atom) (b ts : List Tok) :
    substTok (ρ m) (b.map (mapTok ρ)) (ts.map (mapTok ρ)) = (substTok m b ts).map (mapTok ρ) := by
  induction ts with
  | nil => rfl
  | cons t ts ih =>
    have e1 : substTok (ρ m) (b.map (mapTok ρ)) ((t :: ts).map (mapTok ρ)) =
        substTok (ρ m) (b.map (mapTok ρ)) [mapTok ρ t] ++ substTok (ρ m) (b.map (mapTok ρ)) (ts.map (mapTok ρ)) := by
      rw [← substTok_append]; rfl
    have e2 : substTok m b (t :: ts) = substTok m b [t] ++ substTok m b ts := by rw [← substTok_append]; rfl
    rw [e1, e2, List.map_append, ih, substTok_single, substTok_single]
    congr 1
    by_cases h : t = Tok.atom m
    · rw [if_pos ((mapTok_atom_iff ρ hinj m t).mpr h), if_pos h]
    · rw [if_neg (fun h' => h ((mapTok_atom_iff ρ hinj m t).mp h')), if_neg h]; rfl

theorem map_id_of_fixed (ρ : Atom → Atom) (ts : List Tok) (h : ∀ a, Tok.atom a ∈ ts → ρ a = a) : ts.map (mapTok ρ) = ts := by
  induction ts with
  | nil => rfl
  | cons t ts ih =>
    have ht : mapTok ρ t = t := by
      cases t with
      | atom a => simp [mapTok, h a (by simp)]
      | _ => rfl
    rw [List.map_cons, ht, ih (fun a ha => h a (by simp [ha]))]

/-- renaming the markers of all (marker, block) entries commutes with the substitution loop, when the blocks are fixed by the renaming -/
theorem substAll_map (ρ : Atom → Atom) (hinj : ∀ a b, ρ a = ρ b → a = b) :
    ∀ (items : List (Atom × List Tok)) (ts : List Tok), (∀ it ∈ items, it.2.map (mapTok ρ) = it.2) →
      substAll (items.map fun it => (ρ it.1, it.2)) (ts.map (mapTok ρ)) = (substAll items ts).map (mapTok ρ)
  | [], ts, _ => rfl
  | (m, b) :: rest, ts, h => by
    have hb : b.map (mapTok ρ) = b := h (m, b) (by simp)
    simp only [List.map_cons, substAll]
    have := substTok_map ρ hinj m b ts
    rw [hb] at this
    rw [this]
    exact substAll_map ρ hinj rest _ (fun it hit => h it (by simp [hit]))

/-- **Marker names are immaterial.** For a well-formed residue, renaming its markers – in its string and in its child list – by an
    injective map that fixes every non-marker atom leaves the assembled string unchanged. -/
theorem mergeTok_rename (isMk : Atom → Bool) (hN : isMk ['N'] = false) (ρ : Atom → Atom)
    (hinj : ∀ a b, ρ a = ρ b → a = b) (hfix : ∀ a, isMk a = false → ρ a = a)
    (toks : List Tok) (kids : List (Atom × Bool × TNode)) (hwf : wfTree isMk (.mk toks kids) = true) :
    mergeTok (.mk (toks.map (mapTok ρ)) (kids.map fun kid => (ρ kid.1, kid.2.1, kid.2.2))) = mergeTok (.mk toks kids) := by
  obtain ⟨M, _, _, _, hfree⟩ := tree_ok isMk hN (.mk toks kids) hwf
  simp only [wfTree, Bool.and_eq_true] at hwf
  obtain ⟨_, hk⟩ := hwf
  obtain ⟨items, hmerge, _, _, _, _, hifree, _⟩ := kids_ok isMk hN kids toks hk
  have hblocks : ∀ it ∈ kidBlocks kids, it.2.map (mapTok ρ) = it.2 := by
    rw [← hmerge]
    intro it hit
    obtain ⟨i, hi, rfl⟩ := List.mem_map.mp hit
    apply map_id_of_fixed
    intro a ha
    cases hm : isMk a with
    | false => exact hfix a hm
    | true => exact absurd ha (hifree i hi a hm)
  have hkb : kidBlocks (kids.map fun kid => (ρ kid.1, kid.2.1, kid.2.2)) = (kidBlocks kids).map fun it => (ρ it.1, it.2) := by
    rw [kidBlocks_eq_map, kidBlocks_eq_map]; simp [List.map_map, Function.comp_def]
  simp only [mergeTok, mergeKidsTok_eq]
  rw [hkb, substAll_map ρ hinj (kidBlocks kids) toks hblocks]
  apply map_id_of_fixed
  intro a ha
  cases hm : isMk a with
  | false => exact hfix a hm
  | true =>
    have : Tok.atom a ∉ mergeTok (.mk toks kids) := hfree a hm
    simp only [mergeTok, mergeKidsTok_eq] at this
    exact absurd ha this

end Gly.Smi
