import GlyModel.Smiles.Sem
namespace Gly.Smi

def Ev.relabel (f : Nat → Nat) : Ev → Ev
  | .ropen i l b => .ropen i (f l) b
  | .rclose i q l b => .rclose i q (f l) b
  | e => e

/-- an event with its ring label forgotten: which atoms are joined, in which slot, by which bond symbol -/
def Ev.unlabel : Ev → Ev
  | .ropen i _ b => .ropen i 0 b
  | .rclose i q _ b => .rclose i q 0 b
  | e => e

def St.relabel (f : Nat → Nat) (s : St) : St :=
  { s with evs := s.evs.map (Ev.relabel f), opens := s.opens.map (fun o => (f o.1, o.2)) }

theorem lookupLabel_relabel (f : Nat → Nat) (hf : ∀ a b, f a = f b → a = b) (l : Nat) (os : List (Nat × Nat)) :
    lookupLabel (f l) (os.map (fun o => (f o.1, o.2))) = lookupLabel l os := by
  induction os with
  | nil => rfl
  | cons o rest ih =>
    obtain ⟨l', a⟩ := o
    simp only [List.map_cons, lookupLabel]
    by_cases h : l' = l
    · simp [h]
    · have : f l' ≠ f l := fun e => h (hf _ _ e)
      simp [h, this, ih]

theorem eraseLabel_relabel (f : Nat → Nat) (hf : ∀ a b, f a = f b → a = b) (l : Nat) (os : List (Nat × Nat)) :
    eraseLabel (f l) (os.map (fun o => (f o.1, o.2))) = (eraseLabel l os).map (fun o => (f o.1, o.2)) := by
  induction os with
  | nil => rfl
  | cons o rest ih =>
    obtain ⟨l', a⟩ := o
    simp only [List.map_cons, eraseLabel]
    by_cases h : l' = l
    · simp [h]
    · have : f l' ≠ f l := fun e => h (hf _ _ e)
      simp [h, this, ih]

theorem step_relabel (f : Nat → Nat) (hf : ∀ a b, f a = f b → a = b) (s s' : St) (t : Tok)
    (h : step s t = some s') : step (s.relabel f) (relabelTok f t) = some (s'.relabel f) := by
  obtain ⟨sa, se, sp, ss, sq, so⟩ := s
  cases t with
  | atom a =>
    simp only [step] at h; injection h with h; subst h
    cases sp <;> simp [step, St.relabel, relabelTok, Ev.relabel]
  | bond b =>
    cases sp <;> cases sq <;> simp [step] at h
    subst h; simp [step, St.relabel, relabelTok]
  | lpar =>
    cases sp <;> cases sq <;> simp [step] at h
    subst h; simp [step, St.relabel, relabelTok]
  | rpar =>
    cases ss <;> cases sq <;> simp [step] at h
    subst h; simp [step, St.relabel, relabelTok]
  | ring l =>
    cases sp with
    | none => simp [step] at h
    | some p =>
      simp only [step] at h
      cases hl : lookupLabel l so with
      | none =>
        simp only [hl] at h; injection h with h; subst h
        simp [step, St.relabel, relabelTok, lookupLabel_relabel f hf, hl, Ev.relabel]
      | some q =>
        simp only [hl] at h; injection h with h; subst h
        simp [step, St.relabel, relabelTok, lookupLabel_relabel f hf, eraseLabel_relabel f hf, hl, Ev.relabel]

theorem run_relabel (f : Nat → Nat) (hf : ∀ a b, f a = f b → a = b) (ts : List Tok) (s s' : St)
    (h : run s ts = some s') : run (s.relabel f) (ts.map (relabelTok f)) = some (s'.relabel f) := by
  induction ts generalizing s with
  | nil => simp [run] at h ⊢; rw [h]
  | cons t ts ih =>
    simp only [run, List.map_cons] at h ⊢
    cases hst : step s t with
    | none => simp [hst] at h
    | some s1 =>
      simp only [hst] at h
      rw [step_relabel f hf s s1 t hst]
      exact ih s1 h

theorem unlabel_relabel (f : Nat → Nat) (es : List Ev) : (es.map (Ev.relabel f)).map Ev.unlabel = es.map Ev.unlabel := by
  induction es with
  | nil => rfl
  | cons e es ih => cases e <;> simp [Ev.relabel, Ev.unlabel, ih]

/-- **Ring labels are names.** Renaming the ring-closure labels of a SMILES by any injective function (e.g. adding the
    nesting offset `ring_index`) gives a SMILES of the same molecule: same atoms, same events up to the label names, and it is
    closed iff the original was. -/
theorem relabel_same_molecule (f : Nat → Nat) (hf : ∀ a b, f a = f b → a = b) (ts : List Tok) (x : St)
    (h : run St.init ts = some x) :
    ∃ x', run St.init (ts.map (relabelTok f)) = some x' ∧ x'.atoms = x.atoms ∧
      x'.evs.map Ev.unlabel = x.evs.map Ev.unlabel ∧ x'.closed = x.closed := by
  have := run_relabel f hf ts St.init x h
  refine ⟨x.relabel f, by simpa [St.relabel, St.init] using this, rfl, ?_, ?_⟩
  · show (x.evs.map (Ev.relabel f)).map Ev.unlabel = x.evs.map Ev.unlabel
    exact unlabel_relabel f x.evs
  · simp [St.relabel, St.closed]

end Gly.Smi
