import GlyProofs.Smiles.TreeTheorem
/-
  Order independence of the assembly: the children of a residue may be processed in any order.
-/
namespace Gly.Smi

/-- Splices at different markers commute (no block contains the other's marker). -/
theorem splices_commute (m1 m2 : Atom) (b1 b2 ts : List Tok) (hne : m1 ≠ m2)
    (h12 : Tok.atom m2 ∉ b1) (h21 : Tok.atom m1 ∉ b2) :
    substTok m1 b1 (substTok m2 b2 ts) = substTok m2 b2 (substTok m1 b1 ts) := by
  induction ts with
  | nil => rfl
  | cons t ts ih =>
    have e : ∀ (m : Atom) (b : List Tok), substTok m b (t :: ts) = substTok m b [t] ++ substTok m b ts := by
      intro m b; rw [← substTok_append]; rfl
    rw [e m2 b2, e m1 b1, substTok_append, substTok_append, ih]
    congr 1
    by_cases h1 : t = Tok.atom m1
    · subst h1
      have hne' : Tok.atom m1 ≠ Tok.atom m2 := fun e => hne (by injection e)
      rw [substTok_single m2 b2, if_neg hne', substTok_single m1 b1, if_pos rfl, substTok_id m2 b2 b1 h12]
    · by_cases h2 : t = Tok.atom m2
      · subst h2
        rw [substTok_single m2 b2, if_pos rfl, substTok_single m1 b1, if_neg h1, substTok_single m2 b2, if_pos rfl,
          substTok_id m1 b1 b2 h21]
      · rw [substTok_single m2 b2, if_neg h2, substTok_single m1 b1, if_neg h1, substTok_single m2 b2, if_neg h2]

/-- Any two entries are the same entry or have different markers, and no block contains any entry's marker. -/
def Compatible (l : List (Atom × List Tok)) : Prop :=
  ∀ x ∈ l, ∀ y ∈ l, (x = y ∨ x.1 ≠ y.1) ∧ Tok.atom x.1 ∉ y.2

theorem Compatible.of_perm {l1 l2 : List (Atom × List Tok)} (hp : l1.Perm l2) (h : Compatible l1) : Compatible l2 :=
  fun x hx y hy => h x (hp.mem_iff.mpr hx) y (hp.mem_iff.mpr hy)

theorem Compatible.tail {x : Atom × List Tok} {l : List (Atom × List Tok)} (h : Compatible (x :: l)) : Compatible l :=
  fun a ha b hb => h a (by simp [ha]) b (by simp [hb])

/-- **Processing order is immaterial**: any permutation of the (marker, block) list gives the same string. -/
theorem substAll_perm {l1 l2 : List (Atom × List Tok)} (hp : l1.Perm l2) (h : Compatible l1) :
    ∀ ts, substAll l1 ts = substAll l2 ts := by
  induction hp with
  | nil => intro ts; rfl
  | cons x _ ih =>
    intro ts
    obtain ⟨m, b⟩ := x
    simp only [substAll]
    exact ih h.tail _
  | swap x y l =>
    intro ts
    obtain ⟨m1, b1⟩ := x
    obtain ⟨m2, b2⟩ := y
    simp only [substAll]
    have hxy := h (m2, b2) (by simp) (m1, b1) (by simp)
    have hyx := h (m1, b1) (by simp) (m2, b2) (by simp)
    rcases hxy.1 with e | hne
    · injection e with e1 e2; subst e1 e2; rfl
    · rw [splices_commute m1 m2 b1 b2 ts (fun e => hne e.symm) hxy.2 hyx.2]
  | trans p1 _ ih1 ih2 =>
    intro ts
    rw [ih1 h, ih2 (h.of_perm p1)]

theorem eq_of_fst_eq {β} (l : List (Atom × β)) (hpw : (l.map (·.1)).Pairwise (· ≠ ·)) (x y : Atom × β)
    (hx : x ∈ l) (hy : y ∈ l) (e : x.1 = y.1) : x = y := by
  induction l with
  | nil => simp at hx
  | cons a as ih =>
    simp only [List.map_cons, List.pairwise_cons] at hpw
    rcases List.mem_cons.mp hx with rfl | hx' <;> rcases List.mem_cons.mp hy with rfl | hy'
    · rfl
    · exact absurd e (hpw.1 _ (List.mem_map.mpr ⟨y, hy', rfl⟩))
    · exact absurd e.symm (hpw.1 _ (List.mem_map.mpr ⟨x, hx', rfl⟩))
    · exact ih hpw.2 hx' hy'

theorem kidBlocks_eq_map (kids : List (Atom × Bool × TNode)) :
    kidBlocks kids = kids.map (fun kid => (kid.1, blockOf kid.2.1 (mergeTok kid.2.2))) := by
  induction kids with
  | nil => rfl
  | cons kid rest ih => obtain ⟨m, nl, k⟩ := kid; simp [kidBlocks, ih]

theorem markersOf_eq_map (kids : List (Atom × Bool × TNode)) : markersOf kids = kids.map (·.1) := by
  induction kids with
  | nil => rfl
  | cons kid rest ih => obtain ⟨m, nl, k⟩ := kid; simp [markersOf, ih]

/-- **The children of a residue may be written (and therefore processed) in any order**: for a well-formed residue,
    permuting the list of children – each with its marker – does not change the assembled string at all. -/
theorem mergeTok_perm (isMk : Atom → Bool) (hN : isMk ['N'] = false) (toks : List Tok)
    (kids kids' : List (Atom × Bool × TNode)) (hp : kids.Perm kids') (hwf : wfTree isMk (.mk toks kids) = true) :
    mergeTok (.mk toks kids') = mergeTok (.mk toks kids) := by
  simp only [mergeTok, mergeKidsTok_eq]
  have hwf' := hwf
  simp only [wfTree, Bool.and_eq_true] at hwf
  obtain ⟨⟨⟨_, hnd⟩, _⟩, hk⟩ := hwf
  obtain ⟨items, hmerge, _, hmarks, _, hismk, hfree, _⟩ := kids_ok isMk hN kids toks hk
  have hpw : (items.map (·.1)).Pairwise (· ≠ ·) := by rw [hmarks]; exact nodupB_pairwise _ hnd
  have hcomp : Compatible (kidBlocks kids) := by
    rw [← hmerge]
    intro x hx y hy
    obtain ⟨ix, hix, rfl⟩ := List.mem_map.mp hx
    obtain ⟨iy, hiy, rfl⟩ := List.mem_map.mp hy
    refine ⟨?_, hfree iy hiy ix.1 (hismk ix hix)⟩
    by_cases e : ix.1 = iy.1
    · left
      -- equal markers in a pairwise-distinct list: the same entry
      have : ix = iy := eq_of_fst_eq items hpw ix iy hix hiy e
      rw [this]
    · right; exact e
  have hperm : (kidBlocks kids).Perm (kidBlocks kids') := by
    rw [kidBlocks_eq_map, kidBlocks_eq_map]; exact hp.map _
  exact (substAll_perm hperm hcomp toks).symm

end Gly.Smi
