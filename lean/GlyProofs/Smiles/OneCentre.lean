import GlyProofs.Smiles.TreeTheorem
/-
  Changing the text of one atom of a residue (e.g. the stereo mark of the reducing end's anomeric carbon) changes exactly that
  atom of the whole glycan's Spec molecule: same bond events, same atoms everywhere else – whatever is grafted onto the residue.
-/
namespace Gly.Smi

/-- two molecules with the same bond events whose atom lists differ in exactly one position (`a` there in the first, `b` in the second) -/
def OneOff (a b : Atom) (P P' : Mol) : Prop :=
  P.evs = P'.evs ∧ ∃ pre post, P.atoms = pre ++ [a] ++ post ∧ P'.atoms = pre ++ [b] ++ post

theorem idxOf_mid (m a : Atom) (pre post : List Atom) (h : m ≠ a) :
    (pre ++ [a] ++ post).idxOf m = if m ∈ pre then pre.idxOf m else pre.length + 1 + post.idxOf m := by
  induction pre with
  | nil =>
    have : (a == m) = false := by simpa using fun e => h e.symm
    simp [List.idxOf_cons, this]; omega
  | cons x xs ih =>
    by_cases hx : x = m
    · subst hx; simp [List.idxOf_cons]
    · have hx' : (x == m) = false := by simpa using hx
      have hm : m ∈ x :: xs ↔ m ∈ xs := by
        constructor
        · intro h; rcases List.mem_cons.mp h with e | e
          · exact absurd e.symm hx
          · exact e
        · intro h; exact List.mem_cons_of_mem _ h
      simp only [List.cons_append, List.idxOf_cons, hx', cond_false, List.length_cons]
      simp only [List.append_assoc, List.cons_append, List.nil_append] at ih ⊢
      rw [ih]
      by_cases hmem : m ∈ xs
      · simp [hmem, hm]
      · simp [hmem, hm]; omega

theorem idxOf_lt_of_mem (m : Atom) (l : List Atom) (h : m ∈ l) : l.idxOf m < l.length := List.idxOf_lt_length_iff.mpr h

theorem take_len_add {α} (l r : List α) (k : Nat) : (l ++ r).take (l.length + k) = l ++ r.take k := by
  induction l with
  | nil => simp
  | cons x xs ih => simp [List.length_cons, Nat.add_right_comm _ 1 k, ih]

theorem drop_len_add {α} (l r : List α) (k : Nat) : (l ++ r).drop (l.length + k) = r.drop k := by
  induction l with
  | nil => simp
  | cons x xs ih => simp [List.length_cons, Nat.add_right_comm _ 1 k, ih]

theorem graft_atoms_pre (P C : Mol) (pre post : List Atom) (a : Atom) (i : Nat) (hP : P.atoms = pre ++ [a] ++ post) (hi : i < pre.length) :
    (P.graft i C).atoms = (pre.take i ++ C.atoms ++ pre.drop (i + 1)) ++ [a] ++ post := by
  simp only [Mol.graft, hP, List.append_assoc]
  rw [List.take_append_of_le_length (by omega), List.drop_append_of_le_length (by omega)]

theorem graft_atoms_post (P C : Mol) (pre post : List Atom) (a : Atom) (k : Nat) (hP : P.atoms = pre ++ [a] ++ post) :
    (P.graft (pre.length + 1 + k) C).atoms = pre ++ [a] ++ (post.take k ++ C.atoms ++ post.drop (k + 1)) := by
  simp only [Mol.graft, hP]
  have e1 : (pre ++ [a] ++ post).take (pre.length + 1 + k) = pre ++ [a] ++ post.take k := by
    rw [show pre.length + 1 + k = (pre ++ [a]).length + k by simp, take_len_add]
  have e2 : (pre ++ [a] ++ post).drop (pre.length + 1 + k + 1) = post.drop (k + 1) := by
    rw [show pre.length + 1 + k + 1 = (pre ++ [a]).length + (k + 1) by simp; omega, drop_len_add]
  rw [e1, e2]; simp

/-- grafting a child at a marker that is not the differing atom keeps the two molecules one-off -/
theorem graft_oneOff (a b m : Atom) (P P' C : Mol) (h : OneOff a b P P') (ha : m ≠ a) (hb : m ≠ b) :
    OneOff a b (P.graft (P.atoms.idxOf m) C) (P'.graft (P'.atoms.idxOf m) C) := by
  obtain ⟨hev, pre, post, hP, hP'⟩ := h
  have hi : P'.atoms.idxOf m = P.atoms.idxOf m := by rw [hP, hP', idxOf_mid m a pre post ha, idxOf_mid m b pre post hb]
  rw [hi]
  refine ⟨by simp only [Mol.graft, hev], ?_⟩
  by_cases hm : m ∈ pre
  · have hidx : P.atoms.idxOf m = pre.idxOf m := by rw [hP, idxOf_mid m a pre post ha, if_pos hm]
    have hlt := idxOf_lt_of_mem m pre hm
    rw [hidx]
    exact ⟨pre.take (pre.idxOf m) ++ C.atoms ++ pre.drop (pre.idxOf m + 1), post,
      graft_atoms_pre P C pre post a _ hP hlt, graft_atoms_pre P' C pre post b _ hP' hlt⟩
  · have hidx : P.atoms.idxOf m = pre.length + 1 + post.idxOf m := by rw [hP, idxOf_mid m a pre post ha, if_neg hm]
    rw [hidx]
    exact ⟨pre, post.take (post.idxOf m) ++ C.atoms ++ post.drop (post.idxOf m + 1),
      graft_atoms_post P C pre post a _ hP, graft_atoms_post P' C pre post b _ hP'⟩

/-- … hence all the children of a residue -/
theorem specKids_oneOff (a b : Atom) : ∀ (kids : List (Atom × Bool × TNode)) (P P' R : Mol),
    OneOff a b P P' → (∀ m ∈ markersOf kids, m ≠ a ∧ m ≠ b) → specKids kids P = some R →
    ∃ R', specKids kids P' = some R' ∧ OneOff a b R R'
  | [], P, P', R, h, _, hs => by
    simp only [specKids] at hs ⊢; injection hs with hs; subst hs; exact ⟨P', rfl, h⟩
  | (m, nl, k) :: rest, P, P', R, h, hm, hs => by
    simp only [specKids] at hs ⊢
    cases hk : specTree k with
    | none => simp [hk] at hs
    | some C =>
      simp only [hk, Option.bind_some] at hs ⊢
      have hmm := hm m (by simp [markersOf])
      exact specKids_oneOff a b rest _ _ R (graft_oneOff a b m P P' _ h hmm.1 hmm.2)
        (fun x hx => hm x (by simp [markersOf, hx])) hs

/-- **One atom of a residue, one atom of the glycan.** Two residue strings that are equal except for the text of one atom token
    (`a` / `b`: e.g. `[C@H]`, `[C@@H]` or `C` at the anomeric carbon of the reducing end), carrying the same children at the same
    markers: the two Spec molecules have the same bond events – hence the same bonds, ring closures and ordered neighbour
    lists – and the same atoms except exactly that one. -/
theorem specTree_oneOff (t1 t2 : List Tok) (a b : Atom) (kids : List (Atom × Bool × TNode)) (M : Mol)
    (hm : ∀ m ∈ markersOf kids, m ≠ a ∧ m ≠ b)
    (hs : specTree (.mk (t1 ++ [Tok.atom a] ++ t2) kids) = some M) :
    ∃ M', specTree (.mk (t1 ++ [Tok.atom b] ++ t2) kids) = some M' ∧ OneOff a b M M' := by
  simp only [specTree] at hs ⊢
  cases hP : sem (t1 ++ [Tok.atom a] ++ t2) with
  | none => rw [hP] at hs; simp at hs
  | some P =>
    rw [hP] at hs
    simp only [Option.bind_some] at hs
    obtain ⟨x, hx, hxc, hxm⟩ := (sem_eq_some _ _).mp hP
    have hshape : ShapeList (t1 ++ [Tok.atom a] ++ t2) (t1 ++ [Tok.atom b] ++ t2) := by
      have app : ∀ (u v u' v' : List Tok), ShapeList u u' → ShapeList v v' → ShapeList (u ++ v) (u' ++ v') := by
        intro u v u' v' h1 h2
        induction h1 with
        | nil => simpa using h2
        | cons ht _ ih => exact ShapeList.cons ht ih
      exact app _ _ _ _ (app _ _ _ _ (ShapeList.refl t1) (ShapeList.cons (Or.inr ⟨a, b, rfl, rfl⟩) ShapeList.nil)) (ShapeList.refl t2)
    obtain ⟨x', hx', hsb⟩ := run_shape _ _ hshape St.init St.init x ⟨rfl, rfl, rfl, rfl, rfl, rfl⟩ hx
    obtain ⟨e1, e2, e3, e4, e5, e6⟩ := hsb
    have hxa : x.atoms = atomsOf (t1 ++ [Tok.atom a] ++ t2) := by simpa [St.init] using run_atoms _ St.init x hx
    have hxa' : x'.atoms = atomsOf (t1 ++ [Tok.atom b] ++ t2) := by simpa [St.init] using run_atoms _ St.init x' hx'
    have hc' : x'.closed = true := by simp only [St.closed, e3, e4, e5] at hxc ⊢; exact hxc
    have hP' : sem (t1 ++ [Tok.atom b] ++ t2) = some x'.mol := (sem_eq_some _ _).mpr ⟨x', hx', hc', rfl⟩
    have hoff : OneOff a b P x'.mol := by
      rw [← hxm]
      refine ⟨by simp [St.mol, e1], atomsOf t1, atomsOf t2, ?_, ?_⟩
      · simp [St.mol, hxa, atomsOf_append, atomsOf]
      · simp [St.mol, hxa', atomsOf_append, atomsOf]
    obtain ⟨R', hR', hoff'⟩ := specKids_oneOff a b kids P x'.mol M hoff hm hs
    exact ⟨R', by simp only [hP', Option.bind_some]; exact hR', hoff'⟩

end Gly.Smi
