import GlyProofs.Smiles.Graft
import GlyProofs.Smiles.Shape
/-
  Lemmas for the whole-tree assembly theorem: token substitution, slots, the Mol-level reading of the graft lemma,
  the N-linkage block, preservation of slots under splices at other markers, the loop over the children of a residue.
-/
namespace Gly.Smi

/-! ### token substitution -/

theorem substTok_append (m : Atom) (b : List Tok) (x y : List Tok) :
    substTok m b (x ++ y) = substTok m b x ++ substTok m b y := by
  simp [substTok, List.flatMap_append]

theorem substTok_id (m : Atom) (b ts : List Tok) (h : Tok.atom m ∉ ts) : substTok m b ts = ts := by
  induction ts with
  | nil => rfl
  | cons t ts ih =>
    have ht : t ≠ Tok.atom m := fun e => h (by simp [e])
    have : substTok m b (t :: ts) = t :: substTok m b ts := by simp [substTok, ht]
    rw [this, ih (fun hm => h (by simp [hm]))]

theorem substTok_single (m : Atom) (b : List Tok) (x : Tok) :
    substTok m b [x] = if x = Tok.atom m then b else [x] := by
  simp [substTok]

theorem substTok_split (m : Atom) (b pre post : List Tok) (h1 : Tok.atom m ∉ pre) (h2 : Tok.atom m ∉ post) :
    substTok m b (pre ++ [Tok.atom m] ++ post) = pre ++ b ++ post := by
  rw [substTok_append, substTok_append, substTok_id m b pre h1, substTok_id m b post h2, substTok_single, if_pos rfl]

theorem mem_atomsOf (a : Atom) (ts : List Tok) : a ∈ atomsOf ts ↔ Tok.atom a ∈ ts := by
  induction ts with
  | nil => simp [atomsOf]
  | cons t ts ih =>
    cases t <;> simp [atomsOf, ih]

theorem atomsOf_append (x y : List Tok) : atomsOf (x ++ y) = atomsOf x ++ atomsOf y := by
  induction x with
  | nil => simp [atomsOf]
  | cons t ts ih => cases t <;> simp [atomsOf, ih]

theorem labelsOf_append (x y : List Tok) : labelsOf (x ++ y) = labelsOf x ++ labelsOf y := by
  induction x with
  | nil => simp [labelsOf]
  | cons t ts ih => cases t <;> simp [labelsOf, ih]

/-! ### slots -/

def LeafPost (post : List Tok) : Prop := post = [] ∨ ∃ post', post = Tok.rpar :: post'

/-- The marker `m` sits exactly once in `ts`, on a leaf atom that has a parent atom, and no label of `L` is open there. -/
def Slot (ts : List Tok) (m : Atom) (L : List Nat) : Prop :=
  ∃ pre post S p, ts = pre ++ [Tok.atom m] ++ post ∧ Tok.atom m ∉ pre ∧ Tok.atom m ∉ post ∧ LeafPost post ∧
    run St.init pre = some S ∧ S.prev = some p ∧ ∀ l ∈ L, lookupLabel l S.opens = none

theorem isLeafPost_spec (post : List Tok) (h : isLeafPost post = true) : LeafPost post := by
  cases post with
  | nil => exact Or.inl rfl
  | cons t ts => cases t <;> simp [isLeafPost] at h; exact Or.inr ⟨ts, rfl⟩

theorem mem_takeWhile_true {α} (p : α → Bool) (l : List α) (y : α) (h : y ∈ l.takeWhile p) : p y = true := by
  induction l with
  | nil => simp at h
  | cons a as ih =>
    simp only [List.takeWhile_cons] at h
    by_cases ha : p a = true
    · simp only [ha, if_true] at h
      rcases List.mem_cons.mp h with rfl | h
      · exact ha
      · exact ih h
    · simp [ha] at h

theorem takeWhile_dropWhile_split {α} (p : α → Bool) (l : List α) (x : α) (rest : List α)
    (h : l.dropWhile p = x :: rest) : l = l.takeWhile p ++ [x] ++ rest ∧ p x = false ∧ ∀ y ∈ l.takeWhile p, p y = true := by
  refine ⟨?_, ?_, ?_⟩
  · have := List.takeWhile_append_dropWhile (p := p) (l := l)
    rw [h] at this; simp [this]
  · induction l with
    | nil => simp at h
    | cons a as ih =>
      simp only [List.dropWhile_cons] at h
      by_cases ha : p a = true
      · simp only [ha, if_true] at h; exact ih h
      · simp only [ha] at h
        simp at h
        obtain ⟨rfl, _⟩ := h
        simpa using ha
  · intro y hy; exact mem_takeWhile_true p l y hy

theorem slotOK_spec (ts : List Tok) (m : Atom) (L : List Nat) (h : slotOK ts m L = true) : Slot ts m L := by
  unfold slotOK at h
  cases hd : ts.dropWhile (· != Tok.atom m) with
  | nil => simp [hd] at h
  | cons x post =>
    simp only [hd] at h
    obtain ⟨hsplit, hx, hpre⟩ := takeWhile_dropWhile_split _ ts x post hd
    have hxm : x = Tok.atom m := by simpa using hx
    subst hxm
    cases hr : run St.init (ts.takeWhile (· != Tok.atom m)) with
    | none => simp [hr] at h
    | some S =>
      simp only [hr, Bool.and_eq_true, Bool.not_eq_true', List.all_eq_true, Option.isNone_iff_eq_none] at h
      obtain ⟨⟨hnc, hleaf⟩, hprev, hlab⟩ := h
      obtain ⟨p, hp⟩ := Option.isSome_iff_exists.mp hprev
      refine ⟨_, post, S, p, hsplit, ?_, ?_, isLeafPost_spec post hleaf, hr, hp, hlab⟩
      · intro hm; have := hpre _ hm; simp at this
      · intro hm; rw [List.contains_iff_mem.mpr hm] at hnc; simp at hnc

/-! ### invariants of runs -/

theorem step_prev (s s' : St) (t : Tok) (hp : s.prev.isSome = true) (h : step s t = some s') : s'.prev.isSome = true := by
  obtain ⟨sa, se, sp, ss, sq, so⟩ := s
  cases t with
  | atom a => simp [step] at h; subst h; rfl
  | bond b => cases sp <;> cases sq <;> simp [step] at h; subst h; rfl
  | lpar => cases sp <;> cases sq <;> simp [step] at h; subst h; rfl
  | rpar => cases ss <;> cases sq <;> simp [step] at h; subst h; rfl
  | ring l =>
    cases sp with
    | none => simp [step] at h
    | some p =>
      simp only [step] at h
      cases hl : lookupLabel l so with
      | none => simp only [hl] at h; injection h with h; subst h; rfl
      | some v => simp only [hl] at h; injection h with h; subst h; rfl

theorem run_prev (ts : List Tok) (s s' : St) (hp : s.prev.isSome = true) (h : run s ts = some s') : s'.prev.isSome = true := by
  induction ts generalizing s with
  | nil => simp [run] at h; subst h; exact hp
  | cons t ts ih =>
    simp only [run] at h
    cases hs : step s t with
    | none => simp [hs] at h
    | some s1 => simp only [hs] at h; exact ih s1 (step_prev s s1 t hp hs) h

/-- every bond event introduces an atom that exists -/
def EB (s : St) : Prop := ∀ e ∈ s.evs, ∀ i, isBondTo i e = true → i < s.atoms.length

theorem EB_init : EB St.init := by simp [EB, St.init]

theorem step_EB (s s' : St) (t : Tok) (hb : EB s) (h : step s t = some s') : EB s' := by
  obtain ⟨sa, se, sp, ss, sq, so⟩ := s
  simp only [EB] at hb
  cases t with
  | atom a =>
    simp only [step] at h; injection h with h; subst h
    intro e he i hi
    simp only [List.mem_append] at he
    rcases he with he | he
    · have := hb e he i hi; simp; omega
    · cases sp with
      | none => simp at he
      | some p => simp at he; subst he; simp [isBondTo] at hi; subst hi; simp
  | bond b => cases sp <;> cases sq <;> simp [step] at h; subst h; exact hb
  | lpar => cases sp <;> cases sq <;> simp [step] at h; subst h; exact hb
  | rpar => cases ss <;> cases sq <;> simp [step] at h; subst h; exact hb
  | ring l =>
    cases sp with
    | none => simp [step] at h
    | some p =>
      simp only [step] at h
      cases hl : lookupLabel l so with
      | none =>
        simp only [hl] at h; injection h with h; subst h
        intro e he i hi
        simp only [List.mem_append] at he
        rcases he with he | he
        · exact hb e he i hi
        · simp at he; subst he; simp [isBondTo] at hi
      | some v =>
        simp only [hl] at h; injection h with h; subst h
        intro e he i hi
        simp only [List.mem_append] at he
        rcases he with he | he
        · exact hb e he i hi
        · simp at he; subst he; simp [isBondTo] at hi

theorem run_EB (ts : List Tok) (s s' : St) (hb : EB s) (h : run s ts = some s') : EB s' := by
  induction ts generalizing s with
  | nil => simp [run] at h; subst h; exact hb
  | cons t ts ih =>
    simp only [run] at h
    cases hs : step s t with
    | none => simp [hs] at h
    | some s1 => simp only [hs] at h; exact ih s1 (step_EB s s1 t hb hs) h

/-! ### the graft lemma read at the level of molecules -/

def St.mol (s : St) : Mol := ⟨s.atoms, s.evs⟩

/-- A closed block: starts with an atom, runs on its own to a state with nothing open, and denotes `C`. -/
def BlockOK (block : List Tok) (C : Mol) : Prop :=
  ∃ c0 C' c, block = Tok.atom c0 :: C' ∧ run St.init block = some c ∧ c.stack = [] ∧ c.opens = [] ∧ c.pend = none ∧ c.mol = C

theorem findIdx_of_all_false {α} (p : α → Bool) (l : List α) (h : ∀ x ∈ l, p x = false) : l.findIdx p = l.length := by
  induction l with
  | nil => rfl
  | cons a as ih =>
    have ha := h a (by simp)
    simp [List.findIdx_cons, ha, ih (fun x hx => h x (by simp [hx]))]

theorem findIdx_append_hit {α} (p : α → Bool) (l : List α) (x : α) (r : List α) (h : ∀ y ∈ l, p y = false) (hx : p x = true) :
    (l ++ [x] ++ r).findIdx p = l.length := by
  induction l with
  | nil => simp [List.findIdx_cons, hx]
  | cons a as ih =>
    have ha := h a (by simp)
    simp only [List.cons_append, List.findIdx_cons, ha, cond_false]
    have := ih (fun y hy => h y (by simp [hy]))
    simp only [List.append_assoc, List.cons_append, List.nil_append] at this ⊢
    simp [this]

theorem idxOf_append_hit (a : Atom) (l r : List Atom) (h : a ∉ l) : (l ++ [a] ++ r).idxOf a = l.length := by
  induction l with
  | nil => simp [List.idxOf_cons]
  | cons b bs ih =>
    have hb : b ≠ a := fun e => h (by simp [e])
    have := ih (fun hm => h (by simp [hm]))
    simp only [List.cons_append, List.idxOf_cons]
    simp only [List.append_assoc, List.cons_append, List.nil_append] at this ⊢
    have hb' : (b == a) = false := by simpa using hb
    simp [hb', this]

theorem take_append_one {α} (l : List α) (x : α) (r : List α) : (l ++ [x] ++ r).take (l.length + 1) = l ++ [x] := by
  induction l with
  | nil => simp
  | cons a as ih => simpa using ih

theorem drop_append_one {α} (l : List α) (x : α) (r : List α) : (l ++ [x] ++ r).drop (l.length + 1) = r := by
  induction l with
  | nil => simp
  | cons a as ih => simpa using ih

theorem take_append_len {α} (l r : List α) : (l ++ r).take l.length = l := by simp

/-- **One splice, read as molecules.** If the marker `m` has a slot in `ts` and `block` is a closed block denoting `C`,
    then substituting the block for the marker gives a SMILES that denotes `graft` of `C` at the marker atom. -/
theorem splice_one (ts : List Tok) (A : St) (m : Atom) (block : List Tok) (C : Mol)
    (hA : run St.init ts = some A) (hs : Slot ts m (labelsOf block)) (hb : BlockOK block C) :
    ∃ B, run St.init (substTok m block ts) = some B ∧ B.closed = A.closed ∧
      B.mol = A.mol.graft (A.atoms.idxOf m) C := by
  obtain ⟨pre, post, S, p, hts, hm1, hm2, hleaf, hpre, hp, hlab⟩ := hs
  obtain ⟨c0, C', c, hblk, hc, hcs, hco, hcp, hC⟩ := hb
  subst hts hblk
  have hlab' : ∀ l ∈ labelsOf C', lookupLabel l S.opens = none := by
    intro l hl; exact hlab l (by simpa [labelsOf] using hl)
  obtain ⟨B, as, es, hB, ea, ee, fa, fe, fs, fo, fp⟩ :=
    graft pre post C' m c0 S A c p hpre hp hA hleaf hc ⟨hcs, hco, hcp⟩ hlab'
  refine ⟨B, ?_, ?_, ?_⟩
  · rw [substTok_split m _ pre post hm1 hm2]; exact hB
  · simp [St.closed, fs, fo, fp]
  · -- the marker atom is atom number |S.atoms| and the bond that introduces it is event number |S.evs|
    have hSa : S.atoms = atomsOf pre := by simpa [St.init] using run_atoms pre St.init S hpre
    have hmS : m ∉ S.atoms := by rw [hSa, mem_atomsOf]; exact hm1
    have hidx : A.atoms.idxOf m = S.atoms.length := by rw [ea]; exact idxOf_append_hit m S.atoms as hmS
    have hEB : EB S := run_EB pre St.init S EB_init hpre
    have hnone : ∀ e ∈ S.evs, isBondTo S.atoms.length e = false := by
      intro e he
      cases hbt : isBondTo S.atoms.length e with
      | false => rfl
      | true => exact absurd (hEB e he _ hbt) (Nat.lt_irrefl _)
    have hfind : A.evs.findIdx (isBondTo S.atoms.length) = S.evs.length := by
      rw [ee]; exact findIdx_append_hit _ S.evs _ es hnone (by simp [isBondTo])
    have hAa : A.atoms.take S.atoms.length = S.atoms := by rw [ea, List.append_assoc]; exact take_append_len _ _
    have hAd : A.atoms.drop (S.atoms.length + 1) = as := by rw [ea]; exact drop_append_one _ _ _
    have hEt : A.evs.take (S.evs.length + 1) = S.evs ++ [Ev.bond p S.atoms.length S.pend] := by
      rw [ee]; exact take_append_one _ _ _
    have hEd : A.evs.drop (S.evs.length + 1) = es := by rw [ee]; exact drop_append_one _ _ _
    have hCa : C.atoms = c.atoms := by rw [← hC]; rfl
    have hCe : C.evs = c.evs := by rw [← hC]; rfl
    simp only [St.mol, Mol.graft, hidx, hfind, hAa, hAd, hEt, hEd, hCa, hCe, fa, fe]

/-! ### the N-linkage block `N(` child without its first atom `)` -/

theorem ShapeList.refl (ts : List Tok) : ShapeList ts ts := by
  induction ts with
  | nil => exact ShapeList.nil
  | cons t ts ih => exact ShapeList.cons (Or.inl rfl) ih

/-- extra entries at the bottom of the branch stack are not looked at by a run that succeeds without them -/
theorem step_stackFrame (s s' : St) (t : Tok) (ex : List Nat) (h : step s t = some s') :
    step { s with stack := s.stack ++ ex } t = some { s' with stack := s'.stack ++ ex } := by
  obtain ⟨sa, se, sp, ss, sq, so⟩ := s
  cases t with
  | atom a => simp only [step] at h ⊢; injection h with h; subst h; rfl
  | bond b => cases sp <;> cases sq <;> simp [step] at h ⊢; subst h; simp
  | lpar => cases sp <;> cases sq <;> simp [step] at h ⊢; subst h; simp
  | rpar => cases ss <;> cases sq <;> simp [step] at h ⊢; subst h; simp
  | ring l =>
    cases sp with
    | none => simp [step] at h
    | some p =>
      simp only [step] at h ⊢
      cases hl : lookupLabel l so with
      | none => simp only [hl] at h ⊢; injection h with h; subst h; rfl
      | some v => simp only [hl] at h ⊢; injection h with h; subst h; rfl

theorem run_stackFrame (ts : List Tok) (s s' : St) (ex : List Nat) (h : run s ts = some s') :
    run { s with stack := s.stack ++ ex } ts = some { s' with stack := s'.stack ++ ex } := by
  induction ts generalizing s with
  | nil => simp only [run] at h ⊢; injection h with h; subst h; rfl
  | cons t ts ih =>
    simp only [run] at h ⊢
    cases hs : step s t with
    | none => simp [hs] at h
    | some s1 =>
      simp only [hs] at h
      rw [step_stackFrame s s1 t ex hs]
      exact ih s1 h

/-- If `c0 C'` is a closed block denoting `C`, then `N ( C' )` is a closed block denoting `C` with its first atom replaced by
    `N` (`nCap`): the same bond events, the same atom numbering. -/
theorem nblock (block : List Tok) (C : Mol) (hb : BlockOK block C) : BlockOK (blockOf true block) (nCap C) := by
  obtain ⟨c0, C', c, hblk, hc, hcs, hco, hcp, hC⟩ := hb
  subst hblk
  -- the block run on its own: first atom, then the rest
  simp only [run, step, St.init] at hc
  let s0 : St := ⟨[c0], [], some 0, [], none, []⟩
  let n0 : St := ⟨[['N']], [], some 0, [], none, []⟩
  have hc' : run s0 C' = some c := by simpa [s0] using hc
  have hsb : SameBonds s0 n0 := by simp [SameBonds, s0, n0]
  obtain ⟨c1, hc1, hb1⟩ := run_shape C' C' (ShapeList.refl C') s0 n0 c hsb hc'
  obtain ⟨e1, e2, e3, e4, e5, e6⟩ := hb1
  have hfr := run_stackFrame C' n0 c1 [0] hc1
  have ha : c.atoms = [c0] ++ atomsOf C' := by simpa [s0] using run_atoms C' s0 c hc'
  have ha1 : c1.atoms = [['N']] ++ atomsOf C' := by simpa [n0] using run_atoms C' n0 c1 hc1
  refine ⟨['N'], Tok.lpar :: (C' ++ [Tok.rpar]), { c1 with prev := some 0 }, ?_, ?_, ?_, ?_, ?_, ?_⟩
  · simp [blockOf]
  · simp only [blockOf, if_true, List.drop_one, List.tail_cons, run, step, St.init]
    have : ({ atoms := [] ++ [['N']], evs := [] ++ [], prev := some 0, stack := [], pend := none, opens := [] } : St) = n0 := by
      simp [n0]
    simp only [List.length_nil, this]
    have hn0 : ({ n0 with stack := 0 :: n0.stack } : St) = { n0 with stack := n0.stack ++ [0] } := by simp [n0]
    show run { n0 with stack := 0 :: n0.stack } (C' ++ [Tok.rpar]) = _
    rw [hn0, run_append, hfr]
    simp only [Option.bind_some, run, step, e3, hcs, e4, hcp, List.nil_append]
  · simp [e3, hcs]
  · simp [e5, hco]
  · simp [e4, hcp]
  · rw [← hC]
    simp [St.mol, nCap, e1, ha, ha1]

/-! ### a splice at one marker keeps the slots of the other markers -/

theorem leafPost_of_append_atom (a : List Tok) (x : Atom) (r : List Tok) (h : LeafPost (a ++ [Tok.atom x] ++ r)) :
    ∃ a', a = Tok.rpar :: a' := by
  cases a with
  | nil =>
    rcases h with h | ⟨q, h⟩
    · simp at h
    · simp at h
  | cons t a' =>
    rcases h with h | ⟨q, h⟩
    · simp at h
    · simp at h; exact ⟨a', by rw [h.1]⟩

theorem slot_preserved (ts : List Tok) (m m' : Atom) (L : List Nat) (block' : List Tok) (C' : Mol)
    (hne : m ≠ m') (hs : Slot ts m L) (hs' : Slot ts m' (labelsOf block')) (hb : BlockOK block' C')
    (hfree : Tok.atom m ∉ block') :
    Slot (substTok m' block' ts) m L := by
  obtain ⟨pre, post, S, p, hts, hm1, hm2, hleaf, hpre, hp, hlab⟩ := hs
  obtain ⟨pre', post', S', p', hts', hm1', hm2', hleaf', hpre', hp', hlab'⟩ := hs'
  have hneT : Tok.atom m ≠ Tok.atom m' := fun e => hne (by injection e)
  have heq : pre ++ ([Tok.atom m] ++ post) = pre' ++ ([Tok.atom m'] ++ post') := by
    rw [← List.append_assoc, ← List.append_assoc, ← hts, ← hts']
  rcases List.append_eq_append_iff.mp heq with ⟨a', e1, e2⟩ | ⟨c', e1, e2⟩
  · -- m' sits after m
    cases a' with
    | nil => simp at e2; exact absurd e2.1 hne
    | cons x a'' =>
      simp only [List.cons_append, List.nil_append, List.cons.injEq] at e2
      obtain ⟨hx, e2⟩ := e2
      subst hx
      -- post = a'' ++ [m'] ++ post'
      have hpost : post = a'' ++ [Tok.atom m'] ++ post' := by simpa using e2
      obtain ⟨a3, ha3⟩ := leafPost_of_append_atom a'' m' post' (hpost ▸ hleaf)
      have hm'a : Tok.atom m' ∉ a'' := by
        intro hm; apply hm1'; rw [e1]; simp [hm]
      have hm'pre : Tok.atom m' ∉ pre := by
        intro hm; apply hm1'; rw [e1]; simp [hm]
      have hnew : substTok m' block' ts = pre ++ [Tok.atom m] ++ (a'' ++ block' ++ post') := by
        rw [hts, hpost, substTok_append, substTok_append, substTok_id m' _ pre hm'pre, substTok_single,
          if_neg hneT, substTok_split m' _ a'' post' hm'a hm2']
      refine ⟨pre, a'' ++ block' ++ post', S, p, hnew, hm1, ?_, ?_, hpre, hp, hlab⟩
      · intro hm
        simp only [List.mem_append] at hm
        rcases hm with (hm | hm) | hm
        · exact hm2 (by rw [hpost]; simp [hm])
        · exact hfree hm
        · exact hm2 (by rw [hpost]; simp [hm])
      · exact Or.inr ⟨a3 ++ block' ++ post', by rw [ha3]; simp⟩
  · -- m' sits before m
    cases c' with
    | nil => simp at e2; exact absurd e2.1.symm hne
    | cons x c'' =>
      simp only [List.cons_append, List.nil_append, List.cons.injEq] at e2
      obtain ⟨hx, e2⟩ := e2
      subst hx
      have hpost' : post' = c'' ++ [Tok.atom m] ++ post := by simpa using e2
      have hpreq : pre = pre' ++ [Tok.atom m'] ++ c'' := by simpa using e1
      obtain ⟨c3, hc3⟩ := leafPost_of_append_atom c'' m post (hpost' ▸ hleaf')
      have hm'c : Tok.atom m' ∉ c'' := by
        intro hm; apply hm2'; rw [hpost']; simp [hm]
      have hm'post : Tok.atom m' ∉ post := by
        intro hm; apply hm2'; rw [hpost']; simp [hm]
      have hnew : substTok m' block' ts = (pre' ++ block' ++ c'') ++ [Tok.atom m] ++ post := by
        rw [hts, hpreq, substTok_append, substTok_append, substTok_split m' _ pre' c'' hm1' hm'c, substTok_single,
          if_neg hneT, substTok_id m' _ post hm'post]
      obtain ⟨c0, Cb, c, hblk, hc, hcs, hco, hcp, _⟩ := hb
      subst hblk
      have hlabb : ∀ l ∈ labelsOf Cb, lookupLabel l S'.opens = none := by
        intro l hl; exact hlab' l (by simpa [labelsOf] using hl)
      have hA : run St.init (pre' ++ [Tok.atom m'] ++ c'') = some S := by rw [← hpreq]; exact hpre
      obtain ⟨B, as, es, hB, _, _, _, _, _, fo, _⟩ :=
        graft pre' c'' Cb m' c0 S' S c p' hpre' hp' hA (Or.inr ⟨c3, hc3⟩) hc ⟨hcs, hco, hcp⟩ hlabb
      have hBprev : B.prev.isSome = true := by
        rw [List.append_assoc, run_append, hpre'] at hB
        simp only [Option.bind_some] at hB
        exact run_prev _ S' B (by simp [hp']) hB
      obtain ⟨q, hq⟩ := Option.isSome_iff_exists.mp hBprev
      refine ⟨pre' ++ (Tok.atom c0 :: Cb) ++ c'', post, B, q, hnew, ?_, hm2, hleaf, hB, hq, ?_⟩
      · intro hm
        simp only [List.mem_append] at hm
        rcases hm with (hm | hm) | hm
        · exact hm1 (by rw [hpreq]; simp [hm])
        · exact hfree hm
        · exact hm1 (by rw [hpreq]; simp [hm])
      · intro l hl
        rw [fo, lookupLabel_map, hlab l hl]; rfl

/-! ### the loop over the children of one residue -/

def substAll : List (Atom × List Tok) → List Tok → List Tok
  | [], ts => ts
  | (m, b) :: rest, ts => substAll rest (substTok m b ts)

def graftAll : List (Atom × Mol) → Mol → Mol
  | [], P => P
  | (m, C) :: rest, P => graftAll rest (P.graft (P.atoms.idxOf m) C)

theorem mem_substTok (m : Atom) (b ts : List Tok) (t : Tok) (h : t ∈ substTok m b ts) : (t ∈ ts ∧ t ≠ Tok.atom m) ∨ t ∈ b := by
  simp only [substTok, List.mem_flatMap] at h
  obtain ⟨x, hx, ht⟩ := h
  by_cases hxm : x = Tok.atom m
  · simp only [hxm, if_true] at ht; exact Or.inr ht
  · simp only [hxm, if_false, List.mem_singleton] at ht; subst ht; exact Or.inl ⟨hx, hxm⟩

theorem slot_head (ts : List Tok) (m : Atom) (L : List Nat) (b : List Tok) (hs : Slot ts m L) (h : startsWithAtom ts = true) :
    startsWithAtom (substTok m b ts) = true := by
  obtain ⟨pre, post, S, p, hts, hm1, hm2, _, hpre, hp, _⟩ := hs
  cases pre with
  | nil => simp [run, St.init] at hpre; subst hpre; simp at hp
  | cons x pre' =>
    rw [hts, substTok_split m b _ post hm1 hm2]
    rw [hts] at h
    cases x <;> simp [startsWithAtom] at h ⊢

/-- **All children of one residue.** Every child's marker has a slot in the residue's string, the markers are pairwise
    different, every block is a closed block free of marker atoms: then substituting all of them – in any order in which
    the list is given – yields a SMILES denoting the residue's molecule with every child grafted at its marker, and no
    marker atom is left. -/
theorem loop (isMk : Atom → Bool) (items : List (Atom × List Tok × Mol)) :
    ∀ (ts : List Tok) (A : St), run St.init ts = some A →
    (∀ it ∈ items, Slot ts it.1 (labelsOf it.2.1)) →
    (items.map (·.1)).Pairwise (· ≠ ·) →
    (∀ it ∈ items, isMk it.1 = true) →
    (∀ it ∈ items, ∀ a, isMk a = true → Tok.atom a ∉ it.2.1) →
    (∀ it ∈ items, BlockOK it.2.1 it.2.2) →
    (∀ a, isMk a = true → Tok.atom a ∈ ts → a ∈ items.map (·.1)) →
    startsWithAtom ts = true →
    ∃ B, run St.init (substAll (items.map fun it => (it.1, it.2.1)) ts) = some B ∧ B.closed = A.closed ∧
      B.mol = graftAll (items.map fun it => (it.1, it.2.2)) A.mol ∧
      (∀ a, isMk a = true → Tok.atom a ∉ substAll (items.map fun it => (it.1, it.2.1)) ts) ∧
      startsWithAtom (substAll (items.map fun it => (it.1, it.2.1)) ts) = true := by
  induction items with
  | nil =>
    intro ts A hA _ _ _ _ _ hmk hst
    refine ⟨A, by simpa [substAll] using hA, rfl, by simp [graftAll], ?_, by simpa [substAll] using hst⟩
    intro a ha hm
    have := hmk a ha (by simpa [substAll] using hm)
    simp at this
  | cons it rest ih =>
    obtain ⟨m, b, C⟩ := it
    intro ts A hA hslots hpw hismk hfree hblocks hmk hst
    have hslot := hslots (m, b, C) (by simp)
    have hblk := hblocks (m, b, C) (by simp)
    obtain ⟨B1, hB1, hcl1, hmol1⟩ := splice_one ts A m b C hA hslot hblk
    simp only [List.map_cons, List.pairwise_cons] at hpw
    obtain ⟨hne, hpw'⟩ := hpw
    have hmfree : ∀ it' ∈ rest, Tok.atom it'.1 ∉ b := by
      intro it' hit'
      exact hfree (m, b, C) (by simp) it'.1 (hismk it' (by simp [hit']))
    have := ih (substTok m b ts) B1 hB1
      (by
        intro it' hit'
        have hne' : it'.1 ≠ m := fun e => hne it'.1 (List.mem_map.mpr ⟨it', hit', rfl⟩) e.symm
        exact slot_preserved ts it'.1 m _ b C hne' (hslots it' (by simp [hit'])) hslot hblk (hmfree it' hit'))
      hpw'
      (fun it' hit' => hismk it' (by simp [hit']))
      (fun it' hit' => hfree it' (by simp [hit']))
      (fun it' hit' => hblocks it' (by simp [hit']))
      (by
        intro a ha hmem
        rcases mem_substTok m b ts _ hmem with ⟨h1, h2⟩ | h1
        · have := hmk a ha h1
          simp only [List.map_cons, List.mem_cons] at this
          rcases this with rfl | this
          · exact absurd rfl h2
          · exact this
        · exact absurd h1 (hfree (m, b, C) (by simp) a ha))
      (slot_head ts m _ b hslot hst)
    obtain ⟨B, hB, hcl, hmol, hnomk, hst'⟩ := this
    refine ⟨B, by simpa [substAll] using hB, by rw [hcl, hcl1], ?_, by simpa [substAll] using hnomk, by simpa [substAll] using hst'⟩
    simp only [List.map_cons, graftAll]
    rw [hmol, hmol1]; rfl

end Gly.Smi
