import GlyProofs.Smiles.Graft
import GlyProofs.Smiles.Shape
/-
  Lemmas for the whole-tree assembly theorem: token substitution, slots, the Mol-level reading of the graft lemma,
  the N-linkage block, preservation of slots under splices at other markers, the loop over the children of a residue.
-/
namespace Gly.Smi

/-! ### token substitution -/

theorem substTok_append (m : Atom) (b : List Tok) (x y : List Tok) :
    substTok m b (x ++ y) = substTok m b x ++ substTok m b y := by
  simp [substTok, List.flatMap_append]

theorem substTok_id (m : Atom) (b ts : List Tok) (h : Tok.atom m ∉ ts) : substTok m b ts = ts := by
  induction ts with
  | nil => rfl
  | cons t ts ih =>
    have ht : t ≠ Tok.atom m := fun e => h (by simp [e])
    have : substTok m b (t :: ts) = t :: substTok m b ts := by simp [substTok, ht]
    rw [this, ih (fun hm => h (by simp [hm]))]

theorem substTok_single (m : Atom) (b : List Tok) (x : Tok) :
    substTok m b [x] = if x = Tok.atom m then b else [x] := by
  simp [substTok]

theorem substTok_split (m : Atom) (b pre post : List Tok) (h1 : Tok.atom m ∉ pre) (h2 : Tok.atom m ∉ post) :
    substTok m b (pre ++ [Tok.atom m] ++ post) = pre ++ b ++ post := by
  rw [substTok_append, substTok_append, substTok_id m b pre h1, substTok_id m b post h2, substTok_single, if_pos rfl]

theorem mem_atomsOf (a : Atom) (ts : List Tok) : a ∈ atomsOf ts ↔ Tok.atom a ∈ ts := by
  induction ts with
  | nil => simp [atomsOf]
  | cons t ts ih =>
    cases t <;> simp [atomsOf, ih]

theorem atomsOf_append (x y : List Tok) : atomsOf (x ++ y) = atomsOf x ++ atomsOf y := by
  induction x with
  | nil => simp [atomsOf]
  | cons t ts ih => cases t <;> simp [atomsOf, ih]

theorem labelsOf_append (x y : List Tok) : labelsOf (x ++ y) = labelsOf x ++ labelsOf y := by
  induction x with
  | nil => simp [labelsOf]
  | cons t ts ih => cases t <;> simp [labelsOf, ih]

/-! ### slots -/

def LeafPost (post : List Tok) : Prop := post = [] ∨ ∃ post', post = Tok.rpar :: post'

/-- The marker `m` sits exactly once in `ts`, on a leaf atom that has a parent atom, and no label of `L` is open there. -/
def Slot (ts : List Tok) (m : Atom) (L : List Nat) : Prop :=
  ∃ pre post S p, ts = pre ++ [Tok.atom m] ++ post ∧ Tok.atom m ∉ pre ∧ Tok.atom m ∉ post ∧ LeafPost post ∧
    run St.init pre = some S ∧ S.prev = some p ∧ ∀ l ∈ L, lookupLabel l S.opens = none

theorem isLeafPost_spec (post : List Tok) (h : isLeafPost post = true) : LeafPost post := by
  cases post with
  | nil => exact Or.inl rfl
  | cons t ts => cases t <;> simp [isLeafPost] at h; exact Or.inr ⟨ts, rfl⟩

theorem mem_takeWhile_true {α} (p : α → Bool) (l : List α) (y : α) (h : y ∈ l.takeWhile p) : p y = true := by
  induction l with
  | nil => simp at h
  | cons a as ih =>
    simp only [List.takeWhile_cons] at h
    by_cases ha : p a = true
    · simp only [ha, if_true] at h
      rcases List.mem_cons.mp h with rfl | h
      · exact ha
      · exact ih h
    · simp [ha] at h

theorem takeWhile_dropWhile_split {α} (p : α → Bool) (l : List α) (x : α) (rest : List α)
    (h : l.dropWhile p = x :: rest) : l = l.takeWhile p ++ [x] ++ rest ∧ p x = false ∧ ∀ y ∈ l.takeWhile p, p y = true := by
  refine ⟨?_, ?_, ?_⟩
  · have := List.takeWhile_append_dropWhile (p := p) (l := l)
    rw [h] at this; simp [this]
  · induction l with
    | nil => simp at h
    | cons a as ih =>
      simp only [List.dropWhile_cons] at h
      by_cases ha : p a = true
      · simp only [ha, if_true] at h; exact ih h
      · simp only [ha] at h
        simp at h
        obtain ⟨rfl, _⟩ := h
        simpa using ha
  · intro y hy; exact mem_takeWhile_true p l y hy

theorem slotOK_spec (ts : List Tok) (m : Atom) (L : List Nat) (h : slotOK ts m L = true) : Slot ts m L := by
  unfold slotOK at h
  cases hd : ts.dropWhile (· != Tok.atom m) with
  | nil => simp [hd] at h
  | cons x post =>
    simp only [hd] at h
    obtain ⟨hsplit, hx, hpre⟩ := takeWhile_dropWhile_split _ ts x post hd
    have hxm : x = Tok.atom m := by simpa using hx
    subst hxm
    cases hr : run St.init (ts.takeWhile (· != Tok.atom m)) with
    | none => simp [hr] at h
    | some S =>
      simp only [hr, Bool.and_eq_true, Bool.not_eq_true', List.all_eq_true, Option.isNone_iff_eq_none] at h
      obtain ⟨⟨hnc, hleaf⟩, hprev, hlab⟩ := h
      obtain ⟨p, hp⟩ := Option.isSome_iff_exists.mp hprev
      refine ⟨_, post, S, p, hsplit, ?_, ?_, isLeafPost_spec post hleaf, hr, hp, hlab⟩
      · intro hm; have := hpre _ hm; simp at this
      · intro hm; rw [List.contains_iff_mem.mpr hm] at hnc; simp at hnc

/-! ### invariants of runs -/

theorem step_prev (s s' : St) (t : Tok) (hp : s.prev.isSome = true) (h : step s t = some s') : s'.prev.isSome = true := by
  obtain ⟨sa, se, sp, ss, sq, so⟩ := s
  cases t with
  | atom a => simp [step] at h; subst h; rfl
  | bond b => cases sp <;> cases sq <;> simp [step] at h; subst h; rfl
  | lpar => cases sp <;> cases sq <;> simp [step] at h; subst h; rfl
  | rpar => cases ss <;> cases sq <;> simp [step] at h; subst h; rfl
  | ring l =>
    cases sp with
    | none => simp [step] at h
    | some p =>
      simp only [step] at h
      cases hl : lookupLabel l so with
      | none => simp only [hl] at h; injection h with h; subst h; rfl
      | some v => simp only [hl] at h; injection h with h; subst h; rfl

theorem run_prev (ts : List Tok) (s s' : St) (hp : s.prev.isSome = true) (h : run s ts = some s') : s'.prev.isSome = true := by
  induction ts generalizing s with
  | nil => simp [run] at h; subst h; exact hp
  | cons t ts ih =>
    simp only [run] at h
    cases hs : step s t with
    | none => simp [hs] at h
    | some s1 => simp only [hs] at h; exact ih s1 (step_prev s s1 t hp hs) h

/-- every bond event introduces an atom that exists -/
def EB (s : St) : Prop := ∀ e ∈ s.evs, ∀ i, isBondTo i e = true → i < s.atoms.length

theorem EB_init : EB St.init := by simp [EB, St.init]

theorem step_EB (s s' : St) (t : Tok) (hb : EB s) (h : step s t = some s') : EB s' := by
  obtain ⟨sa, se, sp, ss, sq, so⟩ := s
  simp only [EB] at hb
  cases t with
  | atom a =>
    simp only [step] at h; injection h with h; subst h
    intro e he i hi
    simp only [List.mem_append] at he
    rcases he with he | he
    · have := hb e he i hi; simp; omega
    · cases sp with
      | none => simp at he
      | some p => simp at he; subst he; simp [isBondTo] at hi; subst hi; simp
  | bond b => cases sp <;> cases sq <;> simp [step] at h; subst h; exact hb
  | lpar => cases sp <;> cases sq <;> simp [step] at h; subst h; exact hb
  | rpar => cases ss <;> cases sq <;> simp [step] at h; subst h; exact hb
  | ring l =>
    cases sp with
    | none => simp [step] at h
    | some p =>
      simp only [step] at h
      cases hl : lookupLabel l so with
      | none =>
        simp only [hl] at h; injection h with h; subst h
        intro e he i hi
        simp only [List.mem_append] at he
        rcases he with he | he
        · exact hb e he i hi
        · simp at he; subst he; simp [isBondTo] at hi
      | some v =>
        simp only [hl] at h; injection h with h; subst h
        intro e he i hi
        simp only [List.mem_append] at he
        rcases he with he | he
        · exact hb e he i hi
        · simp at he; subst he; simp [isBondTo] at hi

theorem run_EB (ts : List Tok) (s s' : St) (hb : EB s) (h : run s ts = some s') : EB s' := by
  induction ts generalizing s with
  | nil => simp [run] at h; subst h; exact hb
  | cons t ts ih =>
    simp only [run] at h
    cases hs : step s t with
    | none => simp [hs] at h
    | some s1 => simp only [hs] at h; exact ih s1 (step_EB s s1 t hb hs) h

/-! ### the graft lemma read at the level of molecules -/

def St.mol (s : St) : Mol := ⟨s.atoms, s.evs⟩

/-- A closed block: starts with an atom, runs on its own to a state with nothing open, and denotes `C`. -/
def BlockOK (block : List Tok) (C : Mol) : Prop :=
  ∃ c0 C' c, block = Tok.atom c0 :: C' ∧ run St.init block = some c ∧ c.stack = [] ∧ c.opens = [] ∧ c.pend = none ∧ c.mol = C

theorem findIdx_of_all_false {α} (p : α → Bool) (l : List α) (h : ∀ x ∈ l, p x = false) : l.findIdx p = l.length := by
  induction l with
  | nil => rfl
  | cons a as ih =>
    have ha := h a (by simp)
    simp [List.findIdx_cons, ha, ih (fun x hx => h x (by simp [hx]))]

theorem findIdx_append_hit {α} (p : α → Bool) (l : List α) (x : α) (r : List α) (h : ∀ y ∈ l, p y = false) (hx : p x = true) :
    (l ++ [x] ++ r).findIdx p = l.length := by
  induction l with
  | nil => simp [List.findIdx_cons, hx]
  | cons a as ih =>
    have ha := h a (by simp)
    simp only [List.cons_append, List.findIdx_cons, ha, cond_false]
    have := ih (fun y hy => h y (by simp [hy]))
    simp only [List.append_assoc, List.cons_append, List.nil_append] at this ⊢
    simp [this]

theorem idxOf_append_hit (a : Atom) (l r : List Atom) (h : a ∉ l) : (l ++ [a] ++ r).idxOf a = l.length := by
  induction l with
  | nil => simp [List.idxOf_cons]
  | cons b bs ih =>
    have hb : b ≠ a := fun e => h (by simp [e])
    have := ih (fun hm => h (by simp [hm]))
    simp only [List.cons_append, List.idxOf_cons]
    simp only [List.append_assoc, List.cons_append, List.nil_append] at this ⊢
    have hb' : (b == a) = false := by simpa using hb
    simp [hb', this]

theorem take_append_one {α} (l : List α) (x : α) (r : List α) : (l ++ [x] ++ r).take (l.length + 1) = l ++ [x] := by
  induction l with
  | nil => simp
  | cons a as ih => simpa using ih

theorem drop_append_one {α} (l : List α) (x : α) (r : List α) : (l ++ [x] ++ r).drop (l.length + 1) = r := by
  induction l with
  | nil => simp
  | cons a as ih => simpa using ih

theorem take_append_len {α} (l r : List α) : (l ++ r).take l.length = l := by simp

/-- **One splice, read as molecules.** If the marker `m` has a slot in `ts` and `block` is a closed block denoting `C`,
    then substituting the block for the marker gives a SMILES that denotes `graft` of `C` at the marker atom. -/
theorem splice_one (ts : List Tok) (A : St) (m : Atom) (block : List Tok) (C : Mol)
    (hA : run St.init ts = some A) (hs : Slot ts m (labelsOf block)) (hb : BlockOK block C) :
    ∃ B, run St.init (substTok m block ts) = some B ∧ B.closed = A.closed ∧
      B.mol = A.mol.graft (A.atoms.idxOf m) C := by
  obtain ⟨pre, post, S, p, hts, hm1, hm2, hleaf, hpre, hp, hlab⟩ := hs
  obtain ⟨c0, C', c, hblk, hc, hcs, hco, hcp, hC⟩ := hb
  subst hts hblk
  have hlab' : ∀ l ∈ labelsOf C', lookupLabel l S.opens = none := by
    intro l hl; exact hlab l (by simpa [labelsOf] using hl)
  obtain ⟨B, as, es, hB, ea, ee, fa, fe, fs, fo, fp⟩ :=
    graft pre post C' m c0 S A c p hpre hp hA hleaf hc ⟨hcs, hco, hcp⟩ hlab'
  refine ⟨B, ?_, ?_, ?_⟩
  · rw [substTok_split m _ pre post hm1 hm2]; exact hB
  · simp [St.closed, fs, fo, fp]
  · -- the marker atom is atom number |S.atoms| and the bond that introduces it is event number |S.evs|
    have hSa : S.atoms = atomsOf pre := by simpa [St.init] using run_atoms pre St.init S hpre
    have hmS : m ∉ S.atoms := by rw [hSa, mem_atomsOf]; exact hm1
    have hidx : A.atoms.idxOf m = S.atoms.length := by rw [ea]; exact idxOf_append_hit m S.atoms as hmS
    have hEB : EB S := run_EB pre St.init S EB_init hpre
    have hnone : ∀ e ∈ S.evs, isBondTo S.atoms.length e = false := by
      intro e he
      cases hbt : isBondTo S.atoms.length e with
      | false => rfl
      | true => exact absurd (hEB e he _ hbt) (Nat.lt_irrefl _)
    have hfind : A.evs.findIdx (isBondTo S.atoms.length) = S.evs.length := by
      rw [ee]; exact findIdx_append_hit _ S.evs _ es hnone (by simp [isBondTo])
    have hAa : A.atoms.take S.atoms.length = S.atoms := by rw [ea, List.append_assoc]; exact take_append_len _ _
    have hAd : A.atoms.drop (S.atoms.length + 1) = as := by rw [ea]; exact drop_append_one _ _ _
    have hEt : A.evs.take (S.evs.length + 1) = S.evs ++ [Ev.bond p S.atoms.length S.pend] := by
      rw [ee]; exact take_append_one _ _ _
    have hEd : A.evs.drop (S.evs.length + 1) = es := by rw [ee]; exact drop_append_one _ _ _
    have hCa : C.atoms = c.atoms := by rw [← hC]; rfl
    have hCe : C.evs = c.evs := by rw [← hC]; rfl
    simp only [St.mol, Mol.graft, hidx, hfind, hAa, hAd, hEt, hEd, hCa, hCe, fa, fe]

end Gly.Smi
