import GlyModel.Poly.Plan
import GlyProofs.Front.TreeShape
/-
  The Model of `Merger.mark` / `Merger.merge_int` (recursion over the edge list of the walked tree) refines the structural
  Spec over the written forest, for every forest and every traversal instance.
-/
namespace Gly.Plan
open Gly

variable {α : Type}

/-! ### the walker's edges are `edgesGF` -/

theorem addNodeEdge_exact (w : WalkCfg) (p : Nat) (n : Recipe) (l : ConStr) (st : WState) (hp : p < st.nodes.length) :
    (addNodeEdge w p n l st).1 = st.nodes.length ∧
    (addNodeEdge w p n l st).2.nodes = st.nodes ++ [n] ∧
    (addNodeEdge w p n l st).2.edges = st.edges ++ [(p, st.nodes.length, normLabel w n l)] := by
  have hne : (p == st.nodes.length) = false := by simp; omega
  simp [addNodeEdge, addNode, addEdge, hne]

theorem preNames_length (G : GF) : (preNames G).length = G.size := by
  induction G with
  | nil => rfl
  | cons _ _ _ _ a b => simp [preNames, GF.size, a, b]; omega

theorem flatten_edges (w : WalkCfg) (F : GF) : ∀ (p : Nat) (st : WState), p < st.nodes.length →
    (flattenOnto w F p st).nodes = st.nodes ++ preNames F ∧
    (flattenOnto w F p st).edges = st.edges ++ edgesGF w F p st.nodes.length := by
  induction F with
  | nil => intro p st _; simp [flattenOnto, preNames, edgesGF]
  | cons l n kids rest ihk ihr =>
    intro p st hp
    obtain ⟨hid, hn, he⟩ := addNodeEdge_exact w p n l st hp
    simp only [flattenOnto]
    generalize hst1 : addNodeEdge w p n l st = r1 at hid hn he
    obtain ⟨id, st1⟩ := r1
    simp only at hid hn he
    subst hid
    have hlen1 : st1.nodes.length = st.nodes.length + 1 := by rw [hn]; simp
    obtain ⟨hkn, hke⟩ := ihk st.nodes.length st1 (by omega)
    have hlen2 : (flattenOnto w kids st.nodes.length st1).nodes.length = st.nodes.length + 1 + kids.size := by
      rw [hkn, hn]; simp [List.length_append, preNames_length]; omega
    obtain ⟨hrn, hre⟩ := ihr p (flattenOnto w kids st.nodes.length st1) (by omega)
    refine ⟨?_, ?_⟩
    · rw [hrn, hkn, hn]; simp [preNames]
    · rw [hre, hke, he, hlen1, hlen2]; simp [edgesGF]

/-! ### where the edges of a forest point -/

theorem edges_range (w : WalkCfg) (F : GF) : ∀ (p n : Nat) (e : Edge), e ∈ edgesGF w F p n →
    (e.1 = p ∨ (n ≤ e.1 ∧ e.1 < n + F.size)) ∧ n ≤ e.2.1 ∧ e.2.1 < n + F.size := by
  induction F with
  | nil => intro p n e h; simp [edgesGF] at h
  | cons l nm kids rest ihk ihr =>
    intro p n e h
    simp only [edgesGF, List.mem_cons, List.mem_append] at h
    simp only [GF.size]
    rcases h with rfl | h | h
    · exact ⟨Or.inl rfl, by simp, by simp; omega⟩
    · obtain ⟨a, b, c⟩ := ihk n (n + 1) e h
      refine ⟨Or.inr ?_, by omega, by omega⟩
      rcases a with a | a <;> omega
    · obtain ⟨a, b, c⟩ := ihr p (n + 1 + kids.size) e h
      refine ⟨?_, by omega, by omega⟩
      rcases a with a | a
      · exact Or.inl a
      · exact Or.inr (by omega)

theorem filter_none {β : Type} (q : β → Bool) (l : List β) (h : ∀ x ∈ l, q x = false) : l.filter q = [] := by
  induction l with
  | nil => rfl
  | cons x xs ih =>
    have hx := h x (by simp)
    simp only [List.filter_cons, hx]
    simpa using ih (fun y hy => h y (by simp [hy]))

/-- the edges of a forest that leave the node it hangs on are its top-level edges -/
theorem filter_parent (w : WalkCfg) (F : GF) : ∀ (p n : Nat), p < n →
    (edgesGF w F p n).filter (fun e => e.1 == p) = rootEdges w F p n := by
  induction F with
  | nil => intro p n _; simp [edgesGF, rootEdges]
  | cons l nm kids rest _ ihr =>
    intro p n hpn
    simp only [edgesGF, rootEdges, List.filter_cons, List.filter_append, beq_self_eq_true, if_true]
    congr 1
    rw [filter_none _ (edgesGF w kids n (n + 1)), ihr p _ (by omega)]
    · simp
    · intro e he
      obtain ⟨a, _, _⟩ := edges_range w kids n (n + 1) e he
      simp; rcases a with a | a <;> omega

/-- inside the first tree of a forest only that tree's own edges leave a node -/
theorem filter_in_kids (w : WalkCfg) (l : ConStr) (nm : Recipe) (kids rest : GF) (p n x : Nat) (hpn : p < n)
    (hx : n ≤ x) (hx' : x < n + 1 + kids.size) :
    (edgesGF w (.cons l nm kids rest) p n).filter (fun e => e.1 == x) =
      (edgesGF w kids n (n + 1)).filter (fun e => e.1 == x) := by
  simp only [edgesGF, List.filter_cons, List.filter_append]
  have h1 : (p == x) = false := by simp; omega
  rw [h1, filter_none _ (edgesGF w rest p (n + 1 + kids.size))]
  · simp
  · intro e he
    obtain ⟨a, _, _⟩ := edges_range w rest p _ e he
    simp; rcases a with a | a <;> omega

theorem filter_in_rest (w : WalkCfg) (l : ConStr) (nm : Recipe) (kids rest : GF) (p n x : Nat) (hpn : p < n)
    (hx : n + 1 + kids.size ≤ x) :
    (edgesGF w (.cons l nm kids rest) p n).filter (fun e => e.1 == x) =
      (edgesGF w rest p (n + 1 + kids.size)).filter (fun e => e.1 == x) := by
  simp only [edgesGF, List.filter_cons, List.filter_append]
  have h1 : (p == x) = false := by simp; omega
  rw [h1, filter_none _ (edgesGF w kids n (n + 1))]
  · simp
  · intro e he
    obtain ⟨a, _, _⟩ := edges_range w kids n (n + 1) e he
    simp; rcases a with a | a <;> omega

theorem rootEdges_length (w : WalkCfg) (F : GF) : ∀ p n, (rootEdges w F p n).length = F.width := by
  induction F with
  | nil => intro p n; rfl
  | cons l nm kids rest _ ihr => intro p n; simp [rootEdges, GF.width, ihr]; omega

/-! ### the structural plan -/

/-- the Spec written as the recursion it abbreviates -/
def specRec (T : Trav α) (w : WalkCfg) : GF → Nat → Nat → Nat → α → Option (List Call)
  | .nil, _, _, _, _ => some []
  | .cons l nm kids rest, p, n, k, a =>
    (T.edge p n (normLabel w nm l) k a).bind fun e =>
    ((specRec T w kids n (n + 1) 0 (T.down p a)).map (T.pre n (normLabel w nm l) (T.down p a) ++ ·)).bind fun sub =>
    (specRec T w rest p (n + 1 + kids.size) (k + 1) a).bind fun more =>
    some (e ++ sub ++ more)

theorem traverse_append {β γ : Type} (f : β → Option γ) (xs ys : List β) :
    traverse f (xs ++ ys) = (traverse f xs).bind fun a => (traverse f ys).bind fun b => some (a ++ b) := by
  induction xs with
  | nil => simp [traverse]
  | cons x xs ih =>
    simp only [List.cons_append, traverse, ih]
    cases f x <;> simp
    cases traverse f xs <;> simp
    cases traverse f ys <;> simp

theorem specRec_eq_specPlan (T : Trav α) (w : WalkCfg) (F : GF) : ∀ (p n k : Nat) (a : α),
    specRec T w F p n k a = specPlan T w F p n k a := by
  induction F with
  | nil => intro p n k a; simp [specRec, specPlan, linkages, traverse]
  | cons l nm kids rest ihk ihr =>
    intro p n k a
    simp only [specRec, ihk, ihr]
    simp only [specPlan, linkages, traverse, traverse_append, perLinkage]
    cases T.edge p n (normLabel w nm l) k a <;> simp
    cases traverse (perLinkage T) (linkages T.down w kids n (n + 1) 0 (T.down p a)) <;> simp
    cases traverse (perLinkage T) (linkages T.down w rest p (n + 1 + kids.size) (k + 1) a) <;> simp

/-! ### refinement -/

/-- **The loop over the children of `p` refines the Spec**, for every global edge list `E` that agrees with the forest's own
    edges on the forest's nodes. -/
theorem kidsLoop_refines (T : Trav α) (w : WalkCfg) (E : List Edge) (m : Nat)
    (hs : m ≤ T.slots) (hl : ∀ l, T.limit = some l → m ≤ l) (F : GF) :
    ∀ (f p n k : Nat) (a : α), p < n → F.size ≤ f → F.widthOK m = true →
      (∀ x, n ≤ x → x < n + F.size → E.filter (fun e => e.1 == x) = (edgesGF w F p n).filter (fun e => e.1 == x)) →
      kidsLoop T (go T E f) p a (rootEdges w F p n) k = specRec T w F p n k a := by
  induction F with
  | nil => intro f p n k a _ _ _ _; simp [rootEdges, kidsLoop, specRec]
  | cons l nm kids rest ihk ihr =>
    intro f p n k a hpn hf hw hE
    simp only [GF.size] at hf hE
    simp only [GF.widthOK, Bool.and_eq_true, decide_eq_true_eq] at hw
    obtain ⟨⟨hwk, hwk'⟩, hwr⟩ := hw
    obtain ⟨f', rfl⟩ : ∃ f', f = f' + 1 := ⟨f - 1, by omega⟩
    -- the recursive call on the first tree's root
    have hgo : go T E (f' + 1) n (normLabel w nm l) (T.down p a) =
        (specRec T w kids n (n + 1) 0 (T.down p a)).map (T.pre n (normLabel w nm l) (T.down p a) ++ ·) := by
      have hch : E.filter (fun e => e.1 == n) = rootEdges w kids n (n + 1) := by
        rw [hE n (by omega) (by omega), filter_in_kids w l nm kids rest p n n hpn (by omega) (by omega),
          filter_parent w kids n (n + 1) (by omega)]
      simp only [go, hch]
      cases hk : kids with
      | nil => simp [rootEdges, specRec]
      | cons l2 nm2 k2 r2 =>
        have hne : (rootEdges w (GF.cons l2 nm2 k2 r2) n (n + 1)).isEmpty = false := by simp [rootEdges]
        have hlen : (rootEdges w (GF.cons l2 nm2 k2 r2) n (n + 1)).length ≤ m := by
          rw [rootEdges_length, ← hk]; exact hwk
        have hlim : overLimit T.limit (rootEdges w (GF.cons l2 nm2 k2 r2) n (n + 1)).length = false := by
          unfold overLimit
          cases hlm : T.limit with
          | none => rfl
          | some lim => have := hl lim hlm; simp; omega
        rw [hne, hlim, List.take_of_length_le (by omega)]
        simp only [Bool.false_eq_true, if_false]
        rw [← hk]
        rw [ihk f' n (n + 1) 0 (T.down p a) (by omega) (by omega) hwk']
        intro x hx hx'
        rw [hE x (by omega) (by omega), filter_in_kids w l nm kids rest p n x hpn (by omega) (by omega)]
    have hrest := ihr (f' + 1) p (n + 1 + kids.size) (k + 1) a (by omega) (by omega) hwr (by
      intro x hx hx'
      rw [hE x (by omega) (by omega), filter_in_rest w l nm kids rest p n x hpn hx])
    simp only [rootEdges, kidsLoop, specRec, hgo, hrest]

/-- **Whole glycan**: on the edge list the walker produces for a root residue with the forest `F` written to its left, the Model
    of `Merger.mark` / `merge_int`, started at node 0, issues exactly the Spec's calls – when no residue has more than `m`
    children (`m` at most the number of marker pairs and the branching limit). -/
theorem go_refines (T : Trav α) (w : WalkCfg) (F : GF) (st : WState) (hst : st.nodes.length = 1) (hse : st.edges = [])
    (m : Nat) (hs : m ≤ T.slots) (hl : ∀ l, T.limit = some l → m ≤ l) (hw0 : F.width ≤ m) (hw : F.widthOK m = true)
    (f : Nat) (hf : F.size < f) (pe : List Char) (a : α) :
    go T (flattenOnto w F 0 st).edges f 0 pe a = specWhole T w F pe a := by
  obtain ⟨_, he⟩ := flatten_edges w F 0 st (by omega)
  rw [he, hse, hst, List.nil_append]
  obtain ⟨f', rfl⟩ : ∃ f', f = f' + 1 := ⟨f - 1, by omega⟩
  have hch : (edgesGF w F 0 1).filter (fun e => e.1 == 0) = rootEdges w F 0 1 := filter_parent w F 0 1 (by omega)
  simp only [go, hch, specWhole, ← specRec_eq_specPlan]
  cases hF : F with
  | nil => simp [rootEdges, specRec]
  | cons l2 nm2 k2 r2 =>
    have hne : (rootEdges w (GF.cons l2 nm2 k2 r2) 0 1).isEmpty = false := by simp [rootEdges]
    have hlim : overLimit T.limit (rootEdges w (GF.cons l2 nm2 k2 r2) 0 1).length = false := by
      rw [rootEdges_length, ← hF]
      unfold overLimit
      cases hlm : T.limit with
      | none => rfl
      | some lim => have := hl lim hlm; simp; omega
    rw [hne, hlim, List.take_of_length_le (by rw [rootEdges_length, ← hF]; omega)]
    simp only [Bool.false_eq_true, if_false]
    rw [← hF, kidsLoop_refines T w (edgesGF w F 0 1) m hs hl F f' 0 1 0 a (by omega) (by omega) hw (fun _ _ _ => rfl)]

end Gly.Plan
