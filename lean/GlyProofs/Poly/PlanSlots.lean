import GlyProofs.Poly.PlanRefines
/-
  The marker slots the plan hands to the children of one residue are 0, 1, 2, … in written sibling order – pairwise different:
  the hypothesis `nodupB (markersOf kids)` of the whole-tree assembly theorem is what the plan produces.
-/
namespace Gly.Plan
open Gly

variable {α : Type}

abbrev Lk (α : Type) := Nat × Nat × List Char × Nat × α

def Lk.slot (l : Lk α) : Nat := l.2.2.2.1

/-- the linkages, forgetting slot and inherited value, are the walker's edges -/
theorem linkages_edges (down : Nat → α → α) (w : WalkCfg) (F : GF) : ∀ (p n k : Nat) (a : α),
    (linkages down w F p n k a).map (fun l => (l.1, l.2.1, l.2.2.1)) = edgesGF w F p n := by
  induction F with
  | nil => intro p n k a; simp [linkages, edgesGF]
  | cons l nm kids rest ihk ihr => intro p n k a; simp [linkages, edgesGF, ihk, ihr]

theorem linkages_range (down : Nat → α → α) (w : WalkCfg) (F : GF) (p n k : Nat) (a : α) (l : Lk α)
    (h : l ∈ linkages down w F p n k a) : l.1 = p ∨ (n ≤ l.1 ∧ l.1 < n + F.size) := by
  have : (l.1, l.2.1, l.2.2.1) ∈ edgesGF w F p n := by
    rw [← linkages_edges down w F p n k a]; exact List.mem_map_of_mem h
  exact (edges_range w F p n _ this).1

/-- **The children of every residue get the slots 0, 1, 2, … in sibling order** (the children of the node the forest hangs on
    continue from `k`). -/
theorem slots_consecutive (down : Nat → α → α) (w : WalkCfg) (F : GF) : ∀ (p n k : Nat) (a : α) (x : Nat), p < n →
    ((linkages down w F p n k a).filter (fun l => l.1 == x)).map Lk.slot =
      List.range' (if x = p then k else 0) ((linkages down w F p n k a).filter (fun l => l.1 == x)).length := by
  induction F with
  | nil => intro p n k a x _; simp [linkages]
  | cons l nm kids rest ihk ihr =>
    intro p n k a x hpn
    simp only [linkages, List.filter_cons, List.filter_append]
    by_cases hx : x = p
    · subst hx
      have hk : (linkages down w kids n (n + 1) 0 (down x a)).filter (fun l => l.1 == x) = [] := by
        apply filter_none
        intro e he
        have := linkages_range down w kids n (n + 1) 0 (down x a) e he
        simp; omega
      have hr := ihr x (n + 1 + kids.size) (k + 1) a x (by omega)
      simp only [if_true] at hr
      simp only [beq_self_eq_true, if_true, hk, List.nil_append, List.map_cons, List.length_cons, hr, Lk.slot]
      rw [List.range'_succ]
    · have h1 : (p == x) = false := by simp; exact fun e => hx e.symm
      simp only [h1, hx, if_false, Bool.false_eq_true]
      by_cases hin : n ≤ x ∧ x < n + 1 + kids.size
      · have hr : (linkages down w rest p (n + 1 + kids.size) (k + 1) a).filter (fun l => l.1 == x) = [] := by
          apply filter_none
          intro e he
          have := linkages_range down w rest p (n + 1 + kids.size) (k + 1) a e he
          simp; omega
        have hk := ihk n (n + 1) 0 (down p a) x (by omega)
        have hk' : (if x = n then 0 else 0) = 0 := by split <;> rfl
        rw [hr, List.append_nil, hk, hk']
      · have hk : (linkages down w kids n (n + 1) 0 (down p a)).filter (fun l => l.1 == x) = [] := by
          apply filter_none
          intro e he
          have := linkages_range down w kids n (n + 1) 0 (down p a) e he
          simp; omega
        have hr := ihr p (n + 1 + kids.size) (k + 1) a x (by omega)
        simp only [hx, if_false] at hr
        rw [hk, List.nil_append, hr]

/-- … hence pairwise different. -/
theorem slots_nodup (down : Nat → α → α) (w : WalkCfg) (F : GF) (p n k : Nat) (a : α) (x : Nat) (hpn : p < n) :
    (((linkages down w F p n k a).filter (fun l => l.1 == x)).map Lk.slot).Nodup := by
  rw [slots_consecutive down w F p n k a x hpn]
  exact List.nodup_range'

theorem linkages_length (down : Nat → α → α) (w : WalkCfg) (F : GF) : ∀ (p n k : Nat) (a : α),
    (linkages down w F p n k a).length = F.size := by
  induction F with
  | nil => intro p n k a; rfl
  | cons l nm kids rest ihk ihr => intro p n k a; simp [linkages, GF.size, ihk, ihr]; omega

/-- every residue but the reducing end is the child of exactly one linkage: the children of the linkages are the ids n, n+1, … -/
theorem linkages_children (down : Nat → α → α) (w : WalkCfg) (F : GF) : ∀ (p n k : Nat) (a : α),
    (linkages down w F p n k a).map (·.2.1) = List.range' n F.size := by
  induction F with
  | nil => intro p n k a; rfl
  | cons l nm kids rest ihk ihr =>
    intro p n k a
    simp only [linkages, List.map_cons, List.map_append, ihk, ihr, GF.size]
    rw [show 1 + kids.size + rest.size = (kids.size + rest.size) + 1 by omega, List.range'_succ, ← List.range'_append_1]

end Gly.Plan
