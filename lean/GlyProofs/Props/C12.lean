import GlyProofs.Props.C09
/-
  C12 — Every delivery path and every worker count gives the same answer. (Property theorems only.)
-/
namespace Gly.Props.C12
open Gly.Api Gly.Props.C09

/-- Returned list, output file and stdout listing carry the same pairs: the file / stdout consist of exactly one line
    `input,SMILES` per input, in input order, and nothing else is appended. -/
theorem C12_sinks_agree (par) (hpar : InOrder par) (conv : Input → Outcome)
    (single : Option Input) (list fileLines gen : Option (List Input)) (verbose : Verbose) (w : World) (path : List Char)
    (hne : allInputs single list fileLines gen ≠ [] ∨ gen.isSome) :
    let pairs := (allInputs single list fileLines gen).map (generate conv)
    (convert par conv single list fileLines gen .returning verbose w).1 matches .list _ ∧
    (convert par conv single list fileLines gen (.file path) verbose w).2.files = (path, pairs.map renderLine) :: w.files ∧
    (convert par conv single list fileLines gen .stdout verbose w).2.stdout = w.stdout ++ pairs.map renderLine := by
  have hp := hpar (generate conv)
  unfold convert allInputs at *
  cases hg : gen with
  | none =>
    simp only [hg] at hne
    have hnz : (preprocess single list fileLines).isEmpty = false := by
      cases h : preprocess single list fileLines <;> simp_all
    cases verbose <;> simp [hnz, hp]
  | some g =>
    cases h : (preprocess single list fileLines).isEmpty <;> cases verbose <;> simp_all [List.isEmpty_iff]

/-- **Nothing else in the file**: whatever the output file held before the call (any earlier content of any world), afterwards it
    holds exactly the lines of this call's pairs – static inputs first, then the generator's, also when the generator is the only
    input or is empty – and every other file is what it was. -/
theorem C12_file_replaces_old_content (par) (hpar : InOrder par) (conv : Input → Outcome)
    (single : Option Input) (list fileLines gen : Option (List Input)) (verbose : Verbose) (w : World) (path : List Char)
    (hne : allInputs single list fileLines gen ≠ [] ∨ gen.isSome) :
    let w' := (convert par conv single list fileLines gen (.file path) verbose w).2
    w'.read path = some (((allInputs single list fileLines gen).map (generate conv)).map renderLine) ∧
    ∀ other, other ≠ path → w'.read other = w.read other := by
  have h := (C12_sinks_agree par hpar conv single list fileLines gen verbose w path hne).2.1
  simp only [World.read, h, List.lookup_cons, beq_self_eq_true, true_and]
  intro other ho
  have : (other == path) = false := by simpa using ho
  simp [this]

/-- The result does not depend on the scheduler: any two executors that honour joblib's contract (results in
    submission order) – whatever their worker count, chunking or completion order – give the same outcome. -/
theorem C12_schedule_independent (par₁ par₂) (h₁ : InOrder par₁) (h₂ : InOrder par₂) (conv : Input → Outcome)
    (single : Option Input) (list fileLines gen : Option (List Input)) (sink : Sink) (verbose : Verbose) (w : World) :
    convert par₁ conv single list fileLines gen sink verbose w = convert par₂ conv single list fileLines gen sink verbose w := by
  have e : par₁ (generate conv) = par₂ (generate conv) := by funext xs; rw [h₁, h₂]
  unfold convert; rw [e]

/-- Direct use of the class agrees pair by pair: the SMILES of pair `i` is `Glycan(input i).get_smiles()` (or empty if that raises). -/
theorem C12_direct_use (conv : Input → Outcome) (xs : List Input) :
    (xs.map (generate conv)).map (·.2) = xs.map (fun g => (conv g).text) := by
  induction xs with
  | nil => rfl
  | cons x xs ih => simp [generate]

end Gly.Props.C12
