import GlyModel.Generated.Tables
/-
  C02 — Every non-empty result is a valid, whole, placeholder-free molecule. (Property theorems only.)
-/
namespace Gly.Props.C02
open Gly

/-- The release gate of `Glycan` (added by the C02 repair): a candidate string is handed out only if the validity
    predicate accepts it; everything else becomes the empty string. `valid` stands for RDKit's verdict
    (parses, sanitises, one fragment, no marker element, no empty branch). -/
def release (valid : List Char → Bool) (s : List Char) : List Char := if s.isEmpty then s else if valid s then s else []

/-- Decision logic stated outright: whatever the assembly produced, a non-empty released string is valid. -/
theorem C02_gate (valid : List Char → Bool) (s : List Char) (h : release valid s ≠ []) : valid (release valid s) = true := by
  unfold release at *
  by_cases he : s.isEmpty = true
  · simp [he] at h; simp_all
  · by_cases hv : valid s = true <;> simp_all

/-- The gate never alters a valid result. -/
theorem C02_gate_transparent (valid : List Char → Bool) (s : List Char) (h : valid s = true) : release valid s = s := by
  unfold release; by_cases he : s.isEmpty = true <;> simp_all

/-- The two marker-element tables of `assemble_chains` (regenerated from the source) and the linkage markers are
    pairwise distinct elements: a substitution for one marker can never hit another. -/
theorem C02_marker_tables_disjoint :
    let o := (Gen.placeholderO.map (·.2)).filter (· ≠ [])
    let c := (Gen.placeholderC.map (·.2)).filter (· ≠ [])
    (o ++ c).Nodup ∧ (Gen.dummyAtoms.flatMap (fun (a, b) => [a.2, b.2])).Nodup := by
  decide +kernel

end Gly.Props.C02
