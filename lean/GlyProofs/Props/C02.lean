import GlyModel.Generated.Tables
import GlyModel.Smiles.Tokenize
import GlyProofs.Smiles.Relabel
import GlyProofs.Smiles.TreeTheorem
import GlyProofs.Smiles.Sanitize
import GlyProofs.Smiles.LabelWindow
import GlyProofs.Api.LifecycleLemmas
/-
  C02 — Every non-empty result is a valid, whole, placeholder-free molecule. (Property theorems only.)
-/
namespace Gly.Props.C02
open Gly

/-- The release gate of `Glycan` (added by the C02 repair): a candidate string is handed out only if the validity
    predicate accepts it; everything else becomes the empty string. `valid` stands for RDKit's verdict
    (parses, sanitises, one fragment, no marker element, no empty branch). -/
def release (valid : List Char → Bool) (s : List Char) : List Char := if s.isEmpty then s else if valid s then s else []

/-- Decision logic stated outright: whatever the assembly produced, a non-empty released string is valid. -/
theorem C02_gate (valid : List Char → Bool) (s : List Char) (h : release valid s ≠ []) : valid (release valid s) = true := by
  unfold release at *
  by_cases he : s.isEmpty = true
  · simp [he] at h; simp_all
  · by_cases hv : valid s = true <;> simp_all

/-- The gate never alters a valid result. -/
theorem C02_gate_transparent (valid : List Char → Bool) (s : List Char) (h : valid s = true) : release valid s = s := by
  unfold release; by_cases he : s.isEmpty = true <;> simp_all

/-- The two marker-element tables of `assemble_chains` (regenerated from the source) and the linkage markers are
    pairwise distinct elements: a substitution for one marker can never hit another. -/
theorem C02_marker_tables_disjoint :
    let o := (Gen.placeholderO.map (·.2)).filter (· ≠ [])
    let c := (Gen.placeholderC.map (·.2)).filter (· ≠ [])
    (o ++ c).Nodup ∧ (Gen.dummyAtoms.flatMap (fun (a, b) => [a.2, b.2])).Nodup := by
  decide +kernel

open Gly.Smi Gly.Asm in
/-- Ring labels are names: the per-level renumbering of `Monomer.to_smiles` (adding `ring_index` to every label – an injective
    renaming) never changes the molecule, as long as the renamed labels can still be *written*. -/
theorem C02_shift_preserves_molecule (k : Nat) (ts : List Tok) (x : St) (h : run St.init ts = some x) :
    ∃ x', run St.init (ts.map (relabelTok (· + k))) = some x' ∧ x'.atoms = x.atoms ∧
      x'.evs.map Ev.unlabel = x.evs.map Ev.unlabel ∧ x'.closed = x.closed :=
  relabel_same_molecule (· + k) (by intro a b h; simpa using h) ts x h

open Gly.Smi Gly.Asm in
/-- … and they can be written exactly when they are below 100: `shift` prints one digit or `%` and two digits, which the
    SMILES reader takes back as the same label for every label < 100 … -/
theorem C02_labels_valid_below_100 :
    (List.range 100).all (fun n => tokenize (shiftLabel ['0'] n) == some [Tok.ring n]) = true := by
  decide +kernel

open Gly.Smi Gly.Asm in
/-- … while 100 is printed as `%100`, which reads back as label 10 followed by label 0 (observed: a chain of depth 99;
    now withheld by the release gate). -/
theorem C02_label_100_counterexample :
    tokenize (shiftLabel ['0'] 100) = some [Tok.ring 10, Tok.ring 0] := by
  decide +kernel

open Gly.Smi in
/-- **No marker survives, nothing stays open** – for every well-formed tree of residue strings (`wfTree`, any depth and
    width): the assembled string is a closed SMILES (every branch closed, every ring label paired, no dangling bond symbol)
    and none of its atoms is a marker atom. -/
theorem C02_no_marker_survives (isMk : Atom → Bool) (hN : isMk ['N'] = false) (t : TNode) (h : wfTree isMk t = true) :
    (∃ M, sem (mergeTok t) = some M ∧ ∀ a ∈ M.atoms, isMk a = false) := by
  obtain ⟨M, h1, _, _, hfree⟩ := tree_ok isMk hN t h
  refine ⟨M, h1, ?_⟩
  intro a ha
  obtain ⟨s, hr, _, hm⟩ := (sem_eq_some _ _).mp h1
  have hat : s.atoms = atomsOf (mergeTok t) := by simpa [St.init] using run_atoms _ St.init s hr
  have : a ∈ atomsOf (mergeTok t) := by rw [← hat]; rw [← hm] at ha; exact ha
  cases hmk : isMk a with
  | false => rfl
  | true => exact absurd ((mem_atomsOf a _).mp this) (hfree a hmk)

open Gly.Smi in
/-- **`sanitize_smiles` keeps the molecule** – its `))` rule: a branch that ends a branch is written without its own parentheses.
    For every prefix, suffix and inner branch `T` that is balanced on its own, `pre ( T )) post` and `pre T ) post` denote the same
    molecule (same atoms, same bond events in the same order) or are both not SMILES. Any length, any nesting. -/
theorem C02_sanitize_rr_sound (pre post T : List Tok) (s s1 : St) (a : Nat) (hpre : run St.init pre = some s)
    (hp : s.prev = some a) (hpe : s.pend = none)
    (hT : run { s with stack := [] } T = some s1) (hs : s1.stack = []) (hq : s1.pend = none) :
    sem (pre ++ (Tok.lpar :: (T ++ [Tok.rpar, Tok.rpar])) ++ post) = sem (pre ++ (T ++ [Tok.rpar]) ++ post) :=
  sanitize_rr_sound pre post T s s1 a hpre hp hpe hT hs hq

open Gly.Smi in
/-- Its other rule (`((`: a branch that starts a branch loses its parentheses) is **not** semantics-preserving: `C((C)O)N` would
    become the chain `C(CO)N`. RDKit does not parse such a string, the assembly never writes one (every block that replaces a
    marker starts with an atom), and every run counts how often `sanitize_smiles` was handed one (must be 0). -/
theorem C02_sanitize_ll_counterexample :
    let c := Tok.atom ['C']; let o := Tok.atom ['O']; let n := Tok.atom ['N']
    sem [c, .lpar, .lpar, c, .rpar, o, .rpar, n] ≠ sem [c, .lpar, c, o, .rpar, n] :=
  sanitize_ll_counterexample

open Gly.Smi in
/-- Non-vacuity of `C02_sanitize_rr_sound`: the N-link splice `C(N(CO))O` ↦ `C(NCO)O`. -/
example :
    let c := Tok.atom ['C']; let o := Tok.atom ['O']; let n := Tok.atom ['N']
    sem [c, .lpar, n, .lpar, c, o, .rpar, .rpar, o] = sem [c, .lpar, n, c, o, .rpar, o] ∧
    (sem [c, .lpar, n, c, o, .rpar, o]).isSome = true := by
  decide

open Gly.Life in
/-- **Nothing leaves a `Glycan` object unchecked** (Model `Life.construct` / `Life.getSmiles` of `__parse`, `get_smiles`, `__release`;
    tied to glycan.py by comparing what consecutive `get_smiles()` calls return with the Model fed with the observed walk / merge /
    release results): for every option combination, eager or lazy assembly, first or repeated call, the string handed out is empty
    or has passed the release gate, and the object stays in such a state. -/
theorem C02_every_delivery_released (valid : List Char → Bool) (treeOnly full tfCtor : Bool) (merged : Option (List Char)) (o o' : Obj)
    (hc : construct valid treeOnly full tfCtor merged = some o)
    (tfLazy : Bool) (mergedLazy : Option (List Char)) (r : List Char) (h : getSmiles valid o tfLazy mergedLazy = some (r, o')) :
    Deliverable valid r ∧ Inv valid o' :=
  getSmiles_deliverable valid o o' tfLazy mergedLazy r (construct_inv valid treeOnly full tfCtor merged o hc) h

open Gly.Life in
/-- … and asking again returns the same string, whatever a repeated walk or merge would produce. -/
theorem C02_get_smiles_stable (valid : List Char → Bool) (treeOnly full tfCtor : Bool) (merged : Option (List Char)) (o o' : Obj)
    (hc : construct valid treeOnly full tfCtor merged = some o)
    (tf1 : Bool) (m1 : Option (List Char)) (r : List Char) (h : getSmiles valid o tf1 m1 = some (r, o'))
    (tf2 : Bool) (m2 : Option (List Char)) : ∃ o'', getSmiles valid o' tf2 m2 = some (r, o'') :=
  getSmiles_stable valid treeOnly full tfCtor merged o o' hc tf1 m1 r h tf2 m2

open Gly.Smi in
/-- **Why the ring offsets keep labels apart** (the invariant behind repair 11dc0af): if every ring label written in the parent
    before the splice point is at most `B` and every label of the child's block is above `B` – which `merge_int` arranges by
    shifting a child's labels by the parent's offset plus the number of the parent's rings – then no label of the block is open at
    the splice point: the label clause of `wfTree` (hypothesis of `C02_no_marker_survives`) holds by arithmetic. -/
theorem C02_label_windows (pre : List Tok) (S : St) (B : Nat) (labels : List Nat)
    (hrun : run St.init pre = some S) (hpre : ∀ l ∈ labelsOf pre, l ≤ B) (hblk : ∀ l ∈ labels, B < l) :
    labels.all (fun l => (lookupLabel l S.opens).isNone) = true :=
  labels_free_of_window pre S B labels hrun hpre hblk

end Gly.Props.C02
