import GlyModel.Api.Convert
/-
  C11 — Conversions do not influence each other or the host process. (Property theorems only.)
-/
namespace Gly.Props.C11
open Gly.Api

/-- `convert` restores the root logger on every way out (result list, file, stdout, empty input) and for every
    prior state of the switch – it puts back what it found, not `False`. -/
theorem C11_logger_restored (par conv single list fileLines gen sink verbose) (w : World) :
    (convert par conv single list fileLines gen sink verbose w).2.loggerDisabled = w.loggerDisabled := by
  unfold convert
  cases verbose <;> cases sink <;> simp <;> split <;> simp

theorem C11_logger_restored_generator (conv single list fileLines gen verbose) (w : World) :
    (convertGenerator conv single list fileLines gen verbose w).2.loggerDisabled = w.loggerDisabled := by
  unfold convertGenerator
  cases verbose <;> simp <;> split <;> simp

/-- Nothing is written to standard output unless the caller asked for the stdout listing; no file is touched unless
    an output file was named. -/
theorem C11_stdout_clean (par conv single list fileLines gen verbose) (w : World) (sink : Sink) (h : sink ≠ .stdout) :
    (convert par conv single list fileLines gen sink verbose w).2.stdout = w.stdout := by
  unfold convert
  cases verbose <;> cases sink <;> simp_all <;> split <;> simp

theorem C11_files_untouched (par conv single list fileLines gen verbose) (w : World) (sink : Sink) (h : ∀ p, sink ≠ .file p) :
    (convert par conv single list fileLines gen sink verbose w).2.files = w.files := by
  unfold convert
  cases verbose <;> cases sink <;> simp_all <;> split <;> simp

/-- The returned value does not depend on the process-wide state the call finds (history independence of the
    converter layer; that `conv` itself is a function of the glycan alone is the part tied by the history
    correspondence run, see DESIGN.md). -/
theorem C11_result_independent_of_world (par conv single list fileLines gen sink verbose) (w w' : World) :
    (convert par conv single list fileLines gen sink verbose w).1 = (convert par conv single list fileLines gen sink verbose w').1 := by
  unfold convert
  cases sink <;> simp <;> split <;> simp

/-- Hence after any finite history of `convert` calls the logger switch is what it was at the start. -/
theorem C11_history_logger (par conv) (calls : List (Option Input × Option (List Input) × Option (List Input) × Option (List Input) × Sink × Verbose))
    (w : World) :
    (calls.foldl (fun w c => (convert par conv c.1 c.2.1 c.2.2.1 c.2.2.2.1 c.2.2.2.2.1 c.2.2.2.2.2 w).2) w).loggerDisabled = w.loggerDisabled := by
  induction calls generalizing w with
  | nil => rfl
  | cons c cs ih => simp only [List.foldl]; rw [ih]; exact C11_logger_restored ..

/-- `glycans += glycan_list` extends a fresh list: the caller's list is not part of what `preprocess` returns by
    reference – modelled as: the result is built by appending to `[]`/`[single]`, the argument is only read. -/
theorem C11_caller_list_read_only (single : Option Input) (list : List Input) :
    preprocess single (some list) none = single.toList ++ list := by
  simp [preprocess]

end Gly.Props.C11
