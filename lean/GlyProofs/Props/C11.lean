import GlyModel.Api.Convert
import GlyProofs.Api.HeapLemmas
import GlyProofs.Api.LifecycleLemmas
/-
  C11 — Conversions do not influence each other or the host process. (Property theorems only.)
-/
namespace Gly.Props.C11
open Gly.Api

/-- `convert` restores the root logger on every way out (result list, file, stdout, empty input) and for every
    prior state of the switch – it puts back what it found, not `False`. -/
theorem C11_logger_restored (par conv single list fileLines gen sink verbose) (w : World) :
    (convert par conv single list fileLines gen sink verbose w).2.loggerDisabled = w.loggerDisabled := by
  unfold convert
  cases verbose <;> cases sink <;> simp <;> split <;> simp

theorem C11_logger_restored_generator (conv single list fileLines gen verbose) (w : World) :
    (convertGenerator conv single list fileLines gen verbose w).2.loggerDisabled = w.loggerDisabled := by
  unfold convertGenerator
  cases verbose <;> simp <;> split <;> simp

/-- Nothing is written to standard output unless the caller asked for the stdout listing; no file is touched unless
    an output file was named. -/
theorem C11_stdout_clean (par conv single list fileLines gen verbose) (w : World) (sink : Sink) (h : sink ≠ .stdout) :
    (convert par conv single list fileLines gen sink verbose w).2.stdout = w.stdout := by
  unfold convert
  cases verbose <;> cases sink <;> simp_all <;> split <;> simp

theorem C11_files_untouched (par conv single list fileLines gen verbose) (w : World) (sink : Sink) (h : ∀ p, sink ≠ .file p) :
    (convert par conv single list fileLines gen sink verbose w).2.files = w.files := by
  unfold convert
  cases verbose <;> cases sink <;> simp_all <;> split <;> simp

/-- The returned value does not depend on the process-wide state the call finds (history independence of the
    converter layer; that `conv` itself is a function of the glycan alone is the part tied by the history
    correspondence run, see DESIGN.md). -/
theorem C11_result_independent_of_world (par conv single list fileLines gen sink verbose) (w w' : World) :
    (convert par conv single list fileLines gen sink verbose w).1 = (convert par conv single list fileLines gen sink verbose w').1 := by
  unfold convert
  cases sink <;> simp <;> split <;> simp

/-- Hence after any finite history of `convert` calls the logger switch is what it was at the start. -/
theorem C11_history_logger (par conv) (calls : List (Option Input × Option (List Input) × Option (List Input) × Option (List Input) × Sink × Verbose))
    (w : World) :
    (calls.foldl (fun w c => (convert par conv c.1 c.2.1 c.2.2.1 c.2.2.2.1 c.2.2.2.2.1 c.2.2.2.2.2 w).2) w).loggerDisabled = w.loggerDisabled := by
  induction calls generalizing w with
  | nil => rfl
  | cons c cs ih => simp only [List.foldl]; rw [ih]; exact C11_logger_restored ..

/-- `glycans += glycan_list` extends a fresh list: the caller's list is not part of what `preprocess` returns by
    reference – modelled as: the result is built by appending to `[]`/`[single]`, the argument is only read. -/
theorem C11_caller_list_read_only (single : Option Input) (list : List Input) :
    preprocess single (some list) none = single.toList ++ list := by
  simp [preprocess]

open Gly.Heap in
/-- **The class-level table is never changed by open-form conversions**, whatever the history: with the `copy.copy` that
    `check_for_open_form` takes, after any finite sequence of open-form rewrites (any keys, any rewrites – `-ol`, `-onic`,
    `-aric`, `-ulosonic`, lengthening; existing or missing keys) every key of the table reads what it read at the start. -/
theorem C11_tables_frame (ops : List (List Char × (Smiles → Smiles))) (w : Gly.Heap.World) (hw : WFW w) :
    let w' := ops.foldl (fun w op => (openForm true op.1 op.2 w).1) w
    w'.table = w.table ∧ ∀ k, w'.read k = w.read k := by
  induction ops generalizing w with
  | nil => simp
  | cons op ops ih =>
    simp only [List.foldl]
    obtain ⟨ht, hr, hw'⟩ := openForm_copy_frame w hw op.1 op.2
    obtain ⟨ht2, hr2⟩ := ih (openForm true op.1 op.2 w).1 hw'
    exact ⟨ht2.trans ht, fun k => (hr2 k).trans (hr k)⟩

open Gly.Heap in
/-- Hence an open-form conversion gives the same result after any history as in the initial state. -/
theorem C11_open_form_history_independent (ops : List (List Char × (Smiles → Smiles))) (w : Gly.Heap.World) (hw : WFW w)
    (k : List Char) (rw : Smiles → Smiles) :
    (openForm true k rw (ops.foldl (fun w op => (openForm true op.1 op.2 w).1) w)).2 = (openForm true k rw w).2 := by
  obtain ⟨_, hr⟩ := C11_tables_frame ops w hw
  rw [openForm_copy_result, openForm_copy_result, hr k]

open Gly.Heap in
/-- The copy is what makes this true: without it (assigning to the table's own record) a two-step history suffices to
    change what a later conversion reads – `Glc-onic` followed by `Glc-ol` would return the acid. -/
theorem C11_without_copy_counterexample :
    let w : Gly.Heap.World := ⟨[(1, "OCC(O)CO".toList)], [("GLC-OL".toList, 1)]⟩
    let onic : Smiles → Smiles := fun s => "OC(=O)".toList ++ s.drop 2
    ((openForm false "GLC-OL".toList id (openForm false "GLC-OL".toList onic w).1).2 ≠ (openForm false "GLC-OL".toList id w).2) ∧
    ((openForm true "GLC-OL".toList id (openForm true "GLC-OL".toList onic w).1).2 = (openForm true "GLC-OL".toList id w).2) := by
  decide

/-- A generator that is never advanced leaves the process exactly as it was – logger switch included – whatever the arguments. -/
theorem C11_unstarted_generator_no_effect (conv : Input → Outcome) (single : Option Input)
    (list fileLines gen : Option (List Input)) (verbose : Verbose) (w : World) :
    (convertGeneratorUnstarted conv single list fileLines gen verbose w).2 = w := rfl

open Gly.Life in
/-- **`get_smiles` leaves the object's tree alone** (Model `Life.getSmiles`, after repair of the lazy path): on a `tree_only` object the
    options and the `tree_full` flag are what they were – only the cache is filled – so `get_tree`, `count`, `save_dot` answer the
    same before and after; tied by the histories that repeat these methods around `get_smiles` / `summary`. -/
theorem C11_get_smiles_keeps_the_tree (valid : List Char → Bool) (o o' : Obj) (tfLazy : Bool) (mergedLazy : Option (List Char))
    (r : List Char) (h : getSmiles valid o tfLazy mergedLazy = some (r, o')) :
    o'.treeOnly = o.treeOnly ∧ o'.full = o.full ∧ (o.treeOnly = true → o'.treeFull = o.treeFull) :=
  getSmiles_keeps_tree valid o o' tfLazy mergedLazy r h

end Gly.Props.C11
