import GlyProofs.Front.WalkDen
/-
  C01 — Glycosidic assembly yields exactly the molecule the linkages describe.  (Property theorems only; placeholder
  until the splice algebra lands – see DESIGN.md.)
-/
namespace Gly.Props.C01
open Gly
theorem C01_placeholder_walk (w : WalkCfg) (s : Start) : walkStart w s = denStart w s := walkStart_eq_denStart w s
end Gly.Props.C01
