import GlyProofs.Smiles.Certify
import GlyProofs.Smiles.TreeTheorem
import GlyProofs.Mono.NumberingP
import GlyProofs.Mono.NumberingF
import GlyProofs.Mono.LinkAtom
import GlyProofs.Front.WalkDen
import GlyProofs.Poly.PlanRefines
import GlyProofs.Poly.PlanSlots
/-
  C01 — Glycosidic assembly yields exactly the molecule the linkages describe. (Property theorems only.)
-/
namespace Gly.Props.C01
open Gly Gly.Smi Gly.Asm

/-- The graft lemma (full statement in `Gly.Smi.graft`): replacing a leaf marker atom of a SMILES by a closed block that
    starts with an atom and whose ring labels are not open at that point yields the SMILES of the graft – atoms of the
    parent with the marker replaced by the block's atoms, bond events of both carried over as written (so every ordered
    neighbour list and every stereo mark of both residues is unchanged), one new bond from the marker's parent carbon to
    the block's first atom. Unbounded: any parent, any block, any position. -/
theorem C01_graft (pre post C' : List Tok) (M c0 : Atom) (S A c : St) (p : Nat)
    (hpre : run St.init pre = some S) (hp : S.prev = some p)
    (hA : run St.init (pre ++ [Tok.atom M] ++ post) = some A)
    (hleaf : post = [] ∨ ∃ post', post = Tok.rpar :: post')
    (hc : run St.init (Tok.atom c0 :: C') = some c) (hclosed : c.stack = [] ∧ c.opens = [] ∧ c.pend = none)
    (hlab : ∀ l ∈ labelsOf C', lookupLabel l S.opens = none) :
    ∃ B as es,
      run St.init (pre ++ (Tok.atom c0 :: C') ++ post) = some B ∧
      A.atoms = S.atoms ++ [M] ++ as ∧
      A.evs = S.evs ++ [Ev.bond p S.atoms.length S.pend] ++ es ∧
      B.atoms = S.atoms ++ c.atoms ++ as ∧
      B.evs = S.evs ++ [Ev.bond p S.atoms.length S.pend] ++ c.evs.map (Ev.map (· + S.atoms.length)) ++
                es.map (Ev.map (ren S.atoms.length (c.atoms.length - 1))) ∧
      B.stack = A.stack.map (ren S.atoms.length (c.atoms.length - 1)) ∧
      B.opens = A.opens.map (shiftO (ren S.atoms.length (c.atoms.length - 1))) ∧
      B.pend = A.pend :=
  graft pre post C' M c0 S A c p hpre hp hA hleaf hc hclosed hlab

/-- The result of a graft is a finished molecule exactly when the marked parent was (nothing is left open by the block). -/
theorem C01_graft_closed (A B : St) (N d : Nat)
    (hs : B.stack = A.stack.map (ren N d)) (ho : B.opens = A.opens.map (shiftO (ren N d))) (hp : B.pend = A.pend) :
    B.closed = A.closed := by
  simp [St.closed, hs, ho, hp]

/-- Soundness of the decidable per-splice certificate the driver evaluates on **every real merge step**
    (character-level Model of `merge_int` ↔ token-level graft theorem). -/
theorem C01_certified_splice (sym me block result : List Char) (h : certifySplice sym me block result = true) :
    ∃ pre post C' M c0 S c p,
      tokenize me = some (pre ++ [Tok.atom M] ++ post) ∧
      tokenize block = some (Tok.atom c0 :: C') ∧
      tokenize result = some (pre ++ (Tok.atom c0 :: C') ++ post) ∧
      run St.init pre = some S ∧ S.prev = some p ∧ run St.init (Tok.atom c0 :: C') = some c ∧
      ∀ A, run St.init (pre ++ [Tok.atom M] ++ post) = some A →
        ∃ B as es, run St.init (pre ++ (Tok.atom c0 :: C') ++ post) = some B ∧
          A.atoms = S.atoms ++ [M] ++ as ∧
          A.evs = S.evs ++ [Ev.bond p S.atoms.length S.pend] ++ es ∧
          B.atoms = S.atoms ++ c.atoms ++ as ∧
          B.evs = S.evs ++ [Ev.bond p S.atoms.length S.pend] ++ c.evs.map (Ev.map (· + S.atoms.length)) ++
                    es.map (Ev.map (ren S.atoms.length (c.atoms.length - 1))) ∧
          B.stack = A.stack.map (ren S.atoms.length (c.atoms.length - 1)) ∧
          B.opens = A.opens.map (shiftO (ren S.atoms.length (c.atoms.length - 1))) ∧
          B.pend = A.pend :=
  certifySplice_sound sym me block result h

/-- Non-vacuity: the boundary strings RDKit writes for `Man(a1-3)Man` (marked parent, shifted child) satisfy the
    hypotheses, and the character-level splice of the Model is the certified one. -/
theorem C01_example :
    let me := "O1C(O)[C@@H](O)[C@@H]([Ga])[C@H](O)[C@H]1CO".toList
    let child := "O[C@H]2O[C@H](CO)[C@@H](O)[C@H](O)[C@@H]2O".toList
    certifySplice "Ga".toList me child (subMarker "Ga".toList child (me.length + 1) me) = true := by
  decide +kernel

/-- The hypothesis on ring labels is necessary, and the certificate rejects a clash: a child that re-uses the label
    the bicyclic parent still has open at the splice point (the defect repaired in `merge_int`, D6). -/
theorem C01_label_clash_rejected :
    let me := "O1C2OC[C@@H]1[C@@H](O)[C@H]([Ga])[C@H]2O".toList
    let child := "O[C@H]2O[C@H](CO)[C@@H](O)[C@H](O)[C@@H]2O".toList
    certifySplice "Ga".toList me child (subMarker "Ga".toList child (me.length + 1) me) = false := by
  decide +kernel

/-- **Whole-glycan refinement** (any depth, any width, O- and N-linkages): for every tree of residue strings that passes the
    decidable check `wfTree` – every string is a closed SMILES starting with an atom; the children's markers are pairwise
    different marker atoms, each sitting exactly once in the parent's string on a leaf atom that has a parent atom; no other
    marker atom occurs; no ring label of a child's assembled string is open in the parent at the child's marker – the
    token-level Model of `merge_int` (`mergeTok`: merge every child, splice it over its marker, `N(`…`)` for N-linkages)
    yields a SMILES that denotes **exactly the Spec molecule** `specTree`: the residue's own molecule with every child's
    molecule grafted at the atom carrying its marker, every atom, bond event, ordered neighbour list and stereo mark of every
    residue carried over as written. In particular the result is never "no molecule" (such inputs never come back empty). -/
theorem C01_tree_refines_spec (isMk : Atom → Bool) (hN : isMk ['N'] = false) (t : TNode) (h : wfTree isMk t = true) :
    ∃ M, sem (mergeTok t) = some M ∧ specTree t = some M := by
  obtain ⟨M, h1, h2, _, _⟩ := tree_ok isMk hN t h
  exact ⟨M, h1, h2⟩

/-- Soundness of the whole-merge certificate the driver evaluates on **every real `merge_int` tree** (boundary strings
    captured from RDKit): the string the character-level Model returns – text-identical to the code's – denotes `specTree`
    of the tree of boundary strings. -/
theorem C01_certified_tree (fuel : Nat) (node : Node) (h : certifyTree fuel node = true) :
    ∃ t out to M, toTNode fuel node 0 = some t ∧ mergeInt fuel node 0 = .ok out ∧ tokenize out = some to ∧
      sem to = some M ∧ specTree t = some M ∧ ∀ a ∈ M.atoms, isMkDummy a = false :=
  certifyTree_sound fuel node h

/-- Non-vacuity of `wfTree`: the boundary strings of `Man(a1-3)[Man(a1-6)]Man` (root with two marked positions, two
    children) pass the certificate. -/
theorem C01_tree_example :
    certifyTree 10 (.mk "O1C(O)[C@@H](O)[C@@H]([Ga])[C@H](O)[C@H]1C[As]".toList 1
      [.mk "O[C@H]1O[C@H](CO)[C@@H](O)[C@H](O)[C@@H]1O".toList 1 [],
       .mk "O[C@H]1O[C@H](CO)[C@@H](O)[C@H](O)[C@@H]1O".toList 1 []]) = true := by
  decide +kernel

/-- An N-linked child: if the child's string is a closed block denoting `C`, then `"N(" + child[1:] + ")"` is a closed block
    denoting `C` with its first atom (the anomeric O) replaced by the parent's N – same bonds, same atom numbering. -/
theorem C01_nlink_block (block : List Tok) (C : Mol) (hb : BlockOK block C) : BlockOK (blockOf true block) (nCap C) :=
  nblock block C hb

open Gly.EnumC in
/-- **The carbon numbering of the library** (`enumerate_carbon`, the numbering every position lookup – `find_oxygen`, `mark`,
    `root_atom_id` – relies on): for every anomer-less row of the pyranose and furanose tables (the a / b rows have the same
    atoms and bonds) the Model of `enumerate_carbon` – tied to enum_c.py by correspondence on every residue the checks convert –
    numbers the main chain exactly as the chemistry-level rule does: C1 is the anomeric carbon (ring carbon bonded to the ring
    oxygen and to a second oxygen) or, in a 2-ketose, the carbon hanging on it; the numbering runs along the ring away from the
    ring oxygen and on into the exocyclic tail. Exceptions, listed: the branched-chain sugars Api, Erwiniose, Yer, whose "main
    chain" is a convention. Kernel evaluation over the complete regenerated tables. -/
theorem C01_numbering_table :
    numberingOk Gen.pyranoseTable ["API", "ERWINIOSE", "YER"] = true ∧ numberingOk Gen.furanoseTable ["API"] = true :=
  ⟨numbering_pyranose, numbering_furanose⟩

open Gly.EnumC in
/-- **The linking hetero atom** (Model of `Monomer.find_oxygen`, tied to monomer.py by correspondence on every call observed):
    for the carbon a linkage names, the atom handed out is the carbon itself (no O/N there) or an O – else an N – bonded to it by a
    single bond that is not exclusively in the main ring: never the ring oxygen, never an atom of another carbon. -/
theorem C01_linking_atom (v : View) (pos o : Nat) (h : findOxygenAt v [pos] = .ok o) :
    o = pos ∨ (v.bo pos o = 1 ∧ ((v.at o).z = 8 ∨ (v.at o).z = 7) ∧ (v.at o).ring ≠ 1) :=
  findOxygenAt_spec v pos o h

open Gly.EnumC in
/-- … and when that atom is already substituted, `__check_root_id`'s walk through the substituent ends on the atom it was given, on
    a terminal oxygen or on a nitrogen with at most two bonds – the only atoms `mark` may turn into a linkage marker. -/
theorem C01_linking_atom_through_substituent (v : View) (fuel : Nat) (q seen : List Nat) (root : Nat) :
    let r := checkRootGo v fuel q seen none root
    r = root ∨ ((v.at r).z = 8 ∧ degSum v r = 1) ∨ ((v.at r).z = 7 ∧ degSum v r ≤ 2) :=
  checkRootGo_spec v fuel q seen none root (by intro c hc; cases hc)

open Gly.Plan in
/-- **Which linkage marks what** (Model of `Merger.mark` / `Merger.merge_int`, tied to merger.py by the sequence of calls observed
    inside real conversions): for every written glycan without floating fragments whose residues have at most four children
    (four marker pairs; `m ≤ slots`, `m ≤ limit`), the recursion of the code over the edge list of the walked tree issues, for
    every traversal instance `T`, exactly the calls of the Spec `specWhole` – linkage by linkage of the written forest
    `den br nil` in pre-order: the action on the linkage (`T.edge parent child label slot`, slot = the child's position among
    its siblings), then the action on entering the child (`T.pre child label`). Any depth, any width up to `m`, any labels. -/
theorem C01_linkage_plan {α : Type} (T : Trav α) (w : WalkCfg) (s : Start) (br : Branch) (hf : s.floats = [])
    (hb : s.begin.branch = some br) (m : Nat) (hs : m ≤ T.slots) (hl : ∀ l, T.limit = some l → m ≤ l)
    (hw0 : (den br .nil).width ≤ m) (hw : (den br .nil).widthOK m = true)
    (f : Nat) (hfu : (den br .nil).size < f) (pe : List Char) (a : α) :
    go T (walkStart w s).edges f 0 pe a = specWhole T w (den br .nil) pe a := by
  rw [walkStart_eq_denStart]
  simp only [denStart, hf, List.foldl_nil, hb]
  exact go_refines T w (den br .nil) _ (by simp [addNode, WState.init]) (by simp [addNode, WState.init]) m hs hl hw0 hw f hfu pe a

open Gly.Plan in
/-- … read for `Merger.mark` (instance `markTrav`): one written linkage `(p, c, "(xA-B)", k)` = the call `mark(B, marker pair k)`
    on residue `p` – the carbon named *second* in the label, a marker pair no sibling shares – followed, when the child has no
    anomer of its own, by `to_chirality(x)` on the child with the anomer letter of *its own* label. -/
theorem C01_mark_per_linkage (undef : Nat → Bool) (ns : Nat) (p c : Nat) (lab : List Char) (k : Nat) :
    perLinkage (markTrav undef ns) (p, c, lab, k, ()) =
      (numAt lab 1).map (fun b => [Call.mark p b k] ++ (if undef c then [Call.chir c (lab.getD 1 ' ').toLower] else [])) := by
  simp only [perLinkage, markTrav]
  cases numAt lab 1 <;> simp

open Gly.Plan in
/-- … and for `Merger.merge_int` (instance `mergeTrav`): the child's SMILES is written from the carbon named *first* in the label,
    with the ring-label offset its parent inherited plus `max(1, rings of the parent)`. -/
theorem C01_root_per_linkage (rings : Nat → Nat) (ns : Nat) (p c : Nat) (lab : List Char) (k ri : Nat) :
    perLinkage (mergeTrav rings ns) (p, c, lab, k, ri) =
      (numAt lab 0).map (fun a => [Call.root c a, Call.smiles c (ri + max 1 (rings p))]) := by
  simp only [perLinkage, mergeTrav]
  cases numAt lab 0 <;> simp

open Gly.Plan in
/-- `(a1-4)`: mark carbon 4 of the parent, root the child at carbon 1, anomer `a`; `Neu5Ac(a2-3)`: carbon 3 / carbon 2;
    two-digit positions are one number; a label with `?` for the parent position has no second number (the code raises). -/
theorem C01_label_examples :
    numAt "(a1-4)".toList 0 = some 1 ∧ numAt "(a1-4)".toList 1 = some 4 ∧
    numAt "(a2-3)".toList 0 = some 2 ∧ numAt "(a2-3)".toList 1 = some 3 ∧
    numAt "(b1-12)".toList 1 = some 12 ∧ numAt "(a1-?)".toList 1 = none ∧ "(a1-4)".toList.getD 1 ' ' = 'a' := by
  decide

open Gly.Plan in
/-- Non-vacuity: the plan of `Man(a1-3)[Man(a1-6)]Man(b1-4)GlcNAc` shaped forest (root, one child with two children). -/
example :
    let F : GF := .cons "(b1-4)".toList [] (.cons "(a1-3)".toList [] .nil (.cons "(a1-6)".toList [] .nil .nil)) .nil
    let w : WalkCfg := ⟨0, fun _ => true, fun _ => false⟩
    specWhole (markTrav (fun _ => true) 4) w F (rootLabel ['n']) () =
      some [.chir 0 'n', .mark 0 4 0, .chir 1 'b', .mark 1 3 0, .chir 2 'a', .mark 1 6 1, .chir 3 'a'] := by
  decide +kernel

open Gly.Plan in
/-- **No two children of one residue share a marker pair**: in the plan the children of every residue `x` get the slots 0, 1, 2, …
    in written sibling order – the hypothesis "the children's markers are pairwise different" of `C01_tree_refines_spec` is what
    `Merger.mark` produces (with `C01_marker_table`: different slots are different marker atoms). -/
theorem C01_sibling_slots_distinct {α : Type} (down : Nat → α → α) (w : WalkCfg) (F : GF) (a : α) (x : Nat) :
    (((linkages down w F 0 1 0 a).filter (fun l => l.1 == x)).map Lk.slot).Nodup ∧
    ((linkages down w F 0 1 0 a).filter (fun l => l.1 == x)).map Lk.slot =
      List.range' 0 ((linkages down w F 0 1 0 a).filter (fun l => l.1 == x)).length := by
  refine ⟨slots_nodup down w F 0 1 0 a x (by omega), ?_⟩
  have h := slots_consecutive down w F 0 1 0 a x (by omega)
  have h0 : (if x = 0 then 0 else 0) = 0 := by split <;> rfl
  rw [h, h0]

/-- the marker pairs of the four slots are eight different atoms (kernel evaluation over the regenerated table) -/
theorem C01_marker_table :
    Gen.dummyAtoms.length = 4 ∧ (Gen.dummyAtoms.flatMap (fun p => [p.1.2, p.2.2])).Nodup := by
  decide +kernel

/-- The tree the assembly consumes is the written one (C03). -/
theorem C01_tree_is_written (w : WalkCfg) (s : Start) : walkStart w s = denStart w s := walkStart_eq_denStart w s

end Gly.Props.C01
