import GlyModel.Api.Convert
import GlyProofs.Api.Lines
/-
  C17 — Command-line contract. (Property theorems only.)
-/
namespace Gly.Props.C17
open Gly.Api

/-- The glycans converted are the arguments in order of appearance, files expanded in place (lines stripped):
    the single-argument unwrapping in `main` changes nothing. -/
theorem C17_expand (args : List Arg) : cliGlycans args = args.flatMap Arg.expand := by
  unfold cliGlycans
  split
  · simp [Arg.expand]
  · simp [Arg.expand]
  · rfl

/-- One line `input,SMILES` per glycan, in that order; unconvertible entries get an empty SMILES and do not stop the run. -/
theorem C17_lines (conv : Input → Outcome) (args : List Arg) (h : args.flatMap Arg.expand ≠ []) :
    cliOutput conv args = some ((args.flatMap Arg.expand).map (fun g => g ++ [','] ++ (conv (.str g)).text)) := by
  unfold cliOutput
  rw [C17_expand]
  cases hx : args.flatMap Arg.expand with
  | nil => exact absurd hx h
  | cons x xs => simp [renderLine, generate]

/-- The deviation the Model exhibits (replayed by the check): no glycan at all (e.g. a single empty file) – `convert`
    returns before the output file is opened, so no file is written. -/
theorem C17_empty_writes_nothing (conv : Input → Outcome) : cliOutput conv [.file []] = none := rfl

/-- Stripping removes surrounding white space only. -/
theorem C17_strip_example : stripLine " \tGlc(a1-4)Glc \r\n".toList = "Glc(a1-4)Glc".toList := by decide

/-- A file argument written one glycan per line is expanded to exactly those glycans (see `C09_file_lines_roundtrip`). -/
theorem C17_file_argument (gs : List (List Char)) (h : ∀ g ∈ gs, NoNL g)
    (h1 : ∀ g ∈ gs, ∀ x, g.head? = some x → isSpace x = false)
    (h2 : ∀ g ∈ gs, ∀ x, g.getLast? = some x → isSpace x = false) :
    (Arg.file (splitLines (gs.flatMap (· ++ ['\n'])))).expand = gs := by
  have := readLines_roundtrip gs h h1 h2
  simpa [Arg.expand, readLines] using this

end Gly.Props.C17
