import GlyProofs.Front.WalkDen
/- C05 — placeholder obligations until the splice algebra lands (see DESIGN.md). -/
namespace Gly.Props.C05
open Gly
theorem C05_walk_children_order (w : WalkCfg) (s : Start) : walkStart w s = denStart w s := walkStart_eq_denStart w s
end Gly.Props.C05
