import GlyProofs.Smiles.Graft
import GlyProofs.Smiles.TreeBalance
import GlyProofs.Mono.LinkAtom
import GlyProofs.Poly.PlanSlots
/-
  C05 — Condensation mass balance. (Property theorems only.)
-/
namespace Gly.Props.C05
open Gly Gly.Smi

/-- **Atom balance of one splice**, for every way of counting atoms (`P` = "is an oxygen", "is a stereo carbon", …):
    the result has the atoms of the marked parent and of the block, minus the marker atom – whatever the residues are. -/
theorem C05_atoms (S A B c : St) (M : Atom) (as : List Atom) (P : Atom → Bool)
    (hA : A.atoms = S.atoms ++ [M] ++ as) (hB : B.atoms = S.atoms ++ c.atoms ++ as) :
    B.atoms.countP P + [M].countP P = A.atoms.countP P + c.atoms.countP P := by
  rw [hA, hB]; simp only [List.countP_append]; omega

/-- **Bond and ring balance of one splice**: the result has the bonds of both parts (the bond to the marker becomes the
    glycosidic bond) and its number of ring closures is the sum of theirs – also when ring labels are re-used. -/
theorem C05_bonds_and_rings (S A B c : St) (e0 : Ev) (es : List Ev) (f g : Nat → Nat)
    (hA : A.evs = S.evs ++ [e0] ++ es)
    (hB : B.evs = S.evs ++ [e0] ++ c.evs.map (Ev.map f) ++ es.map (Ev.map g)) :
    B.evs.length = A.evs.length + c.evs.length ∧ ringOpens B.evs = ringOpens A.evs + ringOpens c.evs := by
  rw [hA, hB]
  constructor
  · simp; omega
  · simp only [ringOpens_append, ringOpens_map]; omega

/-- Both together for the graft of `Gly.Smi.graft`: instantiate with its conclusion. -/
theorem C05_graft_balance (pre post C' : List Tok) (M c0 : Atom) (S A c : St) (p : Nat) (P : Atom → Bool)
    (hpre : run St.init pre = some S) (hp : S.prev = some p)
    (hA : run St.init (pre ++ [Tok.atom M] ++ post) = some A)
    (hleaf : post = [] ∨ ∃ post', post = Tok.rpar :: post')
    (hc : run St.init (Tok.atom c0 :: C') = some c) (hclosed : c.stack = [] ∧ c.opens = [] ∧ c.pend = none)
    (hlab : ∀ l ∈ labelsOf C', lookupLabel l S.opens = none) :
    ∃ B, run St.init (pre ++ (Tok.atom c0 :: C') ++ post) = some B ∧
      B.atoms.countP P + [M].countP P = A.atoms.countP P + c.atoms.countP P ∧
      B.evs.length = A.evs.length + c.evs.length ∧
      ringOpens B.evs = ringOpens A.evs + ringOpens c.evs := by
  obtain ⟨B, as, es, hB, ea, ee, fa, fe, _, _, _⟩ := graft pre post C' M c0 S A c p hpre hp hA hleaf hc hclosed hlab
  refine ⟨B, hB, C05_atoms S A B c M as P ea fa, ?_⟩
  exact C05_bonds_and_rings S A B c _ es _ _ ee fe

/-- **Atom balance of the whole glycan** (any depth and width, O- and N-linkages), for every way `P` of counting atoms
    (oxygens, stereo carbons, …): the atoms of the assembled molecule plus what the linkages removed – one marker atom per
    linkage, standing for the parent's linking O or N, plus the anomeric O of every N-linked child (`lost`) – are exactly the
    atoms of all residue strings plus one N per N-linkage (`gained`). With the implicit hydrogens of the organic subset this
    is "the residues minus n-1 water". -/
theorem C05_tree_atoms (isMk : Atom → Bool) (hN : isMk ['N'] = false) (t : TNode) (h : wfTree isMk t = true) (P : Atom → Bool) :
    (atomsOf (mergeTok t)).countP P + (lost t).countP P = (gained t).countP P :=
  tree_balance isMk hN t h P

/-- **Ring and bond balance of the whole glycan**: the Spec molecule has exactly the ring closures of its residues and
    exactly their bond events (the bond to each marker becomes the glycosidic bond) – and by `C01_tree_refines_spec` the
    assembled string denotes that molecule. -/
theorem C05_tree_rings (isMk : Atom → Bool) (hN : isMk ['N'] = false) (t : TNode) (h : wfTree isMk t = true) :
    ∃ M, sem (mergeTok t) = some M ∧ ringOpens M.evs = treeRings t ∧ M.evs.length = treeBonds t := by
  obtain ⟨M, h1, h2, _, _⟩ := tree_ok isMk hN t h
  exact ⟨M, h1, spec_rings t M h2⟩

open Gly.EnumC in
/-- **Marking a linkage position costs exactly one O (or N)** (Model of `Monomer.mark`, tied to monomer.py by the atom and element
    observed to change in every call inside real conversions): on success exactly one atom – an oxygen or a nitrogen, never a
    carbon – has become the marker of its kind; every other atom, every flag and every bond of the residue is what it was. Together
    with `C05_tree_atoms` (one marker lost per linkage in the assembly) this is the water balance of a glycosidic bond. -/
theorem C05_mark_one_atom (v : View) (x : Numbering) (pos oZ nZ : Nat) (v' : View) (h : mark v x pos oZ nZ = .ok v') :
    ∃ r, (((v.at r).z = 8 ∧ v' = v.setZ r oZ) ∨ ((v.at r).z = 7 ∧ v' = v.setZ r nZ)) ∧
      (∀ j, j ≠ r → v'.at j = v.at j) ∧ v'.adj = v.adj ∧ v'.atoms.length = v.atoms.length :=
  mark_spec v x pos oZ nZ v' h

open Gly.Plan in
/-- **One linkage per residue but the reducing end**: the binding plan (Model of `Merger.mark` / `merge_int`, `C01_linkage_plan`) has
    exactly one linkage per residue written to the left of the reducing end – the children of the linkages are the ids 1, 2, …, each
    once – so a glycan of `n` residues is assembled with `n - 1` condensations, each costing one marker (`C05_mark_one_atom`,
    `C05_tree_atoms`). -/
theorem C05_one_linkage_per_residue {α : Type} (down : Nat → α → α) (w : WalkCfg) (F : GF) (a : α) :
    (linkages down w F 0 1 0 a).length = F.size ∧ (linkages down w F 0 1 0 a).map (·.2.1) = List.range' 1 F.size :=
  ⟨linkages_length down w F 0 1 0 a, linkages_children down w F 0 1 0 a⟩

open Gly.EnumC in
/-- **A linking atom is used once**: after `mark` has turned an atom into a marker, every later successful `mark` on the same residue –
    same or another position – chooses a different atom; two residues written onto one position are therefore bound to two
    different atoms (a phosphodiester's two free ends) or the second one raises – never silently onto the atom already used.
    (The marker elements are neither O nor N: `C01_marker_table`.) -/
theorem C05_linking_atom_used_once (v : View) (x x' : Numbering) (pos pos' oZ nZ oZ' nZ' r z r' z' : Nat)
    (hm : oZ ≠ 8 ∧ oZ ≠ 7 ∧ nZ ≠ 8 ∧ nZ ≠ 7)
    (h1 : markAt v x pos oZ nZ = .ok (r, z)) (h2 : markAt (v.setZ r z) x' pos' oZ' nZ' = .ok (r', z')) : r' ≠ r :=
  mark_never_reuses v x x' pos pos' oZ nZ oZ' nZ' r z r' z' hm h1 h2

end Gly.Props.C05
