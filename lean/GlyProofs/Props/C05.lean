import GlyProofs.Smiles.Graft
/-
  C05 — Condensation mass balance. (Property theorems only.)
-/
namespace Gly.Props.C05
open Gly Gly.Smi

def ringOpens (es : List Ev) : Nat := es.countP (fun e => match e with | .ropen _ _ _ => true | _ => false)

theorem ringOpens_map (f : Nat → Nat) (es : List Ev) : ringOpens (es.map (Ev.map f)) = ringOpens es := by
  induction es with
  | nil => rfl
  | cons e es ih =>
    cases e <;> simp [ringOpens, Ev.map, List.countP_cons] at ih ⊢ <;> omega

theorem ringOpens_append (a b : List Ev) : ringOpens (a ++ b) = ringOpens a + ringOpens b := by
  simp [ringOpens, List.countP_append]

/-- **Atom balance of one splice**, for every way of counting atoms (`P` = "is an oxygen", "is a stereo carbon", …):
    the result has the atoms of the marked parent and of the block, minus the marker atom – whatever the residues are. -/
theorem C05_atoms (S A B c : St) (M : Atom) (as : List Atom) (P : Atom → Bool)
    (hA : A.atoms = S.atoms ++ [M] ++ as) (hB : B.atoms = S.atoms ++ c.atoms ++ as) :
    B.atoms.countP P + [M].countP P = A.atoms.countP P + c.atoms.countP P := by
  rw [hA, hB]; simp only [List.countP_append]; omega

/-- **Bond and ring balance of one splice**: the result has the bonds of both parts (the bond to the marker becomes the
    glycosidic bond) and its number of ring closures is the sum of theirs – also when ring labels are re-used. -/
theorem C05_bonds_and_rings (S A B c : St) (e0 : Ev) (es : List Ev) (f g : Nat → Nat)
    (hA : A.evs = S.evs ++ [e0] ++ es)
    (hB : B.evs = S.evs ++ [e0] ++ c.evs.map (Ev.map f) ++ es.map (Ev.map g)) :
    B.evs.length = A.evs.length + c.evs.length ∧ ringOpens B.evs = ringOpens A.evs + ringOpens c.evs := by
  rw [hA, hB]
  constructor
  · simp; omega
  · simp only [ringOpens_append, ringOpens_map]; omega

/-- Both together for the graft of `Gly.Smi.graft`: instantiate with its conclusion. -/
theorem C05_graft_balance (pre post C' : List Tok) (M c0 : Atom) (S A c : St) (p : Nat) (P : Atom → Bool)
    (hpre : run St.init pre = some S) (hp : S.prev = some p)
    (hA : run St.init (pre ++ [Tok.atom M] ++ post) = some A)
    (hleaf : post = [] ∨ ∃ post', post = Tok.rpar :: post')
    (hc : run St.init (Tok.atom c0 :: C') = some c) (hclosed : c.stack = [] ∧ c.opens = [] ∧ c.pend = none)
    (hlab : ∀ l ∈ labelsOf C', lookupLabel l S.opens = none) :
    ∃ B, run St.init (pre ++ (Tok.atom c0 :: C') ++ post) = some B ∧
      B.atoms.countP P + [M].countP P = A.atoms.countP P + c.atoms.countP P ∧
      B.evs.length = A.evs.length + c.evs.length ∧
      ringOpens B.evs = ringOpens A.evs + ringOpens c.evs := by
  obtain ⟨B, as, es, hB, ea, ee, fa, fe, _, _, _⟩ := graft pre post C' M c0 S A c p hpre hp hA hleaf hc hclosed hlab
  refine ⟨B, hB, C05_atoms S A B c M as P ea fa, ?_⟩
  exact C05_bonds_and_rings S A B c _ es _ _ ee fe

end Gly.Props.C05
