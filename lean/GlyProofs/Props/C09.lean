import GlyModel.Api.Convert
import GlyProofs.Api.Lines
/-
  C09 — Batch conversion is total, aligned, ordered and verbatim. (Property theorems only.)
-/
namespace Gly.Props.C09
open Gly.Api

/-- All inputs in the documented order: single, list, file lines, generator. -/
def allInputs (single : Option Input) (list fileLines gen : Option (List Input)) : List Input :=
  preprocess single list fileLines ++ gen.getD []

/-- joblib's contract, as an explicit hypothesis on the parameter `par`: results come back in submission order. -/
def InOrder (par : (Input → Pair) → List Input → List Pair) : Prop := ∀ f xs, par f xs = xs.map f

/-- For every per-glycan behaviour `conv` (success, ParseError, any other exception – at any positions), every mix of
    the four argument kinds and every sink: `convert` returns exactly one pair per input, in the documented order,
    input echoed unchanged, empty SMILES for every raising input. -/
theorem C09_pairs (par) (hpar : InOrder par) (conv : Input → Outcome)
    (single : Option Input) (list fileLines gen : Option (List Input)) (verbose : Verbose) (w : World)
    (hne : allInputs single list fileLines gen ≠ [] ∨ gen.isSome) :
    (convert par conv single list fileLines gen .returning verbose w).1 =
      .list ((allInputs single list fileLines gen).map (generate conv)) := by
  unfold convert allInputs at *
  have hp := hpar (generate conv)
  cases hg : gen with
  | none =>
    simp only [hg] at hne
    have hnz : (preprocess single list fileLines).isEmpty = false := by
      cases h : preprocess single list fileLines <;> simp_all
    simp [hg, hnz, hp]
  | some g =>
    cases h : (preprocess single list fileLines).isEmpty <;> simp_all [List.isEmpty_iff]

/-- One pair per input, first components are the inputs themselves, verbatim and in order. -/
theorem C09_aligned (conv : Input → Outcome) (xs : List Input) :
    (xs.map (generate conv)).length = xs.length ∧ (xs.map (generate conv)).map (·.1) = xs := by
  constructor
  · simp
  · induction xs with
    | nil => rfl
    | cons x xs ih => simp [generate, ih]

/-- Isolation: the pair at position `i` is a function of input `i` alone – failing neighbours do not disturb it. -/
theorem C09_isolated (conv : Input → Outcome) (xs : List Input) (i : Nat) (h : i < xs.length) :
    (xs.map (generate conv))[i]'(by simpa using h) = (xs[i], (conv xs[i]).text) := by
  simp [generate]

/-- A raising input yields the empty SMILES, whatever it raised. -/
theorem C09_failing_input_empty (conv : Input → Outcome) (g : Input) (h : conv g = .raisesParse ∨ conv g = .raisesOther) :
    (generate conv g).2 = [] := by
  rcases h with h | h <;> simp [generate, h, Outcome.text]

/-- The generator variant yields the same sequence. -/
theorem C09_generator_same (par) (hpar : InOrder par) (conv : Input → Outcome)
    (single : Option Input) (list fileLines gen : Option (List Input)) (verbose : Verbose) (w : World)
    (hne : allInputs single list fileLines gen ≠ [] ∨ gen.isSome) :
    (convert par conv single list fileLines gen .returning verbose w).1 =
      .list (convertGenerator conv single list fileLines gen verbose w).1 := by
  rw [C09_pairs par hpar conv single list fileLines gen verbose w hne]
  unfold convertGenerator allInputs at *
  cases hg : gen with
  | none =>
    simp only [hg] at hne
    have hnz : (preprocess single list fileLines).isEmpty = false := by
      cases h : preprocess single list fileLines <;> simp_all
    simp [hnz]
  | some g => simp

/-- Non-vacuity: a batch with a failing input in the middle. -/
theorem C09_example :
    let conv : Input → Outcome := fun g => match g with
      | .str ['G'] => .smiles ['O'] | .other _ => .raisesParse | _ => .raisesOther
    (convert (fun f xs => xs.map f) conv (some (.str ['G'])) (some [.other 0, .str ['x']]) none (some [.str ['G']]) .returning .none_
        ⟨false, [], []⟩).1 matches .list [(.str ['G'], ['O']), (.other 0, []), (.str ['x'], []), (.str ['G'], ['O'])] := by
  decide

/-- **A glycan file is one glycan per line** (Model of `[l.strip() for l in open(f).readlines()]`, tied to converter.py by giving the
    driver the raw file content): glycans without line terminators and without leading / trailing white space, written one per
    line, are read back as exactly that list in that order – so the file argument contributes exactly those inputs. -/
theorem C09_file_lines_roundtrip (gs : List (List Char)) (h : ∀ g ∈ gs, NoNL g)
    (h1 : ∀ g ∈ gs, ∀ x, g.head? = some x → isSpace x = false)
    (h2 : ∀ g ∈ gs, ∀ x, g.getLast? = some x → isSpace x = false) :
    readLines (gs.flatMap (· ++ ['\n'])) = gs :=
  readLines_roundtrip gs h h1 h2

/-- Line terminators: `\n`, `\r\n` and `\r` end a line, nothing else does (form feed, `\x1c`–`\x1e`, `\x85`, U+2028 stay inside the
    line – `str.splitlines()` would split there), and a trailing terminator starts no further line. -/
theorem C09_line_terminators :
    splitLines "Glc\nMan\r\nGal\rFuc".toList = ["Glc".toList, "Man".toList, "Gal".toList, "Fuc".toList] ∧
    splitLines "Glc\x0cMan\x1cGal\u2028Fuc\n".toList = ["Glc\x0cMan\x1cGal\u2028Fuc".toList] ∧
    splitLines "Glc\n\n".toList = ["Glc".toList, []] ∧ splitLines [] = [] := by
  decide +kernel

end Gly.Props.C09
