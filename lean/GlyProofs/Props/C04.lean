import GlyModel.Generated.Tables
import GlyProofs.Mono.AssembleSound
import GlyProofs.Mono.ReactLemmas
import GlyProofs.Mono.ReactCommute
import GlyProofs.Mono.AnchorP
import GlyProofs.Mono.AnchorF
/-
  C04 — A modification adds its named group at its named carbon, and only that. (Property theorems only.)
-/
namespace Gly.Props.C04
open Gly Gly.Gen

def parensBalanced (s : List Char) : Bool :=
  (s.foldl (fun (acc : Option Nat) c => match acc with
      | none => none
      | some d => if c == '(' then some (d + 1) else if c == ')' then (if d == 0 then none else some (d - 1)) else some d) (some 0)) == some 0

def ringDigits (s : List Char) : List Char := s.filter (fun c => '0'.toNat ≤ c.toNat && c.toNat ≤ '9'.toNat)

/-- Over the complete regenerated `functional_groups` table: every fragment has balanced parentheses, no empty branch,
    no placeholder bracket, and every ring-closure digit occurs an even number of times (closed within the fragment). -/
theorem C04_fg_fragments_wellformed :
    functionalGroups.all (fun (_, v) =>
      parensBalanced v && !(['(', ')'].isPrefixOf v) &&
      (ringDigits v).all (fun d => (ringDigits v).count d % 2 == 0)) = true := by
  decide +kernel

/-- Keys of the table are unique and every name in `preserve_elem` and the conflict lists is a key of the table. -/
theorem C04_tables_consistent :
    (functionalGroups.map (·.1)).Nodup ∧
    preserveElem.all (fun k => (functionalGroups.map (·.1)).contains k) = true := by
  decide +kernel

/-- `assemble_chains` bumps the digit `2` only: fragments using ring labels other than 2 are exactly these
    (Fmoc, NAP), for which a bicyclic residue would re-use label 3. -/
theorem C04_fragments_with_other_labels :
    (functionalGroups.filter (fun (_, v) => (ringDigits v).any (· != '2'))).map (·.1) = ["Fmoc".toList, "NAP".toList] := by
  decide +kernel

open Gly.React in
/-- **A single positional modification**: for every residue view (any sugar, any number of carbons), every position `p`
    within the residue whose `find_oxygen` atom is `e`, and every group name that takes the plain branch (`plainSide`,
    decided on the token text), the first round of `react` on `<p><name>` writes exactly one cell: position `p`, the O-slot
    (the C-slot if `e` is a carbon), containing the position's own element iff the name is in `preserve_elem`, followed by the
    table's fragment – every other cell stays empty, and the residue stays `full`. -/
theorem C04_single_mod (v : View) (c0 : Char) (rest val : List Char) (e : Char)
    (hside : plainSide c0 rest = true)
    (hp : c0.toNat - '0'.toNat ≤ v.ncarbon)
    (he : v.elemAt.getD (c0.toNat - '0'.toNat) none = some e)
    (hv : fgLookup rest = some val) :
    reactRound v [c0 :: rest] =
      .ok ⟨setCell (initChains v) (c0.toNat - '0'.toNat) (if e == 'C' then 1 else 0)
             (· ++ (let elem : List Char := if Gen.preserveElem.contains rest then [e] else []
                    let be := if elem == ['C'] then [] else elem
                    if be == ['P'] then "OP(=O)(O)".toList else be) ++ val),
           [], true⟩ := by
  have hlen : (initChains v).length = 1 + v.ncarbon := by simp [initChains]
  have hp' : c0.toNat - '0'.toNat ≤ (initChains v).length - 1 := by rw [hlen]; omega
  have hpos : c0.toNat - '0'.toNat < (initChains v).length := by rw [hlen]; omega
  have h1 := reactToken_plain v ⟨initChains v, [], true⟩ c0 rest val e hside hp' he
  have h2 := setFg_empty (initChains v) (if e == 'C' then 1 else 0) (c0.toNat - '0'.toNat)
    (if (if Gen.preserveElem.contains rest then [e] else []) == ['C'] then [] else (if Gen.preserveElem.contains rest then [e] else []))
    rest val hpos (by simp [initChains, getCell_replicate]) hv
  show bindO (.ok ⟨initChains v, [], true⟩) (fun st => reactToken v st (c0 :: rest)) = _
  simp only [bindO]
  rw [h1]
  simp only
  rw [h2]
  simp only [bindO, Bool.and_true, Bool.true_and]

open Gly.React in
/-- **Modifications at different positions compose independently of the order in which they are written**: for any residue
    view, two plain positional tokens at different positions (groups with a non-empty fragment) give the same `side_chains`,
    the same postponed list and the same `full` flag in either order. -/
theorem C04_commute (v : View) (c1 c2 : Char) (r1 r2 v1 v2 : List Char) (e1 e2 : Char)
    (hs1 : plainSide c1 r1 = true) (hs2 : plainSide c2 r2 = true)
    (hp1 : c1.toNat - '0'.toNat ≤ v.ncarbon) (hp2 : c2.toNat - '0'.toNat ≤ v.ncarbon)
    (he1 : v.elemAt.getD (c1.toNat - '0'.toNat) none = some e1) (he2 : v.elemAt.getD (c2.toNat - '0'.toNat) none = some e2)
    (hv1 : fgLookup r1 = some v1) (hv2 : fgLookup r2 = some v2) (hn1 : v1 ≠ []) (hn2 : v2 ≠ [])
    (hne : c1.toNat - '0'.toNat ≠ c2.toNat - '0'.toNat) :
    reactRound v [c1 :: r1, c2 :: r2] = reactRound v [c2 :: r2, c1 :: r1] := by
  have hlen : (initChains v).length = 1 + v.ncarbon := by simp [initChains]
  -- generic: one plain token on a state whose chains have the initial length
  have one : ∀ (st : RState) (c : Char) (r val : List Char) (e : Char), st.chains.length = 1 + v.ncarbon →
      plainSide c r = true → c.toNat - '0'.toNat ≤ v.ncarbon → v.elemAt.getD (c.toNat - '0'.toNat) none = some e →
      fgLookup r = some val → val ≠ [] →
      ∃ f, reactToken v st (c :: r) = .ok { st with chains := setCell st.chains (c.toNat - '0'.toNat) (if e == 'C' then 1 else 0) f } ∧
           ∀ (st' : RState), st'.chains.length = 1 + v.ncarbon →
             getCell st'.chains (c.toNat - '0'.toNat) (if e == 'C' then 1 else 0) = getCell st.chains (c.toNat - '0'.toNat) (if e == 'C' then 1 else 0) →
             reactToken v st' (c :: r) = .ok { st' with chains := setCell st'.chains (c.toNat - '0'.toNat) (if e == 'C' then 1 else 0) f } := by
    intro st c r val e hl hs hp he hv hn
    have key : ∀ (s : RState), s.chains.length = 1 + v.ncarbon →
        reactToken v s (c :: r) = bindO (setFg s.chains (if e == 'C' then 1 else 0) (c.toNat - '0'.toNat)
          (if (if Gen.preserveElem.contains r then [e] else []) == ['C'] then [] else (if Gen.preserveElem.contains r then [e] else [])) r)
          (fun (cs, ok) => .ok { s with chains := cs, full := s.full && ok }) := by
      intro s hsl
      exact reactToken_plain v s c r val e hs (by rw [hsl]; omega) he
    obtain ⟨f, hf⟩ := fgEdit_ok (getCell st.chains (c.toNat - '0'.toNat) (if e == 'C' then 1 else 0))
      (if (if Gen.preserveElem.contains r then [e] else []) == ['C'] then [] else (if Gen.preserveElem.contains r then [e] else [])) r val hv hn
    refine ⟨f, ?_, ?_⟩
    · rw [key st hl]
      unfold setFg
      have : ¬ (c.toNat - '0'.toNat ≥ st.chains.length) := by rw [hl]; omega
      simp only [this, if_false, hf, bindO, Bool.and_true]
    · intro st' hl' hcell
      rw [key st' hl']
      unfold setFg
      have : ¬ (c.toNat - '0'.toNat ≥ st'.chains.length) := by rw [hl']; omega
      simp only [this, if_false, hcell, hf, bindO, Bool.and_true]
  let st0 : RState := ⟨initChains v, [], true⟩
  obtain ⟨f1, h1, h1'⟩ := one st0 c1 r1 v1 e1 hlen hs1 hp1 he1 hv1 hn1
  obtain ⟨f2, h2, h2'⟩ := one st0 c2 r2 v2 e2 hlen hs2 hp2 he2 hv2 hn2
  have hne' : c2.toNat - '0'.toNat ≠ c1.toNat - '0'.toNat := fun e => hne e.symm
  -- second token after the first: its own cell is untouched by the first
  have s12 := h2' { st0 with chains := setCell st0.chains (c1.toNat - '0'.toNat) (if e1 == 'C' then 1 else 0) f1 }
    (by simp [setCell_length, st0, hlen]) (getCell_setCell_ne _ _ _ _ _ _ hne)
  have s21 := h1' { st0 with chains := setCell st0.chains (c2.toNat - '0'.toNat) (if e2 == 'C' then 1 else 0) f2 }
    (by simp [setCell_length, st0, hlen]) (getCell_setCell_ne _ _ _ _ _ _ hne')
  show bindO (bindO (.ok st0) (fun st => reactToken v st (c1 :: r1))) (fun st => reactToken v st (c2 :: r2)) =
       bindO (bindO (.ok st0) (fun st => reactToken v st (c2 :: r2))) (fun st => reactToken v st (c1 :: r1))
  simp only [bindO, h1, h2, s12, s21]
  rw [setCell_comm _ _ _ _ _ _ _ hne]

open Gly.React in
/-- The side conditions hold – by kernel evaluation over the complete regenerated table and all nine digits – for these
    group names (in particular S, P, Ac, Me, Bz, Bn, the halides, azide, the fatty acyl names …): the theorem above applies
    to every one of them on every sugar. -/
def plainKeys : List (List Char) :=
  (Gen.functionalGroups.map (·.1)).filter (fun k => !k.isEmpty && ['1', '2', '3', '4', '5', '6', '7', '8', '9'].all (fun c => plainSide c k))

theorem C04_plain_keys_many : Nat.ble 120 plainKeys.length = true := by decide +kernel

theorem C04_plain_keys_core :
    [['S'], ['A', 'c'], ['M', 'e'], ['B', 'z'], ['B', 'n'], ['F'], ['C', 'l'], ['B', 'r'], ['I'], ['N', '3'], ['G', 'c'],
     ['L', 'a', 'u'], ['M', 'y', 'r'], ['P', 'a', 'm'], ['S', 't', 'e'], ['O', 'l', 'e'], ['T', 's'], ['T', 'B', 'S'], ['B', 'o', 'c']].all
      (fun k => plainKeys.contains k) = true := by
  decide +kernel

/-- the keys of the table that take another branch (bridge letters `N`/`P`/`O`/`C` not covered by the conflict lists) -/
theorem C04_non_plain_keys :
    ((Gen.functionalGroups.map (·.1)).filter (fun k => !plainKeys.contains k)).all (fun k =>
      ["", "N", "NFo", "P", "PhNO2", "Phyt", "Piv", "Poc", "Pen", "Oct", "Ccr", "Phthi"].contains (String.ofList k)) = true := by
  decide +kernel
/-! ### the string half of `assemble_chains`: placeholders replaced by fragments = graft of the fragments -/

open Gly.React Gly.Smi in
/-- Soundness of the certificate the driver evaluates on **every observed `assemble_chains` call** (the SMILES with placeholder
    atoms RDKit wrote, `side_chains`, the ring offset, and the residue SMILES the code stored): that SMILES denotes the
    residue-with-placeholders molecule with every functional-group fragment grafted at its placeholder atom – the group sits
    where the placeholder sat, and every other atom, bond event, ordered neighbour list and stereo mark of the residue is
    unchanged – and no placeholder atom is left. (Instance of the whole-tree theorem: the fragments are leaf children.) -/
theorem C04_certified_assemble (marked : List Char) (chains : List (List Char × List Char)) (offset : Nat) (final : List Char)
    (h : certifyAssemble marked chains offset final = true) :
    ∃ t tf M, assembleTree marked chains offset = some t ∧ tokenize final = some tf ∧
      sem tf = some M ∧ specTree t = some M ∧ ∀ a ∈ M.atoms, isMkPlaceholder a = false :=
  certifyAssemble_sound marked chains offset final h

open Gly.React in
/-- Non-vacuity on the strings observed for `Gal3S6Ac` (two placeholders, explicit-hydrogen carbon next to one of them), and the
    Model's text is the code's text. -/
theorem C04_assemble_example :
    let marked := "O1C(O)[C@H](O)[C@@H]([AsH2])[C@@H](O)[C@H]1[CH2][SnH]".toList
    let chains : List (List Char × List Char) :=
      [([], []), ([], []), ([], []), ("OS(=O)(=O)O".toList, []), ([], []), ([], []), ("OC(=O)C".toList, [])]
    let final := "O1C(O)[C@H](O)[C@@H](OS(=O)(=O)O)[C@@H](O)[C@H]1COC(=O)C".toList
    assembleText marked chains 0 = final ∧ certifyAssemble marked chains 0 final = true := by
  decide +kernel

open Gly.EnumC in
/-- **Where position-less groups go**: the reactor anchors every modification written without a position on `ring_c` (`OMe`, bare
    groups) or `ring_c + 1` (`NAc`, `NS`, `PEtn`, … – `C04`'s Model `tokenEffect`). For every anomer-less row of both ring tables the
    Model of `ring_c` (smallest number of a carbon lying in the main ring only, on the Model of the code's numbering; tied to
    reactor.py by comparing it with `self.ring_c` on the features observed before `check_for_anhydro`) is the number of the anomeric
    carbon in the chemistry-level main chain – 1 for aldoses, 2 for 2-ketoses. Kernel evaluation over the regenerated tables. -/
theorem C04_default_anchor_table :
    anchorOk Gen.pyranoseTable ["API", "ERWINIOSE", "YER"] = true ∧ anchorOk Gen.furanoseTable ["API"] = true :=
  ⟨anchor_pyranose, anchor_furanose⟩

open Gly.React in
/-- **Order-independence for every token shape** (positioned, position-less, bridged `N`/`O`/`P`, `C`-linked, dashed, deoxy, uronic,
    amine, …): what a modification token does is decided from its text, the residue view and the size of the side-chain table
    (`tokenOp`) – never from the table's content – and is an operation on one cell; two tokens whose operations write different
    positions can be written in either order: whenever the round handles `n1` then `n2`, it handles `n2` then `n1` with the same
    side-chain table, the same postponed list and the same `full` flag. Any residue view, any table. -/
theorem C04_commute_all_shapes (v : View) (st : RState) (n1 n2 : List Char) (o1 o2 : CellOp) (p1 c1 p2 c2 : Nat)
    (ho1 : tokenOp v st.chains.length n1 = .ok o1) (ho2 : tokenOp v st.chains.length n2 = .ok o2)
    (h1 : o1.cell = some (p1, c1)) (h2 : o2.cell = some (p2, c2)) (hne : p1 ≠ p2) (s : RState)
    (h : bindO (reactToken v st n1) (fun s1 => reactToken v s1 n2) = .ok s) :
    bindO (reactToken v st n2) (fun s2 => reactToken v s2 n1) = .ok s :=
  reactToken_comm v st n1 n2 o1 o2 p1 c1 p2 c2 ho1 ho2 h1 h2 hne s h

open Gly.React in
/-- Non-vacuity: on a glucose view `NAc` (position-less: cell 2), `6S` (cell 6), `3-O-Me-` (cell 3) and `A` (cell 6, the uronic
    carbon) are cell operations; `NAc` and `6S` satisfy the hypotheses of `C04_commute_all_shapes`. -/
theorem C04_commute_examples :
    let glc : View := ⟨"Glc".toList, 6, [none, some 'O', some 'O', some 'O', some 'O', none, some 'O', none], 1, 6⟩
    ((tokenOp glc 7 "NAc".toList).map' CellOp.cell = some (some (2, 0))) ∧
    ((tokenOp glc 7 "6S".toList).map' CellOp.cell = some (some (6, 0))) ∧
    ((tokenOp glc 7 "3-O-Me-".toList).map' CellOp.cell = some (some (3, 0))) ∧
    ((tokenOp glc 7 "A".toList).map' CellOp.cell = some (some (6, 0))) ∧
    ((bindO (reactToken glc ⟨initChains glc, [], true⟩ "NAc".toList) (fun s1 => reactToken glc s1 "6S".toList)).map' (·.chains) =
     (bindO (reactToken glc ⟨initChains glc, [], true⟩ "6S".toList) (fun s1 => reactToken glc s1 "NAc".toList)).map' (·.chains)) := by
  decide +kernel

end Gly.Props.C04
