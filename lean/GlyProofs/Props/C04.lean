import GlyModel.Generated.Tables
/-
  C04 — A modification adds its named group at its named carbon, and only that. (Property theorems only.)
-/
namespace Gly.Props.C04
open Gly Gly.Gen

def parensBalanced (s : List Char) : Bool :=
  (s.foldl (fun (acc : Option Nat) c => match acc with
      | none => none
      | some d => if c == '(' then some (d + 1) else if c == ')' then (if d == 0 then none else some (d - 1)) else some d) (some 0)) == some 0

def ringDigits (s : List Char) : List Char := s.filter (fun c => '0'.toNat ≤ c.toNat && c.toNat ≤ '9'.toNat)

/-- Over the complete regenerated `functional_groups` table: every fragment has balanced parentheses, no empty branch,
    no placeholder bracket, and every ring-closure digit occurs an even number of times (closed within the fragment). -/
theorem C04_fg_fragments_wellformed :
    functionalGroups.all (fun (_, v) =>
      parensBalanced v && !(['(', ')'].isPrefixOf v) &&
      (ringDigits v).all (fun d => (ringDigits v).count d % 2 == 0)) = true := by
  decide +kernel

/-- Keys of the table are unique and every name in `preserve_elem` and the conflict lists is a key of the table. -/
theorem C04_tables_consistent :
    (functionalGroups.map (·.1)).Nodup ∧
    preserveElem.all (fun k => (functionalGroups.map (·.1)).contains k) = true := by
  decide +kernel

/-- `assemble_chains` bumps the digit `2` only: fragments using ring labels other than 2 are exactly these
    (Fmoc, NAP), for which a bicyclic residue would re-use label 3. -/
theorem C04_fragments_with_other_labels :
    (functionalGroups.filter (fun (_, v) => (ringDigits v).any (· != '2'))).map (·.1) = ["Fmoc".toList, "NAP".toList] := by
  decide +kernel

end Gly.Props.C04
