import GlyModel.Generated.Tables
import GlyProofs.Mono.ReactLemmas
/-
  C04 — A modification adds its named group at its named carbon, and only that. (Property theorems only.)
-/
namespace Gly.Props.C04
open Gly Gly.Gen

def parensBalanced (s : List Char) : Bool :=
  (s.foldl (fun (acc : Option Nat) c => match acc with
      | none => none
      | some d => if c == '(' then some (d + 1) else if c == ')' then (if d == 0 then none else some (d - 1)) else some d) (some 0)) == some 0

def ringDigits (s : List Char) : List Char := s.filter (fun c => '0'.toNat ≤ c.toNat && c.toNat ≤ '9'.toNat)

/-- Over the complete regenerated `functional_groups` table: every fragment has balanced parentheses, no empty branch,
    no placeholder bracket, and every ring-closure digit occurs an even number of times (closed within the fragment). -/
theorem C04_fg_fragments_wellformed :
    functionalGroups.all (fun (_, v) =>
      parensBalanced v && !(['(', ')'].isPrefixOf v) &&
      (ringDigits v).all (fun d => (ringDigits v).count d % 2 == 0)) = true := by
  decide +kernel

/-- Keys of the table are unique and every name in `preserve_elem` and the conflict lists is a key of the table. -/
theorem C04_tables_consistent :
    (functionalGroups.map (·.1)).Nodup ∧
    preserveElem.all (fun k => (functionalGroups.map (·.1)).contains k) = true := by
  decide +kernel

/-- `assemble_chains` bumps the digit `2` only: fragments using ring labels other than 2 are exactly these
    (Fmoc, NAP), for which a bicyclic residue would re-use label 3. -/
theorem C04_fragments_with_other_labels :
    (functionalGroups.filter (fun (_, v) => (ringDigits v).any (· != '2'))).map (·.1) = ["Fmoc".toList, "NAP".toList] := by
  decide +kernel

open Gly.React in
/-- **A single positional modification**: for every residue view (any sugar, any number of carbons), every position `p`
    within the residue whose `find_oxygen` atom is `e`, and every group name that takes the plain branch (`plainSide`,
    decided on the token text), the first round of `react` on `<p><name>` writes exactly one cell: position `p`, the O-slot
    (the C-slot if `e` is a carbon), containing the position's own element iff the name is in `preserve_elem`, followed by the
    table's fragment – every other cell stays empty, and the residue stays `full`. -/
theorem C04_single_mod (v : View) (c0 : Char) (rest val : List Char) (e : Char)
    (hside : plainSide c0 rest = true)
    (hp : c0.toNat - '0'.toNat ≤ v.ncarbon)
    (he : v.elemAt.getD (c0.toNat - '0'.toNat) none = some e)
    (hv : fgLookup rest = some val) :
    reactRound v [c0 :: rest] =
      .ok ⟨setCell (initChains v) (c0.toNat - '0'.toNat) (if e == 'C' then 1 else 0)
             (· ++ (let elem : List Char := if Gen.preserveElem.contains rest then [e] else []
                    let be := if elem == ['C'] then [] else elem
                    if be == ['P'] then "OP(=O)(O)".toList else be) ++ val),
           [], true⟩ := by
  have hlen : (initChains v).length = 1 + v.ncarbon := by simp [initChains]
  have hp' : c0.toNat - '0'.toNat ≤ (initChains v).length - 1 := by rw [hlen]; omega
  have hpos : c0.toNat - '0'.toNat < (initChains v).length := by rw [hlen]; omega
  have h1 := reactToken_plain v ⟨initChains v, [], true⟩ c0 rest val e hside hp' he
  have h2 := setFg_empty (initChains v) (if e == 'C' then 1 else 0) (c0.toNat - '0'.toNat)
    (if (if Gen.preserveElem.contains rest then [e] else []) == ['C'] then [] else (if Gen.preserveElem.contains rest then [e] else []))
    rest val hpos (by simp [initChains, getCell_replicate]) hv
  show bindO (.ok ⟨initChains v, [], true⟩) (fun st => reactToken v st (c0 :: rest)) = _
  simp only [bindO]
  rw [h1]
  simp only
  rw [h2]
  simp only [bindO, Bool.and_true, Bool.true_and]

open Gly.React in
/-- The side conditions hold – by kernel evaluation over the complete regenerated table and all nine digits – for these
    group names (in particular S, P, Ac, Me, Bz, Bn, the halides, azide, the fatty acyl names …): the theorem above applies
    to every one of them on every sugar. -/
def plainKeys : List (List Char) :=
  (Gen.functionalGroups.map (·.1)).filter (fun k => !k.isEmpty && ['1', '2', '3', '4', '5', '6', '7', '8', '9'].all (fun c => plainSide c k))

theorem C04_plain_keys_many : Nat.ble 120 plainKeys.length = true := by decide +kernel

theorem C04_plain_keys_core :
    [['S'], ['A', 'c'], ['M', 'e'], ['B', 'z'], ['B', 'n'], ['F'], ['C', 'l'], ['B', 'r'], ['I'], ['N', '3'], ['G', 'c'],
     ['L', 'a', 'u'], ['M', 'y', 'r'], ['P', 'a', 'm'], ['S', 't', 'e'], ['O', 'l', 'e'], ['T', 's'], ['T', 'B', 'S'], ['B', 'o', 'c']].all
      (fun k => plainKeys.contains k) = true := by
  decide +kernel

/-- the keys of the table that take another branch (bridge letters `N`/`P`/`O`/`C` not covered by the conflict lists) -/
theorem C04_non_plain_keys :
    ((Gen.functionalGroups.map (·.1)).filter (fun k => !plainKeys.contains k)).all (fun k =>
      ["", "N", "NFo", "P", "PhNO2", "Phyt", "Piv", "Poc", "Pen", "Oct", "Ccr", "Phthi"].contains (String.ofList k)) = true := by
  decide +kernel
end Gly.Props.C04
