import GlyProofs.Front.Label
import GlyProofs.Front.CreateLemmas
/-
  C06 — The three notations are one language.  (Property theorems only.)
-/
namespace Gly.Props.C06
open Gly Gly.Model

/-- Linkage normal form, fully parenthesised shapes `( t i - j )` and `( i - j )`: kept as written. -/
theorem C06_edge_full (w : WalkCfg) (child : Recipe) (body : List Char) :
    normLabel w child ('(' :: body) = '(' :: body := normLabel_paren w child body

/-- Condensed shape `t i - j` (any anomer symbol, any child and parent position – arbitrary texts without
    parentheses or dash, so every `NUM` and `?`): the walker re-inserts exactly the parentheses. -/
theorem C06_edge_condensed (w : WalkCfg) (child : Recipe) (t i j : List Char)
    (ht : NoSep t) (hi : NoSep i) (hj : NoSep j) :
    normLabel w child (t ++ i ++ ['-'] ++ j) = '(' :: (t ++ i ++ ['-'] ++ j) ++ [')'] :=
  normLabel_condensed w child t i j ht hi hj

/-- Short shape `t j`: the walker re-inserts the parentheses and the default child position. -/
theorem C06_edge_short (w : WalkCfg) (child : Recipe) (t : Char) (j : List Char)
    (ht : t ≠ '(' ∧ t ≠ ')' ∧ t ≠ '-') (hj : NoSep j) :
    normLabel w child (t :: j) = '(' :: t :: (if w.ketose2 child then '2' else '1') :: '-' :: j ++ [')'] :=
  normLabel_short w child t j ht hj

/-- Hence, for a walker whose default-position test is the Spec's (`isKetose2Spec`: the child's table entry is
    in `ketoses2`), short, condensed and full notation of the same linkage give the same edge label: 2 for
    2-ketoses, 1 otherwise. This is the full-strength statement of the linkage clause of C06. -/
theorem C06_notation_invariant_spec (nf : Recipe → Bool) (child : Recipe) (t : Char) (j : List Char)
    (ht : t ≠ '(' ∧ t ≠ ')' ∧ t ≠ '-') (hj : NoSep j) :
    let w : WalkCfg := ⟨Gen.frontCfg.tTYPE, nf, isKetose2Spec⟩
    let d : Char := if isKetose2Spec child then '2' else '1'
    normLabel w child (t :: j) = normLabel w child ([t] ++ [d] ++ ['-'] ++ j) ∧
    normLabel w child (t :: j) = normLabel w child ('(' :: ([t] ++ [d] ++ ['-'] ++ j ++ [')'])) := by
  intro w d
  have hd : NoSep [d] := by
    intro c hc; simp at hc; subst hc; simp only [d]; split <;> decide
  have htl : NoSep [t] := by intro c hc; simp at hc; subst hc; exact ht
  rw [normLabel_short w child t j ht hj, normLabel_condensed w child [t] [d] j htl hd hj, normLabel_paren]
  simp [d, w]

/-- The pinned code's test `(get_lactole, get_name()) in ketoses2` pairs a bound method with the name, so it is
    constantly false (`Model.ketose2`): the same statement for the Model holds only for children that are *not*
    2-ketoses (`_partial`) … -/
theorem C06_notation_invariant_partial (nf : Recipe → Bool) (child : Recipe) (t : Char) (j : List Char)
    (ht : t ≠ '(' ∧ t ≠ ')' ∧ t ≠ '-') (hj : NoSep j) (hk : isKetose2Spec child = false) :
    let w : WalkCfg := ⟨Gen.frontCfg.tTYPE, nf, Model.ketose2⟩
    let d : Char := if isKetose2Spec child then '2' else '1'
    normLabel w child (t :: j) = normLabel w child ('(' :: ([t] ++ [d] ++ ['-'] ++ j ++ [')'])) := by
  intro w d
  rw [normLabel_short w child t j ht hj, normLabel_paren]
  simp [d, w, hk, Model.ketose2]

/-- … and fails for 2-ketose children: `Neu5Ac a3 …` is read as `(a1-3)` although `Neu` is in `ketoses2`
    (replayed on the real code by the check: known finding D5). -/
theorem C06_default_pos_counterexample :
    let neu : Recipe := [("Neu".toList, Gen.frontCfg.tSAC), ("5Ac".toList, Gen.frontCfg.tMOD)]
    isKetose2Spec neu = true ∧
    normLabel Model.walkCfgTreeOnly neu "a3".toList = "(a1-3)".toList ∧
    normLabel Model.walkCfgTreeOnly neu "a3".toList ≠ "(a2-3)".toList := by
  decide +kernel

/-- Spelling out the pyranose default `p` does not change the table entry `create` resolves to. -/
theorem C06_ring_default (a b : Recipe) (config : List Char)
    (hnoR : firstOfType (a ++ b) Gen.frontCfg.tRING = none) :
    (create (a ++ ((['p'], Gen.frontCfg.tRING) :: b)) config).map (fun r => (r.table, r.key, r.row)) =
    (create (a ++ b) config).map (fun r => (r.table, r.key, r.row)) := by
  have hS : firstOfType (a ++ (['p'], Gen.frontCfg.tRING) :: b) Gen.frontCfg.tSAC = firstOfType (a ++ b) Gen.frontCfg.tSAC :=
    firstOfType_insert_other a b _ _ _ (by decide)
  have hT : firstOfType (a ++ (['p'], Gen.frontCfg.tRING) :: b) Gen.frontCfg.tTYPE = firstOfType (a ++ b) Gen.frontCfg.tTYPE :=
    firstOfType_insert_other a b _ _ _ (by decide)
  have hR : ∃ v, firstOfType (a ++ (['p'], Gen.frontCfg.tRING) :: b) Gen.frontCfg.tRING = some v ∧ (v != ['f']) = true := by
    by_cases ha : firstOfType a Gen.frontCfg.tRING = none
    · refine ⟨['p'], ?_, by decide⟩
      rw [firstOfType_append_none _ _ _ ha]; simp [firstOfType, List.find?_cons]
    · obtain ⟨v, hv⟩ := Option.ne_none_iff_exists'.mp ha
      have := firstOfType_append_some a b _ v hv
      rw [hnoR] at this; simp at this
  obtain ⟨v, hv, hvf⟩ := hR
  unfold create
  rw [hS, hT, hv, hnoR]
  cases firstOfType (a ++ b) Gen.frontCfg.tSAC with
  | none => rfl
  | some name0 =>
    simp only [hvf]
    by_cases hc : config.isEmpty = true <;> simp only [hc] <;>
      (cases firstOfType (a ++ b) Gen.frontCfg.tTYPE <;> simp <;> (repeat' split) <;> simp_all)

/-- The reducing-end anomer written as suffix (`Xa`: a `TYPE` token closing the residue) or after a blank
    (`X a`: handed to `create` as `config`) gives the same key, the same table row and the same stored recipe. -/
theorem C06_anomer_suffix (r : Recipe) (c : List Char) (hc : c.isEmpty = false)
    (hnoT : firstOfType r Gen.frontCfg.tTYPE = none) :
    create (r ++ [(c, Gen.frontCfg.tTYPE)]) [] = create r c := by
  have hS : firstOfType (r ++ [(c, Gen.frontCfg.tTYPE)]) Gen.frontCfg.tSAC = firstOfType r Gen.frontCfg.tSAC := by
    have := firstOfType_insert_other r [] c Gen.frontCfg.tSAC Gen.frontCfg.tTYPE (by decide)
    simpa using this
  have hR : firstOfType (r ++ [(c, Gen.frontCfg.tTYPE)]) Gen.frontCfg.tRING = firstOfType r Gen.frontCfg.tRING := by
    have := firstOfType_insert_other r [] c Gen.frontCfg.tRING Gen.frontCfg.tTYPE (by decide)
    simpa using this
  have hT : firstOfType (r ++ [(c, Gen.frontCfg.tTYPE)]) Gen.frontCfg.tTYPE = some c := by
    rw [firstOfType_append_none _ _ _ hnoT]; simp [firstOfType, List.find?_cons]
  unfold create
  rw [hS, hR, hT, hnoT]
  cases firstOfType r Gen.frontCfg.tSAC with
  | none => rfl
  | some name0 => simp [hc]

/-- Non-vacuity / sanity: concrete resolutions through the regenerated tables. -/
theorem C06_examples :
    (create [("Glc".toList, 3)] []).map (·.table) = some .pyranose ∧
    (create [("Glc".toList, 3), (['p'], 15)] []).map (·.table) = some .pyranose ∧
    (create [("Glc".toList, 3), (['f'], 15)] []).map (·.table) = some .furanose ∧
    (create [("Glc".toList, 3), (['a'], 14)] []).map (·.key) = some "a_Glc".toList ∧
    (create [("Glc".toList, 3)] ['a']).map (·.key) = some "a_Glc".toList ∧
    (create [("Unk".toList, 3)] []).map (·.table) = some .unknown := by
  decide +kernel

end Gly.Props.C06
