import GlyProofs.Front.Accept
import GlyProofs.Front.AtnSound
import GlyProofs.Front.AtnRtn
import GlyModel.Generated.Atn
import GlyModel.Generated.LexAtn
import GlyProofs.Front.LexAtnFG
import GlyProofs.Front.LexAtnSAC
import GlyProofs.Front.ParseComplete
/-
  C15 — What is accepted is exactly the published grammar.  (Property theorems only.)
-/
namespace Gly.Props.C15
open Gly

/-- The lexer Model is longest-match tokenisation over the token table regenerated from Glycan.g4:
    every token is in its rule's language, is non-empty, and no rule matches a longer prefix at its position;
    the token texts concatenate to the input. -/
theorem C15_lex_longest_match (inp : List Char) (ts : List Token) (h : lex Gen.lexRules inp = some ts) :
    MaxMunch Gen.lexRules inp ts ∧ (ts.map (·.text)).flatten = inp :=
  lex_spec _ _ _ h

/-- Soundness half of "accepted iff derivable": whatever the Model accepts tokenises by longest match and
    its whole sentinel-wrapped token stream is derived from the start rule of the grammar as it is in
    /repo now (the theorem is re-checked against the regenerated `Gen.grammar`). -/
theorem C15_accept_sound (s : List Char) (h : Model.accepts s = true) :
    ∃ ts, lex Gen.lexRules (Model.sentinel s) = some ts ∧
          MaxMunch Gen.lexRules (Model.sentinel s) ts ∧
          Derives Gen.grammar (.ref 0) ts :=
  accepts_sound s h

/-- Every parse the generic parser returns is a derivation, and its leaves are exactly the consumed tokens
    (for any grammar, any fuel). -/
theorem C15_parse_sound (g : Grammar) (fuel : Nat) (e : Rx) (inp : List Token) (k : List PT) (r : List Token)
    (h : (k, r) ∈ parseRx g fuel e inp) : inp = PT.yieldList k ++ r ∧ Derives g e (PT.yieldList k) :=
  parseRx_sound g fuel e inp k r h

/-- Completeness of the generic parser for ample fuel: whatever the grammar derives is found, for every continuation. -/
theorem C15_parse_complete (g : Grammar) (e : Rx) (w : List Token) (h : Derives g e w) :
    ∃ N, ∀ fuel, N ≤ fuel → ∀ r, ∃ k, (k, r) ∈ parseRx g fuel e (w ++ r) :=
  parseRx_complete g h.normalize

/-- **Accepted iff derivable**: for the grammar as regenerated from Glycan.g4, the recogniser accepts `s` for some fuel
    if and only if `#s#` tokenises by longest match and the whole token stream is a sentence of the start rule. -/
theorem C15_accept_iff (s : List Char) :
    (∃ fuel, Model.acceptsAny fuel s = true) ↔
    ∃ ts, lex Gen.lexRules (Model.sentinel s) = some ts ∧ Derives Gen.grammar (.ref 0) ts := by
  constructor
  · rintro ⟨fuel, h⟩
    unfold Model.acceptsAny at h
    cases hl : lex Gen.lexRules (Model.sentinel s) with
    | none => simp [hl] at h
    | some ts =>
      simp only [hl, List.any_eq_true] at h
      obtain ⟨⟨k, r⟩, hm, hr⟩ := h
      have hr' : r = [] := by simpa using hr
      subst hr'
      have := parseRx_sound _ _ _ _ _ _ hm
      refine ⟨ts, rfl, ?_⟩
      have e : ts = PT.yieldList k := by simpa using this.1
      rw [e]; exact this.2
  · rintro ⟨ts, hl, hd⟩
    obtain ⟨N, hN⟩ := parseRx_complete Gen.grammar hd.normalize
    obtain ⟨k, hk⟩ := hN N (Nat.le_refl _) []
    refine ⟨N, ?_⟩
    unfold Model.acceptsAny
    simp only [hl, List.any_eq_true]
    exact ⟨(k, []), by simpa using hk, by simp⟩

/-- Non-vacuity: the Model accepts a branched glycan and rejects trailing text after the closing sentinel. -/
theorem C15_examples :
    Model.accepts "Man(a1-3)[Man(a1-6)]Man(b1-4)GlcNAc".toList = true ∧
    Model.accepts "Glc#Man".toList = false ∧ Model.accepts "Glc(a1-4)".toList = false := by
  decide +kernel

/-! ### the generated parser's data is the grammar (neither lags behind nor runs ahead of Glycan.g4) -/

set_option maxRecDepth 100000 in
open Gly.Atn in
theorem atn_rules_ok :
    Gen.parserAtn.length = Gen.grammar.rules.length ∧
    ((List.range Gen.grammar.rules.length).all (fun i => ruleOk (Gen.parserAtn.getD i default) (Gen.grammar.rule i))) = true := by
  decide +kernel

open Gly.Atn in
/-- **The serialized ATN of `GlycanParser.py` is the grammar of `Glycan.g4`, rule by rule**: for every parser rule, the rule's
    sub-automaton in the serialized ATN (regenerated from `GlycanParser.py` on every run) and the rule's right-hand side in the
    grammar file (regenerated from `Glycan.g4`) accept the same words over token types and rule references. Decided by a
    partial-derivative / subset-construction bisimulation whose checker is proved sound (`ruleOk_sound`) and evaluated by the
    kernel. What interprets this data (the ALL(*) runtime) stays in the trusted base and is tied by correspondence. -/
theorem C15_atn_matches_grammar (i : Nat) (hi : i < Gen.grammar.rules.length) (w : List Sym)
    (hw : ∀ s ∈ w, s ∈ alphabetOf (Gen.parserAtn.getD i default) (Gen.grammar.rule i)) :
    Flat (Gen.grammar.rule i) w ↔
      Path (Gen.parserAtn.getD i default) (Gen.parserAtn.getD i default).start w (Gen.parserAtn.getD i default).stop := by
  have h2 := atn_rules_ok.2
  rw [List.all_eq_true] at h2
  have hall : ruleOk (Gen.parserAtn.getD i default) (Gen.grammar.rule i) = true := h2 i (List.mem_range.mpr hi)
  exact ruleOk_sound _ _ hall w hw

open Gly.Atn in
/-- **The serialized ATN of `GlycanLexer.py` is the token table of `Glycan.g4`, token rule by token rule**: the i-th token rule of
    the lexer ATN has the token type of the i-th rule of the regenerated token table; if that rule is a list of literals, the
    rule's sub-automaton accepts exactly those literals (enumeration along a kernel-checked rank: `wordsFrom_sound/complete`);
    if it has character ranges or a star (`NUM`), both accept the same words (`ruleOk_sound`). -/
theorem C15_lexer_atn_matches_token_table (i : Nat) (hi : i < Gen.lexRules.length) :
    let l := Gen.lexerAtn.getD i default
    let r := Gen.lexRules.getD i ⟨0, "", []⟩
    l.ty = r.ty ∧
    (∀ lits, literalsOf r = some lits → ∀ w, Path l.nfa l.nfa.start w l.nfa.stop ↔ w ∈ lits) ∧
    (literalsOf r = none → ∀ w, (∀ s ∈ w, s ∈ alphabetOf l.nfa (rxOfRule r)) →
      (Flat (rxOfRule r) w ↔ Path l.nfa l.nfa.start w l.nfa.stop)) := by
  have h2 := lex_small_ok.2
  rw [List.all_eq_true] at h2
  have h3 := h2 i (List.mem_range.mpr hi)
  have hall : lexOkAt i = true := by
    by_cases e1 : i = idxFG
    · rw [e1]; exact lex_FG_ok
    · by_cases e2 : i = idxSAC
      · rw [e2]; exact lex_SAC_ok
      · simpa [e1, e2] using h3
  exact lexRuleOk_sound _ _ hall

open Gly.Atn in
/-- **The language of the serialized parser ATN is the language of `Glycan.g4`.** The token languages of the grammar's rules
    (`D g r w` = rule `r` derives the token string `w`, the notion `C15_accept_iff` is stated in) are the *least solution* of the
    recursive-transition-network equations of the ATN regenerated from `GlycanParser.py`: (i) rule `r` derives `w` iff `w` is the
    expansion of a word accepted by `r`'s sub-automaton, every token type expanded by a token of that type and every rule reference by
    a string that rule derives; (ii) every family of languages closed under these equations contains them. -/
theorem C15_parser_atn_language :
    (∀ r, r < Gen.grammar.rules.length → ∀ w, D Gen.grammar r w ↔
        ∃ σ, Path (Gen.parserAtn.getD r default) (Gen.parserAtn.getD r default).start σ (Gen.parserAtn.getD r default).stop ∧
          Expand (D Gen.grammar) σ w) ∧
    (∀ Y, RtnClosed Gen.parserAtn Y → (∀ r, Gen.grammar.rules.length ≤ r → ∀ w, D Gen.grammar r w → Y r w) →
        ∀ r w, D Gen.grammar r w → Y r w) := by
  apply rtn_language
  intro r hr
  have h2 := atn_rules_ok.2
  rw [List.all_eq_true] at h2
  exact h2 r (List.mem_range.mpr hr)

end Gly.Props.C15
