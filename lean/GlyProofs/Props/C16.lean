import GlyProofs.Front.WalkDen
/-
  C16 — Structural queries agree with the structure. (Property theorems only.)
-/
namespace Gly.Props.C16
open Gly

theorem addNodeEdge_nodes (w : WalkCfg) (p : Nat) (n : Recipe) (l : ConStr) (st : WState) :
    (addNodeEdge w p n l st).2.nodes.length = st.nodes.length + 1 := by
  simp only [addNodeEdge, addNode, addEdge]
  by_cases h : (p == st.nodes.length) = true <;> simp [h]

/-- `summary()["monomers"]` = `len(parse_tree.nodes)`: the walker creates exactly one node per residue of the written
    forest, whatever its shape. -/
theorem C16_monomers (w : WalkCfg) (F : GF) (p : Nat) (st : WState) :
    (flattenOnto w F p st).nodes.length = st.nodes.length + F.size := by
  induction F generalizing p st with
  | nil => simp [flattenOnto, GF.size]
  | cons l n kids rest ihk ihr =>
    simp only [flattenOnto, GF.size]
    rw [ihr, ihk, addNodeEdge_nodes]
    omega

/-- Height of a forest (number of residues on the longest root-to-leaf path). -/
def height : GF → Nat
  | .nil => 0
  | .cons _ _ kids rest => max (1 + height kids) (height rest)

/-- Number of leaves. -/
def leaves : GF → Nat
  | .nil => 0
  | .cons _ _ .nil rest => 1 + leaves rest
  | .cons _ _ kids rest => leaves kids + leaves rest

/-- Sanity of the structural functions: a forest has at least as many residues as its height and as its leaves. -/
theorem C16_height_le_size (F : GF) : height F ≤ F.size := by
  induction F with
  | nil => simp [height, GF.size]
  | cons l n kids rest ihk ihr => simp only [height, GF.size]; omega

theorem C16_leaves_le_size (F : GF) : leaves F ≤ F.size := by
  induction F with
  | nil => simp [leaves, GF.size]
  | cons l n kids rest ihk ihr =>
    cases kids with
    | nil => simp only [leaves, GF.size]; omega
    | cons l' n' k' r' => simp only [leaves, GF.size] at *; omega

end Gly.Props.C16
