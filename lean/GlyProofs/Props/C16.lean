import GlyProofs.Front.WalkDen
import GlyModel.Api.Query
import GlyProofs.Front.CreateLemmas
import GlyProofs.Api.EmbedLemmas
import GlyProofs.Api.Leaves
import GlyProofs.Api.Depth
import GlyProofs.Front.ComponentsFloat
/-
  C16 — Structural queries agree with the structure. (Property theorems only.)
-/
namespace Gly.Props.C16
open Gly

theorem addNodeEdge_nodes (w : WalkCfg) (p : Nat) (n : Recipe) (l : ConStr) (st : WState) :
    (addNodeEdge w p n l st).2.nodes.length = st.nodes.length + 1 := by
  simp only [addNodeEdge, addNode, addEdge]
  by_cases h : (p == st.nodes.length) = true <;> simp [h]

/-- `summary()["monomers"]` = `len(parse_tree.nodes)`: the walker creates exactly one node per residue of the written
    forest, whatever its shape. -/
theorem C16_monomers (w : WalkCfg) (F : GF) (p : Nat) (st : WState) :
    (flattenOnto w F p st).nodes.length = st.nodes.length + F.size := by
  induction F generalizing p st with
  | nil => simp [flattenOnto, GF.size]
  | cons l n kids rest ihk ihr =>
    simp only [flattenOnto, GF.size]
    rw [ihr, ihk, addNodeEdge_nodes]
    omega

/-- Height of a forest (number of residues on the longest root-to-leaf path). -/
def height : GF → Nat
  | .nil => 0
  | .cons _ _ kids rest => max (1 + height kids) (height rest)

/-- Number of leaves. -/
def leaves : GF → Nat
  | .nil => 0
  | .cons _ _ .nil rest => 1 + leaves rest
  | .cons _ _ kids rest => leaves kids + leaves rest

/-- Sanity of the structural functions: a forest has at least as many residues as its height and as its leaves. -/
theorem C16_height_le_size (F : GF) : height F ≤ F.size := by
  induction F with
  | nil => simp [height, GF.size]
  | cons l n kids rest ihk ihr => simp only [height, GF.size]; omega

theorem C16_leaves_le_size (F : GF) : leaves F ≤ F.size := by
  induction F with
  | nil => simp [leaves, GF.size]
  | cons l n kids rest ihk ihr =>
    cases kids with
    | nil => simp only [leaves, GF.size]; omega
    | cons l' n' k' r' => simp only [leaves, GF.size] at *; omega

/-! ### Node matchers of `count` (glycan.py: recipe_equality) -/

open Gly.Query

open Gly.Model in
theorem firstOfType_mem (r : Recipe) (ty : Nat) (v : List Char) (h : firstOfType r ty = some v) : (v, ty) ∈ r := by
  induction r with
  | nil => simp [firstOfType] at h
  | cons x xs ih =>
    rw [firstOfType_cons] at h
    cases hx : (x.2 == ty)
    · simp only [hx] at h; exact List.mem_cons_of_mem _ (ih h)
    · simp only [hx, if_true] at h
      have : x = (v, ty) := by
        obtain ⟨a, b⟩ := x
        simp at hx h; subst hx h; rfl
      rw [this]; exact List.mem_cons_self

open Gly.Model in
theorem firstOfType_unique (r : Recipe) (ty : Nat) (v : List Char) (hm : (v, ty) ∈ r)
    (h1 : r.countP (fun x => x.2 == ty) = 1) : firstOfType r ty = some v := by
  induction r with
  | nil => simp at hm
  | cons x xs ih =>
    rw [firstOfType_cons]
    cases hx : (x.2 == ty)
    · simp only [Bool.false_eq_true, if_false]
      have hm' : (v, ty) ∈ xs := by
        rcases List.mem_cons.mp hm with e | e
        · rw [← e] at hx; simp at hx
        · exact e
      have : xs.countP (fun x => x.2 == ty) = 1 := by
        have := h1; rw [List.countP_cons, hx] at this; simpa using this
      exact ih hm' this
    · simp only [hx, if_true]
      have hz : xs.countP (fun x => x.2 == ty) = 0 := by
        have := h1; rw [List.countP_cons, hx] at this; simpa using this
      rcases List.mem_cons.mp hm with e | e
      · rw [← e]
      · have : 0 < xs.countP (fun x => x.2 == ty) := List.countP_pos_iff.mpr ⟨(v, ty), e, by simp⟩
        omega

open Gly.Model in
/-- Making the functional-group matching stricter (`basic` → `some`) never adds a match **for residues written with one
    sugar token** (`_partial`: the hypothesis `sacCount g = 1` is not granted by the property) … -/
theorem C16_some_le_basic_partial (g q : Recipe) (hq : (firstOfType q Gen.frontCfg.tSAC).isSome = true)
    (hg : sacCount g = 1) (h : matchSome g q = true) : matchBasic g q = true := by
  obtain ⟨b, hb⟩ := Option.isSome_iff_exists.mp hq
  have hmq := firstOfType_mem q _ b hb
  have hmg : (b, Gen.frontCfg.tSAC) ∈ g := by
    have := List.all_eq_true.mp h _ hmq
    simpa using this
  have := firstOfType_unique g _ b hmg hg
  simp [matchBasic, this, hb]

/-- … and it does for residues written with two (`ManHep`, `LDManHep`, …) queried with their second token: `some`
    matches, `basic` does not (predicted from this Model, then observed on the real code: known finding). -/
theorem C16_some_gt_basic_counterexample :
    let g : Recipe := [("Man".toList, Gen.frontCfg.tSAC), ("Hep".toList, Gen.frontCfg.tSAC)]
    let q : Recipe := [("Hep".toList, Gen.frontCfg.tSAC)]
    matchSome g q = true ∧ matchBasic g q = false := by
  decide +kernel

open Gly.Embed Gly.Query in
/-- **Every glycan contains itself** (Model of `count(…, match_nodes=True)`, `Embed.count`: the number of induced sub-graph
    isomorphisms of the query into the glycan; tied to glycan.py by comparing counts on the trees and recipes the code builds):
    for every tree, every node matcher that is reflexive on the glycan's residues and edge matching on or off, the identity is an
    embedding, so the count is at least 1 – whatever the shape of the linkage labels. -/
theorem C16_contains_itself (nodeOk : Recipe → Recipe → Bool) (edges : Bool) (g : G)
    (hn : ∀ r ∈ g.nodes, nodeOk r r = true) : 1 ≤ Embed.count nodeOk (edgeEq edges) g g :=
  count_self_pos nodeOk (edgeEq edges) g hn (fun e _ => edgeEq_refl edges e.2.2)

open Gly.Query Gly.Model in
/-- … and the two recipe matchers are reflexive: `some` always, `basic` on every residue that has a sugar token (every residue
    the walker creates from a grammatical name has one; without it `recipe_equality` raises). -/
theorem C16_matchers_reflexive (r : Recipe) :
    matchSome r r = true ∧ ((firstOfType r Gen.frontCfg.tSAC).isSome = true → matchBasic r r = true) := by
  constructor
  · simp only [matchSome, List.all_eq_true]
    intro x hx
    exact List.elem_eq_true_of_mem hx
  · intro h
    unfold matchBasic
    cases hf : firstOfType r Gen.frontCfg.tSAC with
    | none => simp [hf] at h
    | some a => simp

open Gly.Embed Gly.Query in
/-- Non-vacuity, and a count above 1: `Man(a1-3)[Man(a1-6)]Man` contains `Man(a1-3)Man`… no: an *induced* match needs the same
    edges, so the two-residue chain `Man(a1-6)Man` is found once with edge matching and twice without. -/
theorem C16_count_examples :
    let man : Recipe := [("Man".toList, Gen.frontCfg.tSAC)]
    let g : G := ⟨[man, man, man], [(0, 1, "(a1-3)".toList), (0, 2, "(a1-6)".toList)]⟩
    let q : G := ⟨[man, man], [(0, 1, "(a1-6)".toList)]⟩
    Embed.count matchBasic (edgeEq true) g q = 1 ∧ Embed.count matchBasic (edgeEq false) g q = 2 ∧
    Embed.count matchBasic (edgeEq true) g g = 1 := by
  decide +kernel

open Gly.Plan in
/-- **`summary()["leaves"]`** (`[n for n, d in parse_tree.out_degree() if d == 0]`, Model `outLeaves`): for every written glycan
    without floating parts, the nodes without outgoing edge among the residues written to the left of the reducing end are exactly
    the residues with nothing attached to them (`leafIds` over the compositional reading, pre-order ids), and there are
    `leaves` of them; the reducing end itself is a leaf iff nothing is written to its left. -/
theorem C16_leaves (w : WalkCfg) (s : Start) (hf : s.floats = []) (br : Branch) (hb : s.begin.branch = some br) :
    outLeaves (walkStart w s).edges (List.range' 1 (den br .nil).size) = leafIds (den br .nil) 1 ∧
    outLeaves (walkStart w s).edges [0] = [] := by
  rw [walkStart_eq_denStart]
  simp only [denStart, hf, List.foldl_nil, hb]
  obtain ⟨_, he⟩ := flatten_edges w (den br .nil) 0 (addNode w s.begin.d (s.begin.config.getD []) WState.init).2
    (by simp [addNode, WState.init])
  have hn : (addNode w s.begin.d (s.begin.config.getD []) WState.init).2.nodes.length = 1 := by simp [addNode, WState.init]
  have he0 : (addNode w s.begin.d (s.begin.config.getD []) WState.init).2.edges = [] := by simp [addNode, WState.init]
  have hid : (addNode w s.begin.d (s.begin.config.getD []) WState.init).1 = 0 := by simp [addNode, WState.init]
  rw [hid, he, he0, hn, List.nil_append]
  refine ⟨outLeaves_spec w (den br .nil) 0 1 (by omega), ?_⟩
  -- node 0 has an outgoing edge: the forest to its left is not empty
  have hroot := filter_parent w (den br .nil) 0 1 (by omega)
  simp only [outLeaves, List.filter_cons, List.filter_nil, hroot, rootEdges_isEmpty]
  cases hd : den br .nil with
  | nil => exact absurd hd (den_ne_nil br .nil)
  | cons _ _ _ _ => simp

open Gly.Plan in
theorem C16_leaf_count (F : GF) (n : Nat) : (leafIds F n).length = leaves F := by
  induction F generalizing n with
  | nil => rfl
  | cons l nm kids rest ihk ihr =>
    cases kids with
    | nil => simp [leafIds, leaves, ihr, GF.size]; omega
    | cons l2 n2 k2 r2 =>
      have h1 := ihk (n + 1)
      have h2 := ihr (n + 1 + (GF.cons l2 n2 k2 r2).size)
      show ([] ++ leafIds (GF.cons l2 n2 k2 r2) (n + 1) ++ leafIds rest (n + 1 + (GF.cons l2 n2 k2 r2).size)).length = _
      simp only [List.nil_append, List.length_append, h1, h2, leaves]

open Gly.Plan in
/-- **`summary()["depth"]`** (`max(nx.shortest_path_length(parse_tree, 0).values())`, Model `depthOf`: the largest number of edges
    between node 0 and a node, found by following the parent edges): for every written glycan without floating parts it is the
    number of residues on the longest chain written to the left of the reducing end (`heightGF` of the compositional reading) –
    `levelOf_spec`: every node's level is its nesting depth in the written forest. -/
theorem C16_depth (w : WalkCfg) (s : Start) (hf : s.floats = []) (br : Branch) (hb : s.begin.branch = some br) :
    depthOf (walkStart w s).edges (walkStart w s).nodes.length = heightGF (den br .nil) := by
  rw [walkStart_eq_denStart]
  simp only [denStart, hf, List.foldl_nil, hb]
  obtain ⟨hn, he⟩ := flatten_edges w (den br .nil) 0 (addNode w s.begin.d (s.begin.config.getD []) WState.init).2
    (by simp [addNode, WState.init])
  have hn1 : (addNode w s.begin.d (s.begin.config.getD []) WState.init).2.nodes.length = 1 := by simp [addNode, WState.init]
  have he0 : (addNode w s.begin.d (s.begin.config.getD []) WState.init).2.edges = [] := by simp [addNode, WState.init]
  have hid : (addNode w s.begin.d (s.begin.config.getD []) WState.init).1 = 0 := by simp [addNode, WState.init]
  rw [hid, he, he0, hn1, List.nil_append, hn, List.length_append, hn1, preNames_length]
  exact depth_spec w (den br .nil)

end Gly.Props.C16
