import GlyModel.Generated.Tables
import GlyModel.Smiles.Graph
/-
  C14 — Skeleton-changing prefixes and suffixes perform their defining transformation. (Property theorems only.)
-/
namespace Gly.Props.C14
open Gly Gly.Gen

/-- Text rewrites of `check_for_open_form` (reactor_basic.py) on an open-form row. -/
def replaceFirstC (s : List Char) (by_ : List Char) : List Char :=
  match s with
  | [] => []
  | 'C' :: rest => by_ ++ rest
  | c :: rest => c :: replaceFirstC rest by_

def onic (s : List Char) : List Char := replaceFirstC s "C(=O)".toList
def aricEnd (s : List Char) : List Char := s.dropLast ++ "(=O)O".toList

/-- Shape precondition of the `-onic` / `-aric` rewrites, decided over the complete regenerated open-form table:
    every alditol row starts with `OC` or `C(O)` (so that the first `C` of the text is C1 and carries the primary
    hydroxyl that is turned into the acid) and ends with `CO` or `C` (6-deoxy rows, excluded for `-aric`). -/
def startsWith (p s : List Char) : Bool := p.isPrefixOf s
def endsWith (p s : List Char) : Bool := p.reverse.isPrefixOf s.reverse

theorem C14_open_rows_shape :
    openTable.all (fun r => r.key == "INS".toList || startsWith "OC".toList r.smiles || startsWith "C(O)".toList r.smiles) = true := by
  decide +kernel

/-- On a row starting `OC…` the `-onic` rewrite yields `OC(=O)…`: the primary alcohol carbon becomes a carboxylic
    acid carbon, the rest of the text – every other atom and every stereo mark – is untouched. -/
theorem C14_onic_text (rest : List Char) : onic ('O' :: 'C' :: rest) = "OC(=O)".toList ++ rest := by
  simp [onic, replaceFirstC]

/-- `-aric` on a row ending `…CO`: the terminal `O` is dropped and `(=O)O` appended, i.e. the text ends `…C(=O)O`. -/
theorem C14_aric_text (body : List Char) : aricEnd (body ++ ['C', 'O']) = body ++ "C(=O)O".toList := by
  simp [aricEnd, List.dropLast_append_cons]

open Gly.Smi in
/-- delete atom `k` from the events: drop the events that mention it, move higher indices down by one -/
def dropAtom (k : Nat) (evs : List Ev) : List Ev :=
  (evs.filter (fun e => match e with
    | .bond i j _ => i != k && j != k
    | .ropen i _ _ => i != k
    | .rclose i q _ _ => i != k && q != k)).map (Ev.map (fun i => if i > k then i - 1 else i))

open Gly.Smi in
/-- Graph-level meaning of the `-onic` rewrite, decided by the kernel for **every** open-form row that starts `OC`: the
    rewritten text denotes the row's molecule plus exactly one atom – an `O`, double-bonded to C1 (atom 1, the carbon of the
    primary alcohol at the start of the text) – and nothing else changes: same atoms with the same stereo marks in the same
    order, same bonds, same neighbour order. -/
def onicOk (r : MonoRow) : Bool :=
  if !startsWith "OC".toList r.smiles then true else
  match semOfChars r.smiles, semOfChars (onic r.smiles) with
  | some ma, some mb =>
    mb.atoms == ma.atoms.take 2 ++ [['O']] ++ ma.atoms.drop 2 &&
    mb.evs.contains (Ev.bond 1 2 (some '=')) &&
    dropAtom 2 mb.evs == ma.evs
  | _, _ => false

theorem C14_onic_table : openTable.all onicOk = true := by decide +kernel

open Gly.Smi in
/-- Likewise `-aric`'s second rewrite on every row ending `CO` (the 6-deoxy rows end in `C` and are excluded by the code for
    `Qui` only – the others are listed by `C14_aric_excluded`): one `O` more, double-bonded to the last carbon. -/
def aricEndOk (r : MonoRow) : Bool :=
  if !endsWith "CO".toList r.smiles then true else
  match semOfChars r.smiles, semOfChars (aricEnd r.smiles) with
  | some ma, some mb =>
    let n := ma.atoms.length
    mb.atoms == ma.atoms.take (n - 1) ++ [['O'], ['O']] &&
    mb.evs.contains (Ev.bond (n - 2) (n - 1) (some '=')) &&
    dropAtom (n - 1) mb.evs == ma.evs
  | _, _ => false

theorem C14_aric_table : openTable.all aricEndOk = true := by decide +kernel

/-- rows on which the `-aric` end rewrite does not mean "oxidise the terminal CH2OH" (they do not end in `CO`) -/
theorem C14_aric_excluded :
    (openTable.filter (fun r => !endsWith "CO".toList r.smiles)).all (fun r =>
      ["QUI-OL", "RHA-OL", "FUC-OL", "INS", "6DALT-OL", "6DTAL-OL", "6DGUL-OL", "OLI-OL", "TYV-OL", "ABE-OL", "PAR-OL", "DIG-OL", "COL-OL"].contains (String.ofList r.key)) = true := by
  decide +kernel

end Gly.Props.C14
