import GlyModel.Generated.Tables
import GlyModel.Smiles.Graph
import GlyModel.Mono.OpenForm
/-
  C14 — Skeleton-changing prefixes and suffixes perform their defining transformation. (Property theorems only.)
-/
namespace Gly.Props.C14
open Gly Gly.Gen Gly.Basic

/-- Shape precondition of the `-onic` / `-aric` rewrites, decided over the complete regenerated open-form table:
    every alditol row starts with `OC` or `C(O)` (so that the first `C` of the text is C1 and carries the primary
    hydroxyl that is turned into the acid) and ends with `CO` or `C` (6-deoxy rows, excluded for `-aric`). -/
def startsWith (p s : List Char) : Bool := p.isPrefixOf s
def endsWith (p s : List Char) : Bool := p.reverse.isPrefixOf s.reverse

theorem C14_open_rows_shape :
    openTable.all (fun r => r.key == "INS".toList || startsWith "OC".toList r.smiles || startsWith "C(O)".toList r.smiles) = true := by
  decide +kernel

/-- On a row starting `OC…` the `-onic` rewrite yields `OC(=O)…`: the primary alcohol carbon becomes a carboxylic
    acid carbon, the rest of the text – every other atom and every stereo mark – is untouched. -/
theorem C14_onic_text (rest : List Char) : onic ('O' :: 'C' :: rest) = "OC(=O)".toList ++ rest := by
  simp [onic, replaceFirstC]

/-- `-aric` on a row ending `…CO`: the terminal `O` is dropped and `(=O)O` appended, i.e. the text ends `…C(=O)O`. -/
theorem C14_aric_text (body : List Char) : aricEnd (body ++ ['C', 'O']) = body ++ "C(=O)O".toList := by
  simp [aricEnd, List.dropLast_append_cons]

open Gly.Smi in
/-- delete atom `k` from the events: drop the events that mention it, move higher indices down by one -/
def dropAtom (k : Nat) (evs : List Ev) : List Ev :=
  (evs.filter (fun e => match e with
    | .bond i j _ => i != k && j != k
    | .ropen i _ _ => i != k
    | .rclose i q _ _ => i != k && q != k)).map (Ev.map (fun i => if i > k then i - 1 else i))

open Gly.Smi in
/-- Graph-level meaning of the `-onic` rewrite, decided by the kernel for **every** open-form row that starts `OC`: the
    rewritten text denotes the row's molecule plus exactly one atom – an `O`, double-bonded to C1 (atom 1, the carbon of the
    primary alcohol at the start of the text) – and nothing else changes: same atoms with the same stereo marks in the same
    order, same bonds, same neighbour order. -/
def onicOk (r : MonoRow) : Bool :=
  if !startsWith "OC".toList r.smiles then true else
  match semOfChars r.smiles, semOfChars (onic r.smiles) with
  | some ma, some mb =>
    mb.atoms == ma.atoms.take 2 ++ [['O']] ++ ma.atoms.drop 2 &&
    mb.evs.contains (Ev.bond 1 2 (some '=')) &&
    dropAtom 2 mb.evs == ma.evs
  | _, _ => false

theorem C14_onic_table : openTable.all onicOk = true := by decide +kernel

open Gly.Smi in
/-- Likewise `-aric`'s second rewrite on every row ending `CO` (the 6-deoxy rows end in `C` and are excluded by the code for
    `Qui` only – the others are listed by `C14_aric_excluded`): one `O` more, double-bonded to the last carbon. -/
def aricEndOk (r : MonoRow) : Bool :=
  if !endsWith "CO".toList r.smiles then true else
  match semOfChars r.smiles, semOfChars (aricEnd r.smiles) with
  | some ma, some mb =>
    let n := ma.atoms.length
    mb.atoms == ma.atoms.take (n - 1) ++ [['O'], ['O']] &&
    mb.evs.contains (Ev.bond (n - 2) (n - 1) (some '=')) &&
    dropAtom (n - 1) mb.evs == ma.evs
  | _, _ => false

theorem C14_aric_table : openTable.all aricEndOk = true := by decide +kernel

/-- rows on which the `-aric` end rewrite does not mean "oxidise the terminal CH2OH" (they do not end in `CO`) -/
theorem C14_aric_excluded :
    (openTable.filter (fun r => !endsWith "CO".toList r.smiles)).all (fun r =>
      ["QUI-OL", "RHA-OL", "FUC-OL", "INS", "6DALT-OL", "6DTAL-OL", "6DGUL-OL", "OLI-OL", "TYV-OL", "ABE-OL", "PAR-OL", "DIG-OL", "COL-OL"].contains (String.ofList r.key)) = true := by
  decide +kernel

/-! ### the Model of `check_for_open_form` / `check_for_resizing` (tied to reactor_basic.py by correspondence on every run) -/

/-- `X-ol`: the new text is the alditol row of the open-form table, unchanged. -/
theorem C14_ol_is_the_table_row (sac : List Char) (row : MonoRow)
    (h1 : "-onic".toList ≠ sac) (h2 : "-aric".toList ≠ sac) (h3 : "-ulosonic".toList ≠ sac) (h4 : "-ulosaric".toList ≠ sac)
    (hrow : Model.findRow openTable (sac ++ "-ol".toList) = some row) :
    openFormText [sac, "-ol".toList] [frontCfg.tSAC, frontCfg.tMOD] 0 = some row.smiles := by
  have hrow' : Model.findRow openTable (sac ++ ['-', 'o', 'l']) = some row := hrow
  have g1 : ['-', 'o', 'n', 'i', 'c'] ≠ sac := h1
  have g2 : ['-', 'a', 'r', 'i', 'c'] ≠ sac := h2
  have g3 : ['-', 'u', 'l', 'o', 's', 'o', 'n', 'i', 'c'] ≠ sac := h3
  have g4 : ['-', 'u', 'l', 'o', 's', 'a', 'r', 'i', 'c'] ≠ sac := h4
  simp [openFormText, getIndices, hrow', frontCfg, List.findIdx?, List.findIdx?.go, g1, g2, g3, g4]

/-- `X-onic`: exactly the C1 rewrite of the alditol row (`C14_onic_table` says what that means as a molecule). -/
theorem C14_onic_is_the_c1_rewrite (sac : List Char) (row : MonoRow)
    (h1 : "-onic".toList ≠ sac) (h2 : "-aric".toList ≠ sac) (h3 : "-ulosonic".toList ≠ sac) (h4 : "-ulosaric".toList ≠ sac)
    (hrow : Model.findRow openTable (sac ++ "-ol".toList) = some row) :
    openFormText [sac, "-onic".toList] [frontCfg.tSAC, frontCfg.tMOD] 0 = some (onic row.smiles) := by
  have hrow' : Model.findRow openTable (sac ++ ['-', 'o', 'l']) = some row := hrow
  have g1 : ['-', 'o', 'n', 'i', 'c'] ≠ sac := h1
  have g2 : ['-', 'a', 'r', 'i', 'c'] ≠ sac := h2
  have g3 : ['-', 'u', 'l', 'o', 's', 'o', 'n', 'i', 'c'] ≠ sac := h3
  have g4 : ['-', 'u', 'l', 'o', 's', 'a', 'r', 'i', 'c'] ≠ sac := h4
  simp [openFormText, getIndices, hrow', frontCfg, List.findIdx?, List.findIdx?.go, g1, g2, g3, g4]

/-- `X-aric` (X ≠ Qui): both rewrites, C1 first. -/
theorem C14_aric_is_both_rewrites (sac : List Char) (row : MonoRow) (hq : sac ≠ "Qui".toList)
    (h1 : "-onic".toList ≠ sac) (h2 : "-aric".toList ≠ sac) (h3 : "-ulosonic".toList ≠ sac) (h4 : "-ulosaric".toList ≠ sac)
    (hrow : Model.findRow openTable (sac ++ "-ol".toList) = some row) :
    openFormText [sac, "-aric".toList] [frontCfg.tSAC, frontCfg.tMOD] 0 = some (aricEnd (onic row.smiles)) := by
  have hrow' : Model.findRow openTable (sac ++ ['-', 'o', 'l']) = some row := hrow
  have g1 : ['-', 'o', 'n', 'i', 'c'] ≠ sac := h1
  have g2 : ['-', 'a', 'r', 'i', 'c'] ≠ sac := h2
  have g3 : ['-', 'u', 'l', 'o', 's', 'o', 'n', 'i', 'c'] ≠ sac := h3
  have g4 : ['-', 'u', 'l', 'o', 's', 'a', 'r', 'i', 'c'] ≠ sac := h4
  have hq' : ¬ sac = ['Q', 'u', 'i'] := hq
  simp [openFormText, getIndices, hrow', frontCfg, List.findIdx?, List.findIdx?.go, g1, g2, g3, g4, hq']

/-- Non-vacuity, and the keto-acid rewrite on a concrete row: `Kdo`-type open forms (`-ulosonic`) of galactitol. -/
theorem C14_openform_examples :
    openFormText ["Gal".toList, "-ol".toList] [frontCfg.tSAC, frontCfg.tMOD] 0 = some "OC[C@H](O)[C@@H](O)[C@@H](O)[C@H](O)CO".toList ∧
    openFormText ["Gal".toList, "-onic".toList] [frontCfg.tSAC, frontCfg.tMOD] 0 = some "OC(=O)[C@H](O)[C@@H](O)[C@@H](O)[C@H](O)CO".toList ∧
    openFormText ["Gal".toList, "-ulosonic".toList] [frontCfg.tSAC, frontCfg.tMOD] 0 = some "OC(=O)C(=O)[C@@H](O)[C@@H](O)[C@H](O)CO".toList ∧
    openFormText ["Gal".toList, "Hep".toList, "-ol".toList] [frontCfg.tSAC, frontCfg.tSAC, frontCfg.tMOD] 6 =
      some "OCC(O)[C@H](O)[C@@H](O)[C@@H](O)[C@H](O)CO".toList ∧
    extension ["LD".toList, "Man".toList, "Hep".toList] [frontCfg.tMOD, frontCfg.tSAC, frontCfg.tSAC] 6 = some "[C@@H](O)CO".toList ∧
    extension ["Gal".toList, "Oct".toList] [frontCfg.tSAC, frontCfg.tSAC] 6 = some "C(O)C(O)CO".toList := by
  decide +kernel

end Gly.Props.C14
