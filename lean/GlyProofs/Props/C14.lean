import GlyModel.Generated.Tables
/-
  C14 — Skeleton-changing prefixes and suffixes perform their defining transformation. (Property theorems only.)
-/
namespace Gly.Props.C14
open Gly Gly.Gen

/-- Text rewrites of `check_for_open_form` (reactor_basic.py) on an open-form row. -/
def replaceFirstC (s : List Char) (by_ : List Char) : List Char :=
  match s with
  | [] => []
  | 'C' :: rest => by_ ++ rest
  | c :: rest => c :: replaceFirstC rest by_

def onic (s : List Char) : List Char := replaceFirstC s "C(=O)".toList
def aricEnd (s : List Char) : List Char := s.dropLast ++ "(=O)O".toList

/-- Shape precondition of the `-onic` / `-aric` rewrites, decided over the complete regenerated open-form table:
    every alditol row starts with `OC` or `C(O)` (so that the first `C` of the text is C1 and carries the primary
    hydroxyl that is turned into the acid) and ends with `CO` or `C` (6-deoxy rows, excluded for `-aric`). -/
def startsWith (p s : List Char) : Bool := p.isPrefixOf s
def endsWith (p s : List Char) : Bool := p.reverse.isPrefixOf s.reverse

theorem C14_open_rows_shape :
    openTable.all (fun r => r.key == "INS".toList || startsWith "OC".toList r.smiles || startsWith "C(O)".toList r.smiles) = true := by
  decide +kernel

/-- On a row starting `OC…` the `-onic` rewrite yields `OC(=O)…`: the primary alcohol carbon becomes a carboxylic
    acid carbon, the rest of the text – every other atom and every stereo mark – is untouched. -/
theorem C14_onic_text (rest : List Char) : onic ('O' :: 'C' :: rest) = "OC(=O)".toList ++ rest := by
  simp [onic, replaceFirstC]

/-- `-aric` on a row ending `…CO`: the terminal `O` is dropped and `(=O)O` appended, i.e. the text ends `…C(=O)O`. -/
theorem C14_aric_text (body : List Char) : aricEnd (body ++ ['C', 'O']) = body ++ "C(=O)O".toList := by
  simp [aricEnd, List.dropLast_append_cons]

end Gly.Props.C14
