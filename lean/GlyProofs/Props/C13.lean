import GlyProofs.Front.CreateLemmas
import GlyProofs.Smiles.Shape
import GlyProofs.Smiles.OneCentre
import GlyModel.Api.Query
import GlyProofs.Poly.PlanRefines
/-
  C13 — Reducing-end anomer and SMILES start atom change only what they should. (Property theorems only.)
-/
namespace Gly.Props.C13
open Gly Gly.Model Gly.Query

theorem C13_suffix_wins (c opt : Char) : rootConfig (some c) opt = some c := rfl

theorem C13_option_used_without_suffix (opt : Char) :
    rootConfig none opt = (if opt.toLower == 'a' then some 'a' else if opt.toLower == 'b' then some 'b' else none) := rfl

theorem C13_unknown_option_is_undefined (opt : Char) (ha : opt.toLower ≠ 'a') (hb : opt.toLower ≠ 'b') :
    rootConfig none opt = none := by
  simp [rootConfig, ha, hb]

/-- Fallback of the start atom: a `start` that matches no atom or several atoms falls back to C1 (after the repair of
    D14; before it, several matches raised). -/
theorem C13_start_fallback (numbers : List Int) (start : Int)
    (h : ((List.range numbers.length).filter (fun i => numbers.getD i 0 == start)).length ≠ 1) :
    startAtom numbers start = startAtom numbers 1 := by
  unfold startAtom
  split
  · rename_i i hi; rw [hi] at h; simp at h
  · split <;> simp_all

theorem C13_start_examples :
    startAtom [100, 1, 0, 2, 0, 3, 0, 4, 0, 5, 6, 0] 0 = some 1 ∧      -- start = 0 matches every unnumbered atom: fall back to C1
    startAtom [100, 1, 0, 2, 0, 3, 0, 4, 0, 5, 6, 0] 4 = some 7 ∧
    startAtom [100, 1, 0, 2, 0, 3, 0, 4, 0, 5, 6, 0] 50 = some 1 ∧
    startAtom [100, 1, 0, 2, 0, 3, 0, 4, 0, 5, 6, 0] 100 = some 0 := by decide

open Gly.Smi in
/-- **A stereo mark is local to its atom.** If two SMILES have the same shape – position by position the same token, or an
    atom in both (e.g. `[C@H]` / `[C@@H]` / `C` at the reducing end's anomeric carbon) – they denote the same bonds, the same
    ordered neighbour lists and the same ring closures; the molecules differ exactly in the texts of the atoms that were
    written differently. Applied to the root's a / b / undefined boundary strings: declaring the anomer changes one atom
    token and nothing else, however many children are grafted elsewhere (`C01_graft` keeps every other token). -/
theorem C13_mark_is_local (ts ts' : List Tok) (hf : ShapeList ts ts') (x : St) (h : run St.init ts = some x) :
    ∃ x', run St.init ts' = some x' ∧ x'.evs = x.evs ∧ x'.stack = x.stack ∧ x'.opens = x.opens ∧
      x.atoms = atomsOf ts ∧ x'.atoms = atomsOf ts' := by
  obtain ⟨x', hx', hb⟩ := run_shape ts ts' hf St.init St.init x ⟨rfl, rfl, rfl, rfl, rfl, rfl⟩ h
  refine ⟨x', hx', hb.1, hb.2.2.1, hb.2.2.2.2.1, ?_, ?_⟩
  · simpa [St.init] using run_atoms ts St.init x h
  · simpa [St.init] using run_atoms ts' St.init x' hx'

open Gly.Smi in
/-- **Declaring the anomer changes exactly one atom of the whole glycan.** Two reducing-end residue strings that are equal except
    for the text of one atom token (`a` / `b`: `[C@H]`, `[C@@H]` or `C` at the anomeric carbon, as in the a / b / plain rows of
    the library, `C08_anomers_one_mark_*`), carrying the same children – of any depth – at the same markers: the two Spec
    molecules have the same bond events (bonds, ring closures, ordered neighbour lists) and the same atoms except exactly
    that one. By `C01_tree_refines_spec` the assembled strings denote these two molecules. -/
theorem C13_one_centre_whole_glycan (t1 t2 : List Tok) (a b : Atom) (kids : List (Atom × Bool × TNode)) (M : Mol)
    (hm : ∀ m ∈ markersOf kids, m ≠ a ∧ m ≠ b)
    (hs : specTree (.mk (t1 ++ [Tok.atom a] ++ t2) kids) = some M) :
    ∃ M', specTree (.mk (t1 ++ [Tok.atom b] ++ t2) kids) = some M' ∧ M.evs = M'.evs ∧
      ∃ pre post, M.atoms = pre ++ [a] ++ post ∧ M'.atoms = pre ++ [b] ++ post := by
  obtain ⟨M', h1, h2, pre, post, h3, h4⟩ := specTree_oneOff t1 t2 a b kids M hm hs
  exact ⟨M', h1, h2, pre, post, h3, h4⟩

open Gly.Plan in
/-- **The option reaches exactly one call**: in the binding plan (Model of `Merger.mark` / `merge_int`, `C01_linkage_plan`; tied by the
    call sequences observed for every root-anomer option) the label `Merger.merge` builds from `root_orientation` is looked at by
    the entry action of node 0 only – every other call (which carbon is marked with which marker pair, which child takes which
    anomer, where each child's SMILES starts, ring offsets) is the same for every value of the option. -/
theorem C13_option_only_reaches_root {α : Type} (T : Trav α) (w : WalkCfg) (F : GF) (a : α) (ro1 ro2 : List Char) :
    ∃ tail : Option (List Call),
      specWhole T w F (rootLabel ro1) a = tail.map (T.pre 0 (rootLabel ro1) a ++ ·) ∧
      specWhole T w F (rootLabel ro2) a = tail.map (T.pre 0 (rootLabel ro2) a ++ ·) :=
  ⟨specPlan T w F 0 1 0 a, rfl, rfl⟩

open Gly.Plan in
/-- … and that one call is `to_chirality(first letter of the option, lower-cased)` on the reducing-end residue, made only when the
    residue has no anomer of its own (a written suffix wins). -/
theorem C13_root_call (undef : Nat → Bool) (ns : Nat) (c : Char) (rest : List Char) :
    (markTrav undef ns).pre 0 (rootLabel (c :: rest)) () = if undef 0 then [Call.chir 0 c.toLower] else [] := by
  simp [markTrav, rootLabel]

end Gly.Props.C13
