import GlyModel.Smiles.Sem
import GlyProofs.Front.WalkDen
/-
  C07 — The order in which branches are written is immaterial. (Property theorems only.)
-/
namespace Gly.Props.C07
open Gly Gly.Smi

/-- token-level marker substitution: every occurrence of the marker atom is replaced by the block -/
def substTok (m : Atom) (block : List Tok) (ts : List Tok) : List Tok :=
  ts.flatMap (fun t => if t = Tok.atom m then block else [t])

theorem substTok_append (m : Atom) (b : List Tok) (x y : List Tok) :
    substTok m b (x ++ y) = substTok m b x ++ substTok m b y := by
  simp [substTok, List.flatMap_append]

theorem substTok_id (m : Atom) (b ts : List Tok) (h : Tok.atom m ∉ ts) : substTok m b ts = ts := by
  induction ts with
  | nil => rfl
  | cons t ts ih =>
    have ht : t ≠ Tok.atom m := fun e => h (by simp [e])
    have : substTok m b (t :: ts) = t :: substTok m b ts := by simp [substTok, ht]
    rw [this, ih (fun hm => h (by simp [hm]))]

/-- **Splices at different markers commute**: the k-th child replaces the k-th marker wherever that marker sits, and it
    does not matter in which order the children are processed – provided no child contains the other's marker
    (markers are pairwise distinct elements, `C02_marker_tables_disjoint`, and children are merged before they are
    inserted, so they contain no marker at all). -/
theorem C07_splices_commute (m1 m2 : Atom) (b1 b2 ts : List Tok) (hne : m1 ≠ m2)
    (h12 : Tok.atom m2 ∉ b1) (h21 : Tok.atom m1 ∉ b2) :
    substTok m1 b1 (substTok m2 b2 ts) = substTok m2 b2 (substTok m1 b1 ts) := by
  induction ts with
  | nil => rfl
  | cons t ts ih =>
    have e : ∀ (m : Atom) (b : List Tok), substTok m b (t :: ts) = substTok m b [t] ++ substTok m b ts := by
      intro m b; rw [← substTok_append]; rfl
    rw [e m2 b2, e m1 b1, substTok_append, substTok_append, ih]
    congr 1
    have single : ∀ (m : Atom) (b : List Tok) (x : Tok), substTok m b [x] = if x = Tok.atom m then b else [x] := by
      intro m b x; simp [substTok]
    by_cases h1 : t = Tok.atom m1
    · subst h1
      have hne' : Tok.atom m1 ≠ Tok.atom m2 := fun e => hne (by injection e)
      rw [single m2 b2, if_neg hne', single m1 b1, if_pos rfl, substTok_id m2 b2 b1 h12]
    · by_cases h2 : t = Tok.atom m2
      · subst h2
        rw [single m2 b2, if_pos rfl, single m1 b1, if_neg h1, single m2 b2, if_pos rfl, substTok_id m1 b1 b2 h21]
      · rw [single m2 b2, if_neg h2, single m1 b1, if_neg h1, single m2 b2, if_neg h2]

/-- The walker hangs bracketed branches and the main chain on the same parent, children in written order (C03). -/
theorem C07_walk_children_order (w : WalkCfg) (s : Start) : walkStart w s = denStart w s := walkStart_eq_denStart w s

end Gly.Props.C07
