import GlyModel.Smiles.Sem
import GlyProofs.Smiles.TreePerm
import GlyProofs.Smiles.TreeRename
import GlyProofs.Front.WalkDen
/-
  C07 — The order in which branches are written is immaterial. (Property theorems only.)
-/
namespace Gly.Props.C07
open Gly Gly.Smi

/-- **Splices at different markers commute**: the k-th child replaces the k-th marker wherever that marker sits, and it
    does not matter in which order the children are processed – provided no child contains the other's marker
    (markers are pairwise distinct elements, `C02_marker_tables_disjoint`, and children are merged before they are
    inserted, so they contain no marker at all). -/
theorem C07_splices_commute (m1 m2 : Atom) (b1 b2 ts : List Tok) (hne : m1 ≠ m2)
    (h12 : Tok.atom m2 ∉ b1) (h21 : Tok.atom m1 ∉ b2) :
    substTok m1 b1 (substTok m2 b2 ts) = substTok m2 b2 (substTok m1 b1 ts) :=
  splices_commute m1 m2 b1 b2 ts hne h12 h21

/-- **The order of the children is immaterial** (any number of children, any depth below them): for a well-formed residue,
    permuting its children – each keeping its marker – leaves the assembled string unchanged, token for token. -/
theorem C07_children_order_immaterial (isMk : Atom → Bool) (hN : isMk ['N'] = false) (toks : List Tok)
    (kids kids' : List (Atom × Bool × TNode)) (hp : kids.Perm kids') (hwf : wfTree isMk (.mk toks kids) = true) :
    mergeTok (.mk toks kids') = mergeTok (.mk toks kids) :=
  mergeTok_perm isMk hN toks kids kids' hp hwf

/-- **Which marker element stands for which child is immaterial**: writing the branches of a residue in another order gives the
    k-th *written* child the k-th marker pair, i.e. it permutes the children (`C07_children_order_immaterial`) *and* renames their
    markers. For a well-formed residue, renaming the markers in its string and in its child list by an injective map that fixes
    every non-marker atom leaves the assembled string unchanged. (That RDKit writes the marked residue with the same string up to
    the marker names is the boundary hypothesis, checked as molecules on every sampled permutation.) -/
theorem C07_marker_names_immaterial (isMk : Atom → Bool) (hN : isMk ['N'] = false) (ρ : Atom → Atom)
    (hinj : ∀ a b, ρ a = ρ b → a = b) (hfix : ∀ a, isMk a = false → ρ a = a)
    (toks : List Tok) (kids : List (Atom × Bool × TNode)) (hwf : wfTree isMk (.mk toks kids) = true) :
    mergeTok (.mk (toks.map (mapTok ρ)) (kids.map fun kid => (ρ kid.1, kid.2.1, kid.2.2))) = mergeTok (.mk toks kids) :=
  mergeTok_rename isMk hN ρ hinj hfix toks kids hwf

/-- The walker hangs bracketed branches and the main chain on the same parent, children in written order (C03). -/
theorem C07_walk_children_order (w : WalkCfg) (s : Start) : walkStart w s = denStart w s := walkStart_eq_denStart w s

end Gly.Props.C07
