import GlyProofs.Front.WalkDen
/- C07 — placeholder obligations until the splice algebra lands (see DESIGN.md). -/
namespace Gly.Props.C07
open Gly
theorem C07_walk_children_order (w : WalkCfg) (s : Start) : walkStart w s = denStart w s := walkStart_eq_denStart w s
end Gly.Props.C07
