import GlyModel.Generated.Tables
/-
  C08 — The monosaccharide library is stereochemically coherent. (Property theorems only.)
  Table theorems are decided by the kernel over the *complete* regenerated tables.
-/
namespace Gly.Props.C08
open Gly Gly.Gen

def stripChir (s : List Char) : List Char := s.filter (· ≠ '@')

/-- number of positions at which two chirality-stripped-equal strings carry different marks -/
def markRuns : List Char → List Nat
  | [] => []
  | '@' :: '@' :: rest => 2 :: markRuns rest
  | '@' :: rest => 1 :: markRuns rest
  | _ :: rest => markRuns rest

def diffCount (a b : List Nat) : Nat := (a.zip b).countP (fun (x, y) => x != y)

def rowOf (t : List MonoRow) (k : List Char) : Option MonoRow := t.find? (·.key == k)

/-- For every code that has `A_` and `B_` rows: both rows spell the same skeleton in the same atom order (equal after
    erasing `@`), carry the same number of stereo marks, and differ in exactly one of them (`@` against `@@`). Since the
    writing order is identical, the marks are comparable position by position: the two anomers differ in exactly one centre. -/
def anomerPairOk (t : List MonoRow) (r : MonoRow) : Bool :=
  match r.key with
  | 'A' :: '_' :: code =>
    match rowOf t ('B' :: '_' :: code) with
    | some b =>
      stripChir r.smiles == stripChir b.smiles &&
      (markRuns r.smiles).length == (markRuns b.smiles).length &&
      diffCount (markRuns r.smiles) (markRuns b.smiles) == 1 &&
      r.name == b.name && r.isomer == b.isomer && r.lactole == b.lactole && r.config == 1 && b.config == 2
    | none => false
  | _ => true

/-- Codes whose `A_`/`B_` rows are written in different atom orders, so that their marks cannot be compared
    position by position (these are compared as molecules by the correspondence run, see DESIGN.md). -/
def notComparable (t : List MonoRow) : List (List Char) :=
  (t.filter (fun r => match r.key with
    | 'A' :: '_' :: code => match rowOf t ('B' :: '_' :: code) with
      | some b => stripChir r.smiles != stripChir b.smiles
      | none => true
    | _ => false)).map (fun r => r.key.drop 2)

theorem C08_anomers_one_mark_pyranose :
    (pyranoseTable.filter (fun r => !(notComparable pyranoseTable).contains (r.key.drop 2))).all (anomerPairOk pyranoseTable) = true ∧
    notComparable pyranoseTable = ["PSE".toList, "LEG".toList, "ACI".toList] := by decide +kernel

theorem C08_anomers_one_mark_furanose :
    (furanoseTable.filter (fun r => !(notComparable furanoseTable).contains (r.key.drop 2))).all (anomerPairOk furanoseTable) = true ∧
    notComparable furanoseTable = ["THRE".toList] := by decide +kernel

/-- Every anomer row has its plain row with the same name, series and ring form, and the plain row is undefined. -/
def plainRowOk (t : List MonoRow) (r : MonoRow) : Bool :=
  match r.key with
  | 'A' :: '_' :: code | 'B' :: '_' :: code =>
    match rowOf t code with
    | some p => p.name == r.name && p.isomer == r.isomer && p.lactole == r.lactole && p.config == 0
    | none => false
  | _ => r.config == 0

theorem C08_plain_rows_pyranose : pyranoseTable.all (plainRowOk pyranoseTable) = true := by decide +kernel
theorem C08_plain_rows_furanose : furanoseTable.all (plainRowOk furanoseTable) = true := by decide +kernel

/-- Keys are unique in each table, the ring-form flag is the table's, open rows carry no anomer and (but for inositol) no ring. -/
theorem C08_tables_wellformed :
    (pyranoseTable.map (·.key)).Nodup ∧ (furanoseTable.map (·.key)).Nodup ∧ (openTable.map (·.key)).Nodup ∧
    pyranoseTable.all (·.lactole == 6) = true ∧ furanoseTable.all (·.lactole == 5) = true ∧
    openTable.all (fun r => r.config == 0 && (r.key == "INS".toList || (r.lactole == 1 && !r.smiles.any Char.isDigit))) = true := by
  decide +kernel

end Gly.Props.C08
