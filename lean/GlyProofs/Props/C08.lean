import GlyModel.Generated.Tables
import GlyModel.Smiles.Graph
import GlyModel.Smiles.Formula
/-
  C08 — The monosaccharide library is stereochemically coherent. (Property theorems only.)
  Table theorems are decided by the kernel over the *complete* regenerated tables.
-/
namespace Gly.Props.C08
open Gly Gly.Gen

def stripChir (s : List Char) : List Char := s.filter (· ≠ '@')

/-- number of positions at which two chirality-stripped-equal strings carry different marks -/
def markRuns : List Char → List Nat
  | [] => []
  | '@' :: '@' :: rest => 2 :: markRuns rest
  | '@' :: rest => 1 :: markRuns rest
  | _ :: rest => markRuns rest

def diffCount (a b : List Nat) : Nat := (a.zip b).countP (fun (x, y) => x != y)

def rowOf (t : List MonoRow) (k : List Char) : Option MonoRow := t.find? (·.key == k)

/-- For every code that has `A_` and `B_` rows: both rows spell the same skeleton in the same atom order (equal after
    erasing `@`), carry the same number of stereo marks, and differ in exactly one of them (`@` against `@@`). Since the
    writing order is identical, the marks are comparable position by position: the two anomers differ in exactly one centre. -/
def anomerPairOk (t : List MonoRow) (r : MonoRow) : Bool :=
  match r.key with
  | 'A' :: '_' :: code =>
    match rowOf t ('B' :: '_' :: code) with
    | some b =>
      stripChir r.smiles == stripChir b.smiles &&
      (markRuns r.smiles).length == (markRuns b.smiles).length &&
      diffCount (markRuns r.smiles) (markRuns b.smiles) == 1 &&
      r.name == b.name && r.isomer == b.isomer && r.lactole == b.lactole && r.config == 1 && b.config == 2
    | none => false
  | _ => true

/-- Codes whose `A_`/`B_` rows are written in different atom orders, so that their marks cannot be compared
    position by position (these are compared as molecules by the correspondence run, see DESIGN.md). -/
def notComparable (t : List MonoRow) : List (List Char) :=
  (t.filter (fun r => match r.key with
    | 'A' :: '_' :: code => match rowOf t ('B' :: '_' :: code) with
      | some b => stripChir r.smiles != stripChir b.smiles
      | none => true
    | _ => false)).map (fun r => r.key.drop 2)

theorem C08_anomers_one_mark_pyranose :
    (pyranoseTable.filter (fun r => !(notComparable pyranoseTable).contains (r.key.drop 2))).all (anomerPairOk pyranoseTable) = true ∧
    notComparable pyranoseTable = ["PSE".toList, "LEG".toList, "ACI".toList] := by decide +kernel

theorem C08_anomers_one_mark_furanose :
    (furanoseTable.filter (fun r => !(notComparable furanoseTable).contains (r.key.drop 2))).all (anomerPairOk furanoseTable) = true ∧
    notComparable furanoseTable = ["THRE".toList] := by decide +kernel

/-- Every anomer row has its plain row with the same name, series and ring form, and the plain row is undefined. -/
def plainRowOk (t : List MonoRow) (r : MonoRow) : Bool :=
  match r.key with
  | 'A' :: '_' :: code | 'B' :: '_' :: code =>
    match rowOf t code with
    | some p => p.name == r.name && p.isomer == r.isomer && p.lactole == r.lactole && p.config == 0
    | none => false
  | _ => r.config == 0

theorem C08_plain_rows_pyranose : pyranoseTable.all (plainRowOk pyranoseTable) = true := by decide +kernel
theorem C08_plain_rows_furanose : furanoseTable.all (plainRowOk furanoseTable) = true := by decide +kernel

open Gly.Smi in
/-- Graph-level clause: for every comparable `A_`/`B_` pair both rows denote molecules (`sem` succeeds), with the same bond
    events, whose atom lists differ at exactly one atom – and that atom is the hemiacetal (hemiketal) carbon: a carbon with
    exactly two oxygen neighbours, i.e. the anomeric carbon. -/
def anomerOnHemiacetal (t : List MonoRow) (r : MonoRow) : Bool :=
  match r.key with
  | 'A' :: '_' :: code =>
    match rowOf t ('B' :: '_' :: code) with
    | some b =>
      match semOfChars r.smiles, semOfChars b.smiles with
      | some ma, some mb =>
        ma.evs == mb.evs &&
        (match diffAtoms ma.atoms mb.atoms with
         | [k] => isHemiacetalCarbon ma k
         | _ => false)
      | _, _ => false
    | none => false
  | _ => true

theorem C08_anomeric_centre_pyranose :
    (pyranoseTable.filter (fun r => !(notComparable pyranoseTable).contains (r.key.drop 2))).all (anomerOnHemiacetal pyranoseTable) = true := by
  decide +kernel

theorem C08_anomeric_centre_furanose :
    (furanoseTable.filter (fun r => !(notComparable furanoseTable).contains (r.key.drop 2))).all (anomerOnHemiacetal furanoseTable) = true := by
  decide +kernel

/-- erase stereo marks and the brackets that only existed to carry them: `[C@H]`, `[C@@H]`, `[CH]` ↦ `C`; `[C@]`, `[C@@]` ↦ `C` -/
def stripStereo : List Char → List Char
  | '[' :: 'C' :: '@' :: '@' :: 'H' :: ']' :: rest => 'C' :: stripStereo rest
  | '[' :: 'C' :: '@' :: 'H' :: ']' :: rest => 'C' :: stripStereo rest
  | '[' :: 'C' :: '@' :: '@' :: ']' :: rest => 'C' :: stripStereo rest
  | '[' :: 'C' :: '@' :: ']' :: rest => 'C' :: stripStereo rest
  | c :: rest => c :: stripStereo rest
  | [] => []

open Gly.Smi in
/-- "Erasing that single centre gives the form without anomer": for every code whose plain row is written in the same atom
    order as its `A_` row, the two denote the same bonds and differ in exactly one atom – the hemiacetal carbon – which
    carries no stereo mark in the plain row. -/
def eraseGivesPlain (t : List MonoRow) (r : MonoRow) : Bool :=
  match r.key with
  | 'A' :: '_' :: code =>
    match rowOf t code with
    | some p =>
      if stripStereo r.smiles != stripStereo p.smiles then true      -- written in another order: compared as molecules by the sweep
      else match semOfChars r.smiles, semOfChars p.smiles with
        | some ma, some mp =>
          ma.evs == mp.evs &&
          (match diffAtoms ma.atoms mp.atoms with
           | [k] => isHemiacetalCarbon ma k && !(mp.atoms.getD k []).contains '@'
           | _ => false)
        | _, _ => false
    | none => false
  | _ => true

theorem C08_erase_gives_plain : pyranoseTable.all (eraseGivesPlain pyranoseTable) = true ∧ furanoseTable.all (eraseGivesPlain furanoseTable) = true := by
  decide +kernel

/-- how many codes that clause actually covers (written in the same order): non-vacuity -/
theorem C08_erase_coverage :
    (pyranoseTable.filter (fun r => match r.key with
      | 'A' :: '_' :: code => (match rowOf pyranoseTable code with | some p => stripStereo r.smiles == stripStereo p.smiles | none => false)
      | _ => false)).length ≥ 30 := by
  decide +kernel

open Gly.Smi in
/-- Every row of the three tables is a SMILES of the modelled subset and denotes a finished molecule. -/
theorem C08_all_rows_denote :
    (pyranoseTable ++ furanoseTable ++ openTable).all (fun r => (semOfChars r.smiles).isSome) = true := by
  decide +kernel

/-- Keys are unique in each table, the ring-form flag is the table's, open rows carry no anomer and (but for inositol) no ring. -/
theorem C08_tables_wellformed :
    (pyranoseTable.map (·.key)).Nodup ∧ (furanoseTable.map (·.key)).Nodup ∧ (openTable.map (·.key)).Nodup ∧
    pyranoseTable.all (·.lactole == 6) = true ∧ furanoseTable.all (·.lactole == 5) = true ∧
    openTable.all (fun r => r.config == 0 && (r.key == "INS".toList || (r.lactole == 1 && !r.smiles.any Char.isDigit))) = true := by
  decide +kernel

/-! ### ring size and elemental composition (graph level, all rows) -/

open Gly.Smi in
def ringSizeOk (t : List MonoRow) (except_ : List String) : Bool :=
  t.all (fun r => except_.contains (String.ofList r.key) ||
    (match (semOfChars r.smiles).bind ringInfo with | some (n, _) => n == r.lactole | none => false))

open Gly.Smi in
/-- **Each entry has the ring size of its class**: the ring closed by the row's ring-closure bond has 6 members in the pyranose
    table and 5 in the furanose table (= the row's `lactole` field) – for every row, except apiose, which the pyranose table lists
    with its (only possible) furanose ring. -/
theorem C08_ring_size :
    ringSizeOk pyranoseTable ["API", "A_API", "B_API"] = true ∧ ringSizeOk furanoseTable [] = true ∧
    openTable.all (fun r => r.key == "INS".toList || ((semOfChars r.smiles).bind ringInfo).isNone) = true := by
  decide +kernel

def codeOf (k : List Char) : List Char :=
  match k with
  | 'A' :: '_' :: r => r
  | 'B' :: '_' :: r => r
  | r => r

/-- hand-written Spec: (C, H, N, O) of the sugar classes -/
def classFormula : List (Nat × Nat × Nat × Nat × List String) := [
  (6, 12, 0, 6, ["GLC", "MAN", "GAL", "GUL", "ALT", "ALL", "TAL", "IDO", "FRU", "TAG", "SOR", "PSI", "HEX"]),
  (6, 12, 0, 5, ["QUI", "RHA", "FUC", "6DALT", "6DTAL", "6DGUL"]),
  (6, 12, 0, 4, ["OLI", "TYV", "ABE", "PAR", "DIG", "COL", "ASC", "PAU"]),
  (5, 10, 0, 5, ["ARA", "LYX", "XYL", "RIB", "RUL", "XLU", "API", "PEN"]),
  (4, 8, 0, 4, ["ERY", "THRE"]),
  (9, 16, 0, 9, ["KDN"]), (9, 17, 1, 8, ["NEU"]), (8, 14, 0, 8, ["KDO"]), (9, 18, 2, 6, ["PSE", "LEG", "ACI"]),
  (6, 14, 2, 3, ["BAC"]), (9, 17, 1, 7, ["MUR"]), (7, 14, 0, 7, ["HEP", "SED"]), (8, 16, 0, 8, ["OCT"])]

open Gly.Smi in
def formulaOk (t : List MonoRow) : Bool :=
  t.all (fun r =>
    match classFormula.find? (fun c => c.2.2.2.2.contains (String.ofList (codeOf r.key))) with
    | none => true
    | some (c, h, n, o, _) => (semOfChars r.smiles).map formula == some (c, h, n, o))

open Gly.Smi in
/-- **Each entry has the elemental composition of its class** (hand-written class table: hexose C6H12O6, 6-deoxyhexose C6H12O5,
    3,6-dideoxyhexose C6H12O4, pentose C5H10O5, tetrose, Kdn, Neu, Kdo, Pse/Leg/Aci, Bac, Mur, heptose, octose) – every a / b /
    plain row of both ring tables, hydrogens by the organic-subset valence rules. -/
theorem C08_class_formula : formulaOk pyranoseTable = true ∧ formulaOk furanoseTable = true := by decide +kernel

open Gly.Smi in
def fOf (t : List MonoRow) (key : List Char) : Option (Nat × Nat × Nat × Nat) :=
  (t.find? (fun r => r.key == key)).bind (fun r => (semOfChars r.smiles).map formula)

open Gly.Smi in
/-- every a / b row has the formula of the plain row of its table; the plain furanose row that of the plain pyranose row (if both
    exist); the alditol row (if any) that plus H2 -/
def sameFormulaAcrossForms : Bool :=
  (pyranoseTable ++ furanoseTable).all (fun r =>
    let t := if r.lactole == 6 || pyranoseTable.any (fun x => x.key == r.key && x.smiles == r.smiles) then pyranoseTable else furanoseTable
    if codeOf r.key != r.key then (semOfChars r.smiles).map formula == fOf t (codeOf r.key) else true) &&
  furanoseTable.all (fun r => codeOf r.key != r.key || (match fOf pyranoseTable r.key with | none => true | some f => fOf furanoseTable r.key == some f)) &&
  openTable.all (fun o =>
    match (pyranoseTable ++ furanoseTable).find? (fun r => r.key ++ "-OL".toList == o.key) with
    | none => true
    | some r => (match (semOfChars r.smiles).map formula, (semOfChars o.smiles).map formula with
        | some (c, h, n, ox), some (c', h', n', ox') => c == c' && h + 2 == h' && n == n' && ox == ox'
        | _, _ => false))

/-- **The pyranose, furanose, a, b and plain entries of a code are one composition, and its alditol entry is that plus H2** –
    for every code of the library (no class table needed). -/
theorem C08_forms_same_formula : sameFormulaAcrossForms = true := by decide +kernel

end Gly.Props.C08
