import GlyProofs.Front.WalkDen
import GlyProofs.Front.TreeShape
import GlyProofs.Front.ComponentsFloat
/-
  C03 — The parsed tree is the glycan that was written, all of it.  (Property theorems only.)
-/
namespace Gly.Props.C03
open Gly

/-- The walker's imperative id threading computes exactly the pre-order numbering of the compositional
    reading of the written glycan: any depth, bracketed branches (one to three per residue plus the main
    chain), brackets in brackets, floating fragments. -/
theorem C03_walk_eq_denote (w : WalkCfg) (s : Start) : walkStart w s = denStart w s :=
  walkStart_eq_denStart w s

/-- the root residue as the walker stores it: its tokens, plus the anomer written after a blank -/
def rootRecipe (w : WalkCfg) (s : Start) : Recipe :=
  if (s.begin.config.getD []).isEmpty then s.begin.d else s.begin.d ++ [(s.begin.config.getD [], w.tTYPE)]

/-- **One node per written residue, carrying its written name; the last-written residue is the root** (glycans without
    floating `{…}` fragments, any depth and branching): node 0 is the reducing-end residue and the nodes are – up to the order
    in which ids are handed out – exactly the residues written in the string, each once. -/
theorem C03_one_node_per_residue (w : WalkCfg) (s : Start) (hf : s.floats = []) :
    (walkStart w s).nodes.head? = some (rootRecipe w s) ∧
    (walkStart w s).nodes.Perm (rootRecipe w s :: (match s.begin.branch with | none => [] | some br => br.written)) := by
  rw [walkStart_eq_denStart]
  simp only [denStart, hf, List.foldl_nil, addNode, WState.init, List.length_nil, List.nil_append, rootRecipe]
  cases hb : s.begin.branch with
  | none => simp
  | some br =>
    simp only
    obtain ⟨hn, _⟩ := flatten_shape w (den br .nil) 0
      ⟨[if (s.begin.config.getD []).isEmpty then s.begin.d else s.begin.d ++ [(s.begin.config.getD [], w.tTYPE)]], [],
        true && w.nodeFull (if (s.begin.config.getD []).isEmpty then s.begin.d else s.begin.d ++ [(s.begin.config.getD [], w.tTYPE)])⟩
      (by simp)
    rw [hn]
    refine ⟨by simp, ?_⟩
    simp only [List.singleton_append]
    exact List.Perm.cons _ (by simpa [preNames] using den_names_perm br .nil)

/-- **It is a tree rooted at node 0**: every node except the root has exactly one incoming edge – the edges' children are the ids
    `1, 2, …, n-1`, each once – and every edge points from a smaller id to a larger one (so there is no cycle and everything
    hangs on node 0). -/
theorem C03_tree_shape (w : WalkCfg) (s : Start) (hf : s.floats = []) :
    (walkStart w s).edges.map (·.2.1) = List.range' 1 ((walkStart w s).nodes.length - 1) ∧
    ∀ e ∈ (walkStart w s).edges, e.1 < e.2.1 := by
  rw [walkStart_eq_denStart]
  simp only [denStart, hf, List.foldl_nil, addNode, WState.init, List.length_nil, List.nil_append]
  cases hb : s.begin.branch with
  | none => simp
  | some br =>
    simp only
    obtain ⟨hn, es, he, hc, hp⟩ := flatten_shape w (den br .nil) 0
      ⟨[if (s.begin.config.getD []).isEmpty then s.begin.d else s.begin.d ++ [(s.begin.config.getD [], w.tTYPE)]], [],
        true && w.nodeFull (if (s.begin.config.getD []).isEmpty then s.begin.d else s.begin.d ++ [(s.begin.config.getD [], w.tTYPE)])⟩
      (by simp)
    have hsz : (preNames (den br .nil)).length = (den br .nil).size := by
      generalize den br .nil = G
      induction G with
      | nil => rfl
      | cons _ _ _ _ a b => simp [preNames, GF.size, a, b]; omega
    rw [he, hn]
    refine ⟨?_, ?_⟩
    · simp only [List.nil_append, hc, List.length_cons, List.length_nil, List.length_append, hsz]
      congr 1
      omega
    · intro e hm
      simp only [List.nil_append] at hm
      exact (hp e hm).1

/-- **Every written glycan is a forest** – floating `{…}` parts included: in the walked graph no node is the child of two edges (the
    children of the edges, in insertion order, strictly increase), every edge points from a smaller id to a larger existing one, and
    there are exactly `1 + number of floating parts` nodes without incoming edge (nodes minus edges). -/
theorem C03_forest_shape (w : WalkCfg) (s : Start) :
    ((walkStart w s).edges.map (·.2.1)).Pairwise (· < ·) ∧
    (∀ e ∈ (walkStart w s).edges, e.1 < e.2.1 ∧ e.2.1 < (walkStart w s).nodes.length) ∧
    (walkStart w s).edges.length + (s.floats.length + 1) = (walkStart w s).nodes.length :=
  let h := shape_walkStart w s
  ⟨h.sorted, h.bound, h.count⟩

end Gly.Props.C03
