import GlyProofs.Front.WalkDen
/-
  C03 — The parsed tree is the glycan that was written, all of it.  (Property theorems only.)
-/
namespace Gly.Props.C03
open Gly

/-- The walker's imperative id threading computes exactly the pre-order numbering of the compositional
    reading of the written glycan: any depth, bracketed branches (one to three per residue plus the main
    chain), brackets in brackets, floating fragments. -/
theorem C03_walk_eq_denote (w : WalkCfg) (s : Start) : walkStart w s = denStart w s :=
  walkStart_eq_denStart w s

end Gly.Props.C03
