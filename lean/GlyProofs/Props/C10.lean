import GlyModel.Api.Convert
import GlyModel.Front.Spec
import GlyProofs.Front.TreeShape
import GlyProofs.Mono.ReactLoop
import GlyProofs.Front.Components
import GlyProofs.Front.ComponentsFloat
import GlyProofs.Props.C03
/-
  C10 — Nothing is dropped silently: the meaning of `full`. (Property theorems only.)
-/
namespace Gly.Props.C10
open Gly Gly.Api

/-- With `full = True` (and not `tree_only`) a non-empty result is released only when the tree was realised completely. -/
theorem C10_full_true (treeFull : Bool) (assembled : List Char) (h : gate false true treeFull assembled ≠ []) : treeFull = true := by
  cases treeFull <;> simp_all [gate]

/-- With `full = False` the assembled molecule is released whatever `tree_full` says – in particular every input
    that converts under `full = True` gives the same string. -/
theorem C10_full_false (treeOnly treeFull : Bool) (assembled : List Char) : gate treeOnly false treeFull assembled = assembled := by
  cases treeOnly <;> cases treeFull <;> simp [gate]

theorem C10_full_false_same_as_true (assembled : List Char) : gate false false true assembled = gate false true true assembled := rfl

/-- The pinned gate (`tree_full != full`) withheld every fully convertible glycan under `full = False`
    (observed before the repair: `Glycan("Glc", full=False).get_smiles() == ""`). -/
theorem C10_full_false_counterexample_pinned : gatePinned false false true ['O'] = [] := by decide

/-- How the walker accumulates `full`: it stays true through `addNodeEdge` iff the residue is realised (`nodeFull`)
    and – when an edge is added – the normalised label contains no `?`. -/
theorem C10_addNodeEdge_full (w : WalkCfg) (parent : Nat) (d : Recipe) (c : ConStr) (st : WState) (hp : parent ≠ st.nodes.length) :
    (addNodeEdge w parent d c st).2.full =
      (st.full && w.nodeFull d && !(normLabel w d c).contains '?') := by
  simp [addNodeEdge, addNode, addEdge, hp]

/-- every residue of the forest is realised and no linkage label contains `?` -/
def allFull (w : WalkCfg) : GF → Bool
  | .nil => true
  | .cons l n kids rest => w.nodeFull n && !(normLabel w n l).contains '?' && allFull w kids && allFull w rest

/-- **`tree_full` over a whole forest** (any depth, any branching): after the walker has numbered a forest onto a node, `full` is
    still true iff it was true before and *every* residue of the forest is realised (`nodeFull`: known monosaccharide, every
    modification attached) and *no* linkage label contains `?`. Nothing is dropped silently: one unrealised residue or one
    undetermined linkage anywhere in the tree makes `full` false. -/
theorem C10_forest_full (w : WalkCfg) (F : GF) : ∀ (p : Nat) (st : WState), p < st.nodes.length →
    (flattenOnto w F p st).full = (st.full && allFull w F) ∧ st.nodes.length ≤ (flattenOnto w F p st).nodes.length := by
  induction F with
  | nil => intro p st _; simp [flattenOnto, allFull]
  | cons l n kids rest ihk ihr =>
    intro p st hp
    have hne : p ≠ st.nodes.length := by omega
    have h1 := C10_addNodeEdge_full w p n l st hne
    obtain ⟨hid, hn, _⟩ := addNodeEdge_spec w p n l st hp
    simp only [flattenOnto]
    generalize hst1 : addNodeEdge w p n l st = r1 at h1 hid hn
    obtain ⟨id, st1⟩ := r1
    simp only at h1 hid hn
    subst hid
    have hlen1 : st1.nodes.length = st.nodes.length + 1 := by rw [hn]; simp
    obtain ⟨hk, hkl⟩ := ihk st.nodes.length st1 (by omega)
    obtain ⟨hr, hrl⟩ := ihr p (flattenOnto w kids st.nodes.length st1) (by omega)
    refine ⟨?_, ?_⟩
    · show (flattenOnto w rest p (flattenOnto w kids st.nodes.length st1)).full = _
      rw [hr, hk, h1]
      simp only [allFull, Bool.and_assoc]
    · show st.nodes.length ≤ (flattenOnto w rest p (flattenOnto w kids st.nodes.length st1)).nodes.length
      omega

/-- … hence for a whole glycan without floating fragments: `tree_full` (before the connectivity test) is the conjunction over the
    root residue and everything that hangs on it. -/
theorem C10_tree_full (w : WalkCfg) (s : Start) (hf : s.floats = []) :
    (walkStart w s).full =
      (w.nodeFull (if (s.begin.config.getD []).isEmpty then s.begin.d else s.begin.d ++ [(s.begin.config.getD [], w.tTYPE)]) &&
       (match s.begin.branch with | none => true | some br => allFull w (den br .nil))) := by
  rw [walkStart_eq_denStart]
  simp only [denStart, hf, List.foldl_nil, addNode, WState.init, List.length_nil, List.nil_append]
  cases hb : s.begin.branch with
  | none => simp
  | some br =>
    simp only
    have := (C10_forest_full w (den br .nil) 0
      ⟨[if (s.begin.config.getD []).isEmpty then s.begin.d else s.begin.d ++ [(s.begin.config.getD [], w.tTYPE)]], [],
        true && w.nodeFull (if (s.begin.config.getD []).isEmpty then s.begin.d else s.begin.d ++ [(s.begin.config.getD [], w.tTYPE)])⟩
      (by simp)).1
    rw [this]; simp

open Gly.React in
/-- **The reactor's flag never recovers** (Model of `SMILESReaktor.react` over all its rounds, `React.reactLoop`, tied to reactor.py
    by the side-chain table of every round and the returned flag): if `react` reports `full`, the flag was true on entry – an
    unknown group seen in one round cannot be forgotten by a later round – for any number of rounds, any residue views, any tokens. -/
theorem C10_react_full_never_recovers (views : List View) (mods : List (List Char)) (startLen : Nat) (full : Bool)
    (acc cs : List Chains) (h : reactLoop views mods startLen full acc = .ok (cs, true)) : full = true :=
  reactLoop_full views mods startLen full acc cs h

open Gly.React in
/-- … within a round the flag is the flag before and'ed with "this token's group was recognised", token by token … -/
theorem C10_react_token_flag (v : View) (st st' : RState) (n : List Char) (h : reactToken v st n = .ok st') :
    ∃ e, tokenEffect v st.chains n = .ok e ∧ st'.full = (st.full && e.recognised) := by
  obtain ⟨e, he, hs⟩ := reactToken_full v st st' n h
  exact ⟨e, he, by rw [hs, applyEffect_full_eq]⟩

open Gly.React in
/-- … and a round that can attach none of the groups it was given (all postponed again: positions the residue does not have) ends
    the loop with `full = false`: nothing is dropped silently. -/
theorem C10_react_stall_not_full (v : View) (vs : List View) (mods : List (List Char)) (startLen : Nat) (full : Bool)
    (acc : List Chains) (st : RState) (hst : reactRoundFrom v mods full = .ok st) (hstall : st.higher.length = startLen) :
    reactLoop (v :: vs) mods startLen full acc = .ok (acc ++ [st.chains], false) :=
  reactLoop_stall v vs mods startLen full acc st hst hstall

open Gly.React in
/-- Non-vacuity: `Glc7S` – position 7 does not exist, the only modification is postponed, the next round stalls: not full;
    `Glc6S` is full after one round. -/
theorem C10_react_examples :
    let glc : View := ⟨"Glc".toList, 6, [none, some 'O', some 'O', some 'O', some 'O', none, some 'O', none], 1, 6⟩
    (reactAll [glc, glc] ["7S".toList] 2).map' (·.2) = some false ∧ (reactAll [glc] ["6S".toList] 2).map' (·.2) = some true := by
  decide +kernel

/-- **The connectivity clause of `TreeWalker.parse`** (`self.full and len(connected_components(g)) == 1`, Model `parseFull` with
    components counted by label merging): a glycan written without floating `{…}` parts is one component – every residue hangs on
    node 0 – so the clause changes nothing … -/
theorem C10_connected_without_fragments (w : WalkCfg) (s : Start) (hf : s.floats = []) :
    components (walkStart w s) = 1 ∧ parseFull (walkStart w s) = (walkStart w s).full := by
  obtain ⟨hc, hp⟩ := Gly.Props.C03.C03_tree_shape w s hf
  obtain ⟨hroot, _⟩ := Gly.Props.C03.C03_one_node_per_residue w s hf
  have hlen : (walkStart w s).edges.length = (walkStart w s).nodes.length - 1 := by
    have := congrArg List.length hc
    simpa using this
  have hn : 1 ≤ (walkStart w s).nodes.length := by
    cases h : (walkStart w s).nodes with
    | nil => simp [h] at hroot
    | cons _ _ => simp
  have hfresh : EdgesFresh (walkStart w s).nodes.length 0 (walkStart w s).edges := by
    apply edgesFresh_mono _ _ 1 0 (by omega)
    apply edgesFresh_of_range
    · rw [hlen]; exact hc
    · exact hp
    · omega
  have := components_fresh (walkStart w s) hfresh
  have h1 : components (walkStart w s) = 1 := by omega
  exact ⟨h1, by simp [parseFull, h1]⟩

/-- … and in general, whenever every edge leads to a node that was never a child before (what the walker produces), the number of
    components is nodes minus edges: each floating part, whatever its size, is one more component and `parse` reports not full. -/
theorem C10_components_count (st : WState) (h : EdgesFresh st.nodes.length 0 st.edges) :
    components st + st.edges.length = st.nodes.length := components_fresh st h

/-- **Floating parts are never full** – for every written glycan, any number of floating `{…}` parts of any size and shape: the walked
    graph has exactly one component for the main glycan plus one per floating part (`components_walkStart`: every edge the walker adds
    leads to a node that was never a child before, so it removes exactly one component), hence `parse` reports *not full* as soon
    as there is a floating part, and the clause is void without one. -/
theorem C10_fragments_not_full (w : WalkCfg) (s : Start) :
    components (walkStart w s) = 1 + s.floats.length ∧
    (s.floats ≠ [] → parseFull (walkStart w s) = false) ∧
    (s.floats = [] → parseFull (walkStart w s) = (walkStart w s).full) := by
  have h := components_walkStart w s
  refine ⟨h, ?_, ?_⟩
  · intro hne
    have : 0 < s.floats.length := List.length_pos_iff.mpr hne
    simp only [parseFull, h, Bool.and_eq_false_iff]
    right; simp; omega
  · intro he
    simp [parseFull, h, he]

/-- Non-vacuity: `{Fuc(a1-2)Gal(b1-?)}Gal(b1-4)Glc` – a two-residue floating part – has two components and is not full. -/
theorem C10_fragment_example :
    let w : WalkCfg := ⟨0, fun _ => true, fun _ => false⟩
    let r (x : String) : Recipe := [(x.toList, 1)]
    let s : Start := ⟨[Branch.chain (r "Fuc") "(a1-2)".toList (Branch.leaf (r "Gal") "(b1-5)".toList)],
                      ⟨some (Branch.leaf (r "Gal") "(b1-4)".toList), r "Glc", none⟩⟩
    components (walkStart w s) = 2 ∧ parseFull (walkStart w s) = false ∧ (walkStart w s).full = true := by
  decide +kernel

end Gly.Props.C10
