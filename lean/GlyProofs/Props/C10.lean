import GlyModel.Api.Convert
import GlyModel.Front.Spec
/-
  C10 — Nothing is dropped silently: the meaning of `full`. (Property theorems only.)
-/
namespace Gly.Props.C10
open Gly Gly.Api

/-- With `full = True` (and not `tree_only`) a non-empty result is released only when the tree was realised completely. -/
theorem C10_full_true (treeFull : Bool) (assembled : List Char) (h : gate false true treeFull assembled ≠ []) : treeFull = true := by
  cases treeFull <;> simp_all [gate]

/-- With `full = False` the assembled molecule is released whatever `tree_full` says – in particular every input
    that converts under `full = True` gives the same string. -/
theorem C10_full_false (treeOnly treeFull : Bool) (assembled : List Char) : gate treeOnly false treeFull assembled = assembled := by
  cases treeOnly <;> cases treeFull <;> simp [gate]

theorem C10_full_false_same_as_true (assembled : List Char) : gate false false true assembled = gate false true true assembled := rfl

/-- The pinned gate (`tree_full != full`) withheld every fully convertible glycan under `full = False`
    (observed before the repair: `Glycan("Glc", full=False).get_smiles() == ""`). -/
theorem C10_full_false_counterexample_pinned : gatePinned false false true ['O'] = [] := by decide

/-- How the walker accumulates `full`: it stays true through `addNodeEdge` iff the residue is realised (`nodeFull`)
    and – when an edge is added – the normalised label contains no `?`. -/
theorem C10_addNodeEdge_full (w : WalkCfg) (parent : Nat) (d : Recipe) (c : ConStr) (st : WState) (hp : parent ≠ st.nodes.length) :
    (addNodeEdge w parent d c st).2.full =
      (st.full && w.nodeFull d && !(normLabel w d c).contains '?') := by
  simp [addNodeEdge, addNode, addEdge, hp]

end Gly.Props.C10
