import GlyProofs.Mono.ReactLemmas
import GlyProofs.Mono.ReactLoop
/-
  Order-independence of modifications, for every token shape: what a token does is an operation on *one* cell of the side-chain
  table, decided without looking at the table's content (`tokenOp`); operations on different positions commute.
-/
namespace Gly.React
open Gly

/-- the cell an operation writes -/
def CellOp.cell : CellOp → Option (Nat × Nat)
  | .edit pos col _ => some (pos, col)
  | .fg col pos _ _ => some (pos, col)
  | _ => Option.none

/-- what the operation does to its cell, as a function of the table (it only looks at its own cell and the table's size) -/
def opFn (cs : Chains) : CellOp → Outcome ((List Char → List Char) × Bool)
  | .edit _ _ f => .ok (f, true)
  | .fg col pos be name => if pos ≥ cs.length then .error "IndexError" else fgEdit (getCell cs pos col) be name
  | _ => .ok (id, true)

def stepOp (st : RState) (o : CellOp) : Outcome RState :=
  bindO (applyOp st.chains o) (fun e => .ok (applyEffect st e))

theorem stepOp_cell (st : RState) (o : CellOp) (pos col : Nat) (h : o.cell = some (pos, col)) :
    stepOp st o = bindO (opFn st.chains o)
      (fun r => .ok { st with chains := setCell st.chains pos col r.1, full := st.full && r.2 }) := by
  cases o with
  | none => simp [CellOp.cell] at h
  | postpone n => simp [CellOp.cell] at h
  | edit p c f =>
    simp only [CellOp.cell, Option.some.injEq, Prod.mk.injEq] at h
    obtain ⟨rfl, rfl⟩ := h
    simp [stepOp, applyOp, opFn, bindO, applyEffect]
  | fg c p be name =>
    simp only [CellOp.cell, Option.some.injEq, Prod.mk.injEq] at h
    obtain ⟨rfl, rfl⟩ := h
    simp only [stepOp, applyOp, opFn, setFg]
    by_cases hp : p ≥ st.chains.length
    · simp [hp, bindO]
    · simp only [hp, if_false]
      cases fgEdit (getCell st.chains p c) be name with
      | ok r => simp [bindO, applyEffect]
      | error e => simp [bindO]
      | unmodelled => simp [bindO]

/-- locality: an edit of another position does not change what an operation does -/
theorem opFn_local (cs : Chains) (o : CellOp) (pos col p1 c1 : Nat) (f1 : List Char → List Char)
    (h : o.cell = some (pos, col)) (hne : p1 ≠ pos) : opFn (setCell cs p1 c1 f1) o = opFn cs o := by
  cases o with
  | none => rfl
  | postpone n => rfl
  | edit p c f => rfl
  | fg c p be name =>
    simp only [CellOp.cell, Option.some.injEq, Prod.mk.injEq] at h
    obtain ⟨rfl, rfl⟩ := h
    simp only [opFn, setCell_length, getCell_setCell_ne _ _ _ _ _ _ hne]

theorem two_steps (st : RState) (o1 o2 : CellOp) (p1 c1 p2 c2 : Nat) (h1 : o1.cell = some (p1, c1)) (h2 : o2.cell = some (p2, c2))
    (hne : p1 ≠ p2) :
    bindO (stepOp st o1) (fun s1 => stepOp s1 o2) =
      bindO (opFn st.chains o1) (fun r1 => bindO (opFn st.chains o2) (fun r2 =>
        .ok { st with chains := setCell (setCell st.chains p1 c1 r1.1) p2 c2 r2.1, full := (st.full && r1.2) && r2.2 })) := by
  rw [stepOp_cell st o1 p1 c1 h1]
  cases hr1 : opFn st.chains o1 with
  | error e => simp [bindO]
  | unmodelled => simp [bindO]
  | ok r1 =>
    simp only [bindO]
    rw [stepOp_cell _ o2 p2 c2 h2]
    simp only [opFn_local st.chains o2 p2 c2 p1 c1 r1.1 h2 hne]
    rfl

/-- **Operations on different positions commute**: whenever one order succeeds, the other succeeds with the same side-chain table,
    the same postponed list and the same flag. -/
theorem stepOp_comm (st : RState) (o1 o2 : CellOp) (p1 c1 p2 c2 : Nat) (h1 : o1.cell = some (p1, c1)) (h2 : o2.cell = some (p2, c2))
    (hne : p1 ≠ p2) (s : RState) (h : bindO (stepOp st o1) (fun s1 => stepOp s1 o2) = .ok s) :
    bindO (stepOp st o2) (fun s2 => stepOp s2 o1) = .ok s := by
  rw [two_steps st o1 o2 p1 c1 p2 c2 h1 h2 hne] at h
  rw [two_steps st o2 o1 p2 c2 p1 c1 h2 h1 (fun e => hne e.symm)]
  cases hr1 : opFn st.chains o1 with
  | error e => simp [hr1, bindO] at h
  | unmodelled => simp [hr1, bindO] at h
  | ok r1 =>
    cases hr2 : opFn st.chains o2 with
    | error e => simp [hr1, hr2, bindO] at h
    | unmodelled => simp [hr1, hr2, bindO] at h
    | ok r2 =>
      simp only [hr1, hr2, bindO] at h ⊢
      rw [← h, setCell_comm _ _ _ _ _ _ _ hne]
      congr 2
      cases st.full <;> cases r1.2 <;> cases r2.2 <;> rfl

/-- a token's operation does not depend on the table's content, only on its size – which no operation changes -/
theorem stepOp_length (st s : RState) (o : CellOp) (h : stepOp st o = .ok s) : s.chains.length = st.chains.length := by
  unfold stepOp at h
  obtain ⟨e, he, hs⟩ := bindO_ok _ _ _ h
  cases hs
  cases o with
  | none => simp [applyOp] at he; cases he; rfl
  | postpone n => simp [applyOp] at he; cases he; rfl
  | edit p c f => simp [applyOp] at he; cases he; simp [applyEffect, setCell_length]
  | fg c p be name =>
    simp only [applyOp] at he
    obtain ⟨r, hr, he2⟩ := bindO_ok _ _ _ he
    cases he2
    simp only [applyEffect]
    unfold setFg at hr
    by_cases hp : p ≥ st.chains.length
    · simp [hp] at hr
    · simp only [hp, if_false] at hr
      cases hf : fgEdit (getCell st.chains p c) be name with
      | ok x => simp [hf] at hr; cases hr; simp [setCell_length]
      | error e => simp [hf] at hr
      | unmodelled => simp [hf] at hr

theorem reactToken_eq_stepOp (v : View) (st : RState) (n : List Char) :
    reactToken v st n = bindO (tokenOp v st.chains.length n) (stepOp st) := by
  unfold reactToken tokenEffect stepOp
  cases tokenOp v st.chains.length n <;> simp [bindO]

/-- **Two modification tokens of any shape that write different positions can be written in either order**: whenever the
    round handles `n1` then `n2` successfully, it handles `n2` then `n1` successfully with the same result. -/
theorem reactToken_comm (v : View) (st : RState) (n1 n2 : List Char) (o1 o2 : CellOp) (p1 c1 p2 c2 : Nat)
    (ho1 : tokenOp v st.chains.length n1 = .ok o1) (ho2 : tokenOp v st.chains.length n2 = .ok o2)
    (h1 : o1.cell = some (p1, c1)) (h2 : o2.cell = some (p2, c2)) (hne : p1 ≠ p2) (s : RState)
    (h : bindO (reactToken v st n1) (fun s1 => reactToken v s1 n2) = .ok s) :
    bindO (reactToken v st n2) (fun s2 => reactToken v s2 n1) = .ok s := by
  rw [reactToken_eq_stepOp, ho1] at h
  simp only [bindO] at h
  obtain ⟨s1, hs1, h'⟩ := bindO_ok _ _ _ h
  have hl1 := stepOp_length st s1 o1 hs1
  rw [reactToken_eq_stepOp, hl1, ho2] at h'
  simp only [bindO] at h'
  have hcomm := stepOp_comm st o1 o2 p1 c1 p2 c2 h1 h2 hne s (by rw [hs1]; simpa [bindO] using h')
  obtain ⟨s2, hs2, h''⟩ := bindO_ok _ _ _ hcomm
  have hl2 := stepOp_length st s2 o2 hs2
  rw [reactToken_eq_stepOp, ho2]
  simp only [bindO]
  rw [hs2]
  simp only [bindO]
  rw [reactToken_eq_stepOp, hl2, ho1]
  simpa [bindO] using h''

end Gly.React
