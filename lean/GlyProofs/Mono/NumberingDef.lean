import GlyModel.Mono.EnumSpec
import GlyModel.Generated.Tables
namespace Gly.EnumC
open Gly Gly.Smi

/-- for every anomer-less row of the table (the a / b rows have the same atoms and bonds: `C08_anomers_one_mark_*`) except the
    branched-chain sugars listed, the Model of the code's numbering and the chemistry-level numbering give the same main chain -/
def numberingOk (t : List Gen.MonoRow) (except_ : List String) : Bool :=
  t.all (fun r => (r.key.take 2 == ['A', '_'] || r.key.take 2 == ['B', '_']) || except_.contains (String.ofList r.key) ||
    (match semOfChars r.smiles with
     | some m => (specChain m).isSome && specChain m == modelChain m
     | none => false))

/-- for every anomer-less row (except the listed branched-chain sugars) the reactor's anchor `ring_c` is the number of the anomeric
    carbon: position-less groups go to the anomeric carbon (`OMe`) or the carbon after it (`NAc`, …) -/
def anchorOk (t : List Gen.MonoRow) (except_ : List String) : Bool :=
  t.all (fun r => (r.key.take 2 == ['A', '_'] || r.key.take 2 == ['B', '_']) || except_.contains (String.ofList r.key) ||
    (match semOfChars r.smiles with
     | some m => (specAnchor m).isSome && specAnchor m == modelAnchor m
     | none => false))

end Gly.EnumC
