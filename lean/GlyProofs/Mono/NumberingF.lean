import GlyProofs.Mono.NumberingDef
namespace Gly.EnumC
open Gly Gly.Smi
set_option maxRecDepth 100000 in
theorem numbering_furanose : numberingOk Gen.furanoseTable ["API"] = true := by decide +kernel
end Gly.EnumC
