import GlyProofs.Smiles.TreeTheorem
import GlyModel.Mono.Assemble
namespace Gly.React
open Gly Gly.Smi

theorem isMkPlaceholder_N : isMkPlaceholder ['N'] = false := by decide +kernel

/-- **Soundness of the `assemble_chains` certificate**: the residue SMILES the code stored denotes the residue-with-placeholders
    molecule with every functional-group fragment grafted at its placeholder atom (`specTree` of the one-level tree) – every
    other atom, bond event, neighbour order and stereo mark of the residue unchanged – and no placeholder atom is left. -/
theorem certifyAssemble_sound (marked : List Char) (chains : List (List Char × List Char)) (offset : Nat) (final : List Char)
    (h : certifyAssemble marked chains offset final = true) :
    ∃ t tf M, assembleTree marked chains offset = some t ∧ tokenize final = some tf ∧
      sem tf = some M ∧ specTree t = some M ∧ ∀ a ∈ M.atoms, isMkPlaceholder a = false := by
  unfold certifyAssemble at h
  simp only [Bool.and_eq_true] at h
  obtain ⟨_, h⟩ := h
  cases ht : assembleTree marked chains offset with
  | none => simp [ht] at h
  | some t =>
    cases hto : tokenize final with
    | none => simp [ht, hto] at h
    | some tf =>
      simp only [ht, hto, Bool.and_eq_true, beq_iff_eq] at h
      obtain ⟨⟨hwf, _⟩, heq⟩ := h
      obtain ⟨M, hsem, hspec, _, hfree⟩ := tree_ok isMkPlaceholder isMkPlaceholder_N t hwf
      refine ⟨t, tf, M, rfl, rfl, by rw [heq]; exact hsem, hspec, ?_⟩
      intro a ha
      obtain ⟨s, hr, _, hm⟩ := (sem_eq_some _ _).mp hsem
      have hat : s.atoms = atomsOf (mergeTok t) := by simpa [St.init] using run_atoms _ St.init s hr
      have : a ∈ atomsOf (mergeTok t) := by rw [← hat]; rw [← hm] at ha; exact ha
      cases hmk : isMkPlaceholder a with
      | false => rfl
      | true => exact absurd ((mem_atomsOf a _).mp this) (hfree a hmk)

end Gly.React
