import GlyModel.Mono.Reactor
namespace Gly.React
open Gly

/-- Side conditions under which a token `<digit><name>` takes the last ("just add the side chain") branch of the digit
    case of `react`. All of them are Boolean facts about the token text, checked by the kernel for every key of the
    regenerated table (`plainKeys`). -/
def plainSide (c0 : Char) (rest : List Char) : Bool :=
  let n := c0 :: rest
  !skipped n && c0 != '-' && n != ['A'] && n != "-uronic".toList && n != ['N'] && n != "D-".toList && n != "L-".toList &&
  n != "Ac".toList && n != "Gc".toList && isDigitC c0 &&
  rest != ['d'] && rest != ['e'] &&
  !(n.length > 4 && n.getD 1 ' ' == '-' && n.getD 3 ' ' == '-' && (n.getD 2 ' ' == 'O' || n.getD 2 ' ' == 'N')) &&
  !((rest.head? == some 'N' || rest.head? == some 'O' || rest.head? == some 'P') && !conflictsNOP.contains rest) &&
  !isPolyCarbon n &&
  !(rest.head? == some 'C' && !Gen.cConflict.contains rest)

theorem reactToken_plain (v : View) (st : RState) (c0 : Char) (rest val : List Char) (e : Char)
    (hside : plainSide c0 rest = true)
    (hp : c0.toNat - '0'.toNat ≤ st.chains.length - 1)
    (he : v.elemAt.getD (c0.toNat - '0'.toNat) none = some e) :
    reactToken v st (c0 :: rest) =
      (let p := c0.toNat - '0'.toNat
       let elem : List Char := if Gen.preserveElem.contains rest then [e] else []
       let col := if e == 'C' then 1 else 0
       bindO (setFg st.chains col p (if elem == ['C'] then [] else elem) rest)
         (fun (cs, ok) => .ok { st with chains := cs, full := st.full && ok })) := by
  simp only [plainSide, Bool.and_eq_true, Bool.not_eq_true', bne_iff_ne, ne_eq, Bool.not_eq_eq_eq_not, Bool.not_true,
    decide_eq_true_eq] at hside
  obtain ⟨⟨⟨⟨⟨⟨⟨⟨⟨⟨⟨⟨⟨⟨⟨h1, h2⟩, h3⟩, h4⟩, h5⟩, h6⟩, h7⟩, h8⟩, h9⟩, h10⟩, h11⟩, h12⟩, h13⟩, h14⟩, h15⟩, h16⟩ := hside
  have hhead : (c0 :: rest).head? ≠ some '-' := by simp [h2]
  have hnot : ¬ (c0.toNat - '0'.toNat > st.chains.length - 1) := by omega
  unfold reactToken tokenEffect tokenOp
  simp only [h1, Bool.false_eq_true, if_false]
  have e1 : ((c0 :: rest).head? == some '-' && (c0 :: rest) != "-uronic".toList) = false := by simp [h2]
  simp only [e1, Bool.false_eq_true, if_false]
  have e3 : ((c0 :: rest) == ['A'] || (c0 :: rest) == "-uronic".toList) = false := by
    simp only [Bool.or_eq_false_iff, beq_eq_false_iff_ne, ne_eq]; exact ⟨h3, h4⟩
  have e5 : ((c0 :: rest) == ['N']) = false := by simp only [beq_eq_false_iff_ne, ne_eq]; exact h5
  have e6 : ((c0 :: rest) == "D-".toList || (c0 :: rest) == "L-".toList) = false := by
    simp only [Bool.or_eq_false_iff, beq_eq_false_iff_ne, ne_eq]; exact ⟨h6, h7⟩
  have e8 : ((c0 :: rest) == "Ac".toList && v.name == "Neu".toList) = false := by
    have : ((c0 :: rest) == "Ac".toList) = false := by simp only [beq_eq_false_iff_ne, ne_eq]; exact h8
    rw [this]; rfl
  have e9 : ((c0 :: rest) == "Gc".toList && v.name == "Neu".toList) = false := by
    have : ((c0 :: rest) == "Gc".toList) = false := by simp only [beq_eq_false_iff_ne, ne_eq]; exact h9
    rw [this]; rfl
  simp only [e3, e5, e6, e8, e9, Bool.false_eq_true, if_false, h10, if_true]
  rw [if_neg hnot]
  have e11 : (rest == ['d']) = false := by simp only [beq_eq_false_iff_ne, ne_eq]; exact h11
  have e12 : (rest == ['e']) = false := by simp only [beq_eq_false_iff_ne, ne_eq]; exact h12
  simp only [e11, e12, Bool.false_eq_true, if_false, h13, h14, h15, h16, he]
  cases hC : ((if Gen.preserveElem.contains rest then [e] else []) == ['C']) <;>
    simp only [hC, Bool.false_eq_true, if_false, if_true, bindO, applyOp]
  · cases setFg st.chains (if (e == 'C') = true then 1 else 0) (c0.toNat - '0'.toNat) (if Gen.preserveElem.contains rest = true then [e] else []) rest <;>
      simp [bindO, applyEffect]
  · cases setFg st.chains (if (e == 'C') = true then 1 else 0) (c0.toNat - '0'.toNat) [] rest <;> simp [bindO, applyEffect]

end Gly.React

namespace Gly.React

theorem getCell_replicate (n pos col : Nat) : getCell (List.replicate n ([], [])) pos col = [] := by
  unfold getCell
  by_cases h : pos < n
  · simp [List.getD, h]
  · simp [List.getD, h]

/-- `set_fg` on an empty cell with a known group name: the cell becomes bridge ++ fragment. -/
theorem setFg_empty (cs : Chains) (col pos : Nat) (be name v : List Char)
    (hpos : pos < cs.length) (hcell : getCell cs pos col = []) (hv : fgLookup name = some v) :
    setFg cs col pos be name =
      .ok (setCell cs pos col (· ++ (if be == ['P'] then "OP(=O)(O)".toList else be) ++ v), true) := by
  unfold setFg fgEdit
  have : ¬ (pos ≥ cs.length) := by omega
  simp only [this, if_false, hv, hcell, List.isEmpty_nil, Bool.not_true, Bool.false_and, Bool.false_eq_true]

/-! ### Locality of cell edits -/

theorem setCell_length (cs : Chains) (p c : Nat) (f : List Char → List Char) : (setCell cs p c f).length = cs.length := by
  simp [setCell]

theorem getCell_setCell_ne (cs : Chains) (p1 c1 p2 c2 : Nat) (f : List Char → List Char) (h : p1 ≠ p2) :
    getCell (setCell cs p1 c1 f) p2 c2 = getCell cs p2 c2 := by
  unfold getCell setCell
  by_cases hlt : p2 < cs.length
  · have hne : ¬ (p2 = p1) := fun e => h e.symm
    simp [List.getD, List.getElem?_mapIdx, hlt, hne]
  · simp [List.getD, List.getElem?_mapIdx, hlt]

theorem setCell_comm (cs : Chains) (p1 c1 p2 c2 : Nat) (f1 f2 : List Char → List Char) (h : p1 ≠ p2) :
    setCell (setCell cs p1 c1 f1) p2 c2 f2 = setCell (setCell cs p2 c2 f2) p1 c1 f1 := by
  unfold setCell
  apply List.ext_getElem
  · simp
  · intro i h1 h2
    simp only [List.getElem_mapIdx]
    by_cases e1 : i = p1
    · subst e1
      have : ¬ (i = p2) := h
      simp [this]
    · by_cases e2 : i = p2
      · subst e2; simp [e1]
      · simp [e1, e2]

/-- Two `set_fg` calls at different positions commute. -/
theorem setFg_comm (cs : Chains) (c1 p1 c2 p2 : Nat) (be1 n1 be2 n2 : List Char) (h : p1 ≠ p2) :
    bindO (setFg cs c1 p1 be1 n1) (fun (cs1, ok1) => bindO (setFg cs1 c2 p2 be2 n2) (fun (cs2, ok2) => Outcome.ok (cs2, ok1 && ok2))) =
    (match setFg cs c1 p1 be1 n1, setFg cs c2 p2 be2 n2 with
     | .ok (_, ok1), .ok (_, ok2) =>
       bindO (setFg cs c2 p2 be2 n2) (fun (csb, _) => bindO (setFg csb c1 p1 be1 n1) (fun (cs2, _) => Outcome.ok (cs2, ok1 && ok2)))
     | .ok _, .error e => .error e
     | .ok _, .unmodelled => .unmodelled
     | .error e, _ => .error e
     | .unmodelled, _ => .unmodelled) := by
  unfold setFg
  by_cases h1 : p1 ≥ cs.length
  · simp [h1, bindO]
  · by_cases h2 : p2 ≥ cs.length
    · simp only [h1, h2, if_false, if_true]
      cases fgEdit (getCell cs p1 c1) be1 n1 with
      | ok r => obtain ⟨f, ok⟩ := r; simp [bindO, setCell_length, h2]
      | error e => simp [bindO]
      | unmodelled => simp [bindO]
    · simp only [h1, h2, if_false]
      cases e1 : fgEdit (getCell cs p1 c1) be1 n1 with
      | error e => simp [bindO]
      | unmodelled => simp [bindO]
      | ok r1 =>
        obtain ⟨f1, ok1⟩ := r1
        cases e2 : fgEdit (getCell cs p2 c2) be2 n2 with
        | error e => simp [bindO, setCell_length, h2, getCell_setCell_ne _ _ _ _ _ _ h, e2]
        | unmodelled => simp [bindO, setCell_length, h2, getCell_setCell_ne _ _ _ _ _ _ h, e2]
        | ok r2 =>
          obtain ⟨f2, ok2⟩ := r2
          have h' : p2 ≠ p1 := fun e => h e.symm
          simp [bindO, setCell_length, h1, h2, getCell_setCell_ne _ _ _ _ _ _ h, getCell_setCell_ne _ _ _ _ _ _ h', e1, e2,
            setCell_comm _ _ _ _ _ _ _ h]

end Gly.React

namespace Gly.React

theorem fgEdit_ok (cur be name v : List Char) (hv : fgLookup name = some v) (hne : v ≠ []) :
    ∃ f, fgEdit cur be name = .ok (f, true) := by
  unfold fgEdit
  rw [hv]
  cases v with
  | nil => exact absurd rfl hne
  | cons v0 vs =>
    cases cur with
    | nil => exact ⟨_, rfl⟩
    | cons c cs =>
      simp only [List.isEmpty_cons, Bool.not_false, Bool.true_and, if_true, List.head?_cons]
      split <;> exact ⟨_, rfl⟩

theorem setFg_ok (cs : Chains) (col pos : Nat) (be name v : List Char) (hpos : pos < cs.length)
    (hv : fgLookup name = some v) (hne : v ≠ []) :
    ∃ f, setFg cs col pos be name = .ok (setCell cs pos col f, true) := by
  obtain ⟨f, hf⟩ := fgEdit_ok (getCell cs pos col) be name v hv hne
  refine ⟨f, ?_⟩
  unfold setFg
  have : ¬ (pos ≥ cs.length) := by omega
  simp [this, hf]

end Gly.React
