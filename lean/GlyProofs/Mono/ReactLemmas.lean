import GlyModel.Mono.Reactor
namespace Gly.React
open Gly

/-- Side conditions under which a token `<digit><name>` takes the last ("just add the side chain") branch of the digit
    case of `react`. All of them are Boolean facts about the token text, checked by the kernel for every key of the
    regenerated table (`plainKeys`). -/
def plainSide (c0 : Char) (rest : List Char) : Bool :=
  let n := c0 :: rest
  !skipped n && c0 != '-' && n != ['A'] && n != "-uronic".toList && n != ['N'] && n != "D-".toList && n != "L-".toList &&
  n != "Ac".toList && n != "Gc".toList && isDigitC c0 &&
  rest != ['d'] && rest != ['e'] &&
  !(n.length > 4 && n.getD 1 ' ' == '-' && n.getD 3 ' ' == '-' && (n.getD 2 ' ' == 'O' || n.getD 2 ' ' == 'N')) &&
  !((rest.head? == some 'N' || rest.head? == some 'O' || rest.head? == some 'P') && !conflictsNOP.contains rest) &&
  !isPolyCarbon n &&
  !(rest.head? == some 'C' && !Gen.cConflict.contains rest)

theorem reactToken_plain (v : View) (st : RState) (c0 : Char) (rest val : List Char) (e : Char)
    (hside : plainSide c0 rest = true)
    (hp : c0.toNat - '0'.toNat ≤ st.chains.length - 1)
    (he : v.elemAt.getD (c0.toNat - '0'.toNat) none = some e) :
    reactToken v st (c0 :: rest) =
      (let p := c0.toNat - '0'.toNat
       let elem : List Char := if Gen.preserveElem.contains rest then [e] else []
       let col := if e == 'C' then 1 else 0
       bindO (setFg st.chains col p (if elem == ['C'] then [] else elem) rest)
         (fun (cs, ok) => .ok { st with chains := cs, full := st.full && ok })) := by
  simp only [plainSide, Bool.and_eq_true, Bool.not_eq_true', bne_iff_ne, ne_eq, Bool.not_eq_eq_eq_not, Bool.not_true,
    decide_eq_true_eq] at hside
  obtain ⟨⟨⟨⟨⟨⟨⟨⟨⟨⟨⟨⟨⟨⟨⟨h1, h2⟩, h3⟩, h4⟩, h5⟩, h6⟩, h7⟩, h8⟩, h9⟩, h10⟩, h11⟩, h12⟩, h13⟩, h14⟩, h15⟩, h16⟩ := hside
  have hhead : (c0 :: rest).head? ≠ some '-' := by simp [h2]
  have hnot : ¬ (c0.toNat - '0'.toNat > st.chains.length - 1) := by omega
  unfold reactToken
  simp only [h1, Bool.false_eq_true, if_false]
  have e1 : ((c0 :: rest).head? == some '-' && (c0 :: rest) != "-uronic".toList) = false := by simp [h2]
  simp only [e1, Bool.false_eq_true, if_false]
  have e3 : ((c0 :: rest) == ['A'] || (c0 :: rest) == "-uronic".toList) = false := by
    simp only [Bool.or_eq_false_iff, beq_eq_false_iff_ne, ne_eq]; exact ⟨h3, h4⟩
  have e5 : ((c0 :: rest) == ['N']) = false := by simp only [beq_eq_false_iff_ne, ne_eq]; exact h5
  have e6 : ((c0 :: rest) == "D-".toList || (c0 :: rest) == "L-".toList) = false := by
    simp only [Bool.or_eq_false_iff, beq_eq_false_iff_ne, ne_eq]; exact ⟨h6, h7⟩
  have e8 : ((c0 :: rest) == "Ac".toList && v.name == "Neu".toList) = false := by
    have : ((c0 :: rest) == "Ac".toList) = false := by simp only [beq_eq_false_iff_ne, ne_eq]; exact h8
    rw [this]; rfl
  have e9 : ((c0 :: rest) == "Gc".toList && v.name == "Neu".toList) = false := by
    have : ((c0 :: rest) == "Gc".toList) = false := by simp only [beq_eq_false_iff_ne, ne_eq]; exact h9
    rw [this]; rfl
  simp only [e3, e5, e6, e8, e9, Bool.false_eq_true, if_false, h10, if_true]
  rw [if_neg hnot]
  have e11 : (rest == ['d']) = false := by simp only [beq_eq_false_iff_ne, ne_eq]; exact h11
  have e12 : (rest == ['e']) = false := by simp only [beq_eq_false_iff_ne, ne_eq]; exact h12
  simp only [e11, e12, Bool.false_eq_true, if_false, h13, h14, h15, h16, he]
  cases hC : ((if Gen.preserveElem.contains rest then [e] else []) == ['C']) <;> simp [hC]

end Gly.React

namespace Gly.React

theorem getCell_replicate (n pos col : Nat) : getCell (List.replicate n ([], [])) pos col = [] := by
  unfold getCell
  by_cases h : pos < n
  · simp [List.getD, h]
  · simp [List.getD, h]

/-- `set_fg` on an empty cell with a known group name: the cell becomes bridge ++ fragment. -/
theorem setFg_empty (cs : Chains) (col pos : Nat) (be name v : List Char)
    (hpos : pos < cs.length) (hcell : getCell cs pos col = []) (hv : fgLookup name = some v) :
    setFg cs col pos be name =
      .ok (setCell cs pos col (· ++ (if be == ['P'] then "OP(=O)(O)".toList else be) ++ v), true) := by
  unfold setFg
  have : ¬ (pos ≥ cs.length) := by omega
  simp only [this, if_false, hv, hcell, List.isEmpty_nil, Bool.not_true, Bool.false_and, Bool.false_eq_true]

end Gly.React
