import GlyModel.Mono.EnumC
namespace Gly.EnumC

theorem idx_mem (v : View) (p : Nat → Bool) (i : Nat) (h : i ∈ idx v p) : p i = true := by
  simp only [idx, List.mem_filter] at h; exact h.2

/-- what `find_oxygen` hands out for a carbon: the carbon itself, or a hetero atom (O preferred, else N) bonded to it by a single
    bond that is not exclusively in the main ring (so never the ring oxygen) -/
theorem findOxygenAt_spec (v : View) (pos o : Nat) (h : findOxygenAt v [pos] = .ok o) :
    o = pos ∨ (v.bo pos o = 1 ∧ ((v.at o).z = 8 ∨ (v.at o).z = 7) ∧ (v.at o).ring ≠ 1) := by
  simp only [findOxygenAt] at h
  split at h
  · rename_i o' ho
    injection h with h; subst h
    have := idx_mem v _ o' (by rw [ho]; simp)
    simp only [Bool.and_eq_true, beq_iff_eq, bne_iff_ne, ne_eq] at this
    exact Or.inr ⟨this.1.1, Or.inl this.1.2, this.2⟩
  · split at h
    · rename_i n' hn
      injection h with h; subst h
      have := idx_mem v _ n' (by rw [hn]; simp)
      simp only [Bool.and_eq_true, beq_iff_eq, bne_iff_ne, ne_eq] at this
      exact Or.inr ⟨this.1.1, Or.inr this.1.2, this.2⟩
    · split at h
      · injection h with h; exact Or.inl h.symm
      · cases h

/-- what `__check_root_id`'s search can return: the atom it was given, a terminal oxygen, or a nitrogen with at most two bonds -/
theorem checkRootGo_spec (v : View) : ∀ (fuel : Nat) (q seen : List Nat) (cand : Option Nat) (root : Nat),
    (∀ c, cand = some c → (v.at c).z = 7 ∧ degSum v c ≤ 2) →
    let r := checkRootGo v fuel q seen cand root
    r = root ∨ ((v.at r).z = 8 ∧ degSum v r = 1) ∨ ((v.at r).z = 7 ∧ degSum v r ≤ 2) := by
  intro fuel
  induction fuel with
  | zero =>
    intro q seen cand root hc
    simp only [checkRootGo]
    cases cand with
    | none => exact Or.inl rfl
    | some c => exact Or.inr (Or.inr (hc c rfl))
  | succ fuel ih =>
    intro q seen cand root hc
    cases q with
    | nil =>
      simp only [checkRootGo]
      cases cand with
      | none => exact Or.inl rfl
      | some c => exact Or.inr (Or.inr (hc c rfl))
    | cons n rest =>
      simp only [checkRootGo]
      split
      · exact ih _ _ cand root hc
      · split
        · rename_i h8
          simp only [Bool.and_eq_true, beq_iff_eq] at h8
          exact Or.inr (Or.inl h8)
        · apply ih
          intro c hcc
          split at hcc
          · rename_i h7
            injection hcc with hcc; subst hcc
            simp only [Bool.and_eq_true, beq_iff_eq, decide_eq_true_eq] at h7
            exact ⟨h7.1.1, h7.1.2⟩
          · exact hc c hcc

end Gly.EnumC
