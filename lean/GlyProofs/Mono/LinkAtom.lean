import GlyModel.Mono.EnumC
namespace Gly.EnumC

theorem idx_mem (v : View) (p : Nat → Bool) (i : Nat) (h : i ∈ idx v p) : p i = true := by
  simp only [idx, List.mem_filter] at h; exact h.2

/-- what `find_oxygen` hands out for a carbon: the carbon itself, or a hetero atom (O preferred, else N) bonded to it by a single
    bond that is not exclusively in the main ring (so never the ring oxygen) -/
theorem findOxygenAt_spec (v : View) (pos o : Nat) (h : findOxygenAt v [pos] = .ok o) :
    o = pos ∨ (v.bo pos o = 1 ∧ ((v.at o).z = 8 ∨ (v.at o).z = 7) ∧ (v.at o).ring ≠ 1) := by
  simp only [findOxygenAt] at h
  split at h
  · rename_i o' ho
    injection h with h; subst h
    have := idx_mem v _ o' (by rw [ho]; simp)
    simp only [Bool.and_eq_true, beq_iff_eq, bne_iff_ne, ne_eq] at this
    exact Or.inr ⟨this.1.1, Or.inl this.1.2, this.2⟩
  · split at h
    · rename_i n' hn
      injection h with h; subst h
      have := idx_mem v _ n' (by rw [hn]; simp)
      simp only [Bool.and_eq_true, beq_iff_eq, bne_iff_ne, ne_eq] at this
      exact Or.inr ⟨this.1.1, Or.inr this.1.2, this.2⟩
    · split at h
      · injection h with h; exact Or.inl h.symm
      · cases h

/-- what `__check_root_id`'s search can return: the atom it was given, a terminal oxygen, or a nitrogen with at most two bonds -/
theorem checkRootGo_spec (v : View) : ∀ (fuel : Nat) (q seen : List Nat) (cand : Option Nat) (root : Nat),
    (∀ c, cand = some c → (v.at c).z = 7 ∧ degSum v c ≤ 2) →
    let r := checkRootGo v fuel q seen cand root
    r = root ∨ ((v.at r).z = 8 ∧ degSum v r = 1) ∨ ((v.at r).z = 7 ∧ degSum v r ≤ 2) := by
  intro fuel
  induction fuel with
  | zero =>
    intro q seen cand root hc
    simp only [checkRootGo]
    cases cand with
    | none => exact Or.inl rfl
    | some c => exact Or.inr (Or.inr (hc c rfl))
  | succ fuel ih =>
    intro q seen cand root hc
    cases q with
    | nil =>
      simp only [checkRootGo]
      cases cand with
      | none => exact Or.inl rfl
      | some c => exact Or.inr (Or.inr (hc c rfl))
    | cons n rest =>
      simp only [checkRootGo]
      split
      · exact ih _ _ cand root hc
      · split
        · rename_i h8
          simp only [Bool.and_eq_true, beq_iff_eq] at h8
          exact Or.inr (Or.inl h8)
        · apply ih
          intro c hcc
          split at hcc
          · rename_i h7
            injection hcc with hcc; subst hcc
            simp only [Bool.and_eq_true, beq_iff_eq, decide_eq_true_eq] at h7
            exact ⟨h7.1.1, h7.1.2⟩
          · exact hc c hcc

/-! ### `Monomer.mark` changes one atom's element and nothing else -/

theorem setZ_at_ne (v : View) (i z j : Nat) (h : j ≠ i) : (v.setZ i z).at j = v.at j := by
  unfold View.setZ View.at
  simp only [List.getD, List.getElem?_mapIdx]
  cases hj : v.atoms[j]? with
  | none => simp
  | some a => simp [h]

theorem setZ_at_self (v : View) (i z : Nat) (h : i < v.atoms.length) :
    ((v.setZ i z).at i).z = z ∧ ((v.setZ i z).at i).ring = (v.at i).ring ∧ ((v.setZ i z).at i).iso = (v.at i).iso := by
  unfold View.setZ View.at
  simp [List.getD, List.getElem?_mapIdx, h]

theorem setZ_adj (v : View) (i z : Nat) : (v.setZ i z).adj = v.adj := rfl

theorem setZ_length (v : View) (i z : Nat) : (v.setZ i z).atoms.length = v.atoms.length := by
  simp [View.setZ]

/-- **`mark`**: on success exactly one atom – an oxygen or a nitrogen – has become the marker of its kind (O-marker for O, N-marker
    for N); every other atom, every ring / isomorphism flag and every bond is what it was. -/
theorem mark_spec (v : View) (x : Numbering) (pos oZ nZ : Nat) (v' : View) (h : mark v x pos oZ nZ = .ok v') :
    ∃ r, (((v.at r).z = 8 ∧ v' = v.setZ r oZ) ∨ ((v.at r).z = 7 ∧ v' = v.setZ r nZ)) ∧
      (∀ j, j ≠ r → v'.at j = v.at j) ∧ v'.adj = v.adj ∧ v'.atoms.length = v.atoms.length := by
  unfold mark at h
  cases hm : markAt v x pos oZ nZ with
  | raises w => simp [hm] at h
  | unmodelled => simp [hm] at h
  | ok p =>
    obtain ⟨r, z⟩ := p
    simp only [hm] at h
    cases h
    unfold markAt at hm
    cases hf : findOxygen v x pos with
    | raises w => simp [hf] at hm
    | unmodelled => simp [hf] at hm
    | ok o =>
      simp only [hf] at hm
      by_cases h8 : ((v.at (checkRootId v o)).z == 8) = true
      · simp only [h8, if_true] at hm
        cases hm
        exact ⟨checkRootId v o, Or.inl ⟨by simpa using h8, rfl⟩, fun j hj => setZ_at_ne v _ _ j hj, rfl, setZ_length v _ _⟩
      · simp only [h8, Bool.false_eq_true, if_false] at hm
        by_cases h7 : ((v.at (checkRootId v o)).z == 7) = true
        · simp only [h7, if_true] at hm
          cases hm
          exact ⟨checkRootId v o, Or.inr ⟨by simpa using h7, rfl⟩, fun j hj => setZ_at_ne v _ _ j hj, rfl, setZ_length v _ _⟩
        · simp only [h7, Bool.false_eq_true, if_false] at hm
          cases hm

theorem markAt_elem (v : View) (x : Numbering) (pos oZ nZ r z : Nat) (h : markAt v x pos oZ nZ = .ok (r, z)) :
    ((v.at r).z = 8 ∧ z = oZ) ∨ ((v.at r).z = 7 ∧ z = nZ) := by
  unfold markAt at h
  cases hf : findOxygen v x pos with
  | raises w => simp [hf] at h
  | unmodelled => simp [hf] at h
  | ok o =>
    simp only [hf] at h
    by_cases h8 : ((v.at (checkRootId v o)).z == 8) = true
    · simp only [h8, if_true] at h
      cases h
      exact Or.inl ⟨by simpa using h8, rfl⟩
    · simp only [h8, Bool.false_eq_true, if_false] at h
      by_cases h7 : ((v.at (checkRootId v o)).z == 7) = true
      · simp only [h7, if_true] at h
        cases h
        exact Or.inr ⟨by simpa using h7, rfl⟩
      · simp only [h7, Bool.false_eq_true, if_false] at h
        cases h

theorem at_lt_of_z (v : View) (r : Nat) (h : (v.at r).z ≠ 0) : r < v.atoms.length := by
  rcases Nat.lt_or_ge r v.atoms.length with hlt | hge
  · exact hlt
  · exact absurd (by simp [View.at, List.getD, List.getElem?_eq_none hge]) h

/-- **A marked atom is never marked again**: after `mark` has turned atom `r` into a marker (an element other than O and N), every
    later successful `mark` on the residue – for the same or another position, with any numbering – chooses a different atom. -/
theorem mark_never_reuses (v : View) (x x' : Numbering) (pos pos' oZ nZ oZ' nZ' r z r' z' : Nat)
    (hm : oZ ≠ 8 ∧ oZ ≠ 7 ∧ nZ ≠ 8 ∧ nZ ≠ 7)
    (h1 : markAt v x pos oZ nZ = .ok (r, z)) (h2 : markAt (v.setZ r z) x' pos' oZ' nZ' = .ok (r', z')) : r' ≠ r := by
  intro e
  subst e
  have hz := markAt_elem v x pos oZ nZ r' z h1
  have hlt : r' < v.atoms.length := at_lt_of_z v r' (by rcases hz with ⟨a, _⟩ | ⟨a, _⟩ <;> omega)
  have hnew := (setZ_at_self v r' z hlt).1
  have hz2 := markAt_elem (v.setZ r' z) x' pos' oZ' nZ' r' z' h2
  rcases hz with ⟨_, rfl⟩ | ⟨_, rfl⟩ <;> rcases hz2 with ⟨a, _⟩ | ⟨a, _⟩ <;> omega

end Gly.EnumC
