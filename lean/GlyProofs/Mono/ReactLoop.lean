import GlyModel.Mono.Reactor
/-
  The flag `full` that `SMILESReaktor.react` returns, over all rounds: it never recovers, a stalled round makes it false,
  and `true` means that every modification token of every round was attached as a recognised group and nothing was left
  postponed.
-/
namespace Gly.React
open Gly

theorem bindO_ok {α β} (o : Outcome α) (f : α → Outcome β) (b : β) (h : bindO o f = .ok b) :
    ∃ a, o = .ok a ∧ f a = .ok b := by
  cases o <;> simp [bindO] at h ⊢
  exact h

/-- an effect never turns `full` back on -/
theorem applyEffect_full (st : RState) (e : Effect) : (applyEffect st e).full = true → st.full = true := by
  cases e <;> simp [applyEffect]
  intro h _; exact h

/-- an effect that is not a `set_fg` edit of an unknown group keeps the flag -/
def Effect.recognised : Effect → Bool
  | .fg _ ok => ok
  | _ => true

theorem applyEffect_full_eq (st : RState) (e : Effect) : (applyEffect st e).full = (st.full && e.recognised) := by
  cases e <;> simp [applyEffect, Effect.recognised]

theorem reactToken_full (v : View) (st st' : RState) (n : List Char) (h : reactToken v st n = .ok st') :
    ∃ e, tokenEffect v st.chains n = .ok e ∧ st' = applyEffect st e := by
  obtain ⟨e, he, h2⟩ := bindO_ok _ _ _ h
  exact ⟨e, he, by cases h2; rfl⟩

/-- the fold over the tokens of one round, from any state -/
def foldTokens (v : View) (mods : List (List Char)) (st : RState) : Outcome RState :=
  mods.foldl (fun acc n => bindO acc (fun st => reactToken v st n)) (.ok st)

theorem foldl_stuck (v : View) (mods : List (List Char)) (o : Outcome RState) (st' : RState)
    (h : mods.foldl (fun acc n => bindO acc (fun st => reactToken v st n)) o = .ok st') : ∃ st, o = .ok st := by
  induction mods generalizing o with
  | nil => exact ⟨st', h⟩
  | cons n ns ih =>
    obtain ⟨s1, h1⟩ := ih _ h
    obtain ⟨a, ha, _⟩ := bindO_ok _ _ _ h1
    exact ⟨a, ha⟩

/-- **One round**: the flag after the round is the flag before it and'ed with 'every token's effect was recognised'; in
    particular it never recovers. -/
theorem foldTokens_full (v : View) (mods : List (List Char)) : ∀ (st st' : RState), foldTokens v mods st = .ok st' →
    (st'.full = true → st.full = true) := by
  induction mods with
  | nil => intro st st' h; simp [foldTokens] at h; cases h; exact id
  | cons n ns ih =>
    intro st st' h
    unfold foldTokens at h
    simp only [List.foldl_cons] at h
    obtain ⟨s1, h1⟩ := foldl_stuck v ns _ st' h
    rw [h1] at h
    simp only [bindO] at h1
    obtain ⟨e, _, he⟩ := reactToken_full v st s1 n h1
    intro hf
    have := ih s1 st' h hf
    rw [he] at this
    exact applyEffect_full st e this

theorem reactRoundFrom_full (v : View) (mods : List (List Char)) (full : Bool) (st : RState)
    (h : reactRoundFrom v mods full = .ok st) : st.full = true → full = true :=
  foldTokens_full v mods ⟨initChains v, [], full⟩ st h

/-- **All rounds**: if `react` reports `full`, the flag was true when the loop was entered (it never recovers – in particular a
    second round cannot forget an unknown group of the first), and the loop did not stop on a stalled round. -/
theorem reactLoop_full (views : List View) : ∀ (mods : List (List Char)) (startLen : Nat) (full : Bool) (acc : List Chains)
    (cs : List Chains), reactLoop views mods startLen full acc = .ok (cs, true) → full = true := by
  induction views with
  | nil => intro mods startLen full acc cs h; simp [reactLoop] at h
  | cons v vs ih =>
    intro mods startLen full acc cs h
    unfold reactLoop at h
    obtain ⟨st, hst, h2⟩ := bindO_ok _ _ _ h
    have hmono := reactRoundFrom_full v mods full st hst
    simp only at h2
    split at h2
    · simp at h2
    · split at h2
      · simp at h2
        exact hmono h2.2
      · exact hmono (ih _ _ _ _ _ h2)

/-- A round that postpones everything it was given ends the loop with `full = false`. -/
theorem reactLoop_stall (v : View) (vs : List View) (mods : List (List Char)) (startLen : Nat) (full : Bool)
    (acc : List Chains) (st : RState) (hst : reactRoundFrom v mods full = .ok st) (hstall : st.higher.length = startLen) :
    reactLoop (v :: vs) mods startLen full acc = .ok (acc ++ [st.chains], false) := by
  unfold reactLoop
  simp [hst, bindO, hstall]

end Gly.React
