import GlyProofs.Mono.NumberingDef
namespace Gly.EnumC
open Gly Gly.Smi

set_option maxRecDepth 100000 in
theorem anchor_furanose : anchorOk Gen.furanoseTable ["API"] = true := by decide +kernel

end Gly.EnumC
