import GlyModel.Api.Embed
namespace Gly.Embed
open Gly

theorem range_mem_cands (n : Nat) : ∀ k, k ≤ n → List.range k ∈ cands n k := by
  intro k
  induction k with
  | zero => intro _; simp [cands]
  | succ k ih =>
    intro hk
    simp only [cands, List.mem_flatMap, List.mem_map, List.mem_filter, List.mem_range]
    refine ⟨List.range k, ih (by omega), k, ⟨by omega, ?_⟩, ?_⟩
    · simp
    · rw [List.range_succ]

theorem getD_range (n i : Nat) (h : i < n) : (List.range n).getD i 0 = i := by
  simp [List.getD, h]

/-- the identity is an embedding of a glycan into itself as soon as both matchers are reflexive on what the glycan contains -/
theorem isEmb_self (nodeOk : Recipe → Recipe → Bool) (edgeOk : List Char → List Char → Bool) (g : G)
    (hn : ∀ r ∈ g.nodes, nodeOk r r = true) (he : ∀ e ∈ g.edges, edgeOk e.2.2 e.2.2 = true) :
    isEmb nodeOk edgeOk g g (List.range g.nodes.length) = true := by
  unfold isEmb
  simp only [Bool.and_eq_true, List.length_range, beq_self_eq_true, true_and, List.all_eq_true, List.mem_range,
    decide_eq_true_eq]
  refine ⟨⟨⟨?_, List.nodup_range⟩, ?_⟩, ?_⟩
  · intro x hx; simpa using hx
  · intro i hi
    rw [getD_range _ _ hi]
    apply hn
    simp [List.getD, hi]
  · intro i hi j hj
    rw [getD_range _ _ hi, getD_range _ _ hj]
    cases hl : edgeLabel g.edges i j with
    | none => rfl
    | some l =>
      simp only [edgeLabel, Option.map_eq_some_iff] at hl
      obtain ⟨e, hfe, rfl⟩ := hl
      exact he e (List.mem_of_find?_eq_some hfe)

theorem count_self_pos (nodeOk : Recipe → Recipe → Bool) (edgeOk : List Char → List Char → Bool) (g : G)
    (hn : ∀ r ∈ g.nodes, nodeOk r r = true) (he : ∀ e ∈ g.edges, edgeOk e.2.2 e.2.2 = true) :
    1 ≤ count nodeOk edgeOk g g := by
  unfold count
  apply List.length_pos_of_mem (a := List.range g.nodes.length)
  exact List.mem_filter.mpr ⟨range_mem_cands _ _ (Nat.le_refl _), isEmb_self nodeOk edgeOk g hn he⟩

theorem edgeEq_refl (on : Bool) (l : List Char) : edgeEq on l l = true := by simp [edgeEq]

end Gly.Embed
