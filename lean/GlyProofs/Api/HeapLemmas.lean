import GlyModel.Api.Heap
namespace Gly.Heap

/-- every address the table refers to, and every address in the heap, is below the next fresh one -/
theorem foldl_max_ge (l : List Nat) (init : Nat) : init ≤ l.foldl max init ∧ ∀ x ∈ l, x ≤ l.foldl max init := by
  induction l generalizing init with
  | nil => simp
  | cons y ys ih =>
    simp only [List.foldl]
    have := ih (max init y)
    refine ⟨by omega, ?_⟩
    intro x hx
    rcases List.mem_cons.mp hx with rfl | h
    · omega
    · exact this.2 x h

theorem fresh_not_in_heap (w : World) : ∀ p ∈ w.heap, p.1 ≠ w.fresh := by
  intro p hp
  have h1 : (p.1 : Nat) ≤ (w.heap.map (·.1)).foldl max 0 := (foldl_max_ge (w.heap.map (·.1)) 0).2 p.1 (List.mem_map.mpr ⟨p, hp, rfl⟩)
  intro h
  have h2 : (p.1 : Nat) = (w.heap.map (·.1)).foldl max 0 + 1 := h
  rw [h2] at h1
  exact Nat.not_succ_le_self _ h1

theorem lookup_map_ne (h : List (Addr × Smiles)) (a b : Addr) (v : Smiles) (hne : b ≠ a) :
    (h.map (fun (c, x) => if c = a then (c, v) else (c, x))).lookup b = h.lookup b := by
  induction h with
  | nil => rfl
  | cons p rest ih =>
    obtain ⟨c, x⟩ := p
    simp only [List.map_cons]
    by_cases hca : c = a
    · subst hca
      have : (b == c) = false := by simp [hne]
      simp [List.lookup, this, ih]
    · simp only [hca, if_false]
      by_cases hbc : b = c
      · subst hbc; simp [List.lookup]
      · have : (b == c) = false := by simp [hbc]
        simp [List.lookup, this, ih]

/-- writing to one object leaves every other object as it was -/
theorem get_set_ne (w : World) (a b : Addr) (v : Smiles) (hne : b ≠ a) : (w.set a v).get b = w.get b := by
  simp [World.get, World.set, lookup_map_ne w.heap a b v hne]

theorem get_copy_old (w : World) (a b : Addr) (hb : b ≠ w.fresh) : (w.copy a).1.get b = w.get b := by
  have : (b == w.fresh) = false := by simp [hb]
  simp [World.copy, World.get, List.lookup, this]

/-- Addresses stored in the table exist in the heap (invariant of a well-formed world). -/
def WFW (w : World) : Prop := ∀ k a, w.table.lookup k = some a → ∃ v, (a, v) ∈ w.heap

theorem openForm_copy_frame (w : World) (hw : WFW w) (k : List Char) (rw : Smiles → Smiles) :
    let w' := (openForm true k rw w).1
    w'.table = w.table ∧ (∀ k', w'.read k' = w.read k') ∧ WFW w' := by
  unfold openForm
  cases hk : w.lookupKey k with
  | none => simp [hw]
  | some a =>
    simp only [if_true]
    have hfresh := fresh_not_in_heap w
    refine ⟨by simp [World.copy, World.set], ?_, ?_⟩
    · intro k'
      simp only [World.read, World.lookupKey, World.copy, World.set]
      cases hk' : w.table.lookup k' with
      | none => simp
      | some b =>
        simp only [Option.map_some]
        obtain ⟨v, hv⟩ := hw k' b hk'
        have hb : b ≠ w.fresh := hfresh (b, v) hv
        have h1 := get_set_ne (w.copy a).1 w.fresh b (rw ((w.copy a).1.get w.fresh)) hb
        have h2 := get_copy_old w a b hb
        show some (((w.copy a).1.set (w.copy a).2 (rw ((w.copy a).1.get (w.copy a).2))).get b) = some (w.get b)
        have e : (w.copy a).2 = w.fresh := rfl
        rw [e, h1, h2]
    · intro k' b hb
      have hb' : w.table.lookup k' = some b := by simpa [World.copy, World.set] using hb
      obtain ⟨v, hv⟩ := hw k' b hb'
      have hne : b ≠ w.fresh := hfresh (b, v) hv
      refine ⟨v, ?_⟩
      simp only [World.copy, World.set, List.map_cons, List.mem_cons, List.mem_map]
      right
      exact ⟨(b, v), hv, by simp [hne]⟩

/-- with the copy, the result of an open-form rewrite is the rewrite of what the table reads for that key -/
theorem openForm_copy_result (w : World) (k : List Char) (rw : Smiles → Smiles) :
    (openForm true k rw w).2 = (w.read k).map rw := by
  unfold openForm World.read
  cases hk : w.lookupKey k with
  | none => simp
  | some a =>
    have : (w.copy a).1.get (w.copy a).2 = w.get a := by
      simp [World.copy, World.get, List.lookup]
    simp [this]

end Gly.Heap
