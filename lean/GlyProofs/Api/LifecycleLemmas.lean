import GlyModel.Api.Lifecycle
namespace Gly.Life

theorem release_deliverable (valid : List Char → Bool) (s : List Char) : Deliverable valid (release valid s) := by
  unfold release Deliverable
  by_cases h : s.isEmpty
  · simp [h]; left; simpa using h
  · by_cases hv : valid s = true
    · simp [h, hv]
    · simp [h, hv]

theorem construct_inv (valid : List Char → Bool) (treeOnly full tfCtor : Bool) (merged : Option (List Char)) (o : Obj)
    (h : construct valid treeOnly full tfCtor merged = some o) : Inv valid o := by
  unfold construct at h
  split at h
  · cases merged with
    | none => simp at h
    | some m =>
      simp at h; subst h
      intro c hc; simp at hc; subst hc
      exact release_deliverable valid m
  · simp at h; subst h
    intro c hc; simp at hc

/-- **Nothing leaves the object unchecked**: whatever `get_smiles` returns – at the first call or any later one, eager or lazy
    path, any option combination – is the empty string or a string that passed the release gate; and the object stays in a state
    where this holds for the next call. -/
theorem getSmiles_deliverable (valid : List Char → Bool) (o o' : Obj) (tfLazy : Bool) (mergedLazy : Option (List Char))
    (r : List Char) (hI : Inv valid o) (h : getSmiles valid o tfLazy mergedLazy = some (r, o')) :
    Deliverable valid r ∧ Inv valid o' := by
  unfold getSmiles at h
  split at h
  · simp at h; obtain ⟨rfl, rfl⟩ := h
    exact ⟨Or.inl rfl, hI⟩
  · cases hc : o.cached with
    | some c =>
      simp [hc] at h; obtain ⟨rfl, rfl⟩ := h
      exact ⟨hI c hc, hI⟩
    | none =>
      simp only [hc] at h
      cases mergedLazy with
      | none => simp at h
      | some m =>
        simp at h; obtain ⟨rfl, rfl⟩ := h
        refine ⟨release_deliverable valid m, ?_⟩
        intro c hc'; simp at hc'; subst hc'
        exact release_deliverable valid m

/-- **Asking again gives the same string**, whatever a repeated walk / merge would now produce: after a call that returned `r`,
    every further call returns `r` – for objects as the constructor makes them (the molecule is assembled eagerly exactly when
    `not tree_only and tree_full and full`). -/
theorem getSmiles_stable (valid : List Char → Bool) (treeOnly full tfCtor : Bool) (merged : Option (List Char)) (o o' : Obj)
    (hc : construct valid treeOnly full tfCtor merged = some o)
    (tf1 : Bool) (m1 : Option (List Char)) (r : List Char) (h : getSmiles valid o tf1 m1 = some (r, o'))
    (tf2 : Bool) (m2 : Option (List Char)) : ∃ o'', getSmiles valid o' tf2 m2 = some (r, o'') := by
  unfold construct at hc
  cases treeOnly <;> cases full <;> cases tfCtor <;> simp at hc
  all_goals first
    | (cases merged with
       | none => simp at hc
       | some m => simp at hc; subst hc; simp [getSmiles] at h ⊢; obtain ⟨rfl, rfl⟩ := h; simp)
    | (subst hc
       cases m1 with
       | none => simp [getSmiles] at h <;> (try (obtain ⟨rfl, rfl⟩ := h; simp [getSmiles]))
       | some m => simp [getSmiles] at h; obtain ⟨rfl, rfl⟩ := h; simp [getSmiles])

/-- `get_smiles` changes nothing the other methods look at on a `tree_only` object: options and the `tree_full` flag stay (the
    tree itself is not replaced: the walk for the molecule is local), only the cache is filled. -/
theorem getSmiles_keeps_tree (valid : List Char → Bool) (o o' : Obj) (tfLazy : Bool) (mergedLazy : Option (List Char))
    (r : List Char) (h : getSmiles valid o tfLazy mergedLazy = some (r, o')) :
    o'.treeOnly = o.treeOnly ∧ o'.full = o.full ∧ (o.treeOnly = true → o'.treeFull = o.treeFull) := by
  unfold getSmiles at h
  split at h
  · simp at h; obtain ⟨_, rfl⟩ := h; simp
  · cases hc : o.cached with
    | some c => simp [hc] at h; obtain ⟨_, rfl⟩ := h; simp
    | none =>
      simp only [hc] at h
      cases mergedLazy with
      | none => simp at h
      | some m => simp at h; obtain ⟨_, rfl⟩ := h; simp; intro ht; simp [ht]

end Gly.Life
