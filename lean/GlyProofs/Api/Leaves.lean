import GlyProofs.Poly.PlanRefines
/-
  `summary()["leaves"]`: the nodes of the walked tree without outgoing edge are exactly the residues written with nothing
  attached to them.
-/
namespace Gly.Plan
open Gly

theorem rootEdges_isEmpty (w : WalkCfg) (F : GF) (p n : Nat) : (rootEdges w F p n).isEmpty = (match F with | .nil => true | _ => false) := by
  cases F <;> simp [rootEdges]

theorem outLeaves_congr (es es' : List Edge) (ids : List Nat)
    (h : ∀ x ∈ ids, es.filter (fun e => e.1 == x) = es'.filter (fun e => e.1 == x)) : outLeaves es ids = outLeaves es' ids := by
  unfold outLeaves
  apply List.filter_congr
  intro x hx
  rw [h x hx]

theorem outLeaves_append (es : List Edge) (a b : List Nat) : outLeaves es (a ++ b) = outLeaves es a ++ outLeaves es b := by
  simp [outLeaves]

/-- **The out-degree-0 nodes among the new ids are the written leaves.** -/
theorem outLeaves_spec (w : WalkCfg) (F : GF) : ∀ (p n : Nat), p < n →
    outLeaves (edgesGF w F p n) (List.range' n F.size) = leafIds F n := by
  induction F with
  | nil => intro p n _; simp [outLeaves, leafIds, GF.size]
  | cons l nm kids rest ihk ihr =>
    intro p n hpn
    have hsplit : List.range' n (GF.cons l nm kids rest).size =
        [n] ++ List.range' (n + 1) kids.size ++ List.range' (n + 1 + kids.size) rest.size := by
      simp only [GF.size]
      rw [show 1 + kids.size + rest.size = (kids.size + rest.size) + 1 by omega, List.range'_succ, ← List.range'_append_1]
      simp
    rw [hsplit, outLeaves_append, outLeaves_append]
    simp only [leafIds]
    congr 1
    congr 1
    · -- the root of the first tree
      have hf : (edgesGF w (.cons l nm kids rest) p n).filter (fun e => e.1 == n) = rootEdges w kids n (n + 1) := by
        rw [filter_in_kids w l nm kids rest p n n hpn (by omega) (by omega), filter_parent w kids n (n + 1) (by omega)]
      simp only [outLeaves, List.filter_cons, List.filter_nil, hf, rootEdges_isEmpty]
      cases kids <;> simp
    · rw [outLeaves_congr _ (edgesGF w kids n (n + 1))]
      · exact ihk n (n + 1) (by omega)
      · intro x hx
        have := List.mem_range'_1.mp hx
        exact filter_in_kids w l nm kids rest p n x hpn (by omega) (by omega)
    · rw [outLeaves_congr _ (edgesGF w rest p (n + 1 + kids.size))]
      · exact ihr p (n + 1 + kids.size) (by omega)
      · intro x hx
        have := List.mem_range'_1.mp hx
        exact filter_in_rest w l nm kids rest p n x hpn (by omega)

end Gly.Plan
