import GlyProofs.Poly.PlanSlots
namespace Gly.Plan
open Gly

theorem edges_children (w : WalkCfg) (F : GF) : ∀ (p n : Nat), (edgesGF w F p n).map (·.2.1) = List.range' n F.size := by
  induction F with
  | nil => intro p n; rfl
  | cons l nm kids rest ihk ihr =>
    intro p n
    simp only [edgesGF, List.map_cons, List.map_append, ihk, ihr, GF.size]
    rw [show 1 + kids.size + rest.size = (kids.size + rest.size) + 1 by omega, List.range'_succ, ← List.range'_append_1]

theorem find_child_some (w : WalkCfg) (F : GF) (p n x : Nat) (h1 : n ≤ x) (h2 : x < n + F.size) :
    ((edgesGF w F p n).find? (fun e => e.2.1 == x)).isSome = true := by
  rw [List.find?_isSome]
  have : x ∈ (edgesGF w F p n).map (·.2.1) := by rw [edges_children]; exact List.mem_range'_1.mpr ⟨h1, h2⟩
  obtain ⟨e, he, hx⟩ := List.mem_map.mp this
  exact ⟨e, he, by simp [hx]⟩

theorem find_child_none (w : WalkCfg) (F : GF) (p n x : Nat) (h : x < n ∨ n + F.size ≤ x) :
    (edgesGF w F p n).find? (fun e => e.2.1 == x) = none := by
  rw [List.find?_eq_none]
  intro e he
  have : e.2.1 ∈ (edgesGF w F p n).map (·.2.1) := List.mem_map_of_mem he
  rw [edges_children] at this
  have := List.mem_range'_1.mp this
  simp; omega

theorem parentOf_root (w : WalkCfg) (l : ConStr) (nm : Recipe) (kids rest : GF) (p n : Nat) :
    parentOf (edgesGF w (.cons l nm kids rest) p n) n = some p := by
  simp [parentOf, edgesGF]

theorem parentOf_in_kids (w : WalkCfg) (l : ConStr) (nm : Recipe) (kids rest : GF) (p n x : Nat)
    (h1 : n + 1 ≤ x) (h2 : x < n + 1 + kids.size) :
    parentOf (edgesGF w (.cons l nm kids rest) p n) x = parentOf (edgesGF w kids n (n + 1)) x := by
  unfold parentOf
  simp only [edgesGF, List.find?_cons]
  have hne : (n == x) = false := by simp; omega
  simp only [hne]
  rw [List.find?_append]
  have hs := find_child_some w kids n (n + 1) x h1 (by omega)
  cases hf : (edgesGF w kids n (n + 1)).find? (fun e => e.2.1 == x) with
  | none => simp [hf] at hs
  | some e => simp

theorem parentOf_in_rest (w : WalkCfg) (l : ConStr) (nm : Recipe) (kids rest : GF) (p n x : Nat)
    (h1 : n + 1 + kids.size ≤ x) :
    parentOf (edgesGF w (.cons l nm kids rest) p n) x = parentOf (edgesGF w rest p (n + 1 + kids.size)) x := by
  unfold parentOf
  simp only [edgesGF, List.find?_cons]
  have hne : (n == x) = false := by simp; omega
  simp only [hne]
  rw [List.find?_append, find_child_none w kids n (n + 1) x (Or.inr (by omega))]
  simp

/-- **levels**: in any edge list `E` that looks up the parents of the forest's nodes like the forest's own edges do, a node of the
    forest hung at depth `d` on a node `q` of level `d - 1` has the level the Spec says -/
theorem levelOf_spec (w : WalkCfg) (E : List Edge) (F : GF) : ∀ (q n d f : Nat), 0 < d →
    (∀ f', d ≤ f' + 1 → levelOf E f' q = d - 1) →
    (∀ x, n ≤ x → x < n + F.size → parentOf E x = parentOf (edgesGF w F q n) x) →
    ∀ xd ∈ levelIds F n d, xd.2 ≤ f → levelOf E f xd.1 = xd.2 := by
  induction F with
  | nil => intro q n d f _ _ _ xd h; simp [levelIds] at h
  | cons l nm kids rest ihk ihr =>
    intro q n d f hd hq hE xd hmem hf
    simp only [GF.size] at hE
    simp only [levelIds, List.mem_cons, List.mem_append] at hmem
    -- the level of the first tree's root, for every sufficient fuel
    have hroot : ∀ f', d ≤ f' → levelOf E f' n = d := by
      intro f' hf'
      obtain ⟨g, rfl⟩ : ∃ g, f' = g + 1 := ⟨f' - 1, by omega⟩
      simp only [levelOf, hE n (by omega) (by omega), parentOf_root]
      rw [hq g (by omega)]; omega
    rcases hmem with rfl | hk | hr
    · exact hroot f hf
    · refine ihk n (n + 1) (d + 1) f (by omega) ?_ ?_ xd hk hf
      · intro f' hf'; simp only [Nat.add_sub_cancel]; exact hroot f' (by omega)
      · intro x hx hx'
        rw [hE x (by omega) (by omega), parentOf_in_kids w l nm kids rest q n x (by omega) (by omega)]
    · refine ihr q (n + 1 + kids.size) d f hd hq ?_ xd hr hf
      intro x hx hx'
      rw [hE x (by omega) (by omega), parentOf_in_rest w l nm kids rest q n x hx]

end Gly.Plan

namespace Gly.Plan
open Gly

theorem maxList_append (a b : List Nat) : maxList (a ++ b) = max (maxList a) (maxList b) := by
  induction a with
  | nil => simp [maxList]
  | cons x xs ih => simp [maxList, ih, Nat.max_assoc]

theorem levelIds_fst (F : GF) : ∀ (n d : Nat), (levelIds F n d).map (·.1) = List.range' n F.size := by
  induction F with
  | nil => intro n d; rfl
  | cons l nm kids rest ihk ihr =>
    intro n d
    simp only [levelIds, List.map_cons, List.map_append, ihk, ihr, GF.size]
    rw [show 1 + kids.size + rest.size = (kids.size + rest.size) + 1 by omega, List.range'_succ, ← List.range'_append_1]

theorem levelIds_le (F : GF) : ∀ (n d : Nat) (xd : Nat × Nat), xd ∈ levelIds F n d → xd.2 < d + F.size := by
  induction F with
  | nil => intro n d xd h; simp [levelIds] at h
  | cons l nm kids rest ihk ihr =>
    intro n d xd h
    simp only [levelIds, List.mem_cons, List.mem_append] at h
    simp only [GF.size]
    rcases h with rfl | h | h
    · simp; omega
    · have := ihk _ _ xd h; omega
    · have := ihr _ _ xd h; omega

theorem maxLevel (F : GF) : ∀ (n d : Nat), 0 < d →
    maxList ((levelIds F n d).map (·.2)) = (match F with | .nil => 0 | _ => d + heightGF F - 1) := by
  induction F with
  | nil => intro n d _; rfl
  | cons l nm kids rest ihk ihr =>
    intro n d hd
    simp only [levelIds, List.map_cons, List.map_append, maxList, maxList_append, ihk (n + 1) (d + 1) (by omega),
      ihr (n + 1 + kids.size) d hd, heightGF]
    cases kids <;> cases rest <;> simp [heightGF] <;> omega

theorem map_congr_mem {β : Type} (l : List Nat) (f g : Nat → β) (h : ∀ x ∈ l, f x = g x) : l.map f = l.map g :=
  List.map_congr_left h

/-- **`summary()["depth"]`**: on the edges the walker produces for a root residue with the forest `F` written to its left, the
    largest level of a node is the height of `F`. -/
theorem depth_spec (w : WalkCfg) (F : GF) : depthOf (edgesGF w F 0 1) (1 + F.size) = heightGF F := by
  unfold depthOf
  have hroot : ∀ f', levelOf (edgesGF w F 0 1) f' 0 = 0 := by
    intro f'
    cases f' with
    | zero => rfl
    | succ g => simp [levelOf, parentOf, find_child_none w F 0 1 0 (Or.inl (by omega))]
  rw [show 1 + F.size = F.size + 1 by omega, List.range_succ_eq_map, List.map_cons, maxList, hroot, Nat.zero_max, List.map_map]
  have hlev : ((List.range F.size).map (levelOf (edgesGF w F 0 1) (F.size + 1) ∘ Nat.succ)) = (levelIds F 1 1).map (·.2) := by
    have h1 : (List.range F.size).map Nat.succ = (levelIds F 1 1).map (·.1) := by
      rw [levelIds_fst, List.range'_eq_map_range]; simp [Nat.add_comm]
    rw [← List.map_map, h1, List.map_map]
    apply List.map_congr_left
    intro xd hxd
    simp only [Function.comp]
    exact levelOf_spec w (edgesGF w F 0 1) F 0 1 1 (F.size + 1) (by omega) (fun f' _ => by simpa using hroot f')
      (fun _ _ _ => rfl) xd hxd (by have := levelIds_le F 1 1 xd hxd; omega)
  rw [hlev, maxLevel F 1 1 (by omega)]
  cases F <;> simp [heightGF]

end Gly.Plan
