import GlyModel.Api.Convert
/-
  "One glycan per line": reading back a file written one glycan per line gives the glycans.
-/
namespace Gly.Api

def NoNL (l : List Char) : Prop := ∀ c ∈ l, c ≠ '\n' ∧ c ≠ '\r'

theorem splitAux_plain (c : Char) (rest cur : List Char) (h1 : c ≠ '\n') (h2 : c ≠ '\r') :
    splitAux (c :: rest) cur = splitAux rest (c :: cur) := by
  conv => lhs; unfold splitAux
  split <;> simp_all

theorem splitAux_line (l rest cur : List Char) (h : NoNL l) :
    splitAux (l ++ '\n' :: rest) cur = (cur.reverse ++ l) :: splitAux rest [] := by
  induction l generalizing cur with
  | nil =>
    simp only [List.nil_append, List.append_nil]
    conv => lhs; unfold splitAux
    split
    · simp_all
    · simp_all
    · simp_all
    · simp_all
    · rename_i hn heq; injection heq with h1 _; exact absurd h1.symm hn
  | cons c l ih =>
    have hc := h c (by simp)
    rw [List.cons_append, splitAux_plain c _ cur hc.1 hc.2, ih (c :: cur) (fun x hx => h x (by simp [hx]))]
    simp

/-- Lines without line terminators, each written with a terminating `\n`, are read back as exactly those lines. -/
theorem splitLines_join (ls : List (List Char)) (h : ∀ l ∈ ls, NoNL l) :
    splitLines (ls.flatMap (· ++ ['\n'])) = ls := by
  unfold splitLines
  induction ls with
  | nil => simp [splitAux]
  | cons l ls ih =>
    simp only [List.flatMap_cons, List.append_assoc, List.cons_append, List.nil_append]
    rw [splitAux_line l _ [] (h l (by simp))]
    simp only [List.reverse_nil, List.nil_append]
    rw [ih (fun x hx => h x (by simp [hx]))]

theorem dropWhile_id_of_head {α} (p : α → Bool) (l : List α) (h : ∀ x, l.head? = some x → p x = false) : l.dropWhile p = l := by
  cases l with
  | nil => rfl
  | cons a as => simp [List.dropWhile_cons, h a rfl]

/-- A text that neither starts nor ends with a white-space character is its own `strip()`. -/
theorem stripLine_id (l : List Char) (h1 : ∀ x, l.head? = some x → isSpace x = false)
    (h2 : ∀ x, l.getLast? = some x → isSpace x = false) : stripLine l = l := by
  unfold stripLine
  rw [dropWhile_id_of_head isSpace l h1]
  rw [dropWhile_id_of_head isSpace l.reverse (by intro x hx; rw [List.head?_reverse] at hx; exact h2 x hx)]
  simp

/-- **File round trip**: glycans that contain no line terminator and no leading / trailing white space, written one per line,
    are read back by `readLines` (the Model of `[l.strip() for l in open(f).readlines()]`) as exactly that list, in order. -/
theorem readLines_roundtrip (gs : List (List Char)) (h : ∀ g ∈ gs, NoNL g)
    (h1 : ∀ g ∈ gs, ∀ x, g.head? = some x → isSpace x = false)
    (h2 : ∀ g ∈ gs, ∀ x, g.getLast? = some x → isSpace x = false) :
    readLines (gs.flatMap (· ++ ['\n'])) = gs := by
  unfold readLines
  rw [splitLines_join gs h]
  induction gs with
  | nil => rfl
  | cons g gs ih =>
    simp only [List.map_cons]
    rw [stripLine_id g (h1 g (by simp)) (h2 g (by simp)),
      ih (fun x hx => h x (by simp [hx])) (fun x hx => h1 x (by simp [hx])) (fun x hx => h2 x (by simp [hx]))]

end Gly.Api
