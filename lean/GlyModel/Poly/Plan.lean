import GlyModel.Front.Spec
/-
  The binding plan: what `Merger.mark` and `Merger.merge_int` (merger.py) do with the walked tree, as the list of calls they
  issue on the residues – which carbon of which residue is marked with which marker pair, which residue takes the anomer of
  which linkage label, from which carbon every child's SMILES is written and with which ring-label offset.

  Model: `go` – the recursion of the Python over the *edge list* of the networkx graph (children of a node = its out-edges in
  insertion order, `zip` with the marker pairs, `re.findall(r'\d+', label)`), parametrised by the two per-node actions so that
  `Merger.mark` and `Merger.merge_int` are two instances of one traversal.

  Spec: `specPlan` – structural over the written forest `GF` (the compositional reading of the syntax tree, C03): linkage by
  linkage in written pre-order, the action on the linkage followed by the action on entering the child.
-/
namespace Gly.Plan
open Gly

abbrev Edge := Nat × Nat × List Char

/-! ### `re.findall(r'\d+', s)` on the ASCII digits the grammar can put into a label -/

def isDig (c : Char) : Bool := '0' ≤ c && c ≤ '9'

def numRunsGo : List Char → List Char → List (List Char)
  | cur, [] => if cur.isEmpty then [] else [cur]
  | cur, c :: cs =>
    if isDig c then numRunsGo (cur ++ [c]) cs
    else if cur.isEmpty then numRunsGo [] cs else cur :: numRunsGo [] cs

def numRuns (s : List Char) : List (List Char) := numRunsGo [] s

def natOf (ds : List Char) : Nat := ds.foldl (fun n d => 10 * n + (d.toNat - '0'.toNat)) 0

/-- `int(re.findall(r'\d+', label)[i])`; `none` = `IndexError` -/
def numAt (s : List Char) (i : Nat) : Option Nat := (numRuns s)[i]?.map natOf

/-! ### calls -/

inductive Call where
  | chir (node : Nat) (c : Char)        -- `to_chirality(p_edge[1])` on a residue without an anomer of its own
  | mark (node pos slot : Nat)          -- `Monomer.mark(pos, *get_dummy_atoms()[slot])`
  | smiles (node ring : Nat)            -- `Monomer.to_smiles(ring_index, root_id=…)`
  | root (child pos : Nat)              -- `Monomer.root_atom_id(pos)` on the child
deriving DecidableEq, Repr, Inhabited

/-- One traversal of the tree: `pre` on entering a node (with the label of the edge it hangs on and the inherited value),
    `edge` per child in `zip` order (slot = position in that order), `down` the inherited value handed to the children;
    `limit` = raise when a node has more children; `slots` = number of marker pairs `zip` can pair children with. -/
structure Trav (α : Type) where
  pre   : Nat → List Char → α → List Call
  edge  : Nat → Nat → List Char → Nat → α → Option (List Call)
  down  : Nat → α → α
  limit : Option Nat
  slots : Nat

/-- the `for child, atom in zip(children, dummy_atoms)` loop; `rec` is the recursive call -/
def kidsLoop {α : Type} (T : Trav α) (rec : Nat → List Char → α → Option (List Call)) (node : Nat) (a : α) :
    List Edge → Nat → Option (List Call)
  | [], _ => some []
  | (_, c, lab) :: rest, k =>
    (T.edge node c lab k a).bind fun e =>
    (rec c lab (T.down node a)).bind fun sub =>
    (kidsLoop T rec node a rest (k + 1)).bind fun more =>
    some (e ++ sub ++ more)

def overLimit (limit : Option Nat) (n : Nat) : Bool :=
  match limit with
  | some l => decide (l < n)
  | none => false

/-- `Merger.mark` / `Merger.merge_int` over the edge list `es`; `none` = an exception leaves the method. The fuel stands for
    Python's call stack (the tree's height + 1 suffices: `go_refines`). -/
def go {α : Type} (T : Trav α) (es : List Edge) : Nat → Nat → List Char → α → Option (List Call)
  | 0, _, _, _ => none
  | f + 1, node, pe, a =>
    let ch := es.filter (fun e => e.1 == node)
    if ch.isEmpty then some (T.pre node pe a)
    else if overLimit T.limit ch.length then none
    else (kidsLoop T (go T es f) node a (ch.take T.slots) 0).map (T.pre node pe a ++ ·)

/-- `Merger.mark`: a residue without an anomer of its own (`is_non_chiral`) takes the anomer letter of the label it hangs on;
    per child the carbon named second in the label is marked with the next marker pair; more than four children raise. -/
def markTrav (undef : Nat → Bool) (nslots : Nat) : Trav Unit where
  pre node pe _ := if undef node then [.chir node (pe.getD 1 ' ').toLower] else []
  edge node _ lab k _ := (numAt lab 1).map fun b => [.mark node b k]
  down _ _ := ()
  limit := some 4
  slots := nslots

/-- `Merger.merge_int`: the residue's own SMILES with the inherited ring offset; per child the carbon named first in the label
    is where the child's SMILES starts; the children's offset is the own one plus `max(1, number of rings)`. -/
def mergeTrav (rings : Nat → Nat) (nslots : Nat) : Trav Nat where
  pre node _ ri := [.smiles node ri]
  edge _ c lab _ _ := (numAt lab 0).map fun a => [.root c a]
  down node ri := ri + max 1 (rings node)
  limit := none
  slots := nslots

/-- the label `Merger.merge` hands to the root: `f"({root_orientation}1-?)"` -/
def rootLabel (ro : List Char) : List Char := '(' :: (ro ++ "1-?)".toList)

/-! ### Spec over the written forest -/

def _root_.Gly.GF.width : GF → Nat
  | .nil => 0
  | .cons _ _ _ r => 1 + r.width

/-- no residue below the top level has more than `m` children -/
def _root_.Gly.GF.widthOK (m : Nat) : GF → Bool
  | .nil => true
  | .cons _ _ k r => decide (k.width ≤ m) && k.widthOK m && r.widthOK m

/-- the edges the walker creates for a forest hung on node `p` when the next free id is `n` -/
def edgesGF (w : WalkCfg) : GF → Nat → Nat → List Edge
  | .nil, _, _ => []
  | .cons l nm kids rest, p, n =>
    (p, n, normLabel w nm l) :: (edgesGF w kids n (n + 1) ++ edgesGF w rest p (n + 1 + kids.size))

/-- … of which those that leave `p` itself -/
def rootEdges (w : WalkCfg) : GF → Nat → Nat → List Edge
  | .nil, _, _ => []
  | .cons l nm kids rest, p, n => (p, n, normLabel w nm l) :: rootEdges w rest p (n + 1 + kids.size)

/-- A written linkage with everything the plan says about it: parent id, child id, normalised label, the child's position
    among its siblings, the value inherited by the parent. Pre-order. -/
def linkages {α : Type} (down : Nat → α → α) (w : WalkCfg) : GF → Nat → Nat → Nat → α → List (Nat × Nat × List Char × Nat × α)
  | .nil, _, _, _, _ => []
  | .cons l nm kids rest, p, n, k, a =>
    (p, n, normLabel w nm l, k, a) ::
      (linkages down w kids n (n + 1) 0 (down p a) ++ linkages down w rest p (n + 1 + kids.size) (k + 1) a)

def traverse {β γ : Type} (f : β → Option γ) : List β → Option (List γ)
  | [] => some []
  | x :: xs => (f x).bind fun y => (traverse f xs).bind fun ys => some (y :: ys)

/-- what the plan does for one linkage: the action on the linkage, then the action on entering the child -/
def perLinkage {α : Type} (T : Trav α) : Nat × Nat × List Char × Nat × α → Option (List Call)
  | (p, c, lab, k, a) => (T.edge p c lab k a).map (· ++ T.pre c lab (T.down p a))

/-- **Spec**: linkage by linkage in written pre-order. -/
def specPlan {α : Type} (T : Trav α) (w : WalkCfg) (F : GF) (p n k : Nat) (a : α) : Option (List Call) :=
  (traverse (perLinkage T) (linkages T.down w F p n k a)).map List.flatten

/-- the whole glycan: the root residue (node 0, hanging on `pe`) and the forest written to its left -/
def specWhole {α : Type} (T : Trav α) (w : WalkCfg) (F : GF) (pe : List Char) (a : α) : Option (List Call) :=
  (specPlan T w F 0 1 0 a).map (T.pre 0 pe a ++ ·)

/-! ### `summary()["leaves"]` -/

/-- Model of `[n for n, d in parse_tree.out_degree() if d == 0]` restricted to the ids `ids` -/
def outLeaves (es : List Edge) (ids : List Nat) : List Nat :=
  ids.filter (fun x => (es.filter (fun e => e.1 == x)).isEmpty)

/-- Spec: ids (pre-order numbering from `n`) of the residues of a forest that carry no sub-forest -/
def leafIds : GF → Nat → List Nat
  | .nil, _ => []
  | .cons _ _ kids rest, n =>
    (match kids with | .nil => [n] | _ => []) ++ leafIds kids (n + 1) ++ leafIds rest (n + 1 + kids.size)

/-! ### `summary()["depth"]` -/

/-- `parse_tree` seen from a node: the edge that leads to it -/
def parentOf (es : List Edge) (x : Nat) : Option Nat := (es.find? (fun e => e.2.1 == x)).map (·.1)

/-- number of edges on the path from a root to `x` (`nx.shortest_path_length(tree, 0)[x]` for the nodes reachable from 0) -/
def levelOf (es : List Edge) : Nat → Nat → Nat
  | 0, _ => 0
  | f + 1, x => match parentOf es x with
    | none => 0
    | some p => 1 + levelOf es f p

def maxList : List Nat → Nat
  | [] => 0
  | x :: xs => max x (maxList xs)

/-- Model of `max(nx.shortest_path_length(parse_tree, 0).values())` on a tree of `n` nodes -/
def depthOf (es : List Edge) (n : Nat) : Nat := maxList ((List.range n).map (levelOf es n))

/-- Spec: pre-order ids with their nesting depth -/
def levelIds : GF → Nat → Nat → List (Nat × Nat)
  | .nil, _, _ => []
  | .cons _ _ kids rest, n, d => (n, d) :: (levelIds kids (n + 1) (d + 1) ++ levelIds rest (n + 1 + kids.size) d)

/-- Spec: residues on the longest root-to-leaf path of a forest -/
def heightGF : GF → Nat
  | .nil => 0
  | .cons _ _ kids rest => max (1 + heightGF kids) (heightGF rest)

end Gly.Plan
