import GlyModel.Front.Types
/-
  The generated parser's ATN, rule by rule, as an epsilon-NFA over (token types + rule references), and the executable
  equivalence check against the grammar's right-hand sides (partial derivatives on the regular-expression side, subset
  construction on the automaton side, a candidate bisimulation that is then *checked*).
-/
namespace Gly.Atn
open Gly

inductive Sym where
  | tok (t : Nat)
  | ref (r : Nat)
deriving DecidableEq, Repr, Inhabited

structure RuleNfa where
  start : Nat
  stop  : Nat
  eps   : List (Nat × Nat)
  edges : List (Nat × Sym × Nat)
deriving Repr, Inhabited

/-! ### regular-expression side -/

def nullable : Rx → Bool
  | .eps => true
  | .tok _ => false
  | .ref _ => false
  | .seq a b => nullable a && nullable b
  | .alt a b => nullable a || nullable b
  | .star _ => true

/-- Antimirov partial derivatives -/
def pd (s : Sym) : Rx → List Rx
  | .eps => []
  | .tok t => if s = .tok t then [.eps] else []
  | .ref r => if s = .ref r then [.eps] else []
  | .seq a b => (pd s a).map (fun p => Rx.seq p b) ++ (if nullable a then pd s b else [])
  | .alt a b => pd s a ++ pd s b
  | .star a => (pd s a).map (fun p => Rx.seq p (.star a))

def dedup {α} [DecidableEq α] : List α → List α
  | [] => []
  | x :: xs => if x ∈ xs then dedup xs else x :: dedup xs

def pdL (s : Sym) (ps : List Rx) : List Rx := dedup (ps.flatMap (pd s))

def symsOf : Rx → List Sym
  | .eps => []
  | .tok t => [.tok t]
  | .ref r => [.ref r]
  | .seq a b => symsOf a ++ symsOf b
  | .alt a b => symsOf a ++ symsOf b
  | .star a => symsOf a

/-! ### automaton side -/

def closeStep (n : RuleNfa) (S : List Nat) : List Nat :=
  dedup (S ++ n.eps.filterMap (fun e => if e.1 ∈ S then some e.2 else none))

def closure (n : RuleNfa) : Nat → List Nat → List Nat
  | 0, S => S
  | fuel + 1, S =>
    let S' := closeStep n S
    if S'.length == S.length then S' else closure n fuel S'       -- nothing new: a fixed point

def isClosed (n : RuleNfa) (T : List Nat) : Bool := n.eps.all (fun e => !(e.1 ∈ T) || e.2 ∈ T)

def targets (n : RuleNfa) (T : List Nat) (s : Sym) : List Nat :=
  n.edges.filterMap (fun e => if e.1 ∈ T && e.2.1 = s then some e.2.2 else none)

def stepSet (n : RuleNfa) (fuel : Nat) (T : List Nat) (s : Sym) : List Nat := closure n fuel (targets n T s)

/-! ### candidate bisimulation: search (untrusted) and check (verified in GlyProofs) -/

abbrev Pair := List Rx × List Nat

def sameSet {α} [DecidableEq α] (a b : List α) : Bool := a.all (· ∈ b) && b.all (· ∈ a)

def pairIn (p : Pair) (R : List Pair) : Bool := R.any (fun q => sameSet p.1 q.1 && sameSet p.2 q.2)

def search (n : RuleNfa) (alphabet : List Sym) (cf : Nat) : Nat → List Pair → List Pair → List Pair
  | 0, _, seen => seen
  | _, [], seen => seen
  | fuel + 1, p :: todo, seen =>
    if pairIn p seen then search n alphabet cf fuel todo seen
    else
      let next := alphabet.map (fun s => (pdL s p.1, stepSet n cf p.2 s))
      search n alphabet cf fuel (todo ++ next) (p :: seen)

/-- `R` is closed under every symbol of the alphabet, every automaton-side set is epsilon-closed, and acceptance agrees. -/
def isBisim (n : RuleNfa) (alphabet : List Sym) (cf : Nat) (R : List Pair) : Bool :=
  R.all (fun p =>
    isClosed n p.2 && (p.1.any nullable == decide (n.stop ∈ p.2)) &&
    alphabet.all (fun s => pairIn (pdL s p.1, stepSet n cf p.2 s) R))

def alphabetOf (n : RuleNfa) (r : Rx) : List Sym := dedup (symsOf r ++ n.edges.map (·.2.1))

/-- The rule's sub-automaton and the rule's right-hand side accept the same words over their joint alphabet. -/
def ruleOk (n : RuleNfa) (r : Rx) : Bool :=
  let al := alphabetOf n r
  let cf := n.eps.length + 1
  let init : Pair := ([r], closure n cf [n.start])
  let R := search n al cf 2000 [init] []
  isBisim n al cf R && pairIn init R

/-! ### token rules of the lexer: finite languages by enumeration along a checked rank, the others by the bisimulation check -/

/-- a token rule of the lexer ATN: token type, sub-automaton over character codes, and (for acyclic rules) a rank per state -/
structure LexNfa where
  ty   : Nat
  nfa  : RuleNfa
  rank : List (Nat × Nat)
deriving Repr, Inhabited

def rankOf (rk : List (Nat × Nat)) (q : Nat) : Nat := (rk.lookup q).getD 0

/-- every transition strictly decreases the rank: the automaton is acyclic and no path from `q` is longer than `rankOf q` -/
def rankOk (n : RuleNfa) (rk : List (Nat × Nat)) : Bool :=
  n.eps.all (fun e => rankOf rk e.2 < rankOf rk e.1) && n.edges.all (fun e => rankOf rk e.2.2 < rankOf rk e.1)

/-- all words accepted from `q` along at most `fuel` transitions -/
def wordsFrom (n : RuleNfa) : Nat → Nat → List (List Sym)
  | 0, _ => []
  | fuel + 1, q =>
    (if q == n.stop then [[]] else []) ++
    (n.eps.filter (fun e => e.1 == q)).flatMap (fun e => wordsFrom n fuel e.2) ++
    (n.edges.filter (fun e => e.1 == q)).flatMap (fun e => (wordsFrom n fuel e.2.2).map (e.2.1 :: ·))

/-- the literal alternatives of a token-table rule as words over character codes (`none`: the rule has ranges or a star) -/
def literalsOf (r : LexRule) : Option (List (List Sym)) :=
  if r.alts.all (fun a => a.all (fun it => it.lo == it.hi && !it.star)) then
    some (r.alts.map (fun a => a.map (fun it => Sym.tok it.lo.toNat)))
  else none

/-- a token-table rule with ranges / a star as a regular expression over character codes -/
def rxOfItem (it : CItem) : Rx :=
  let cs := (List.range (it.hi.toNat + 1 - it.lo.toNat)).map (fun k => Rx.tok (it.lo.toNat + k))
  let one := match cs with | [] => Rx.tok it.lo.toNat | c :: rest => rest.foldl Rx.alt c
  if it.star then .star one else one

def rxOfRule (r : LexRule) : Rx :=
  match r.alts.map (fun a => (a.map rxOfItem).foldr Rx.seq .eps) with
  | [] => .eps
  | x :: rest => rest.foldl Rx.alt x

/-- every enumerated word is one of the remaining literals (which is then used up) and no literal is left over: one pass over the
    enumeration (the kernel evaluates it once) -/
def usesUp : List (List Sym) → List (List Sym) → Bool
  | [], rem => rem.isEmpty
  | w :: ws, rem => if w ∈ rem then usesUp ws (rem.erase w) else false

/-- the token rule of the lexer ATN and the rule of the token table accept the same character strings -/
def lexRuleOk (l : LexNfa) (r : LexRule) : Bool :=
  l.ty == r.ty &&
  (match literalsOf r with
   | some lits => rankOk l.nfa l.rank && usesUp (wordsFrom l.nfa (rankOf l.rank l.nfa.start + 1) l.nfa.start) lits
   | none => ruleOk l.nfa (rxOfRule r))

end Gly.Atn
