/-
  Front-end types shared by the generated grammar tables, the lexer, the parser and the walker.
  Mathlib-free on purpose (the line-protocol driver is a compiled executable).
-/
namespace Gly

abbrev TokType := Nat

/-- A token: ANTLR token type number and the matched text. -/
structure Token where
  ty   : TokType
  text : List Char
deriving DecidableEq, Repr, Inhabited

/-- One item of a lexer-rule alternative: a character range, optionally starred
    (the translator only accepts a star on the last item of an alternative). -/
structure CItem where
  lo   : Char
  hi   : Char
  star : Bool
deriving DecidableEq, Repr

abbrev LexAlt := List CItem

structure LexRule where
  ty   : TokType
  name : String
  alts : List LexAlt
deriving Repr

/-- EBNF right-hand sides of parser rules, binary so that structural recursion and induction
    are the ordinary ones. `plus a = seq a (star a)`, `opt a = alt a eps`. -/
inductive Rx where
  | eps
  | tok  (t : TokType)
  | ref  (r : Nat)
  | seq  (a b : Rx)
  | alt  (a b : Rx)
  | star (a : Rx)
deriving DecidableEq, Repr, Inhabited

def Rx.plus (a : Rx) : Rx := .seq a (.star a)
def Rx.opt  (a : Rx) : Rx := .alt a .eps

def Rx.seqs : List Rx → Rx
  | []      => .eps
  | [a]     => a
  | a :: as => .seq a (Rx.seqs as)

def Rx.alts : List Rx → Rx
  | []      => .eps
  | [a]     => a
  | a :: as => .alt a (Rx.alts as)

structure Grammar where
  rules     : List Rx
  ruleNames : List String
deriving Repr

def Grammar.rule (g : Grammar) (r : Nat) : Rx := g.rules.getD r (.tok 0)

def Grammar.ruleIdx (g : Grammar) (n : String) : Nat := g.ruleNames.idxOf n

/-- Generic parse tree, as ANTLR builds it: a rule context with its children in order, or a terminal. -/
inductive PT where
  | leaf (t : Token)
  | node (rule : Nat) (kids : List PT)
deriving Repr, Inhabited

end Gly
