import GlyModel.Front.Walker
/-
  Model of the last line of `TreeWalker.parse`: `self.full and len(list(nx.connected_components(self.g.to_undirected()))) == 1`.
  Connected components by label merging (union-find without ranks): every node starts as its own class; an edge relabels the whole
  class of its child with the label of its parent's class; the number of classes is the number of nodes that still carry their
  own label.
-/
namespace Gly

def mergeLabel (lab : List Nat) (a b : Nat) : List Nat :=
  let la := lab.getD a a
  let lb := lab.getD b b
  lab.map (fun l => if l == lb then la else l)

def labelsOfEdges (n : Nat) (es : List (Nat × Nat × List Char)) : List Nat :=
  es.foldl (fun lab e => mergeLabel lab e.1 e.2.1) (List.range n)

def ownLabel (lab : List Nat) (n : Nat) : Nat := ((List.range n).filter (fun i => lab.getD i i == i)).length

def components (st : WState) : Nat := ownLabel (labelsOfEdges st.nodes.length st.edges) st.nodes.length

/-- what `parse` returns as its second component -/
def parseFull (st : WState) : Bool := st.full && components st == 1

end Gly
