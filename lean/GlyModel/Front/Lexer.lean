import GlyModel.Front.Types
/-
  Maximal-munch lexer over the regenerated token table: at every position the longest match of any
  rule wins, the earliest rule on ties (ANTLR's rule). No match at some position = lexer error.
-/
namespace Gly

def CItem.matches (it : CItem) (c : Char) : Bool := it.lo.toNat ≤ c.toNat && c.toNat ≤ it.hi.toNat

/-- Length matched by one alternative at the head of the input (greedy star on the last item). -/
def matchAlt : LexAlt → List Char → Option Nat
  | [], _ => some 0
  | it :: rest, inp =>
    if it.star then
      match rest with
      | [] => some (inp.takeWhile it.matches).length
      | _ :: _ => none
    else
      match inp with
      | [] => none
      | c :: cs => if it.matches c then (matchAlt rest cs).map (· + 1) else none

/-- Longest match of a rule (0 = no match; empty matches do not count). -/
def ruleLen (r : LexRule) (inp : List Char) : Nat :=
  r.alts.foldl (fun m a => max m ((matchAlt a inp).getD 0)) 0

/-- Best rule: strictly longer wins, so the earliest rule is kept on ties. -/
def bestRule : List LexRule → List Char → Option (TokType × Nat) → Option (TokType × Nat)
  | [], _, acc => acc
  | r :: rs, inp, acc =>
    let n := ruleLen r inp
    let acc' := match acc with
      | none => if n > 0 then some (r.ty, n) else none
      | some (t, m) => if n > m then some (r.ty, n) else some (t, m)
    bestRule rs inp acc'

/-- Tokenise; `none` = lexer error (ANTLR's token recognition error, which the error listener turns
    into `ParseError`). The fuel is the input length: every token consumes at least one character. -/
def lexGo (rules : List LexRule) : Nat → List Char → Option (List Token)
  | _, [] => some []
  | 0, _ :: _ => none
  | fuel + 1, inp =>
    match bestRule rules inp none with
    | none => none
    | some (ty, n) =>
      match lexGo rules fuel (inp.drop n) with
      | none => none
      | some ts => some (⟨ty, inp.take n⟩ :: ts)

def lex (rules : List LexRule) (inp : List Char) : Option (List Token) :=
  lexGo rules inp.length inp

end Gly
