import Std.Data.HashMap
import GlyModel.Front.Parser
/-
  Memoised variant of `parseRx` used by the driver on large inputs: results of rule invocations are
  cached per (rule, remaining length). It computes the same function as `parseRx` whenever the fuel
  is ample (the cache is only consulted for complete sub-results); the driver cross-checks the two
  on every input that is small enough to run both (self-check stream, reported in the evidence).
-/
namespace Gly

abbrev PCache := Std.HashMap (Nat × Nat) PRes

def parseRxM (g : Grammar) : Nat → Rx → List Token → StateM PCache PRes
  | 0, _, _ => pure []
  | fuel + 1, e, inp =>
    match e with
    | .eps => pure [([], inp)]
    | .tok t =>
      match inp with
      | [] => pure []
      | x :: xs => pure (if x.ty = t then [([.leaf x], xs)] else [])
    | .ref r => do
      let c ← get
      match c.get? (r, inp.length) with
      | some res => pure res
      | none =>
        let sub ← parseRxM g fuel (g.rule r) inp
        let res := sub.map (fun (k, rest) => ([PT.node r k], rest))
        modify (·.insert (r, inp.length) res)
        pure res
    | .seq a b => do
      let ra ← parseRxM g fuel a inp
      let mut out : PRes := []
      for (k1, r1) in ra do
        let rb ← parseRxM g fuel b r1
        out := out ++ rb.map (fun (k2, r2) => (k1 ++ k2, r2))
      pure (dedup out)
    | .alt a b => do
      let ra ← parseRxM g fuel a inp
      let rb ← parseRxM g fuel b inp
      pure (dedup (ra ++ rb))
    | .star a => do
      let ra ← parseRxM g fuel a inp
      let mut out : PRes := []
      for (k1, r1) in ra.filter (fun (_, r1) => r1.length < inp.length) do
        let rb ← parseRxM g fuel (.star a) r1
        out := out ++ rb.map (fun (k2, r2) => (k1 ++ k2, r2))
      pure (dedup (out ++ [([], inp)]))

def firstParseM (g : Grammar) (ts : List Token) : Option (PT × List Token) :=
  match (parseRxM g (parseFuel ts.length) (.ref 0) ts).run' {} with
  | ([t], rest) :: _ => some (t, rest)
  | _ => none

end Gly
