import GlyModel.Front.Types
/-
  Generic priority-ordered parser for the regenerated grammar.
  Results are listed in ANTLR's preference order (alternatives in order, loops and optionals greedy
  first); every combinator keeps only the first result per remaining-input length, which keeps the
  parser polynomial and does not change the first complete parse (what follows depends only on the
  end position).
-/
namespace Gly

abbrev PRes := List (List PT × List Token)

/-- Keep the first result for every distinct remainder length. -/
def dedupGo : PRes → List Nat → PRes
  | [], _ => []
  | (k, r) :: xs, seen =>
    if seen.contains r.length then dedupGo xs seen
    else (k, r) :: dedupGo xs (r.length :: seen)

def dedup (xs : PRes) : PRes := dedupGo xs []

/-- `parseRx g fuel e inp`: all ways (deduplicated, in priority order) to match `e` at the head of `inp`. -/
def parseRx (g : Grammar) : Nat → Rx → List Token → PRes
  | 0, _, _ => []
  | fuel + 1, e, inp =>
    match e with
    | .eps => [([], inp)]
    | .tok t =>
      match inp with
      | [] => []
      | x :: xs => if x.ty = t then [([.leaf x], xs)] else []
    | .ref r =>
      (parseRx g fuel (g.rule r) inp).map (fun (k, rest) => ([PT.node r k], rest))
    | .seq a b =>
      dedup ((parseRx g fuel a inp).flatMap (fun (k1, r1) =>
        (parseRx g fuel b r1).map (fun (k2, r2) => (k1 ++ k2, r2))))
    | .alt a b =>
      dedup (parseRx g fuel a inp ++ parseRx g fuel b inp)
    | .star a =>
      dedup (((parseRx g fuel a inp).filter (fun (_, r1) => r1.length < inp.length)).flatMap
              (fun (k1, r1) => (parseRx g fuel (.star a) r1).map (fun (k2, r2) => (k1 ++ k2, r2)))
             ++ [([], inp)])

/-- Fuel that is ample for this grammar: every level of recursion either descends into a strictly
    smaller expression of the same rule or consumes a token. -/
def parseFuel (n : Nat) : Nat := 40 * (n + 2)

/-- First parse of the start rule (rule 0). -/
def firstParse (g : Grammar) (ts : List Token) : Option (PT × List Token) :=
  match parseRx g (parseFuel ts.length) (.ref 0) ts with
  | ([t], rest) :: _ => some (t, rest)
  | _ => none

/-- The set of remainders reachable (recogniser view). -/
def recogRests (g : Grammar) (fuel : Nat) (e : Rx) (ts : List Token) : List (List Token) :=
  (parseRx g fuel e ts).map (·.2)

end Gly
