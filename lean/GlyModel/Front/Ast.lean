import GlyModel.Front.Types
/-
  Typed syntax of the glycan grammar's tree-shaping rules (start / begin / branch), obtained from the
  generic parse tree by shape. This is the input of the walker model; residues (`deriv`) and linkages
  (`con`) are kept as the token lists the walker reads them as.
-/
namespace Gly

/-- A residue as `TreeWalker.build_recipe` sees it: (text, type) pairs. -/
abbrev Recipe := List (List Char × Nat)

/-- A linkage as written: the concatenated terminal texts of the `con` context. -/
abbrev ConStr := List Char

inductive Branch where
  | leaf  (d : Recipe) (c : ConStr)                                  -- deriv con
  | chain (d : Recipe) (c : ConStr) (rest : Branch)                  -- deriv con branch
  | brack (b : Branch)                                               -- '[' branch ']'
  | b1    (d : Recipe) (c : ConStr) (s1 rest : Branch)               -- deriv con [b] branch
  | b2    (d : Recipe) (c : ConStr) (s1 s2 rest : Branch)
  | b3    (d : Recipe) (c : ConStr) (s1 s2 s3 rest : Branch)
deriving Repr, Inhabited

structure Begin where
  branch : Option Branch
  d      : Recipe
  config : Option (List Char)
deriving Repr, Inhabited

structure Start where
  floats : List Branch
  begin  : Begin
deriving Repr, Inhabited

/-- Numbers the walker relies on (checked against the regenerated grammar by the translator). -/
structure FrontCfg where
  rStart : Nat
  rBegin : Nat
  rBranch : Nat
  rDeriv : Nat
  rSaci : Nat
  rCon : Nat
  rModi : Nat
  tSAC : Nat
  tTYPE : Nat
  tRING : Nat
  tMOD : Nat
deriving Repr

mutual
/-- Concatenated terminal texts of a subtree (`TreeWalker.context2str`). -/
def PT.text : PT → List Char
  | .leaf t => t.text
  | .node _ ks => PT.textList ks
def PT.textList : List PT → List Char
  | [] => []
  | k :: ks => PT.text k ++ PT.textList ks
end

mutual
/-- `TreeWalker.build_recipe`. `inSaci` tells whether the node being read is a `saci` context. -/
def buildRecipe (cfg : FrontCfg) (inSaci : Bool) : PT → Recipe
  | .leaf t => [(t.text, if inSaci then cfg.tSAC else t.ty)]
  | .node r ks =>
    -- this case is only used for the top call; children are handled by `buildRecipeKids`
    buildRecipeKids cfg (r == cfg.rSaci) ks
def buildRecipeKids (cfg : FrontCfg) (inSaci : Bool) : List PT → Recipe
  | [] => []
  | .leaf t :: ks => (t.text, if inSaci then cfg.tSAC else t.ty) :: buildRecipeKids cfg inSaci ks
  | .node r sub :: ks =>
    let tmp := buildRecipeKids cfg (r == cfg.rSaci) sub
    let here : Recipe :=
      if r == cfg.rModi then [((tmp.map (·.1)).flatten, cfg.tMOD)]
      else if r == cfg.rSaci then tmp.map (fun x => (x.1, cfg.tSAC))
      else tmp
    here ++ buildRecipeKids cfg inSaci ks
end

def isNode (r : Nat) : PT → Bool
  | .node r' _ => r == r'
  | _ => false

mutual
def toBranch (cfg : FrontCfg) : PT → Option Branch
  | .leaf _ => none
  | .node r ks => if r == cfg.rBranch then toBranchKids cfg ks else none
def toBranchKids (cfg : FrontCfg) : List PT → Option Branch
  | [d, c] =>
    if isNode cfg.rDeriv d && isNode cfg.rCon c then some (.leaf (buildRecipe cfg false d) (PT.text c)) else none
  | [x, y, z] =>
    if isNode cfg.rBranch z && isNode cfg.rDeriv x then
      (toBranch cfg z).map (fun rest => .chain (buildRecipe cfg false x) (PT.text y) rest)
    else if isNode cfg.rBranch y then
      (toBranch cfg y).map .brack
    else none
  | [d, c, _, s1, _, rest] =>
    match toBranch cfg s1, toBranch cfg rest with
    | some a, some r => some (.b1 (buildRecipe cfg false d) (PT.text c) a r)
    | _, _ => none
  | [d, c, _, s1, _, _, s2, _, rest] =>
    match toBranch cfg s1, toBranch cfg s2, toBranch cfg rest with
    | some a, some b, some r => some (.b2 (buildRecipe cfg false d) (PT.text c) a b r)
    | _, _, _ => none
  | [d, c, _, s1, _, _, s2, _, _, s3, _, rest] =>
    match toBranch cfg s1, toBranch cfg s2, toBranch cfg s3, toBranch cfg rest with
    | some a, some b, some e, some r => some (.b3 (buildRecipe cfg false d) (PT.text c) a b e r)
    | _, _, _, _ => none
  | _ => none
end

def toBegin (cfg : FrontCfg) : PT → Option Begin
  | .node r ks =>
    if r != cfg.rBegin then none else
    match ks with
    | [d] => some ⟨none, buildRecipe cfg false d, none⟩
    | [b, d] => (toBranch cfg b).map (fun br => ⟨some br, buildRecipe cfg false d, none⟩)
    | [d, _, .leaf t] => some ⟨none, buildRecipe cfg false d, some t.text⟩
    | [b, d, _, .leaf t] => (toBranch cfg b).map (fun br => ⟨some br, buildRecipe cfg false d, some t.text⟩)
    | _ => none
  | _ => none

/-- `TreeWalker.parse`: non-terminal children of the start context, in order: floating branches, then begin. -/
def toStart (cfg : FrontCfg) : PT → Option Start
  | .node r ks =>
    if r != cfg.rStart then none else
    let nts := ks.filter (fun k => match k with | .node _ _ => true | _ => false)
    let brs := nts.filter (isNode cfg.rBranch)
    let bgs := nts.filter (isNode cfg.rBegin)
    match bgs with
    | [bg] =>
      match toBegin cfg bg, brs.mapM (toBranch cfg) with
      | some b, some fl => some ⟨fl, b⟩
      | _, _ => none
    | _ => none
  | _ => none

end Gly
