import GlyModel.Front.Walker
/-
  Spec: what a written glycan *means*, compositionally.
  A forest of residues in first-child / next-sibling form (a plain inductive type):
  `cons label residue kids rest` is a tree whose root `residue` hangs on the enclosing parent through
  `label`, followed by its sibling trees `rest`.
-/
namespace Gly

inductive GF where
  | nil
  | cons (label : ConStr) (name : Recipe) (kids : GF) (rest : GF)
deriving Repr, Inhabited

def GF.append : GF → GF → GF
  | .nil, g => g
  | .cons l n k r, g => .cons l n k (GF.append r g)

def GF.size : GF → Nat
  | .nil => 0
  | .cons _ _ k r => 1 + k.size + r.size

/-- Compositional reading of a `branch`: given what hangs (further to the left) on this branch's
    attachment point, the forest that hangs on the enclosing parent. -/
def den : Branch → GF → GF
  | .leaf d c, L => .cons c d L .nil
  | .chain d c rest, L => den rest (.cons c d L .nil)
  | .brack b, L => (den b .nil).append L
  | .b1 d c s1 rest, L => den rest ((den s1 .nil).append (.cons c d L .nil))
  | .b2 d c s1 s2 rest, L =>
    den rest ((den s1 .nil).append ((den s2 .nil).append (.cons c d L .nil)))
  | .b3 d c s1 s2 s3 rest, L =>
    den rest ((den s1 .nil).append ((den s2 .nil).append ((den s3 .nil).append (.cons c d L .nil))))

/-- Pre-order numbering of a forest hung on node `parent`: a residue gets the next free id, then its
    own sub-forest is numbered, then its siblings. -/
def flattenOnto (w : WalkCfg) : GF → Nat → WState → WState
  | .nil, _, st => st
  | .cons l n kids rest, parent, st =>
    let (id, st1) := addNodeEdge w parent n l st
    let st2 := flattenOnto w kids id st1
    flattenOnto w rest parent st2

/-- The denotation of a whole glycan: root residue with the forest hanging on it (floating fragments
    are numbered first, each onto the id that is assigned next – the walker's convention). -/
def denStart (w : WalkCfg) (s : Start) : WState :=
  let st := s.floats.foldl (fun st b => flattenOnto w (den b .nil) st.nodes.length st) WState.init
  let (id, st1) := addNode w s.begin.d (s.begin.config.getD []) st
  match s.begin.branch with
  | none => st1
  | some br => flattenOnto w (den br .nil) id st1

end Gly
