import GlyModel.Front.Ast
/-
  Model of `TreeWalker` (walker.py): node ids are threaded imperatively exactly as the Python does.
  `nodeFull` stands for the `full` flag `MonomerFactory.create` returns for a residue; `ketose2`
  stands for the membership test in `__add_edge` (the pinned code evaluates
  `(bound method, name) in ketoses2`, which is constantly `False`: see `Model.ketose2`).
-/
namespace Gly

structure WState where
  nodes : List Recipe                      -- node id = position
  edges : List (Nat × Nat × List Char)     -- (parent, child, label) in insertion order
  full  : Bool
deriving Repr, Inhabited

def WState.init : WState := ⟨[], [], true⟩

structure WalkCfg where
  tTYPE    : Nat
  nodeFull : Recipe → Bool
  ketose2  : Recipe → Bool

/-- `__add_node`: returns the new id. -/
def addNode (w : WalkCfg) (d : Recipe) (config : List Char) (st : WState) : Nat × WState :=
  let r := if config.isEmpty then d else d ++ [(config, w.tTYPE)]
  (st.nodes.length, { st with nodes := st.nodes ++ [r], full := st.full && w.nodeFull r })

/-- The label normalisation of `__add_edge`. -/
def normLabel (w : WalkCfg) (child : Recipe) (con : List Char) : List Char :=
  if !con.contains '(' && !con.contains ')' then
    let con1 :=
      if !con.contains '-' then
        let bond := if w.ketose2 child then ['2', '-'] else ['1', '-']
        con.take 1 ++ bond ++ con.drop 1
      else con
    '(' :: con1 ++ [')']
  else con

/-- `__add_edge`. -/
def addEdge (w : WalkCfg) (parent child : Nat) (con : List Char) (st : WState) : WState :=
  if parent == child then st
  else
    let lab := normLabel w (st.nodes.getD child []) con
    { st with edges := st.edges ++ [(parent, child, lab)], full := st.full && !lab.contains '?' }

def addNodeEdge (w : WalkCfg) (parent : Nat) (d : Recipe) (c : ConStr) (st : WState) : Nat × WState :=
  let (id, st1) := addNode w d [] st
  (id, addEdge w parent id c st1)

/-- `__walk`: returns the id the material to the left attaches to. -/
def walk (w : WalkCfg) : Branch → Nat → WState → Nat × WState
  | .leaf d c, parent, st => addNodeEdge w parent d c st
  | .chain d c rest, parent, st =>
    let (p, st1) := walk w rest parent st
    addNodeEdge w p d c st1
  | .brack b, parent, st =>
    let (_, st1) := walk w b parent st
    (parent, st1)
  | .b1 d c s1 rest, parent, st =>
    let (n, st1) := walk w rest parent st
    let (_, st2) := walk w s1 n st1
    addNodeEdge w n d c st2
  | .b2 d c s1 s2 rest, parent, st =>
    let (n, st1) := walk w rest parent st
    let (_, st2) := walk w s1 n st1
    let (_, st3) := walk w s2 n st2
    addNodeEdge w n d c st3
  | .b3 d c s1 s2 s3 rest, parent, st =>
    let (n, st1) := walk w rest parent st
    let (_, st2) := walk w s1 n st1
    let (_, st3) := walk w s2 n st2
    let (_, st4) := walk w s3 n st3
    addNodeEdge w n d c st4

/-- `__parse` on the begin context. -/
def walkBegin (w : WalkCfg) (b : Begin) (st : WState) : WState :=
  let (id, st1) := addNode w b.d (b.config.getD []) st
  match b.branch with
  | none => st1
  | some br => (walk w br id st1).2

/-- `parse`: floating fragments first (each walked with the id that will be assigned next), then begin. -/
def walkStart (w : WalkCfg) (s : Start) : WState :=
  let st := s.floats.foldl (fun st b => (walk w b st.nodes.length st).2) WState.init
  walkBegin w s.begin st

end Gly
