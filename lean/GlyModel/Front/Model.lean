import GlyModel.Generated.Grammar
import GlyModel.Generated.Tables
import GlyModel.Front.Lexer
import GlyModel.Front.ParserMemo
import GlyModel.Front.Walker
import GlyModel.Front.Spec
/-
  The front-end Model instantiated with the regenerated tables:
  `#` ++ input ++ `#` → tokens → first parse → typed syntax → walker.
-/
namespace Gly.Model
open Gly

/-- `(self.g.nodes[child]["type"].get_lactole, name) in ketoses2` in `__add_edge` pairs a *bound method*
    with the name (and in the wrong order), so it is never a member: the default child position is
    constantly 1 in the pinned code. -/
def ketose2 : Recipe → Bool := fun _ => false

/-- tree_only walker configuration: `create(..., tree_only=True)` always reports `full = False`. -/
def walkCfgTreeOnly : WalkCfg := ⟨Gen.frontCfg.tTYPE, fun _ => false, ketose2⟩

def sentinel (s : List Char) : List Char := '#' :: s ++ ['#']

inductive FrontResult where
  | lexError
  | parseError            -- no parse of the start rule, or (after the EOF repair) input left over
  | shapeError            -- parse tree does not have the shape the walker dispatches on
  | ok (st : WState)
deriving Repr

/-- Accept iff the first parse of `start` consumes the whole sentinel-wrapped token stream. -/
def parseTokens (memo : Bool) (ts : List Token) : Option PT :=
  match (if memo then firstParseM Gen.grammar ts else firstParse Gen.grammar ts) with
  | some (t, []) => some t
  | _ => none

def front (w : WalkCfg) (memo : Bool) (s : List Char) : FrontResult :=
  match lex Gen.lexRules (sentinel s) with
  | none => .lexError
  | some ts =>
    match parseTokens memo ts with
    | none => .parseError
    | some pt =>
      match toStart Gen.frontCfg pt with
      | none => .shapeError
      | some st => .ok (walkStart w st)

def accepts (s : List Char) : Bool :=
  match lex Gen.lexRules (sentinel s) with
  | none => false
  | some ts => (parseTokens false ts).isSome

/-- Recogniser view with explicit fuel: *some* parse of the start rule consumes the whole token stream. -/
def acceptsAny (fuel : Nat) (s : List Char) : Bool :=
  match lex Gen.lexRules (sentinel s) with
  | none => false
  | some ts => (parseRx Gen.grammar fuel (.ref 0) ts).any (fun (_, r) => r.isEmpty)

end Gly.Model
