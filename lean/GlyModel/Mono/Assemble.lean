import GlyModel.Smiles.Tokenize
/-
  Model of the string half of `SMILESReaktor.assemble_chains` (reactor.py): explicit-hydrogen carbons next to placeholder
  atoms normalised, the ring digit `2` of every chain bumped by the number of extra rings, every placeholder replaced by
  its chain by regex substitution, empty branches removed – and the certificate that ties it to the graft theorem:
  the residue with placeholders is a one-level tree whose children are the functional-group fragments.
-/
namespace Gly.React
open Gly Gly.Smi Gly.Asm

/-- `re.sub(r"\[CH\d?\]", "C", s)` -/
def normCH : List Char → List Char
  | '[' :: 'C' :: 'H' :: ']' :: rest => 'C' :: normCH rest
  | '[' :: 'C' :: 'H' :: d :: ']' :: rest => if isDigit d then 'C' :: normCH rest else '[' :: normCH ('C' :: 'H' :: d :: ']' :: rest)
  | c :: rest => c :: normCH rest
  | [] => []
termination_by s => s.length
decreasing_by all_goals simp_wf <;> omega

/-- `re.sub('(2)', lambda x: str(int(x.group(1)) + ring_offset), chain)`: every character `2` becomes the decimal text of `2 + offset` -/
def bump2 (offset : Nat) (chain : List Char) : List Char :=
  chain.flatMap (fun c => if c == '2' then (toString (2 + offset)).toList else [c])

/-- `s.replace("()", "")` -/
def dropEmptyBranches : List Char → List Char
  | '(' :: ')' :: rest => dropEmptyBranches rest
  | c :: rest => c :: dropEmptyBranches rest
  | [] => []

/-- the placeholder element of position `i` in the series that occurs in `s` (O-series first: `on_carbon` holds exactly when
    the chain was attached with the C-series element) -/
def symFor (s : List Char) (i : Nat) : List Char :=
  let o := (Gen.placeholderO.getD i (0, [])).2
  let c := (Gen.placeholderC.getD i (0, [])).2
  if !o.isEmpty && isInfix ('[' :: o) s then o else c

/-- One position: O-slot chain, then C-slot chain. `"H"` stands for "nothing" (deoxy). -/
def substPos (offset : Nat) (s : List Char) (i : Nat) (chain cChain : List Char) : List Char :=
  let s1 := if chain.isEmpty then s else
    subMarker (symFor s i) (if chain == ['H'] then [] else bump2 offset chain) (s.length + 1) s
  if cChain.isEmpty then s1 else
    subMarker ((Gen.placeholderC.getD i (0, [])).2) (bump2 offset cChain) (s1.length + 1) s1

def substAllPos (offset : Nat) : List Char → Nat → List (List Char × List Char) → List Char
  | s, _, [] => s
  | s, i, (chain, cChain) :: rest => substAllPos offset (substPos offset s i chain cChain) (i + 1) rest

/-- the new `monomer.smiles` from the SMILES with placeholders, `side_chains` and `len(ring_info) - 1` -/
def assembleText (marked : List Char) (chains : List (List Char × List Char)) (offset : Nat) : List Char :=
  dropEmptyBranches (substAllPos offset (normCH marked) 0 chains)

/-! ### certificate -/

/-- placeholder atoms of both series -/
def isMkPlaceholder (a : Atom) : Bool :=
  (Gen.placeholderO ++ Gen.placeholderC).any (fun m => !m.2.isEmpty && isMarkerAtom m.2 a)

/-- (marker symbol, chain text) for every non-empty chain, in the order of substitution -/
def chainItems (offset : Nat) (s : List Char) : Nat → List (List Char × List Char) → List (List Char × List Char)
  | _, [] => []
  | i, (chain, cChain) :: rest =>
    (if chain.isEmpty then [] else [(symFor s i, bump2 offset chain)]) ++
    (if cChain.isEmpty then [] else [((Gen.placeholderC.getD i (0, [])).2, bump2 offset cChain)]) ++
    chainItems offset s (i + 1) rest

def itemKids (toks : List Tok) : List (List Char × List Char) → Option (List (Atom × Bool × TNode))
  | [] => some []
  | (sym, chain) :: rest =>
    match findMarker sym toks, tokenize chain, itemKids toks rest with
    | some a, some ct, some ks => some ((a, false, TNode.mk ct []) :: ks)
    | _, _, _ => none

/-- the residue with placeholders as a one-level tree: children = the functional-group fragments -/
def assembleTree (marked : List Char) (chains : List (List Char × List Char)) (offset : Nat) : Option TNode :=
  let s := normCH marked
  match tokenize s with
  | none => none
  | some toks => (itemKids toks (chainItems offset s 0 chains)).map (TNode.mk toks)

/-- The placeholder string and the fragments form a well-formed tree (every placeholder once, on a leaf atom; every fragment
    a closed SMILES starting with an atom whose ring labels are not open at its placeholder) and the string the **code**
    stored as the new residue SMILES denotes the same molecule as the token-level assembly. Chains `"H"` (deoxy: the
    placeholder is deleted, not replaced) are outside this certificate. -/
def certifyAssemble (marked : List Char) (chains : List (List Char × List Char)) (offset : Nat) (final : List Char) : Bool :=
  !(chains.any (fun c => c.1 == ['H'])) &&
  match assembleTree marked chains offset, tokenize final with
  | some t, some tf => wfTree isMkPlaceholder t && (sem tf).isSome && sem tf == sem (mergeTok t)
  | _, _ => false

end Gly.React
