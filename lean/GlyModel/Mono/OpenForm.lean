import GlyModel.Mono.Factory
/-
  Model of reactor_basic.py: `get_indices`, the text rewrites of `check_for_open_form` (`-ol`, `-onic`, `-aric`,
  `-ulosonic`, `-ulosaric`, elongation) and the extension string of `check_for_resizing`.
  What comes from RDKit (the longest carbon chain of the ring form, the carbon count) is an input.
-/
namespace Gly.Basic
open Gly Gly.Model

def sizeNames : List (List Char) := ["Pen".toList, "Hex".toList, "Hep".toList, "Oct".toList]

/-- `get_indices`: index of the first SAC token and, if the next token is a SAC token too, its index when it is a
    chain-length name. `none` = the Python falls off the end of the function and the caller's tuple unpacking raises. -/
def getIndices (names : List (List Char)) (types : List Nat) : Option (Nat × Option Nat) :=
  match types.findIdx? (· == Gen.frontCfg.tSAC) with
  | none => none
  | some i =>
    if types.length == i + 1 || (types.length > i + 1 && types.getD (i + 1) 0 != Gen.frontCfg.tSAC) then some (i, none)
    else if sizeNames.contains (names.getD (i + 1) []) then some (i, some (i + 1))
    else none

def sizeOfName (n : List Char) (dflt : Nat) : Nat :=
  if n == "Pen".toList then 5 else if n == "Hex".toList then 6 else if n == "Hep".toList then 7 else if n == "Oct".toList then 8 else dflt

/-- `str.replace("C", by, 1)` -/
def replaceFirstC (s : List Char) (by_ : List Char) : List Char :=
  match s with
  | [] => []
  | 'C' :: rest => by_ ++ rest
  | c :: rest => c :: replaceFirstC rest by_

def onic (s : List Char) : List Char := replaceFirstC s "C(=O)".toList
def aricEnd (s : List Char) : List Char := s.dropLast ++ "(=O)O".toList

/-- one match attempt of `OC\[*C@*[H\]]*\(O\)` at the head of `s`: the rest after the match -/
def matchUlo (s : List Char) : Option (List Char) :=
  match s with
  | 'O' :: 'C' :: r1 =>
    let r2 := r1.dropWhile (· == '[')
    match r2 with
    | 'C' :: r3 =>
      let r4 := r3.dropWhile (· == '@')
      let r5 := r4.dropWhile (fun c => c == 'H' || c == ']')
      match r5 with
      | '(' :: 'O' :: ')' :: rest => some rest
      | _ => none
    | _ => none
  | _ => none

/-- `re.sub(r"OC\[*C@*[H\]]*\(O\)", "OC(=O)C(=O)", s, count=1)` -/
def uloSub : List Char → List Char
  | [] => []
  | c :: rest =>
    match matchUlo (c :: rest) with
    | some after => "OC(=O)C(=O)".toList ++ after
    | none => c :: uloSub rest

def findC (s : List Char) : Nat := match s.findIdx? (· == 'C') with | some i => i + 1 | none => 0

def rep (n : Nat) (s : List Char) : List Char := (List.replicate n s).flatten

/-- `check_for_open_form`: the new SMILES text. `chain` = length of the longest carbon chain of the ring form (RDKit). -/
def openFormText (names : List (List Char)) (types : List Nat) (chain : Nat) : Option (List Char) :=
  match getIndices names types with
  | none => none
  | some (si, li) =>
    let sac := names.getD si []
    match findRow Gen.openTable (sac ++ "-ol".toList) with
    | none => none                                   -- KeyError
    | some row =>
      let s0 := row.smiles
      let s1 := match li with
        | some l =>
          let last := findC s0
          let maximum := sizeOfName (names.getD l []) chain
          s0.take last ++ rep (maximum - chain) "C(O)".toList ++ s0.drop last
        | none => s0
      let has (n : String) := names.contains n.toList
      let s2 := if has "-onic" || has "-aric" then onic s1 else s1
      let s3 := if (has "-aric" || has "-ulosaric") && sac != "Qui".toList then aricEnd s2 else s2
      let s4 := if has "-ulosonic" || has "-ulosaric" then uloSub s3 else s3
      some s4

/-- `str.replace(old, new, 1)` for the pattern `[C?H]` -/
def replaceFirstQ (s : List Char) (by_ : List Char) : List Char :=
  match s with
  | [] => []
  | '[' :: 'C' :: '?' :: 'H' :: ']' :: rest => by_ ++ rest
  | c :: rest => c :: replaceFirstQ rest by_

def replaceAllQ (s : List Char) (by_ : List Char) : List Char :=
  match s with
  | [] => []
  | '[' :: 'C' :: '?' :: 'H' :: ']' :: rest => by_ ++ replaceAllQ rest by_
  | c :: rest => c :: replaceAllQ rest by_
termination_by s.length
decreasing_by all_goals simp_wf <;> omega

/-- the extension string of `check_for_resizing` before the branch on the carbon's environment:
    `"[C?H](O)" * (count - c_count) + "CO"`, orientation letters applied left to right (all but the last), the rest plain. -/
def extension (names : List (List Char)) (types : List Nat) (cCount : Nat) : Option (List Char) :=
  match getIndices names types with
  | none => none
  | some (si, li) =>
    match li with
    | none => none                                   -- names[None]: TypeError
    | some l =>
      let prev := if si == 0 then [] else names.getD (si - 1) []
      let orient := if si != 0 && prev.all (fun c => c == 'L' || c == 'D') then prev else []
      let count := sizeOfName (names.getD l []) cCount
      let e0 := rep (count - cCount) "[C?H](O)".toList ++ "CO".toList
      let e1 := orient.dropLast.foldl (fun e c =>
        if c == 'L' then replaceFirstQ e "[C@@H]".toList else if c == 'D' then replaceFirstQ e "[C@H]".toList else e) e0
      some (replaceAllQ e1 "C".toList)

end Gly.Basic
