import GlyModel.Generated.Grammar
import GlyModel.Generated.Tables
/-
  Model of `MonomerFactory.create` (factory.py): name resolution against the three regenerated tables.
-/
namespace Gly.Model
open Gly

def upperChar (c : Char) : Char := if 'a'.toNat ≤ c.toNat && c.toNat ≤ 'z'.toNat then Char.ofNat (c.toNat - 32) else c
def upper (s : List Char) : List Char := s.map upperChar

inductive TableId where | pyranose | furanose | open_ | succinic | unknown
deriving DecidableEq, Repr

structure CreateResult where
  table  : TableId
  key    : List Char            -- the looked-up name (before upper-casing)
  row    : Option Gen.MonoRow
  recipe : Recipe               -- the (possibly extended) recipe the monomer keeps
deriving Repr

def findRow (t : List Gen.MonoRow) (key : List Char) : Option Gen.MonoRow :=
  t.find? (fun r => r.key == upper key)

def firstOfType (r : Recipe) (ty : Nat) : Option (List Char) :=
  (r.find? (fun x => x.2 == ty)).map (·.1)

/-- `MonomerFactory.create` up to the point where the reactor is called. `none` = the Python raises
    (no SAC entry in the recipe: `tmp[1].index(SAC)` fails). -/
def create (recipe : Recipe) (config : List Char) : Option CreateResult :=
  match firstOfType recipe Gen.frontCfg.tSAC with
  | none => none
  | some name0 =>
    let name := if name0 == "Sug".toList then "Oct".toList else name0
    let cfgTok := firstOfType recipe Gen.frontCfg.tTYPE
    let ringTok := firstOfType recipe Gen.frontCfg.tRING
    let (key, recipe') :=
      if !config.isEmpty then (config ++ ['_'] ++ name, recipe ++ [(config, Gen.frontCfg.tTYPE)])
      else match cfgTok with
        | some c => (c ++ ['_'] ++ name, recipe)
        | none => (name, recipe)
    let notF := match ringTok with | some r => r != ['f'] | none => true
    match (if notF then findRow Gen.pyranoseTable key else none) with
    | some row => some ⟨.pyranose, key, some row, recipe'⟩
    | none =>
      match findRow Gen.furanoseTable key with
      | some row => some ⟨.furanose, key, some row, recipe'⟩
      | none =>
        match findRow Gen.openTable key with
        | some row => some ⟨.open_, key, some row, recipe'⟩
        | none =>
          if upper (key.drop (key.length - 3)) == "SUC".toList then some ⟨.succinic, key, none, recipe'⟩
          else some ⟨.unknown, key, none, recipe'⟩

/-- What the default-position lookup *should* consult (Spec side of C06): is the child a 2-ketose? -/
def isKetose2Spec (r : Recipe) : Bool :=
  match create r [] with
  | some ⟨_, _, some row, _⟩ => Gen.ketoses2.any (fun (n, l) => n == row.name && l == row.lactole)
  | _ => false

end Gly.Model
