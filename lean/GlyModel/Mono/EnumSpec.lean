import GlyModel.Mono.EnumC
import GlyModel.Smiles.Formula
/-
  Chemistry-level carbon numbering of a cyclic monosaccharide (Spec, independent of enum_c.py), and the view of a denoted
  molecule that `EnumC.enumerate` works on – so that the Model of the code's numbering can be compared with the Spec on every
  row of the library by kernel evaluation.
-/
namespace Gly.EnumC
open Gly.Smi

/-- breadth-first path between the two ends of the ring-closure bond that avoids that bond: the atoms of the ring -/
def pathGo (adj : Nat → List Nat) (target : Nat) : Nat → List (List Nat) → List Nat → Option (List Nat)
  | 0, _, _ => none
  | fuel + 1, paths, seen =>
    match paths.find? (fun p => p.head? == some target) with
    | some p => some p.reverse
    | none =>
      let ext := paths.flatMap (fun p => match p with
        | [] => []
        | h :: _ => ((adj h).filter (fun x => !seen.contains x)).map (fun x => x :: p))
      if ext.isEmpty then none else pathGo adj target fuel ext (seen ++ ext.filterMap List.head?)

def ringAtoms (m : Mol) : List Nat :=
  match m.evs.findSome? (fun e => match e with | .rclose i q _ _ => some (i, q) | _ => none) with
  | none => []
  | some (i, q) =>
    let adj := fun k => m.evs.flatMap (fun e => match e with
      | .bond a b _ => if a == k then [b] else if b == k then [a] else []
      | _ => [])
    (pathGo adj q m.atoms.length [[i]] [i]).getD []

def zOf (a : Atom) : Nat :=
  let e := element a
  if e == ['C'] then 6 else if e == ['N'] then 7 else if e == ['O'] then 8 else if e == ['S'] then 16 else if e == ['P'] then 15 else 0

/-- the input of `enumerate_carbon` for a library row: every atom is "isomorphic to the root sugar" (it *is* the root sugar) -/
def viewOf (m : Mol) : View :=
  let ring := ringAtoms m
  ⟨(List.range m.atoms.length).map (fun i => ⟨zOf (m.atoms.getD i []), if ring.contains i then 1 else 0, 1⟩),
   m.evs.filterMap (fun e => match e with
     | .bond i j b => some (i, j, bondOrder b)
     | .rclose i q _ b => some (i, q, bondOrder b)
     | .ropen _ _ _ => none)⟩

/-! ### Spec -/

def nbrs (m : Mol) (k : Nat) : List Nat := neighbours m.evs k
def isC (m : Mol) (k : Nat) : Bool := element (m.atoms.getD k []) == ['C']
def isO (m : Mol) (k : Nat) : Bool := element (m.atoms.getD k []) == ['O']

/-- follow carbons that are not in `visited`, as long as the continuation is unique -/
def tail (m : Mol) : Nat → Nat → List Nat → List Nat
  | 0, _, _ => []
  | fuel + 1, k, visited =>
    match (nbrs m k).filter (fun x => isC m x && !visited.contains x) with
    | [x] => x :: tail m fuel x (x :: visited)
    | _ => []

/-- chemistry-level main chain of a cyclic monosaccharide, C1 first: the anomeric carbon is the ring carbon bonded to the ring
    oxygen and to a second oxygen; in a 2-ketose C1 is the carbon hanging on it outside the ring; the numbering runs along the
    ring away from the ring oxygen and on into the exocyclic tail. `none`: not a ring with exactly one such carbon. -/
def specChain (m : Mol) : Option (List Nat) :=
  let ring := ringAtoms m
  match ring.filter (isO m) with
  | [o] =>
    match ring.filter (fun c => isC m c && (nbrs m c).contains o && ((nbrs m c).filter (fun x => isO m x)).length == 2) with
    | [an] =>
      -- ring carbons in walking order starting at the anomeric carbon, away from the ring oxygen
      let ringC := ring.filter (isC m)
      let walk := tailRing m ringC an
      let head := match (nbrs m an).filter (fun x => isC m x && !ring.contains x) with
        | [c1] => [c1]
        | _ => []
      let last := walk.getLastD an
      some (head ++ walk ++ tail m m.atoms.length last (ring ++ head))
    | _ => none
  | _ => none
where
  tailRing (m : Mol) (ringC : List Nat) (an : Nat) : List Nat :=
    let rec go : Nat → Nat → List Nat → List Nat
      | 0, _, _ => []
      | fuel + 1, k, visited =>
        match (nbrs m k).filter (fun x => ringC.contains x && !visited.contains x) with
        | x :: _ => x :: go fuel x (x :: visited)
        | [] => []
    an :: go ringC.length an [an]

/-- the Model of the code's numbering, restricted to the carbons of its main chain in numbering order -/
def modelChain (m : Mol) : Option (List Nat) :=
  match enumerate (viewOf m) [] with
  | .ok x =>
    let k := (specChain m).map List.length |>.getD 0
    some ((List.range k).filterMap (fun i => (List.range x.length).find? (fun a => x.getD a 0 == i + 1)))
  | _ => none

/-! ### the reactor's anchor for position-less modifications -/

/-- Model of `self.ring_c` (reactor.py, computed before `check_for_anhydro`): the smallest number among the carbons that lie in the
    main ring only; with no such carbon 1 (`(monomer, lactole) in ketoses2` pairs an object with the lactole and is constantly
    false in the pinned code). -/
def ringCOf (v : View) (x : List Nat) : Nat :=
  match ((List.range v.atoms.length).filter (fun i => (v.at i).z == 6 && (v.at i).ring == 1)).map (fun i => x.getD i 0) with
  | [] => 1
  | n :: ns => ns.foldl min n

/-- Spec: the number of the anomeric carbon in the chemistry-level main chain (1 for aldoses, 2 for 2-ketoses) -/
def specAnchor (m : Mol) : Option Nat :=
  let ring := ringAtoms m
  match ring.filter (isO m) with
  | [o] =>
    match ring.filter (fun c => isC m c && (nbrs m c).contains o && ((nbrs m c).filter (fun x => isO m x)).length == 2) with
    | [an] => (specChain m).map (fun ch => ch.idxOf an + 1)
    | _ => none
  | _ => none

def modelAnchor (m : Mol) : Option Nat :=
  match enumerate (viewOf m) [] with
  | .ok x => some (ringCOf (viewOf m) x)
  | _ => none

end Gly.EnumC
