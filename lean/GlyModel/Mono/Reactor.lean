import GlyModel.Generated.Tables
import GlyModel.Generated.Grammar
/-
  Model of `SMILESReaktor.react` (reactor.py): token-shape dispatch, `extract_bridge`, `set_fg`, and the loop over rounds.
  The residue is seen through a small view supplied at the boundary (what RDKit / enum_c computed): its name, the number of
  its carbons, which element `find_oxygen(n)` returns for every position, the ring carbon `ring_c`, and the position the
  `A` / `-uronic` walk ends at. Outcomes that raise in Python are `error`; long carbon-chain names (`parse_poly_carbon`) are
  `unmodelled`.
-/
namespace Gly.React
open Gly

structure View where
  name     : List Char
  ncarbon  : Nat
  elemAt   : List (Option Char)     -- index = position; `none` = find_oxygen raises
  ringC    : Nat
  uronic   : Nat
deriving Repr

inductive Outcome (α : Type) where
  | ok (a : α)
  | error (what : String)
  | unmodelled
deriving Repr

def Outcome.map' {α β : Type} (o : Outcome α) (f : α → β) : Option β :=
  match o with
  | .ok a => some (f a)
  | _ => none

abbrev Chains := List (List Char × List Char)

structure RState where
  chains : Chains
  higher : List (List Char)
  full   : Bool
deriving Repr

def fgLookup (k : List Char) : Option (List Char) := Gen.functionalGroups.lookup k

def isLower (c : Char) : Bool := 'a'.toNat ≤ c.toNat && c.toNat ≤ 'z'.toNat
def isDigitC (c : Char) : Bool := '0'.toNat ≤ c.toNat && c.toNat ≤ '9'.toNat
def isNumeric (s : List Char) : Bool := !s.isEmpty && s.all isDigitC

def firstLower (s : List Char) : Option Nat := (List.range s.length).find? (fun i => isLower (s.getD i ' '))

/-- Python slice `s[a:b]` for non-negative bounds -/
def slice (s : List Char) (a b : Nat) : List Char := (s.take b).drop a

/-- `extract_bridge(n)` → (bridge, fg) -/
def extractBridge (n : List Char) : Outcome (List Char × List Char) :=
  let pre : Outcome (List Char × List Char) :=
    match firstLower n with
    | some i0 =>
      let i := if i0 ≥ 2 && n.getD (i0 - 2) ' ' == 'H' then i0 - 1 else i0
      -- Python: fg = n[i-1:], bridge = n[:i-1]; for i = 0 the index -1 counts from the end
      let fg := if i == 0 then n.drop (n.length - 1) else n.drop (i - 1)
      let bridge := if i == 0 then n.take (n.length - 1) else n.take (i - 1)
      match fgLookup fg with
      | none => .error "KeyError"
      | some v =>
        match v.head?, bridge.getLast? with
        | some v0, some bl => .ok (if v0 == bl then bridge.dropLast else bridge, fg)
        | _, _ => .error "IndexError"
    | none =>
      match n.getLast? with
      | some l => .ok (n.dropLast, [l])
      | none => .error "IndexError"
  match pre with
  | .ok (bridge, fg) =>
    let b1 := match bridge with | c :: rest => if isDigitC c then rest else bridge | [] => bridge
    let b2 := match b1 with | 'C' :: rest => rest | _ => b1
    .ok (b2, fg)
  | e => e

def isPolyCarbon (n : List Char) : Bool :=
  (n.getD 1 ' ' == 'C' && n.length > 1 && isNumeric (slice n 2 4)) ||
  ((let s := slice n 1 3; s == [] || s == ['a'] || s == ['C'] || s == ['i'] || s == ['a', 'C'] || s == ['C', 'i'] || s == ['i', 'C']) && isNumeric (slice n 3 5)) ||
  (slice n 1 4 == ['a', 'i', 'C'] && isNumeric (slice n 4 6))

def setCell (cs : Chains) (pos : Nat) (col : Nat) (f : List Char → List Char) : Chains :=
  cs.mapIdx (fun i c => if i == pos then (if col == 0 then (f c.1, c.2) else (c.1, f c.2)) else c)

def getCell (cs : Chains) (pos : Nat) (col : Nat) : List Char :=
  let c := cs.getD pos ([], [])
  if col == 0 then c.1 else c.2

/-- What `set_fg` does to the one cell it touches, as a function of that cell's current content. -/
def fgEdit (cur bondElem name : List Char) : Outcome ((List Char → List Char) × Bool) :=
  match fgLookup name with
  | some v =>
    let be1 := if !cur.isEmpty && (match bondElem with | [b] => cur.getLast? == some b | _ => false) then [] else bondElem
    let be2 := if be1 == ['P'] then "OP(=O)(O)".toList else be1
    -- `side_chains[..][-1] == functional_groups[name][0] != "C"`; an empty value raises IndexError when it is looked at
    if !cur.isEmpty then
      match v.head? with
      | none => .error "IndexError"
      | some v0 =>
        if cur.getLast? == some v0 && v0 != 'C' then .ok ((· ++ be2 ++ v.drop 1), true)
        else .ok ((· ++ be2 ++ v), true)
    else .ok ((· ++ be2 ++ v), true)
  | none =>
    if name.length < 2 then .error "IndexError"
    else if isPolyCarbon name then .unmodelled
    else .ok (id, false)

/-- `set_fg(c_or_o, pos, bond_elem, name)` → (chains, recognised) -/
def setFg (cs : Chains) (col pos : Nat) (bondElem name : List Char) : Outcome (Chains × Bool) :=
  if pos ≥ cs.length then .error "IndexError" else
  match fgEdit (getCell cs pos col) bondElem name with
  | .ok (f, ok) => .ok (setCell cs pos col f, ok)
  | .error e => .error e
  | .unmodelled => .unmodelled

def conflictsNOP : List (List Char) := Gen.nConflict ++ Gen.oConflict ++ Gen.pConflict

def colFor (v : View) (pos : Nat) : Outcome Nat :=
  match v.elemAt.getD pos none with
  | none => .error "ValueError"
  | some e => .ok (if e == 'C' then 1 else 0)

def skipped (n : List Char) : Bool :=
  (n.count 'L' + n.count 'D' == n.length) ||
  [['-'], "-ol".toList, "-onic".toList, "-aric".toList, "-ulosonic".toList, "-ulosaric".toList].contains n ||
  (List.range (n.length + 1)).any (fun i => "Anhydro".toList.isPrefixOf (n.drop i))

def bindO {α β} (o : Outcome α) (f : α → Outcome β) : Outcome β :=
  match o with
  | .ok a => f a
  | .error e => .error e
  | .unmodelled => .unmodelled

/-- What one modification token does: nothing, an edit of the side-chain table, an edit through `set_fg` (with its
    'recognised' flag), or postponement to the next round. -/
inductive Effect where
  | none
  | chains (cs : Chains)
  | fg (cs : Chains) (ok : Bool)
  | postpone (n : List Char)
deriving Repr

def applyEffect (st : RState) : Effect → RState
  | .none => st
  | .chains cs => { st with chains := cs }
  | .fg cs ok => { st with chains := cs, full := st.full && ok }
  | .postpone n => { st with higher := st.higher ++ [n] }

/-- Where a token writes and how – decided from the token text, the residue view and the *size* of the side-chain table only, never
    from the table's content: nothing, postponement, an edit of one cell as a function of that cell's current text, or `set_fg` on
    one cell. -/
inductive CellOp where
  | none
  | postpone (n : List Char)
  | edit (pos col : Nat) (f : List Char → List Char)
  | fg (col pos : Nat) (be name : List Char)

/-- the token dispatch of `react` -/
def tokenOp (v : View) (len : Nat) (n0 : List Char) : Outcome CellOp :=
  if skipped n0 then .ok .none else
  let n := if n0.head? == some '-' && n0 != "-uronic".toList then n0.drop 1 else n0
  let withFg (col pos : Nat) (be name : List Char) : Outcome CellOp := .ok (.fg col pos be name)
  if n == ['A'] || n == "-uronic".toList then
    if v.uronic ≥ len then .error "IndexError" else
    .ok (.edit v.uronic 0 (fun cur => cur ++ (if cur.getLast? == some 'O' then "C(=O)O".toList else "(=O)O".toList)))
  else if n == ['N'] then
    let pos := if ["Fru".toList, "Tag".toList, "Sor".toList, "Psi".toList].contains v.name then 1 else 2
    if pos ≥ len then .error "IndexError" else .ok (.edit pos 0 (· ++ ['N']))
  else if n == "D-".toList || n == "L-".toList then .ok .none
  else if n == "Ac".toList && v.name == "Neu".toList then
    if 5 ≥ len then .error "IndexError" else .ok (.edit 5 0 (· ++ "NC(=O)C".toList))
  else if n == "Gc".toList && v.name == "Neu".toList then
    if 5 ≥ len then .error "IndexError" else .ok (.edit 5 0 (· ++ "NC(=O)CO".toList))
  else
    match n with
    | [] => .error "IndexError"
    | c0 :: rest =>
      if isDigitC c0 then
        let p := c0.toNat - '0'.toNat
        if p > len - 1 then .ok (.postpone n)
        else if rest == ['d'] then .ok (.edit p 0 (· ++ ['H']))
        else if rest == ['e'] then .ok .none
        else if n.length > 4 && n.getD 1 ' ' == '-' && n.getD 3 ' ' == '-' && (n.getD 2 ' ' == 'O' || n.getD 2 ' ' == 'N') then
          let nm := slice n 4 (n.length - 1)
          match fgLookup nm with
          | none => .error "KeyError"
          | some val =>
            match val.head? with
            | none => .error "IndexError"
            | some v0 =>
              let elem := if v0 == n.getD 2 ' ' then [] else [n.getD 2 ' ']
              bindO (colFor v p) (fun col => withFg col p elem nm)
        else if (rest.head? == some 'N' || rest.head? == some 'O' || rest.head? == some 'P') && !conflictsNOP.contains rest then
          bindO (extractBridge n) (fun (bridge, fg) =>
            match fgLookup fg with
            | none => .error "KeyError"
            | some val =>
              let bridge' := if !bridge.isEmpty && val.head? == bridge.getLast? then bridge.dropLast else bridge
              if !bridge.isEmpty && val.isEmpty then .error "IndexError" else
              bindO (colFor v p) (fun col => withFg col p bridge' fg))
        else if isPolyCarbon n then .unmodelled
        else if rest.head? == some 'C' && !Gen.cConflict.contains rest then
          bindO (extractBridge n) (fun (bridge, fg) => withFg 1 p bridge fg)
        else
          match v.elemAt.getD p none with
          | none => .error "ValueError"
          | some e =>
            let elem : List Char := if Gen.preserveElem.contains rest then [e] else []
            let col := if e == 'C' then 1 else 0
            if elem == ['C'] then withFg col p [] rest else withFg col p elem rest
      else if (c0 == 'N' || c0 == 'O' || c0 == 'P') && !conflictsNOP.contains n then
        -- position-less group bridged by N / O / P: on the carbon next to `ring_c` (`Me`: on `ring_c` itself)
        bindO (extractBridge n) (fun (bridge, fg) =>
          match fgLookup fg with
          | none => .error "KeyError"
          | some val =>
            if !bridge.isEmpty && val.isEmpty then .error "IndexError" else
            let bridge' := if !bridge.isEmpty && val.head? == bridge.getLast? then bridge.dropLast else bridge
            let pos := if fg == "Me".toList then v.ringC else v.ringC + 1
            bindO (colFor v pos) (fun col => withFg col pos bridge' fg))
      else if c0 == 'C' && !Gen.cConflict.contains n then
        if n.contains '=' || isNumeric rest then .unmodelled          -- `parse_poly_carbon`
        else bindO (extractBridge n) (fun (bridge, fg) => withFg 1 v.ringC bridge fg)
      else
        -- any other position-less group: on `ring_c`; `int(n[0])` of a non-digit raises when the group preserves the element
        if Gen.preserveElem.contains rest then .error "ValueError"
        else match fgLookup n with
          | none => .error "KeyError"
          | some val =>
            if val.isEmpty then .error "IndexError" else
            bindO (colFor v v.ringC) (fun col => withFg col v.ringC [] n)

/-- carrying an operation out on the table -/
def applyOp (cs : Chains) : CellOp → Outcome Effect
  | .none => .ok .none
  | .postpone n => .ok (.postpone n)
  | .edit pos col f => .ok (.chains (setCell cs pos col f))
  | .fg col pos be name => bindO (setFg cs col pos be name) (fun (cs', ok) => .ok (.fg cs' ok))

/-- one modification token, as an effect on the current side-chain table `cs0` -/
def tokenEffect (v : View) (cs0 : Chains) (n0 : List Char) : Outcome Effect :=
  bindO (tokenOp v cs0.length n0) (applyOp cs0)

/-- one modification token of a round -/
def reactToken (v : View) (st : RState) (n0 : List Char) : Outcome RState :=
  bindO (tokenEffect v st.chains n0) (fun e => .ok (applyEffect st e))

def initChains (v : View) : Chains := List.replicate (1 + v.ncarbon) ([], [])

def reactRoundFrom (v : View) (mods : List (List Char)) (full : Bool) : Outcome RState :=
  mods.foldl (fun acc n => bindO acc (fun st => reactToken v st n)) (.ok ⟨initChains v, [], full⟩)

def reactRound (v : View) (mods : List (List Char)) : Outcome RState := reactRoundFrom v mods true

/-- **All rounds** of `react`: every round starts from fresh `side_chains` on the residue as it is now (`views`: one boundary view per
    round – `assemble_chains` has changed the residue in between), handles the names the previous round postponed, and the loop
    stops when nothing is left or when a round postponed *everything* it was given (`len(higher_order_groups[0]) == start_len`).
    Returns the `side_chains` of every round and the flag `full and len(higher_order_groups[0]) == 0`.
    `startLen` of the first round is the length of the whole recipe (`names` holds the non-modification tokens, too). -/
def reactLoop : List View → List (List Char) → Nat → Bool → List Chains → Outcome (List Chains × Bool)
  | [], _, _, _, _ => .unmodelled
  | v :: vs, mods, startLen, full, acc =>
    bindO (reactRoundFrom v mods full) fun st =>
      let acc' := acc ++ [st.chains]
      if st.higher.length == startLen then .ok (acc', false)
      else if st.higher.isEmpty then .ok (acc', st.full)
      else reactLoop vs st.higher st.higher.length st.full acc'

def reactAll (views : List View) (mods : List (List Char)) (recipeLen : Nat) : Outcome (List Chains × Bool) :=
  if recipeLen == 0 then .ok ([], true) else reactLoop views mods recipeLen true []

end Gly.React
