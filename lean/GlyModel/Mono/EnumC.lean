/-
  Model of `enumerate_carbon` (mono/enum_c.py) and of the `Tree` helper (utils.py): the carbon numbering every position
  lookup relies on. What comes from RDKit / networkx is an input: atomic numbers, ring flags (`x[:,2]`), the "isomorphic to
  the root sugar" flags (`x[:,3]`), the bond-order adjacency, and – for open chains – the chain `c1_find` returns.
  Python dictionaries are modelled as association lists in insertion order (re-assigning a key keeps its position).
-/
namespace Gly.EnumC

structure AtomV where
  z    : Nat
  ring : Nat
  iso  : Nat
deriving Repr, Inhabited

structure View where
  atoms : List AtomV
  adj   : List (Nat × Nat × Nat)          -- (i, j, bond order), both directions listed or not: looked up symmetrically
deriving Repr, Inhabited

def View.n (v : View) : Nat := v.atoms.length
def View.at (v : View) (i : Nat) : AtomV := v.atoms.getD i ⟨0, 0, 0⟩

/-- `adjacency[i, j]` -/
def View.bo (v : View) (i j : Nat) : Nat :=
  match v.adj.find? (fun e => (e.1 == i && e.2.1 == j) || (e.1 == j && e.2.1 == i)) with
  | some e => e.2.2
  | none => 0

def idx (v : View) (p : Nat → Bool) : List Nat := (List.range v.n).filter p          -- `np.where(...)[0]`

/-! ### `Tree` -/

structure TNode where
  id : Nat
  parent : Option Nat
  depth : Nat
  children : List Nat
deriving Repr, Inhabited

abbrev Tree := List TNode          -- insertion order = dict order

def Tree.get (t : Tree) (i : Nat) : Option TNode := t.find? (·.id == i)
def Tree.has (t : Tree) (i : Nat) : Bool := t.any (·.id == i)

/-- `add_node`: `none` = the Python raises (unknown parent) -/
def Tree.addNode (t : Tree) (i : Nat) (parent : Option Nat) : Option Tree :=
  match parent with
  | none => some (if t.has i then t.map (fun n => if n.id == i then ⟨i, none, 0, []⟩ else n) else t ++ [⟨i, none, 0, []⟩])
  | some p =>
    match t.get p with
    | none => none
    | some pn =>
      let node : TNode := ⟨i, some p, pn.depth + 1, []⟩
      let t1 := if t.has i then t.map (fun n => if n.id == i then node else n) else t ++ [node]
      some (t1.map (fun n => if n.id == p then { n with children := n.children ++ [i] } else n))

/-- `deepest_node` -/
def Tree.deepest (t : Tree) : Nat × Nat :=
  t.foldl (fun (acc : Nat × Nat) n => if n.depth > acc.2 then (n.id, n.depth) else acc) (0, 0)

/-- the stack loops of `enumerate_c_atoms` / `rehang_tree`: pop the last entry, add the node, push the neighbours not yet in the tree -/
def grow (nbrs : Nat → List Nat) : Nat → List (Option Nat × Nat) → Tree → Option Tree
  | 0, _, _ => none
  | _, [], t => some t
  | fuel + 1, stack, t =>
    match stack.getLast? with
    | none => some t
    | some (p, c) =>
      match t.addNode c p with
      | none => none
      | some t1 =>
        let push := (nbrs c).filter (fun x => !t1.has x)
        grow nbrs fuel (stack.dropLast ++ push.map (fun x => (some c, x))) t1

def Tree.rehang (t : Tree) (i : Nat) : Option Tree :=
  grow (fun c => match t.get c with
    | some n => n.children ++ (match n.parent with | some p => [p] | none => [])
    | none => []) (4 * t.length + 4) [(none, i)] []

/-- `longest_chain` -/
def Tree.longestChain (t : Tree) : Nat → Nat → List Nat
  | 0, i => [i]
  | fuel + 1, i =>
    match t.get i with
    | none => [i]
    | some n =>
      if n.children.isEmpty then [i]
      else
        let best := n.children.foldl (fun (acc : List Nat) c =>
          let tmp := t.longestChain fuel c
          if tmp.length > acc.length then tmp else acc) []
        i :: best

/-! ### distances (the matrix-power loop of `evaluate_distance` stops at the smaller hop distance) -/

def bfsGo (v : View) (target : Nat) : Nat → List Nat → List Nat → Nat → Option Nat
  | 0, _, _, _ => none
  | fuel + 1, frontier, seen, d =>
    if frontier.contains target then some d
    else
      let next := ((frontier.flatMap (fun a => idx v (fun b => v.bo a b != 0))).filter (fun x => !seen.contains x)).eraseDups
      if next.isEmpty then none else bfsGo v target fuel next (seen ++ next) (d + 1)

def dist (v : View) (a b : Nat) : Option Nat := bfsGo v b (v.n + 1) [a] [a] 0

inductive Res (α : Type) where
  | ok (a : α)
  | raises (what : String)
  | unmodelled
deriving Repr

def heteroOutside (v : View) (c : Nat) : Bool :=       -- a neighbour through a single bond that is N or O and not exclusively in the main ring
  (idx v (fun j => v.bo c j == 1 && ((v.at j).z == 7 || (v.at j).z == 8) && (v.at j).ring != 1)).length > 0

/-- `equidistant` -/
def equidistant (v : View) (s e : Nat) : Res Bool :=
  let cs := idx v (fun j => v.bo s j == 1 && (v.at j).z == 6 && (v.at j).ring % 2 == 1)
  let ce := idx v (fun j => v.bo e j == 1 && (v.at j).z == 6 && (v.at j).ring % 2 == 1)
  match cs, ce with
  | [sr], [er] =>
    let so := idx v (fun j => v.bo sr j == 1 && ((v.at j).z == 7 || (v.at j).z == 8) && (v.at j).ring != 1)
    let eo := idx v (fun j => v.bo er j == 1 && ((v.at j).z == 7 || (v.at j).z == 8) && (v.at j).ring != 1)
    if so.length == 1 && eo.length == 1 then .raises "UnreachableError"
    else if so.length == 1 then .ok true
    else .ok true          -- falls through to `return c_start_candidates.size == 1`
  | _, _ => .ok (cs.length == 1)

/-- `evaluate_distance` -/
def evaluateDistance (v : View) (s e : Nat) (ringo : List Nat) : Res Bool :=
  match ringo with
  | [o] =>
    match dist v s o, dist v e o with
    | some ds, some de => if ds < de then .ok true else if de < ds then .ok false else equidistant v s e
    | some _, none => .ok true
    | none, some _ => .ok false
    | none, none => .unmodelled            -- the Python loops forever
  | _ => .unmodelled                       -- ringo = -1 or several ring oxygens: array truth value

/-- the main chain, C1 first (`enumerate_c_atoms`); `chainOpen` = what `c1_find` returns for open chains -/
def mainChain (v : View) (chainOpen : List Nat) : Res (List Nat) :=
  let cAtoms := idx v (fun i => (v.at i).z == 6 && (v.at i).ring % 2 == 1 && (v.at i).iso == 1)
  let ringO := idx v (fun i => (v.at i).z == 8 && (v.at i).ring % 2 == 1 && (v.at i).iso == 1)
  match cAtoms with
  | [] => .ok chainOpen
  | c0 :: _ =>
    let nb := fun c => idx v (fun j => v.bo c j == 1 && (v.at j).z == 6 && (v.at j).iso == 1)
    match grow nb (4 * v.n + 4) [(none, c0)] [] with
    | none => .raises "ValueError"
    | some t =>
      let (deep, _) := t.deepest
      if !t.has deep then .raises "KeyError" else
      match t.rehang deep with
      | none => .raises "ValueError"
      | some t2 =>
        let chain := t2.longestChain (t2.length + 1) deep
        if chain.length < cAtoms.length then .raises "AssertionError" else
        match chain.head?, chain.getLast? with
        | some s, some e =>
          let so := heteroOutside v s
          let eo := heteroOutside v e
          if so && eo then
            match evaluateDistance v s e ringO with
            | .ok true => .ok chain
            | .ok false => .ok chain.reverse
            | .raises w => .raises w
            | .unmodelled => .unmodelled
          else if eo then .ok chain.reverse
          else .ok chain
        | _, _ => .ok chain

abbrev Numbering := List Nat          -- `x[:,1]` per atom (0 = none, 100 = ring oxygen)

def setNum (x : Numbering) (i k : Nat) : Numbering := x.set i k

/-- `enumerate_side_chain` -/
def sideChain (v : View) : Nat → Nat → Nat → Numbering → Nat → Numbering × Nat
  | 0, _, _, x, next => (x, next)
  | fuel + 1, parent, atom, x, next =>
    let (x1, next1) := if (v.at atom).z == 6 then (setNum x atom next, next + 1) else (x, next)
    let cands := (idx v (fun j => v.bo atom j != 0 && x1.getD j 0 == 0)).filter (· != parent)
    cands.foldl (fun (acc : Numbering × Nat) c => sideChain v fuel atom c acc.1 acc.2) (x1, next1)

/-- `enumerate_carbon`: the final `x[:,1]` -/
def enumerate (v : View) (chainOpen : List Nat) : Res Numbering :=
  let x0 : Numbering := (List.range v.n).map (fun i => if (v.at i).ring % 2 == 1 && (v.at i).z == 8 then 100 else 0)
  match mainChain v chainOpen with
  | .raises w => .raises w
  | .unmodelled => .unmodelled
  | .ok chain =>
    let (x1, next) := chain.foldl (fun (acc : Numbering × Nat) c => (setNum acc.1 c acc.2, acc.2 + 1)) (x0, 1)
    -- `for c_id in range(1, next_c_id)`: the bound is the value before the loop
    let r := (List.range (next - 1)).foldl (fun (acc : Numbering × Nat) k =>
      let cid := k + 1
      match idx v (fun i => acc.1.getD i 0 == cid) with
      | [ci] =>
        let cands := idx v (fun j => v.bo ci j != 0 && acc.1.getD j 0 == 0)
        cands.foldl (fun (a : Numbering × Nat) cand =>
          if ((List.range v.n).map (fun j => v.bo cand j)).sum > 1 then sideChain v (2 * v.n + 2) ci cand a.1 a.2 else a) acc
      | _ => acc) (x1, next)
    .ok r.1

/-! ### the linking hetero atom: `Monomer.find_oxygen`, `__check_root_id`, `root_atom_id` -/

/-- `find_oxygen(binding_c_id)` (or with an explicit RDKit `position`): the O, else the N, bonded to the carbon by a single bond and
    not exclusively in the main ring, if there is exactly one of that element; the carbon itself if there is no candidate at all. -/
def findOxygenAt (v : View) (positions : List Nat) : Res Nat :=
  match positions with
  | [] => .raises "ValueError"
  | [pos] =>
    let cand := fun (z : Nat) => idx v (fun j => v.bo pos j == 1 && (v.at j).z == z && (v.at j).ring != 1)
    match cand 8 with
    | [o] => .ok o
    | os =>
      match cand 7 with
      | [n] => .ok n
      | ns => if os.isEmpty && ns.isEmpty then .ok pos else .raises "ValueError"
  | _ => .unmodelled

def findOxygen (v : View) (x : Numbering) (bindingC : Nat) : Res Nat :=
  findOxygenAt v (idx v (fun i => x.getD i 0 == bindingC))

def degSum (v : View) (i : Nat) : Nat := ((List.range v.n).map (fun j => v.bo j i)).sum

/-- `__check_root_id`: a free O / N is taken as it is; otherwise the search walks outwards (breadth first, never through atoms
    that are exclusively in the main ring) for a terminal O, remembering the first N with at most two bonds -/
def checkRootGo (v : View) : Nat → List Nat → List Nat → Option Nat → Nat → Nat
  | 0, _, _, cand, root => cand.getD root
  | _, [], _, cand, root => cand.getD root
  | fuel + 1, n :: rest, seen, cand, root =>
    let more := (idx v (fun k => v.bo k n != 0 && (v.at k).ring != 1)).filter (fun k => !seen.contains k)
    if (v.at n).z != 7 && (v.at n).z != 8 then checkRootGo v fuel (rest ++ more) (seen ++ [n]) cand root
    else if (v.at n).z == 8 && degSum v n == 1 then n
    else
      let cand' := if (v.at n).z == 7 && degSum v n ≤ 2 && cand.isNone then some n else cand
      checkRootGo v fuel (rest ++ more) (seen ++ [n]) cand' root

def checkRootId (v : View) (root : Nat) : Nat :=
  if ((v.at root).z == 8 && degSum v root ≤ 1) || ((v.at root).z == 7 && degSum v root ≤ 2) then root
  else checkRootGo v (4 * v.n * v.n + 8) (idx v (fun k => v.bo k root != 0 && (v.at k).ring != 1)) [] none root

def rootAtomId (v : View) (x : Numbering) (bindingC : Nat) : Res Nat :=
  match findOxygen v x bindingC with
  | .ok o => .ok (checkRootId v o)
  | .raises w => .raises w
  | .unmodelled => .unmodelled

/-! ### `Monomer.mark` -/

/-- the atom `mark(position, o_atom, n_atom)` turns into a linkage marker, and the marker's atomic number: the free end found for
    the position (`find_oxygen`, then `__check_root_id`) becomes the O-marker of the pair if it is an oxygen, the N-marker if it is a
    nitrogen; anything else raises -/
def markAt (v : View) (x : Numbering) (pos oZ nZ : Nat) : Res (Nat × Nat) :=
  match findOxygen v x pos with
  | .ok o =>
    let r := checkRootId v o
    if (v.at r).z == 8 then .ok (r, oZ) else if (v.at r).z == 7 then .ok (r, nZ) else .raises "ValueError"
  | .raises w => .raises w
  | .unmodelled => .unmodelled

/-- `GetAtomWithIdx(idx).SetAtomicNum(z)` and `x[idx, 0] = z`: one atom's element, nothing else -/
def View.setZ (v : View) (i z : Nat) : View :=
  ⟨v.atoms.mapIdx (fun k a => if k == i then { a with z := z } else a), v.adj⟩

def mark (v : View) (x : Numbering) (pos oZ nZ : Nat) : Res View :=
  match markAt v x pos oZ nZ with
  | .ok (r, z) => .ok (v.setZ r z)
  | .raises w => .raises w
  | .unmodelled => .unmodelled

end Gly.EnumC
