/-
  Model of converter.py (preprocess_glycans, convert, convert_generator, generate), of Glycan.get_smiles' gate and of
  __main__.py (parse_list, main). The per-glycan conversion is a parameter `conv`.
-/
namespace Gly.Api

/-- What a caller can put into the inputs: a string, or some other object (None, ints, ...). -/
inductive Input where
  | str (s : List Char)
  | other (tag : Nat)
deriving DecidableEq, Repr, Inhabited

/-- Outcome of `Glycan(g, full=full).get_smiles()` for one input. -/
inductive Outcome where
  | smiles (s : List Char)
  | raisesParse
  | raisesOther
deriving DecidableEq, Repr, Inhabited

def Outcome.text : Outcome → List Char
  | .smiles s => s
  | _ => []

abbrev Pair := Input × List Char

/-- `generate(glycan, full)`: both `except` clauses return the empty SMILES; nothing escapes. -/
def generate (conv : Input → Outcome) (g : Input) : Pair := (g, (conv g).text)

/-- `preprocess_glycans`: single, then list, then file lines (already stripped; see `stripLine`). -/
def preprocess (single : Option Input) (list : Option (List Input)) (fileLines : Option (List Input)) : List Input :=
  single.toList ++ list.getD [] ++ fileLines.getD []

/-- Process-wide state the converter touches. -/
structure World where
  loggerDisabled : Bool
  stdout : List (List Char)
  files : List (List Char × List (List Char))     -- path ↦ lines written
deriving Repr, Inhabited

/-- what a later `open(path).read()` sees: the most recent write to `path` (`none` = no such file) -/
def World.read (w : World) (path : List Char) : Option (List (List Char)) := w.files.lookup path

inductive Verbose where | none_ | level
deriving DecidableEq, Repr

def renderLine (p : Pair) : List Char :=
  (match p.1 with | .str s => s | .other n => ("<obj" ++ toString n ++ ">").toList) ++ [','] ++ p.2

inductive Sink where
  | returning
  | file (path : List Char)
  | stdout
deriving DecidableEq, Repr

inductive Result where
  | list (ps : List Pair)
  | nothing            -- `None`: empty input, or results went to a file / stdout
deriving Repr

/-- `convert`. `par` is joblib's `Parallel()(delayed(generate)(...) for ...)`. -/
def convert (par : (Input → Pair) → List Input → List Pair) (conv : Input → Outcome)
    (single : Option Input) (list fileLines gen : Option (List Input)) (sink : Sink) (verbose : Verbose)
    (w : World) : Result × World :=
  let was := w.loggerDisabled
  let w1 := if verbose == .none_ then { w with loggerDisabled := true } else w
  let restore (x : World) : World := if verbose == .none_ then { x with loggerDisabled := was } else x
  let gs := preprocess single list fileLines
  if gs.isEmpty && gen.isNone then (.nothing, restore w1)
  else
    let containers := (if gs.isEmpty then [] else [gs]) ++ gen.toList
    let results := containers.flatMap (par (generate conv))
    match sink with
    | .returning => (.list results, restore w1)
    | .file path => (.nothing, restore { w1 with files := (path, results.map renderLine) :: w1.files })
    | .stdout => (.nothing, restore { w1 with stdout := w1.stdout ++ results.map renderLine })

/-- `convert_generator`, fully consumed. -/
def convertGenerator (conv : Input → Outcome)
    (single : Option Input) (list fileLines gen : Option (List Input)) (verbose : Verbose) (w : World) : List Pair × World :=
  let was := w.loggerDisabled
  let restore (x : World) : World := if verbose == .none_ then { x with loggerDisabled := was } else x
  let w1 := if verbose == .none_ then { w with loggerDisabled := true } else w
  let gs := preprocess single list fileLines
  if gs.isEmpty && gen.isNone then ([], restore w1)
  else (gs.map (generate conv) ++ (gen.getD []).map (generate conv), restore w1)

/-- `convert_generator(...)` whose result is never advanced (dropped, closed before the first `next()`, sliced to nothing): a
    generator function runs none of its body before the first `next()`, so nothing at all happens – in particular the root
    logger is not switched off. -/
def convertGeneratorUnstarted (_conv : Input → Outcome)
    (_single : Option Input) (_list _fileLines _gen : Option (List Input)) (_verbose : Verbose) (w : World) : List Pair × World :=
  ([], w)

/-- `Glycan.get_smiles` gate (after the repair of D2): the cached/assembled string is withheld only when the caller
    asked for a complete conversion and the tree could not be realised completely. -/
def gate (treeOnly full treeFull : Bool) (assembled : List Char) : List Char :=
  if !treeOnly && full && !treeFull then [] else assembled

/-- The pinned gate before the repair: `tree_full != full`. -/
def gatePinned (treeOnly full treeFull : Bool) (assembled : List Char) : List Char :=
  if !treeOnly && (treeFull != full) then [] else assembled

/-! ### Command line -/

/-- One `-i` argument: an existing file (its lines, stripped) or a literal glycan. -/
inductive Arg where
  | file (lines : List (List Char))
  | lit (s : List Char)
deriving Repr

/-- Python's `str.strip()` removes exactly the characters for which `str.isspace()` holds. -/
def isSpace (c : Char) : Bool :=
  let n := c.toNat
  (9 ≤ n && n ≤ 13) || (28 ≤ n && n ≤ 32) || n == 0x85 || n == 0xa0 || n == 0x1680 || (0x2000 ≤ n && n ≤ 0x200a) ||
  n == 0x2028 || n == 0x2029 || n == 0x202f || n == 0x205f || n == 0x3000

def stripLine (l : List Char) : List Char := ((l.dropWhile isSpace).reverse.dropWhile isSpace).reverse

/-- Python text mode with universal newlines followed by `readlines()`: a line ends at `\n`, `\r\n` or `\r` and nowhere else; a
    trailing terminator starts no further line. (The terminators themselves are dropped: `strip()` removes them anyway.) -/
def splitAux : List Char → List Char → List (List Char)
  | [], cur => if cur.isEmpty then [] else [cur.reverse]
  | '\r' :: '\n' :: rest, cur => cur.reverse :: splitAux rest []
  | '\r' :: rest, cur => cur.reverse :: splitAux rest []
  | '\n' :: rest, cur => cur.reverse :: splitAux rest []
  | c :: rest, cur => splitAux rest (c :: cur)

def splitLines (content : List Char) : List (List Char) := splitAux content []

/-- `[line.strip() for line in open(path).readlines()]` -/
def readLines (content : List Char) : List (List Char) := (splitLines content).map stripLine

def Arg.expand : Arg → List (List Char)
  | .file ls => ls.map stripLine
  | .lit s => [s]

/-- `parse_list`. -/
def parseList (args : List Arg) : List (List Char) := args.flatMap Arg.expand

/-- `main`: a one-element list is unwrapped and dispatched to `glycan_file` / `glycan`, otherwise `glycan_list`. -/
def cliGlycans (args : List Arg) : List (List Char) :=
  match args with
  | [.file ls] => ls.map stripLine          -- convert(glycan_file=...): preprocess strips every line
  | [.lit s] => [s]                         -- convert(glycan=...)
  | _ => parseList args                     -- convert(glycan_list=parse_list(...))

/-- Lines of the `-o` file; `none` = no file is written (`convert` returns before opening it when there is no glycan). -/
def cliOutput (conv : Input → Outcome) (args : List Arg) : Option (List (List Char)) :=
  let gs := cliGlycans args
  if gs.isEmpty then none else some (gs.map (fun g => renderLine (generate conv (.str g))))

end Gly.Api
