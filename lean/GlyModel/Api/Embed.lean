import GlyModel.Api.Query
/-
  Model of `Glycan.count(query, match_nodes=True, …)`: the number of sub-graph isomorphisms networkx's `DiGraphMatcher(self.tree,
  query.tree, node_match, edge_match).subgraph_isomorphisms_iter()` enumerates – injective maps of the query's residues onto
  residues of the glycan under which the *induced* sub-graph is the query: matching residues, an edge exactly where the query has
  one, matching labels.
-/
namespace Gly.Embed
open Gly

abbrev Edge := Nat × Nat × List Char

structure G where
  nodes : List Recipe
  edges : List Edge
deriving Repr, Inhabited

def edgeLabel (es : List Edge) (u v : Nat) : Option (List Char) :=
  (es.find? (fun e => e.1 == u && e.2.1 == v)).map (·.2.2)

/-- `f` lists the image of query residue 0, 1, … -/
def isEmb (nodeOk : Recipe → Recipe → Bool) (edgeOk : List Char → List Char → Bool) (g q : G) (f : List Nat) : Bool :=
  f.length == q.nodes.length &&
  f.all (· < g.nodes.length) &&
  f.Nodup &&
  (List.range q.nodes.length).all (fun i => nodeOk (g.nodes.getD (f.getD i 0) []) (q.nodes.getD i [])) &&
  (List.range q.nodes.length).all (fun i => (List.range q.nodes.length).all (fun j =>
    match edgeLabel g.edges (f.getD i 0) (f.getD j 0), edgeLabel q.edges i j with
    | some lg, some lq => edgeOk lg lq
    | none, none => true
    | _, _ => false))

/-- all lists of `k` pairwise different numbers below `n` -/
def cands (n : Nat) : Nat → List (List Nat)
  | 0 => [[]]
  | k + 1 => (cands n k).flatMap (fun f => ((List.range n).filter (fun x => !f.contains x)).map (fun x => f ++ [x]))

def count (nodeOk : Recipe → Recipe → Bool) (edgeOk : List Char → List Char → Bool) (g q : G) : Nat :=
  ((cands g.nodes.length q.nodes.length).filter (isEmb nodeOk edgeOk g q)).length

/-- `match_edges=True`: `e["type"] == f["type"]`; otherwise networkx's default (everything matches) -/
def edgeEq (on : Bool) (a b : List Char) : Bool := !on || a == b

end Gly.Embed
