/-
  Model of the aliasing that matters for C11: the class-level open-form table maps a key to a *record object*;
  `check_for_open_form` (reactor_basic.py) looks the record up, takes `copy.copy` of it and assigns to the copy's
  "smiles" field. Python objects are modelled as addresses into a heap, so that copying or not copying has its real effect.
-/
namespace Gly.Heap

abbrev Addr := Nat
abbrev Smiles := List Char

structure World where
  heap  : List (Addr × Smiles)          -- record objects: their "smiles" field
  table : List (List Char × Addr)       -- OpenFactory.__monomers: key ↦ record object
deriving Repr, DecidableEq

def World.get (w : World) (a : Addr) : Smiles := (w.heap.lookup a).getD []

def World.set (w : World) (a : Addr) (v : Smiles) : World :=
  { w with heap := w.heap.map (fun (b, x) => if b = a then (b, v) else (b, x)) }

def World.fresh (w : World) : Addr := (w.heap.map (·.1)).foldl max 0 + 1

/-- `copy.copy(record)`: a new object with the same field values. -/
def World.copy (w : World) (a : Addr) : World × Addr :=
  let b := w.fresh
  ({ w with heap := (b, w.get a) :: w.heap }, b)

def World.lookupKey (w : World) (k : List Char) : Option Addr := w.table.lookup k

/-- What a later conversion reads from the table for key `k`. -/
def World.read (w : World) (k : List Char) : Option Smiles := (w.lookupKey k).map w.get

/-- `check_for_open_form`: `params = copy.copy(OpenFactory()[key])` (or, with `copying = false`, the table's own record);
    `params["smiles"] = rewrite params["smiles"]`; the monomer gets `params["smiles"]`. -/
def openForm (copying : Bool) (k : List Char) (rewrite : Smiles → Smiles) (w : World) : World × Option Smiles :=
  match w.lookupKey k with
  | none => (w, none)                  -- KeyError: the conversion raises, the world is untouched
  | some a =>
    let (w1, p) := if copying then w.copy a else (w, a)
    let v := rewrite (w1.get p)
    (w1.set p v, some v)

end Gly.Heap
