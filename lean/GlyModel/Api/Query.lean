import GlyModel.Mono.Factory
/-
  Small decision-logic Models of glycan.py / merger.py that the API-level properties talk about:
  `recipe_equality` (count's node matchers), `Merger.merge`'s start atom and root anomer.
-/
namespace Gly.Query
open Gly Gly.Model

/-- `no=True`: the first SAC entries of the two recipes are equal (`none` = no SAC entry: `.index` raises). -/
def matchBasic (g q : Recipe) : Bool :=
  match firstOfType g Gen.frontCfg.tSAC, firstOfType q Gen.frontCfg.tSAC with
  | some a, some b => a == b
  | _, _ => false

/-- `some=True`: every entry of the query's recipe occurs in the glycan residue's recipe. -/
def matchSome (g q : Recipe) : Bool := q.all (fun x => g.contains x)

def sacCount (r : Recipe) : Nat := r.countP (fun x => x.2 == Gen.frontCfg.tSAC)

/-- Model of `Merger.merge`'s choice of the atom the SMILES is written from: the atoms whose carbon number equals
    `start` if there is exactly one, else the atom numbered 1 (`numbers` lists each atom's number, `x[:,1]`). -/
def startAtom (numbers : List Int) (start : Int) : Option Nat :=
  match (List.range numbers.length).filter (fun i => numbers.getD i 0 == start) with
  | [i] => some i
  | _ =>
    match (List.range numbers.length).filter (fun i => numbers.getD i 0 == 1) with
    | [i] => some i
    | _ => none      -- `.squeeze().item()` raises unless exactly one atom is numbered 1

/-- Decision logic of the root anomer: `Monomer.to_chirality` is applied only when the residue has no anomer of its
    own (`is_non_chiral`), so a written suffix wins over the option; any option value other than a/b means undefined. -/
def rootConfig (suffix : Option Char) (opt : Char) : Option Char :=
  match suffix with
  | some c => some c
  | none => if opt.toLower == 'a' then some 'a' else if opt.toLower == 'b' then some 'b' else none

end Gly.Query
