/-
  Model of the life of a `Glycan` object (glycan.py: `__parse` after a successful parse, `get_smiles`, `__release`): when the
  molecule is assembled (at construction, or lazily at the first `get_smiles`), what is cached, and that nothing leaves the object
  without having passed the release gate. RDKit's verdict on a string (`valid`) and the results of walking / merging are inputs.
-/
namespace Gly.Life

structure Obj where
  treeOnly : Bool
  full     : Bool
  treeFull : Bool
  cached   : Option (List Char)     -- `glycan_smiles`
deriving Repr, DecidableEq

/-- `__release`: the empty string stays, a string RDKit accepts as one placeholder-free molecule stays, anything else becomes `""` -/
def release (valid : List Char → Bool) (s : List Char) : List Char :=
  if s.isEmpty then s else if valid s then s else []

/-- `__parse` after the grammar accepted the input: `tfCtor` is the `tree_full` of the constructor's walk, `merged` what
    `Merger.merge` returns if it is called now (`none` = it raises: the constructor stores `""` and re-raises). -/
def construct (valid : List Char → Bool) (treeOnly full tfCtor : Bool) (merged : Option (List Char)) : Option Obj :=
  if !treeOnly && tfCtor && full then
    match merged with
    | some m => some ⟨treeOnly, full, tfCtor, some (release valid m)⟩
    | none => none
  else some ⟨treeOnly, full, tfCtor, none⟩

/-- `get_smiles`: `tfLazy` / `mergedLazy` are the results of the walk and merge it performs when nothing is cached yet. -/
def getSmiles (valid : List Char → Bool) (o : Obj) (tfLazy : Bool) (mergedLazy : Option (List Char)) : Option (List Char × Obj) :=
  if !o.treeOnly && o.full && !o.treeFull then some ([], o)
  else match o.cached with
    | some c => some (c, o)
    | none =>
      match mergedLazy with
      | some m =>
        -- a tree_only object keeps the tree (and the flag) it was built with: the walk for the molecule is a local one
        some (release valid m, { o with treeFull := if o.treeOnly then o.treeFull else tfLazy, cached := some (release valid m) })
      | none => none

/-- what may leave the object -/
def Deliverable (valid : List Char → Bool) (s : List Char) : Prop := s = [] ∨ valid s = true

def Inv (valid : List Char → Bool) (o : Obj) : Prop := ∀ c, o.cached = some c → Deliverable valid c

end Gly.Life
