import GlyModel.Smiles.Sem
import GlyModel.Smiles.Assembly
import GlyModel.Smiles.Tree
/-
  Tokeniser for the SMILES subset GlyLES produces (organic-subset atoms, bracket atoms, ring closures incl. %nn,
  branches, bond symbols) and the per-merge certificate that ties the character-level assembly Model to the
  token-level graft theorem.
-/
namespace Gly.Smi
open Gly.Asm

def isBondChar (c : Char) : Bool := c == '-' || c == '=' || c == '#' || c == ':' || c == '/' || c == '\\'

def tokenizeGo : Nat → List Char → Option (List Tok)
  | 0, [] => some []
  | 0, _ :: _ => none
  | _, [] => some []
  | fuel + 1, c :: rest =>
    if c == '[' then
      let body := rest.takeWhile (· != ']')
      let after := rest.dropWhile (· != ']')
      match after with
      | ']' :: after' => (tokenizeGo fuel after').map (Tok.atom ('[' :: body ++ [']']) :: ·)
      | _ => none
    else if c == '(' then (tokenizeGo fuel rest).map (Tok.lpar :: ·)
    else if c == ')' then (tokenizeGo fuel rest).map (Tok.rpar :: ·)
    else if isBondChar c then (tokenizeGo fuel rest).map (Tok.bond c :: ·)
    else if isDigit c then (tokenizeGo fuel rest).map (Tok.ring (digitsToNat [c]) :: ·)
    else if c == '%' then
      match rest with
      | d1 :: d2 :: rest' => if isDigit d1 && isDigit d2 then (tokenizeGo fuel rest').map (Tok.ring (digitsToNat [d1, d2]) :: ·) else none
      | _ => none
    else if c == 'C' then
      match rest with
      | 'l' :: rest' => (tokenizeGo fuel rest').map (Tok.atom ['C', 'l'] :: ·)
      | _ => (tokenizeGo fuel rest).map (Tok.atom ['C'] :: ·)
    else if c == 'B' then
      match rest with
      | 'r' :: rest' => (tokenizeGo fuel rest').map (Tok.atom ['B', 'r'] :: ·)
      | _ => (tokenizeGo fuel rest).map (Tok.atom ['B'] :: ·)
    else if c == 'N' || c == 'O' || c == 'P' || c == 'S' || c == 'F' || c == 'I' ||
            c == 'c' || c == 'n' || c == 'o' || c == 's' || c == 'p' || c == 'b' then
      (tokenizeGo fuel rest).map (Tok.atom [c] :: ·)
    else none

def tokenize (s : List Char) : Option (List Tok) := tokenizeGo (s.length + 1) s

def isMarkerAtom (sym : List Char) (a : Atom) : Bool :=
  match matchMarker sym a with
  | some [] => true
  | _ => false

def markerIdxs (sym : List Char) (ts : List Tok) : List Nat :=
  (List.range ts.length).filter (fun i => match ts.getD i .lpar with | .atom a => isMarkerAtom sym a | _ => false)

/-- split a token list at the unique marker atom -/
def splitAtMarker (sym : List Char) (ts : List Tok) : Option (List Tok × Atom × List Tok) :=
  match markerIdxs sym ts with
  | [i] => match ts.getD i .lpar with
    | .atom a => some (ts.take i, a, ts.drop (i + 1))
    | _ => none
  | _ => none

/-- Hypotheses of `Gly.Smi.graft` for one splice, all decidable: returns `true` iff the theorem applies and the
    character-level result tokenises to `pre ++ block ++ post`. -/
def certifySplice (sym : List Char) (me block result : List Char) : Bool :=
  match tokenize me, tokenize block, tokenize result with
  | some tme, some (Tok.atom c0 :: C'), some tres =>
    match splitAtMarker sym tme with
    | some (pre, _, post) =>
      match run St.init pre, run St.init (Tok.atom c0 :: C') with
      | some S, some c =>
        S.prev.isSome &&
        (match post with | [] => true | Tok.rpar :: _ => true | _ => false) &&
        c.stack.isEmpty && c.opens.isEmpty && c.pend.isNone &&
        (labelsOf C').all (fun l => (lookupLabel l S.opens).isNone) &&
        tres == pre ++ (Tok.atom c0 :: C') ++ post
      | _, _ => false
    | none => false
  | _, _, _ => false

/-- Removing doubled parentheses must not change the denoted molecule. -/
def sameSem (a b : List Char) : Bool :=
  match tokenize a, tokenize b with
  | some ta, some tb => (match sem ta, sem tb with | some ma, some mb => ma == mb | _, _ => false)
  | _, _ => false

mutual
/-- Re-plays `mergeInt` and certifies every splice and every sanitisation step. -/
def certifyMerge : Nat → Node → Nat → Bool
  | 0, _, _ => false
  | fuel + 1, .mk raw nrings kids, ringIndex =>
    -- the label walk of `to_smiles` is the token-level renaming `+ ringIndex` (instance of C02_shift_preserves_molecule)
    (match tokenize raw, tokenize (shiftSmiles raw ringIndex) with
     | some t0, some t1 => t1 == t0.map (relabelTok (· + ringIndex))
     | _, _ => false) &&
    certifyKids fuel kids Gen.dummyAtoms (ringIndex + max 1 nrings) (shiftSmiles raw ringIndex)
def certifyKids : Nat → List Node → List ((Nat × List Char) × (Nat × List Char)) → Nat → List Char → Bool
  | 0, _, _, _, _ => false
  | _, [], _, _, _ => true
  | _, _ :: _, [], _, _ => true
  | fuel + 1, kid :: kids, ((_, osym), (_, nsym)) :: ms, childIndex, me =>
    match mergeInt fuel kid childIndex with
    | .error _ => false
    | .ok child =>
      let useO := isInfix osym me
      let sym := if useO then osym else nsym
      let block := if useO then child else ['N', '('] ++ child.drop 1 ++ [')']
      let me1 := subMarker sym block (me.length + 1) me
      certifyMerge fuel kid childIndex && certifySplice sym me block me1 &&
        (match sanitize (me1.length + 2) me1 with
         | none => false
         | some me2 => sameSem' me me1 me2 && certifyKids fuel kids ms childIndex me2)
/-- `sanitize` may only be compared when the whole string is already a closed SMILES; inner nodes are fragments whose
    markers are still atoms, so they are closed too. -/
def sameSem' (_me me1 me2 : List Char) : Bool := me1 == me2 || sameSem me1 me2
end

/-! ### Bridge from the character-level Model of `merge_int` to the token-level tree of `GlyModel.Smiles.Tree` -/

/-- the marker atoms of `get_dummy_atoms` (any of the eight elements, with or without explicit H count) -/
def isMkDummy (a : Atom) : Bool :=
  Gen.dummyAtoms.any (fun m => isMarkerAtom m.1.2 a || isMarkerAtom m.2.2 a)

def findMarker (sym : List Char) (ts : List Tok) : Option Atom :=
  ts.findSome? (fun t => match t with | .atom a => if isMarkerAtom sym a then some a else none | _ => none)

mutual
/-- The residue tree as `merge_int` walks it: every residue's boundary string after the label walk of `to_smiles`, tokenised;
    the k-th child paired with the k-th marker pair (O-marker if present in the string, else N-marker). -/
def toTNode : Nat → Node → Nat → Option TNode
  | 0, _, _ => none
  | fuel + 1, .mk raw nrings kids, ringIndex =>
    match tokenize (shiftSmiles raw ringIndex) with
    | none => none
    | some toks => (toTKids fuel kids Gen.dummyAtoms (ringIndex + max 1 nrings) toks).map (TNode.mk toks)
def toTKids : Nat → List Node → List ((Nat × List Char) × (Nat × List Char)) → Nat → List Tok → Option (List (Atom × Bool × TNode))
  | 0, _, _, _, _ => none
  | _, [], _, _, _ => some []
  | _, _ :: _, [], _, _ => none            -- a child without a marker pair would be dropped by `zip`: no certificate
  | fuel + 1, kid :: kids, ((_, osym), (_, nsym)) :: ms, childIndex, toks =>
    match toTNode fuel kid childIndex, toTKids fuel kids ms childIndex toks with
    | some k, some rest =>
      (match findMarker osym toks with
       | some a => some ((a, false, k) :: rest)
       | none =>
         match findMarker nsym toks with
         | some a => some ((a, true, k) :: rest)
         | none => none)
    | _, _ => none
end

/-- Whole-merge certificate: the tree of boundary strings passes `wfTree` and what the character-level Model of
    `merge_int` returns (splices, `sanitize_smiles`) denotes the same molecule as the token-level `mergeTok`. -/
def certifyTree (fuel : Nat) (node : Node) : Bool :=
  match toTNode fuel node 0, mergeInt fuel node 0 with
  | some t, .ok out =>
    wfTree isMkDummy t &&
    (match tokenize out with
     | some to => (sem to).isSome && sem to == sem (mergeTok t)
     | none => false)
  | _, _ => false

/-! ### Certificate on the strings the code itself produced (independent of the Model's label walk and offsets) -/

/-- a residue as observed in `merge_int`: the string `Monomer.to_smiles` returned for it (labels already shifted) -/
inductive ONode where
  | mk (shifted : List Char) (kids : List ONode)
deriving Inhabited

mutual
def obsTNode : ONode → Option TNode
  | .mk sh kids =>
    match tokenize sh with
    | none => none
    | some toks => (obsTKids kids Gen.dummyAtoms toks).map (TNode.mk toks)
def obsTKids : List ONode → List ((Nat × List Char) × (Nat × List Char)) → List Tok → Option (List (Atom × Bool × TNode))
  | [], _, _ => some []
  | _ :: _, [], _ => none
  | kid :: kids, ((_, osym), (_, nsym)) :: ms, toks =>
    match obsTNode kid, obsTKids kids ms toks with
    | some k, some rest =>
      (match findMarker osym toks with
       | some a => some ((a, false, k) :: rest)
       | none =>
         match findMarker nsym toks with
         | some a => some ((a, true, k) :: rest)
         | none => none)
    | _, _ => none
end

/-- The observed residue strings form a well-formed tree and the string the **code** returned from `merge_int` denotes the
    same molecule as the token-level assembly of that tree. -/
def certifyObserved (node : ONode) (out : List Char) : Bool :=
  match obsTNode node, tokenize out with
  | some t, some to => wfTree isMkDummy t && (sem to).isSome && sem to == sem (mergeTok t)
  | _, _ => false

end Gly.Smi
