/-
  Spec: what a SMILES token string *means* – a molecule as the list of its atoms (in writing order) and the ordered
  list of bond events. The ordered neighbour list of an atom (what SMILES chirality marks refer to) is determined by
  the order of the events that mention it; a ring-closure digit reserves its slot at the opening atom (`ropen`).
-/
namespace Gly.Smi

/-- Atom token: the text as written (`C`, `Cl`, `c`, `[C@@H]`, `[Ga]`, …). -/
abbrev Atom := List Char

inductive Tok where
  | atom (a : Atom)
  | bond (b : Char)
  | lpar
  | rpar
  | ring (l : Nat)
deriving DecidableEq, Repr, Inhabited

inductive Ev where
  | bond (i j : Nat) (b : Option Char)        -- chain / branch bond between the previous atom i and the new atom j
  | ropen (i : Nat) (l : Nat) (b : Option Char)
  | rclose (i q : Nat) (l : Nat) (b : Option Char)   -- atom i closes the ring that atom q opened with label l
deriving DecidableEq, Repr, Inhabited

def Ev.map (f : Nat → Nat) : Ev → Ev
  | .bond i j b => .bond (f i) (f j) b
  | .ropen i l b => .ropen (f i) l b
  | .rclose i q l b => .rclose (f i) (f q) l b

structure St where
  atoms : List Atom
  evs   : List Ev
  prev  : Option Nat
  stack : List Nat
  pend  : Option Char
  opens : List (Nat × Nat)        -- (label, atom)
deriving DecidableEq, Repr, Inhabited

def St.init : St := ⟨[], [], none, [], none, []⟩

def lookupLabel (l : Nat) : List (Nat × Nat) → Option Nat
  | [] => none
  | (l', a) :: rest => if l' = l then some a else lookupLabel l rest

def eraseLabel (l : Nat) : List (Nat × Nat) → List (Nat × Nat)
  | [] => []
  | (l', a) :: rest => if l' = l then rest else (l', a) :: eraseLabel l rest

/-- One token. `none` = not a SMILES (bond without atom, unbalanced parenthesis, dangling bond symbol, …). -/
def step (s : St) : Tok → Option St
  | .atom a =>
    let n := s.atoms.length
    some { s with atoms := s.atoms ++ [a],
                  evs := s.evs ++ (match s.prev with | some p => [Ev.bond p n s.pend] | none => []),
                  prev := some n, pend := none }
  | .bond b =>
    match s.prev, s.pend with
    | some _, none => some { s with pend := some b }
    | _, _ => none
  | .lpar =>
    match s.prev, s.pend with
    | some p, none => some { s with stack := p :: s.stack }
    | _, _ => none
  | .rpar =>
    match s.stack, s.pend with
    | p :: rest, none => some { s with prev := some p, stack := rest }
    | _, _ => none
  | .ring l =>
    match s.prev with
    | none => none
    | some p =>
      match lookupLabel l s.opens with
      | some q => some { s with evs := s.evs ++ [Ev.rclose p q l s.pend], opens := eraseLabel l s.opens, pend := none }
      | none => some { s with evs := s.evs ++ [Ev.ropen p l s.pend], opens := (l, p) :: s.opens, pend := none }

def run (s : St) : List Tok → Option St
  | [] => some s
  | t :: ts => match step s t with
    | some s' => run s' ts
    | none => none

/-- A finished molecule: nothing pending. -/
structure Mol where
  atoms : List Atom
  evs   : List Ev
deriving DecidableEq, Repr, Inhabited

def St.closed (s : St) : Bool := s.stack.isEmpty && s.opens.isEmpty && s.pend.isNone

def sem (ts : List Tok) : Option Mol :=
  match run St.init ts with
  | some s => if s.closed then some ⟨s.atoms, s.evs⟩ else none
  | none => none

/-- ring labels used by a token list -/
def labelsOf : List Tok → List Nat
  | [] => []
  | .ring l :: ts => l :: labelsOf ts
  | _ :: ts => labelsOf ts

def relabelTok (f : Nat → Nat) : Tok → Tok
  | .ring l => .ring (f l)
  | t => t

end Gly.Smi
