import GlyModel.Smiles.Graph
/-
  Elemental composition and ring size of a denoted molecule (organic-subset valence rules; bracket atoms carry their
  hydrogens explicitly). Used by the table theorems of C08.
-/
namespace Gly.Smi

def bondOrder : Option Char → Nat
  | some '=' => 2
  | some '#' => 3
  | _ => 1

/-- sum of the bond orders at atom `k` -/
def valenceUsed (evs : List Ev) (k : Nat) : Nat :=
  (evs.map (fun e => match e with
    | .bond i j b => if i == k || j == k then bondOrder b else 0
    | .rclose i q _ b => if i == k || q == k then bondOrder b else 0
    | .ropen _ _ _ => 0)).sum

def defaultValence (el : List Char) : Nat :=
  if el == ['C'] then 4 else if el == ['N'] then 3 else if el == ['O'] then 2 else if el == ['S'] then 2 else if el == ['P'] then 3 else 1

/-- hydrogens written inside a bracket atom: `H` = 1, `Hn` = n, none = 0 -/
def bracketH (a : Atom) : Nat :=
  match a.dropWhile (· != 'H') with
  | 'H' :: d :: _ => if d.isDigit then d.toNat - '0'.toNat else 1
  | ['H'] => 1
  | _ => 0

def hydrogens (m : Mol) (k : Nat) : Nat :=
  let a := m.atoms.getD k []
  if a.head? == some '[' then bracketH a
  else defaultValence (element a) - valenceUsed m.evs k

def countElem (m : Mol) (el : List Char) : Nat := (m.atoms.filter (fun a => element a == el)).length

/-- (C, H, N, O) counts -/
def formula (m : Mol) : Nat × Nat × Nat × Nat :=
  (countElem m ['C'], ((List.range m.atoms.length).map (hydrogens m)).sum, countElem m ['N'], countElem m ['O'])

/-- the ring closed by the (single) ring-closure bond of a table row: the atoms on the written chain between the opening
    and the closing atom form the ring when the row is written along the ring (rows are); its size is the length of the
    shortest path between the two atoms that avoids the closure bond, plus one. Breadth-first, fuel = number of atoms. -/
def ringSizeGo (adj : Nat → List Nat) (target : Nat) : Nat → List Nat → List Nat → Nat → Option Nat
  | 0, _, _, _ => none
  | fuel + 1, frontier, seen, d =>
    if frontier.contains target then some d
    else
      let next := (frontier.flatMap adj).filter (fun x => !seen.contains x)
      let next := next.eraseDups
      if next.isEmpty then none else ringSizeGo adj target fuel next (seen ++ next) (d + 1)

def ringInfo (m : Mol) : Option (Nat × Nat) :=        -- (ring size, number of ring oxygens) of the first ring closure
  match m.evs.findSome? (fun e => match e with | .rclose i q _ _ => some (i, q) | _ => none) with
  | none => none
  | some (i, q) =>
    let adj := fun k => (m.evs.flatMap (fun e => match e with
      | .bond a b _ => if a == k then [b] else if b == k then [a] else []
      | _ => []))
    (ringSizeGo adj q m.atoms.length [i] [i] 0).map (fun d => (d + 1, 0))

end Gly.Smi
