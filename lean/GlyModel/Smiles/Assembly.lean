import GlyModel.Generated.Tables
/-
  Model of the string-level assembly: `shift` / the ring-label walk of `Monomer.to_smiles` (monomer.py),
  the marker substitution and recursion of `Merger.merge_int` (merger.py) and `sanitize_smiles` (utils.py).
  What RDKit writes for a marked residue (`MolToSmiles(rootedAtAtom=…)`) is a boundary input (`raw`).
-/
namespace Gly.Asm
open Gly

def isDigit (c : Char) : Bool := '0'.toNat ≤ c.toNat && c.toNat ≤ '9'.toNat

/-- The character class `[A-G|I-Za-z|\]|%]` of the label regex in `to_smiles`. -/
def inLabelClass (c : Char) : Bool :=
  ('A'.toNat ≤ c.toNat && c.toNat ≤ 'G'.toNat) || ('I'.toNat ≤ c.toNat && c.toNat ≤ 'Z'.toNat) ||
  ('a'.toNat ≤ c.toNat && c.toNat ≤ 'z'.toNat) || c == ']' || c == '%' || c == '|'

def digitsToNat (ds : List Char) : Nat := ds.foldl (fun n d => 10 * n + (d.toNat - '0'.toNat)) 0

/-- `shift(d, offset)`: `%` prefix iff the result has more than one digit. -/
def shiftLabel (ds : List Char) (offset : Nat) : List Char :=
  let x := (toString (digitsToNat ds + offset)).toList
  if x.length != 1 then '%' :: x else x

/-- The `re.finditer(r'[A-G|I-Za-z|\]|%]\d+')` walk: after `%` the whole number is one label, otherwise every digit is a label. -/
def shiftGo : Nat → List Char → Nat → List Char
  | 0, s, _ => s
  | _, [], _ => []
  | fuel + 1, c :: rest, k =>
    if inLabelClass c then
      let ds := rest.takeWhile isDigit
      let rest' := rest.dropWhile isDigit
      if ds.isEmpty then c :: shiftGo fuel rest k
      else if c == '%' then shiftLabel ds k ++ shiftGo fuel rest' k
      else c :: (ds.flatMap (fun d => shiftLabel [d] k)) ++ shiftGo fuel rest' k
    else c :: shiftGo fuel rest k

def shiftSmiles (s : List Char) (k : Nat) : List Char := shiftGo (s.length + 1) s k

/-- Does the string start with the marker pattern `\[XxH*\d*\]` for element `sym`? Returns the rest after the match. -/
def matchMarker (sym : List Char) (s : List Char) : Option (List Char) :=
  match s with
  | '[' :: rest =>
    if sym.isPrefixOf rest then
      let r1 := rest.drop sym.length
      let r2 := r1.dropWhile (· == 'H')
      let r3 := r2.dropWhile isDigit
      match r3 with
      | ']' :: r4 => some r4
      | _ => none
    else none
  | _ => none

/-- `re.sub(pattern, lambda _: repl, s)`: every occurrence, left to right, non-overlapping. -/
def subMarker (sym repl : List Char) : Nat → List Char → List Char
  | 0, s => s
  | _, [] => []
  | fuel + 1, c :: rest =>
    match matchMarker sym (c :: rest) with
    | some after => repl ++ subMarker sym repl fuel after
    | none => c :: subMarker sym repl fuel rest

def isInfix (p s : List Char) : Bool := (List.range (s.length + 1)).any (fun i => p.isPrefixOf (s.drop i))

/-- index of the first occurrence of the two-character pattern -/
def indexOf2 (a b : Char) : List Char → Option Nat
  | x :: y :: rest => if x == a && y == b then some 0 else (indexOf2 a b (y :: rest)).map (· + 1)
  | _ => none

/-- `get_index_forward(s, i)`: partner of the opening bracket at position i (none = the Python returns -1). -/
def indexForward (s : List Char) (i : Nat) : Option Nat :=
  let rec go : List Char → Nat → Nat → Option Nat
    | [], _, _ => none
    | c :: rest, pos, depth =>
      let depth' := if c == '(' then depth + 1 else if c == ')' then depth - 1 else depth
      if depth' == 0 then some pos else go rest (pos + 1) depth'
  go (s.drop i) i 0

/-- `get_index_backward(s, i)`: partner of the closing bracket at position i, scanning `range(i, 0, -1)` (index 0 is never looked at). -/
def indexBackward (s : List Char) (i : Nat) : Option Nat :=
  let rec go : Nat → Nat → Nat → Option Nat
    | 0, _, _ => none
    | fuel + 1, pos, depth =>
      if pos == 0 then none else
      let c := s.getD pos ' '
      let depth' := if c == ')' then depth + 1 else if c == '(' then depth - 1 else depth
      if depth' == 0 then some pos else go fuel (pos - 1) depth'
  go (i + 1) i 0

def removeAt (s : List Char) (i : Nat) : List Char := s.take i ++ s.drop (i + 1)

/-- `sanitize_smiles`; `none` = the Python would not terminate / misbehave (partner not found). -/
def sanitize : Nat → List Char → Option (List Char)
  | 0, _ => none
  | fuel + 1, s =>
    match indexOf2 '(' '(' s with
    | some m =>
      match indexForward s (m + 1) with
      | some idx => sanitize fuel (removeAt (removeAt s idx) (m + 1))
      | none => none
    | none =>
      match indexOf2 ')' ')' s with
      | some m =>
        match indexBackward s m with
        | some idx => sanitize fuel (removeAt (removeAt s (m + 1)) idx)
        | none => none
      | none => some s

/-- A marked residue as `merge_int` sees it. -/
inductive Node where
  | mk (raw : List Char) (nrings : Nat) (kids : List Node)
deriving Repr, Inhabited

inductive Err where | noMarker | sanitize | fuel
deriving Repr, DecidableEq

mutual
def mergeInt : Nat → Node → Nat → Except Err (List Char)
  | 0, _, _ => .error .fuel
  | fuel + 1, .mk raw nrings kids, ringIndex =>
    let me := shiftSmiles raw ringIndex
    mergeKids fuel kids Gen.dummyAtoms (ringIndex + max 1 nrings) me
def mergeKids : Nat → List Node → List ((Nat × List Char) × (Nat × List Char)) → Nat → List Char → Except Err (List Char)
  | 0, _, _, _, _ => .error .fuel
  | _, [], _, _, me => .ok me
  | _, _ :: _, [], _, me => .ok me          -- zip stops at the shorter list: children beyond the marker table are ignored
  | fuel + 1, kid :: kids, ((_, osym), (_, nsym)) :: ms, childIndex, me =>
    match mergeInt fuel kid childIndex with
    | .error e => .error e
    | .ok child =>
      let me1 :=
        if isInfix osym me then subMarker osym child (me.length + 1) me
        else if isInfix nsym me then subMarker nsym (['N', '('] ++ child.drop 1 ++ [')']) (me.length + 1) me
        else me
      match sanitize (me1.length + 2) me1 with
      | none => .error .sanitize
      | some me2 => mergeKids fuel kids ms childIndex me2
end

/-! ### The label invariant the splice relies on (decidable hypothesis, evaluated on every real merge) -/

/-- ring labels of a SMILES text in order of appearance (digits, `%nn`) -/
def labelsGo : Nat → List Char → Bool → List Nat
  | 0, _, _ => []
  | _, [], _ => []
  | fuel + 1, c :: rest, inBracket =>
    if c == '[' then labelsGo fuel rest true
    else if c == ']' then labelsGo fuel rest false
    else if inBracket then labelsGo fuel rest true
    else if c == '%' then
      let ds := rest.take 2
      digitsToNat ds :: labelsGo fuel (rest.drop 2) false
    else if isDigit c then digitsToNat [c] :: labelsGo fuel rest false
    else labelsGo fuel rest false

def labels (s : List Char) : List Nat := labelsGo (s.length + 1) s false

/-- labels that are open (seen an odd number of times) at the end of `s` -/
def openLabels (s : List Char) : List Nat :=
  (labels s).foldl (fun acc l => if acc.contains l then acc.erase l else l :: acc) []

/-- position of the first marker occurrence: the text before it -/
def beforeMarker (sym : List Char) : Nat → List Char → Option (List Char)
  | 0, _ => none
  | _, [] => none
  | fuel + 1, c :: rest =>
    match matchMarker sym (c :: rest) with
    | some _ => some []
    | none => (beforeMarker sym fuel rest).map (c :: ·)

mutual
/-- `LabelsOK`: at every splice, no label of the child's assembled text is open in the parent's text at the marker. -/
def labelsOK : Nat → Node → Nat → Bool
  | 0, _, _ => false
  | fuel + 1, .mk raw nrings kids, ringIndex =>
    labelsOKKids fuel kids Gen.dummyAtoms (ringIndex + max 1 nrings) (shiftSmiles raw ringIndex)
def labelsOKKids : Nat → List Node → List ((Nat × List Char) × (Nat × List Char)) → Nat → List Char → Bool
  | 0, _, _, _, _ => false
  | _, [], _, _, _ => true
  | _, _ :: _, [], _, _ => true
  | fuel + 1, kid :: kids, ((_, osym), (_, nsym)) :: ms, childIndex, me =>
    match mergeInt fuel kid childIndex with
    | .error _ => false
    | .ok child =>
      let sym := if isInfix osym me then osym else nsym
      let okHere := match beforeMarker sym (me.length + 1) me with
        | some pre => (labels child).all (fun l => !(openLabels pre).contains l) && (labels child).all (· < 100)
        | none => false
      let me1 :=
        if isInfix osym me then subMarker osym child (me.length + 1) me
        else if isInfix nsym me then subMarker nsym (['N', '('] ++ child.drop 1 ++ [')']) (me.length + 1) me
        else me
      okHere && labelsOK fuel kid childIndex &&
        (match sanitize (me1.length + 2) me1 with
         | none => false
         | some me2 => labelsOKKids fuel kids ms childIndex me2)
end

end Gly.Asm
