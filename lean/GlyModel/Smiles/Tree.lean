import GlyModel.Smiles.Sem
/-
  Whole-glycan assembly at token level.

  Model: `mergeTok` – the recursion of `Merger.merge_int` over the residue tree, on token lists: every child is merged
  first, then spliced over its marker atom in the parent's string (`re.sub` of the marker by the child's SMILES, or by
  `"N(" + child[1:] + ")"` for N-linkages).

  Spec: `specTree` – the molecule the glycan *means*: the residue's own molecule with, for every child, the child's
  molecule grafted at the atom that carries the child's marker (`Mol.graft`). The Spec never looks at a merged string.
-/
namespace Gly.Smi

/-- token-level marker substitution: every occurrence of the marker atom is replaced by the block -/
def substTok (m : Atom) (block : List Tok) (ts : List Tok) : List Tok :=
  ts.flatMap (fun t => if t = Tok.atom m then block else [t])

/-- A residue with its boundary string (tokenised) and its children: marker atom, N-linkage flag, child. -/
inductive TNode where
  | mk (toks : List Tok) (kids : List (Atom × Bool × TNode))

/-- what `merge_int` splices over the marker: the child's SMILES, or `N(` child without its first atom `)` -/
def blockOf (nlink : Bool) (child : List Tok) : List Tok :=
  if nlink then Tok.atom ['N'] :: Tok.lpar :: (child.drop 1 ++ [Tok.rpar]) else child

mutual
def mergeTok : TNode → List Tok
  | .mk toks kids => mergeKidsTok kids toks
def mergeKidsTok : List (Atom × Bool × TNode) → List Tok → List Tok
  | [], ts => ts
  | (m, nl, k) :: rest, ts => mergeKidsTok rest (substTok m (blockOf nl (mergeTok k)) ts)
end

/-! ### Spec -/

/-- indices below `N` stay, indices from `N` on move up by `d` -/
def ren (N d : Nat) (i : Nat) : Nat := if i < N then i else i + d

def isBondTo (i : Nat) : Ev → Bool
  | .bond _ j _ => j == i
  | _ => false

/-- **Graft**: atom `i` of `P` (a leaf: it was introduced by one bond event and nothing else mentions it) is replaced by
    the molecule `C`, identified at `C`'s first atom. Atoms of `P` before `i`, then the atoms of `C`, then the rest of `P`;
    the events of `P` up to and including the bond that introduced atom `i`, then the events of `C` (indices shifted by
    `i`), then the remaining events of `P` (indices ≥ `i` moved up by `|C| - 1`). Every event of both molecules is kept in
    its order, so every ordered neighbour list – what the stereo marks refer to – is carried over unchanged. -/
def Mol.graft (P : Mol) (i : Nat) (C : Mol) : Mol :=
  let k := P.evs.findIdx (isBondTo i) + 1
  ⟨P.atoms.take i ++ C.atoms ++ P.atoms.drop (i + 1),
   P.evs.take k ++ C.evs.map (Ev.map (· + i)) ++ (P.evs.drop k).map (Ev.map (ren i (C.atoms.length - 1)))⟩

/-- an N-linked child: its anomeric `O` is the parent's nitrogen -/
def nCap (C : Mol) : Mol := ⟨['N'] :: C.atoms.drop 1, C.evs⟩

mutual
def specTree : TNode → Option Mol
  | .mk toks kids => (sem toks).bind (specKids kids)
def specKids : List (Atom × Bool × TNode) → Mol → Option Mol
  | [], P => some P
  | (m, nl, k) :: rest, P =>
    (specTree k).bind (fun C => specKids rest (P.graft (P.atoms.idxOf m) (if nl then nCap C else C)))
end

/-! ### Decidable well-formedness of a tree of boundary strings (evaluated by the driver on every real merge) -/

def atomsOf : List Tok → List Atom
  | [] => []
  | .atom a :: ts => a :: atomsOf ts
  | _ :: ts => atomsOf ts

def isLeafPost : List Tok → Bool
  | [] => true
  | .rpar :: _ => true
  | _ => false

def startsWithAtom : List Tok → Bool
  | .atom _ :: _ => true
  | _ => false

/-- The marker `m` sits exactly once in `ts`, on a leaf atom that has a parent atom, and none of `labels` (the ring
    labels of the block that will replace it) is open at that point. -/
def slotOK (ts : List Tok) (m : Atom) (labels : List Nat) : Bool :=
  let pre := ts.takeWhile (· != Tok.atom m)
  match ts.dropWhile (· != Tok.atom m) with
  | [] => false
  | _ :: post =>
    !post.contains (Tok.atom m) && isLeafPost post &&
    (match run St.init pre with
     | some S => S.prev.isSome && labels.all (fun l => (lookupLabel l S.opens).isNone)
     | none => false)

def nodupB : List Atom → Bool
  | [] => true
  | a :: as => !as.contains a && nodupB as

mutual
/-- `isMk` says which atom texts are marker atoms. -/
def wfTree (isMk : Atom → Bool) : TNode → Bool
  | .mk toks kids =>
    (sem toks).isSome && startsWithAtom toks &&
    nodupB (markersOf kids) &&
    ((atomsOf toks).filter isMk).all (fun a => (markersOf kids).contains a) &&
    wfKids isMk kids toks
def wfKids (isMk : Atom → Bool) : List (Atom × Bool × TNode) → List Tok → Bool
  | [], _ => true
  | (m, _, k) :: rest, toks =>
    isMk m && slotOK toks m (labelsOf (mergeTok k)) && wfTree isMk k && wfKids isMk rest toks
def markersOf : List (Atom × Bool × TNode) → List Atom
  | [] => []
  | (m, _, _) :: rest => m :: markersOf rest
end

end Gly.Smi
