import GlyModel.Smiles.Tokenize
/-
  Graph view of a denoted molecule: neighbours from the bond events.
-/
namespace Gly.Smi

/-- atoms bonded to atom `k` (chain/branch bonds and ring closures) -/
def neighbours (evs : List Ev) (k : Nat) : List Nat :=
  evs.flatMap (fun e => match e with
    | .bond i j _ => if i == k then [j] else if j == k then [i] else []
    | .rclose i q _ _ => if i == k then [q] else if q == k then [i] else []
    | .ropen _ _ _ => [])

/-- element letters of an atom token (`[C@@H]` ↦ `C`, `Cl` ↦ `Cl`) -/
def element (a : Atom) : List Char :=
  let body := if a.head? == some '[' then a.drop 1 else a
  (body.takeWhile Char.isAlpha).takeWhile (fun c => c != 'H' || body.head? == some 'H') |>.take
    (match body with
     | c1 :: c2 :: _ => if c1.isUpper && c2.isLower && c2 != 'H' then 2 else 1
     | _ => 1)

def semOfChars (s : List Char) : Option Mol := (tokenize s).bind sem

/-- positions (atom indices) at which two atom lists differ -/
def diffAtoms (a b : List Atom) : List Nat :=
  (List.range a.length).filter (fun i => a.getD i [] != b.getD i [])

/-- hemiacetal / hemiketal carbon: a carbon with exactly two oxygen neighbours -/
def isHemiacetalCarbon (m : Mol) (k : Nat) : Bool :=
  element (m.atoms.getD k []) == ['C'] &&
  ((neighbours m.evs k).filter (fun j => element (m.atoms.getD j []) == ['O'])).length == 2

end Gly.Smi
