import GlyProofs.Front.WalkDen
import GlyProofs.Props.C03
