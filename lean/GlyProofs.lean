import GlyProofs.Front.WalkDen
import GlyProofs.Front.ParseSound
import GlyProofs.Front.LexSpec
import GlyProofs.Front.Accept
import GlyProofs.Props.C03
import GlyProofs.Props.C15
