import Lean.Data.Json
import GlyModel
/-
  Line-protocol driver: one JSON request per line on stdin, one JSON answer per line on stdout.
-/
open Lean Gly

def charsToJson (cs : List Char) : Json := Json.str (String.ofList cs)

def recipeToJson (r : Recipe) : Json :=
  Json.arr (r.map (fun (t, ty) => Json.arr #[charsToJson t, Json.num ty])).toArray

def wstateToJson (st : WState) : Json :=
  Json.mkObj [
    ("names", Json.arr (st.nodes.map (fun r => charsToJson (r.map (·.1)).flatten)).toArray),
    ("recipes", Json.arr (st.nodes.map recipeToJson).toArray),
    ("edges", Json.arr (st.edges.map (fun (p, c, l) => Json.arr #[Json.num p, Json.num c, charsToJson l])).toArray),
    ("full", Json.bool st.full)]

def frontToJson (r : Model.FrontResult) : Json :=
  match r with
  | .lexError => Json.mkObj [("verdict", "lex-error")]
  | .parseError => Json.mkObj [("verdict", "parse-error")]
  | .shapeError => Json.mkObj [("verdict", "shape-error")]
  | .ok st => Json.mkObj [("verdict", "ok"), ("tree", wstateToJson st)]

def handleFront (j : Json) : Json :=
  let s := (j.getObjValAs? String "s").toOption.getD ""
  let both := (j.getObjValAs? Bool "both").toOption.getD false
  let r := Model.front Model.walkCfgTreeOnly true s.toList
  let out := frontToJson r
  if both then
    let r2 := Model.front Model.walkCfgTreeOnly false s.toList
    out.setObjVal! "memo_agrees" (Json.bool (toString (repr r) == toString (repr r2)))
  else out

def handle (line : String) : Json :=
  match Json.parse line with
  | .error e => Json.mkObj [("error", Json.str e)]
  | .ok j =>
    match (j.getObjValAs? String "op").toOption with
    | some "front" => handleFront j
    | some "accepts" =>
      let s := (j.getObjValAs? String "s").toOption.getD ""
      let r := Model.front Model.walkCfgTreeOnly true s.toList
      Json.mkObj [("accepts", Json.bool (match r with | .ok _ => true | _ => false)),
                  ("verdict", match r with | .ok _ => "ok" | .lexError => "lex-error" | .parseError => "parse-error" | .shapeError => "shape-error")]
    | some "ping" => Json.mkObj [("pong", Json.bool true)]
    | _ => Json.mkObj [("error", "unknown op")]

partial def loop (hin : IO.FS.Stream) (hout : IO.FS.Stream) : IO Unit := do
  let line ← hin.getLine
  if line.isEmpty then return ()
  let t := line.trimAscii.toString
  if !t.isEmpty then
    hout.putStrLn (handle t).compress
    hout.flush
  loop hin hout

def main : IO Unit := do
  loop (← IO.getStdin) (← IO.getStdout)
