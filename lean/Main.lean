import Lean.Data.Json
import GlyModel
/-
  Line-protocol driver: one JSON request per line on stdin, one JSON answer per line on stdout.
-/
open Lean Gly

def charsToJson (cs : List Char) : Json := Json.str (String.ofList cs)

def recipeToJson (r : Recipe) : Json :=
  Json.arr (r.map (fun (t, ty) => Json.arr #[charsToJson t, Json.num ty])).toArray

def wstateToJson (st : WState) : Json :=
  Json.mkObj [
    ("names", Json.arr (st.nodes.map (fun r => charsToJson (r.map (·.1)).flatten)).toArray),
    ("recipes", Json.arr (st.nodes.map recipeToJson).toArray),
    ("edges", Json.arr (st.edges.map (fun (p, c, l) => Json.arr #[Json.num p, Json.num c, charsToJson l])).toArray),
    ("full", Json.bool st.full), ("components", Json.num (components st)),
    ("depth", Json.num (Plan.depthOf st.edges st.nodes.length)),
    ("leaves", Json.arr ((Plan.outLeaves st.edges (List.range st.nodes.length)).map (fun (i : Nat) => Json.num i)).toArray)]

def frontToJson (r : Model.FrontResult) : Json :=
  match r with
  | .lexError => Json.mkObj [("verdict", "lex-error")]
  | .parseError => Json.mkObj [("verdict", "parse-error")]
  | .shapeError => Json.mkObj [("verdict", "shape-error")]
  | .ok st => Json.mkObj [("verdict", "ok"), ("tree", wstateToJson st)]

def handleFront (j : Json) : Json :=
  let s := (j.getObjValAs? String "s").toOption.getD ""
  let both := (j.getObjValAs? Bool "both").toOption.getD false
  let r := Model.front Model.walkCfgTreeOnly true s.toList
  let out := frontToJson r
  if both then
    let r2 := Model.front Model.walkCfgTreeOnly false s.toList
    out.setObjVal! "memo_agrees" (Json.bool (toString (repr r) == toString (repr r2)))
  else out

open Gly.Api in
def decodeInput (j : Json) : Input :=
  match (j.getObjValAs? String "s").toOption with
  | some s => .str s.toList
  | none => .other 0

open Gly.Api in
def decodeInputs (j : Json) (k : String) : Option (List Input) :=
  match j.getObjVal? k with
  | .ok (Json.arr a) => some (a.toList.map decodeInput)
  | _ => none

open Gly.Api in
def handleConvert (j : Json) : Json :=
  let convTbl : List (String × String) := match j.getObjVal? "conv" with
    | .ok (Json.obj kvs) => kvs.toList.filterMap (fun (k, v) => match v with | Json.str s => some (k, s) | _ => none)
    | _ => []
  let conv : Input → Outcome := fun g => match g with
    | .str s => match convTbl.lookup (String.ofList s) with
      | some r => .smiles r.toList
      | none => .raisesParse
    | .other _ => .raisesParse
  let single := (decodeInputs j "single").bind List.head?
  let list := decodeInputs j "list"
  let file := match (j.getObjValAs? String "file_content").toOption with
    | some c => some ((readLines c.toList).map Input.str)
    | none => decodeInputs j "file"
  let gen := decodeInputs j "gen"
  let genFn := (j.getObjValAs? Bool "gen_fn").toOption.getD false
  let verbose : Verbose := if (j.getObjValAs? Bool "verbose_none").toOption.getD false then .none_ else .level
  let sink : Sink := match (j.getObjValAs? String "sink").toOption with
    | some "stdout" => .stdout
    | some "file" => .file "out".toList
    | _ => .returning
  let prefill : List (List Char × List (List Char)) := match j.getObjVal? "prefill" with
    | .ok (Json.arr a) => [("out".toList, a.toList.map (fun x => match x with | Json.str l => l.toList | _ => []))]
    | _ => []
  let w : World := ⟨(j.getObjValAs? Bool "logger_disabled").toOption.getD false, [], prefill⟩
  let enc (p : Pair) : Json := Json.arr #[(match p.1 with | .str s => Json.str (String.ofList s) | .other _ => Json.null), Json.str (String.ofList p.2)]
  let (pairs, w') : Option (List Pair) × World :=
    if genFn then
      let r := convertGenerator conv single list file gen verbose w
      (some r.1, r.2)
    else
      let r := convert (fun f xs => xs.map f) conv single list file gen sink verbose w
      (match r.1 with | .list ps => some ps | .nothing => none, r.2)
  let world := [("logger_after", Json.bool w'.loggerDisabled),
                ("stdout", Json.arr (w'.stdout.map (fun l => Json.str (String.ofList l))).toArray),
                ("file", match w'.read "out".toList with
                   | some ls => Json.arr (ls.map (fun l => Json.str (String.ofList l))).toArray
                   | none => Json.null)]
  match pairs with
  | some ps => Json.mkObj ([("pairs", Json.arr (ps.map enc).toArray)] ++ world)
  | none => Json.mkObj ([("pairs", Json.arr #[]), ("none", Json.bool true)] ++ world)

open Gly.Api in
def handleCli (j : Json) : Json :=
  let args : List Arg := match j.getObjVal? "args" with
    | .ok (Json.arr a) => a.toList.map (fun x => match x.getObjVal? "file" with
        | .ok (Json.arr ls) => Arg.file (ls.toList.map (fun l => match l with | Json.str s => s.toList | _ => []))
        | _ => match x.getObjValAs? String "content" with
          | .ok c => Arg.file (splitLines c.toList)
          | _ => match x with | Json.str s => Arg.lit s.toList | _ => Arg.lit [])
    | _ => []
  let convTbl : List (String × String) := match j.getObjVal? "conv" with
    | .ok (Json.obj kvs) => kvs.toList.filterMap (fun (k, v) => match v with | Json.str s => some (k, s) | _ => none)
    | _ => []
  let conv : Input → Outcome := fun g => match g with
    | .str s => match convTbl.lookup (String.ofList s) with | some r => .smiles r.toList | none => .raisesParse
    | .other _ => .raisesParse
  match cliOutput conv args with
  | none => Json.mkObj [("lines", Json.null)]
  | some ls => Json.mkObj [("lines", Json.arr (ls.map (fun l => Json.str (String.ofList l))).toArray)]

def handleGate (j : Json) : Json :=
  let b (k : String) := (j.getObjValAs? Bool k).toOption.getD false
  let s := (j.getObjValAs? String "assembled").toOption.getD ""
  Json.mkObj [("released", Json.str (String.ofList (Gly.Api.gate (b "tree_only") (b "full") (b "tree_full") s.toList)))]

partial def decodeNode (j : Json) : Asm.Node :=
  let raw := (j.getObjValAs? String "raw").toOption.getD ""
  let nr := (j.getObjValAs? Nat "nrings").toOption.getD 1
  let kids := match j.getObjVal? "kids" with
    | .ok (Json.arr a) => a.toList.map decodeNode
    | _ => []
  .mk raw.toList nr kids

partial def nodeSize : Asm.Node → Nat
  | .mk _ _ kids => 1 + (kids.map nodeSize).sum

def handleMerge (j : Json) : Json :=
  match j.getObjVal? "tree" with
  | .ok t =>
    let node := decodeNode t
    let fuel := 2 * nodeSize node + 4
    let ok := Asm.labelsOK fuel node 0
    let cert := Smi.certifyMerge fuel node 0
    let tcert := Smi.certifyTree fuel node
    match Asm.mergeInt fuel node 0 with
    | .ok s => Json.mkObj [("ok", Json.bool true), ("smiles", Json.str (String.ofList s)), ("labels_ok", Json.bool ok), ("certified", Json.bool cert), ("tree_certified", Json.bool tcert)]
    | .error e => Json.mkObj [("ok", Json.bool false), ("error", Json.str (toString (repr e))), ("labels_ok", Json.bool ok)]
  | _ => Json.mkObj [("error", "no tree")]

partial def decodeONode (j : Json) : Smi.ONode :=
  let sh := (j.getObjValAs? String "shifted").toOption.getD ""
  let kids := match j.getObjVal? "kids" with
    | .ok (Json.arr a) => a.toList.map decodeONode
    | _ => []
  .mk sh.toList kids

def handleObserved (j : Json) : Json :=
  match j.getObjVal? "tree" with
  | .ok t =>
    let out := (j.getObjValAs? String "out").toOption.getD ""
    Json.mkObj [("observed_certified", Json.bool (Smi.certifyObserved (decodeONode t) out.toList))]
  | _ => Json.mkObj [("error", "no tree")]

def handleCreate (j : Json) : Json :=
  let recipe : Recipe := match j.getObjVal? "recipe" with
    | .ok (Json.arr a) => a.toList.filterMap (fun x => match x with
        | Json.arr #[Json.str t, ty] => (ty.getNat?.toOption).map (fun n => (t.toList, n))
        | _ => none)
    | _ => []
  let config := ((j.getObjValAs? String "config").toOption.getD "").toList
  match Model.create recipe config with
  | none => Json.mkObj [("kind", "raises")]
  | some r =>
    Json.mkObj [("kind", "ok"),
      ("table", Json.str (match r.table with | .pyranose => "pyranose" | .furanose => "furanose" | .open_ => "open" | .succinic => "succinic" | .unknown => "unknown")),
      ("key", charsToJson r.key),
      ("row_key", match r.row with | some row => charsToJson row.key | none => Json.null),
      ("smiles", match r.row with | some row => charsToJson row.smiles | none => Json.null),
      ("name", match r.row with | some row => charsToJson row.name | none => Json.null),
      ("config", match r.row with | some row => Json.num row.config | none => Json.null),
      ("isomer", match r.row with | some row => Json.num row.isomer | none => Json.null),
      ("lactole", match r.row with | some row => Json.num row.lactole | none => Json.null),
      ("recipe", recipeToJson r.recipe)]

def namesTypes (j : Json) : List (List Char) × List Nat :=
  let names : List (List Char) := match j.getObjVal? "names" with
    | .ok (Json.arr a) => a.toList.map (fun x => match x with | Json.str s => s.toList | _ => [])
    | _ => []
  let types : List Nat := match j.getObjVal? "types" with
    | .ok (Json.arr a) => a.toList.map (fun x => (x.getNat?.toOption).getD 0)
    | _ => []
  (names, types)

def handleOpenForm (j : Json) : Json :=
  let (names, types) := namesTypes j
  let chain := (j.getObjValAs? Nat "chain").toOption.getD 0
  match Basic.openFormText names types chain with
  | some s => Json.mkObj [("kind", "ok"), ("smiles", charsToJson s)]
  | none => Json.mkObj [("kind", "raises")]

def handleExtension (j : Json) : Json :=
  let (names, types) := namesTypes j
  let c := (j.getObjValAs? Nat "c_count").toOption.getD 0
  match Basic.extension names types c with
  | some s => Json.mkObj [("kind", "ok"), ("extension", charsToJson s)]
  | none => Json.mkObj [("kind", "raises")]

def decodeRecipe (j : Json) (k : String) : Recipe :=
  match j.getObjVal? k with
  | .ok (Json.arr a) => a.toList.filterMap (fun x => match x with
      | Json.arr #[Json.str t, ty] => (ty.getNat?.toOption).map (fun n => (t.toList, n))
      | _ => none)
  | _ => []

def handleMatch (j : Json) : Json :=
  let g := decodeRecipe j "g"
  let q := decodeRecipe j "q"
  Json.mkObj [("basic", Json.bool (Query.matchBasic g q)), ("some", Json.bool (Query.matchSome g q)),
              ("g_has_sac", Json.bool (Model.firstOfType g Gen.frontCfg.tSAC).isSome), ("q_has_sac", Json.bool (Model.firstOfType q Gen.frontCfg.tSAC).isSome)]

def decodeGraph (j : Json) (k : String) : Embed.G :=
  match j.getObjVal? k with
  | .ok o =>
    let recipes : List Recipe := match o.getObjVal? "recipes" with
      | .ok (Json.arr a) => a.toList.map (fun r => match r with
          | Json.arr b => b.toList.filterMap (fun x => match x with
              | Json.arr #[Json.str t, ty] => (ty.getNat?.toOption).map (fun n => (t.toList, n))
              | _ => none)
          | _ => [])
      | _ => []
    let edges : List Embed.Edge := match o.getObjVal? "edges" with
      | .ok (Json.arr a) => a.toList.filterMap (fun x => match x with
          | Json.arr #[p, c, Json.str l] => some ((p.getNat?.toOption).getD 0, (c.getNat?.toOption).getD 0, l.toList)
          | _ => none)
      | _ => []
    ⟨recipes, edges⟩
  | _ => ⟨[], []⟩

/-- `count`: the Model of `Glycan.count(query, match_nodes=True, …)` on the trees and recipes the code built -/
def handleCount (j : Json) : Json :=
  let g := decodeGraph j "g"
  let q := decodeGraph j "q"
  let cnt (node : Recipe → Recipe → Bool) (e : Bool) := Json.num (Embed.count node (Embed.edgeEq e) g q)
  Json.mkObj [("basic", cnt Query.matchBasic false), ("basic_edges", cnt Query.matchBasic true),
              ("some", cnt Query.matchSome false), ("some_edges", cnt Query.matchSome true)]

def handleStart (j : Json) : Json :=
  let numbers : List Int := match j.getObjVal? "numbers" with
    | .ok (Json.arr a) => a.toList.map (fun x => (x.getInt?.toOption).getD 0)
    | _ => []
  let start := (j.getObjValAs? Int "start").toOption.getD 0
  let suffix := ((j.getObjValAs? String "suffix").toOption.getD "").toList.head?
  let opt := (((j.getObjValAs? String "option").toOption.getD "n").toList.head?).getD 'n'
  Json.mkObj [("position", match Query.startAtom numbers start with | some i => Json.num i | none => Json.null),
              ("config", match Query.rootConfig suffix opt with | some c => Json.str (String.singleton c) | none => Json.null)]

def handleAssemble (j : Json) : Json :=
  let str (k : String) := ((j.getObjValAs? String k).toOption.getD "").toList
  let chains : List (List Char × List Char) := match j.getObjVal? "chains" with
    | .ok (Json.arr a) => a.toList.map (fun x => match x with
        | Json.arr #[Json.str c, Json.str cc] => (c.toList, cc.toList)
        | _ => ([], []))
    | _ => []
  let offset := (j.getObjValAs? Nat "offset").toOption.getD 0
  Json.mkObj [("text", charsToJson (React.assembleText (str "marked") chains offset)),
              ("certified", Json.bool (React.certifyAssemble (str "marked") chains offset (str "final")))]

def handleEnumC (j : Json) : Json :=
  let atoms : List EnumC.AtomV := match j.getObjVal? "atoms" with
    | .ok (Json.arr a) => a.toList.map (fun x => match x with
        | Json.arr #[z, r, i] => ⟨(z.getNat?.toOption).getD 0, (r.getNat?.toOption).getD 0, (i.getNat?.toOption).getD 0⟩
        | _ => ⟨0, 0, 0⟩)
    | _ => []
  let adj : List (Nat × Nat × Nat) := match j.getObjVal? "adj" with
    | .ok (Json.arr a) => a.toList.filterMap (fun x => match x with
        | Json.arr #[a, b, o] => some ((a.getNat?.toOption).getD 0, (b.getNat?.toOption).getD 0, (o.getNat?.toOption).getD 0)
        | _ => none)
    | _ => []
  let chain : List Nat := match j.getObjVal? "chain_open" with
    | .ok (Json.arr a) => a.toList.map (fun x => (x.getNat?.toOption).getD 0)
    | _ => []
  match EnumC.enumerate ⟨atoms, adj⟩ chain with
  | .ok x => Json.mkObj [("kind", "ok"), ("numbers", Json.arr (x.map (fun (n : Nat) => Json.num n)).toArray)]
  | .raises w => Json.mkObj [("kind", "raises"), ("what", Json.str w)]
  | .unmodelled => Json.mkObj [("kind", "unmodelled")]

def handleFindOx (j : Json) : Json :=
  let atoms : List EnumC.AtomV := match j.getObjVal? "atoms" with
    | .ok (Json.arr a) => a.toList.map (fun x => match x with
        | Json.arr #[z, r, i] => ⟨(z.getNat?.toOption).getD 0, (r.getNat?.toOption).getD 0, (i.getNat?.toOption).getD 0⟩
        | _ => ⟨0, 0, 0⟩)
    | _ => []
  let adj : List (Nat × Nat × Nat) := match j.getObjVal? "adj" with
    | .ok (Json.arr a) => a.toList.filterMap (fun x => match x with
        | Json.arr #[a, b, o] => some ((a.getNat?.toOption).getD 0, (b.getNat?.toOption).getD 0, (o.getNat?.toOption).getD 0)
        | _ => none)
    | _ => []
  let x : List Nat := match j.getObjVal? "x" with
    | .ok (Json.arr a) => a.toList.map (fun y => (y.getNat?.toOption).getD 0)
    | _ => []
  let v : EnumC.View := ⟨atoms, adj⟩
  let enc (r : EnumC.Res Nat) : Json := match r with
    | .ok n => Json.num n
    | .raises w => Json.str w
    | .unmodelled => Json.null
  let markJ : List (String × Json) := match (j.getObjValAs? Nat "binding").toOption, (j.getObjValAs? Nat "o_marker").toOption, (j.getObjValAs? Nat "n_marker").toOption with
    | some b, some oZ, some nZ => [("mark", match EnumC.markAt v x b oZ nZ with
        | .ok (r, z) => Json.arr #[Json.num r, Json.num z]
        | .raises w => Json.str w
        | .unmodelled => Json.null)]
    | _, _, _ => []
  match (j.getObjValAs? Nat "binding").toOption, (j.getObjValAs? Nat "position").toOption with
  | some b, _ => Json.mkObj ([("find", enc (EnumC.findOxygen v x b)), ("root", enc (EnumC.rootAtomId v x b))] ++ markJ)
  | none, some p => Json.mkObj [("find", enc (EnumC.findOxygenAt v [p]))]
  | none, none => Json.mkObj [("error", "no binding / position")]

def handleRingC (j : Json) : Json :=
  let atoms : List EnumC.AtomV := match j.getObjVal? "atoms" with
    | .ok (Json.arr a) => a.toList.map (fun x => match x with
        | Json.arr #[z, r, i] => ⟨(z.getNat?.toOption).getD 0, (r.getNat?.toOption).getD 0, (i.getNat?.toOption).getD 0⟩
        | _ => ⟨0, 0, 0⟩)
    | _ => []
  let x : List Nat := match j.getObjVal? "x" with
    | .ok (Json.arr a) => a.toList.map (fun y => (y.getNat?.toOption).getD 0)
    | _ => []
  Json.mkObj [("ring_c", Json.num (EnumC.ringCOf ⟨atoms, []⟩ x))]

/-- `life`: the Model of a Glycan object's construction and two `get_smiles()` calls, fed with what was observed inside the code -/
def handleLife (j : Json) : Json :=
  let b (k : String) := (j.getObjValAs? Bool k).toOption.getD false
  let optStr (k : String) : Option (List Char) := match j.getObjVal? k with
    | .ok (Json.str s) => some s.toList
    | _ => none
  let validTbl : List (String × Bool) := match j.getObjVal? "valid" with
    | .ok (Json.obj kvs) => kvs.toList.filterMap (fun (k, v) => match v with | Json.bool x => some (k, x) | _ => none)
    | _ => []
  let valid : List Char → Bool := fun s => (validTbl.lookup (String.ofList s)).getD false
  let enc (r : Option (List Char × Life.Obj)) : Json := match r with
    | some (s, _) => Json.str (String.ofList s)
    | none => Json.null
  match Life.construct valid (b "tree_only") (b "full") (b "tf_ctor") (optStr "merged_ctor") with
  | none => Json.mkObj [("construct", "raises")]
  | some o =>
    let r1 := Life.getSmiles valid o (b "tf_lazy") (optStr "merged_lazy")
    let r2 := match r1 with
      | some (_, o') => Life.getSmiles valid o' (b "tf_lazy") (optStr "merged_lazy")
      | none => none
    Json.mkObj [("construct", "ok"), ("first", enc r1), ("second", enc r2)]

def handleReact (j : Json) : Json :=
  let str (k : String) := ((j.getObjValAs? String k).toOption.getD "").toList
  let nat (k : String) := (j.getObjValAs? Nat k).toOption.getD 0
  let elemAt : List (Option Char) := match j.getObjVal? "elemAt" with
    | .ok (Json.arr a) => a.toList.map (fun x => match x with | Json.str s => s.toList.head? | _ => none)
    | _ => []
  let mods : List (List Char) := match j.getObjVal? "mods" with
    | .ok (Json.arr a) => a.toList.map (fun x => match x with | Json.str s => s.toList | _ => [])
    | _ => []
  let v : React.View := ⟨str "name", nat "ncarbon", elemAt, nat "ringC", nat "uronic"⟩
  let chainsJson (cs : React.Chains) : Json :=
    Json.arr (cs.map (fun c => Json.arr #[Json.str (String.ofList c.1), Json.str (String.ofList c.2)])).toArray
  -- all rounds: one boundary view per round
  let views : Option (List React.View) := match j.getObjVal? "views" with
    | .ok (Json.arr a) => some (a.toList.map (fun o =>
        let s (k : String) := ((o.getObjValAs? String k).toOption.getD "").toList
        let n (k : String) := (o.getObjValAs? Nat k).toOption.getD 0
        let ea : List (Option Char) := match o.getObjVal? "elemAt" with
          | .ok (Json.arr b) => b.toList.map (fun x => match x with | Json.str t => t.toList.head? | _ => none)
          | _ => []
        (⟨s "name", n "ncarbon", ea, n "ringC", n "uronic"⟩ : React.View)))
    | _ => none
  match views with
  | some vs =>
    (match React.reactAll vs mods (nat "recipe_len") with
     | .ok (rounds, full) => Json.mkObj [("kind", "ok"), ("full", Json.bool full), ("rounds", Json.arr (rounds.map chainsJson).toArray)]
     | .error e => Json.mkObj [("kind", "error"), ("what", Json.str e)]
     | .unmodelled => Json.mkObj [("kind", "unmodelled")])
  | none =>
  match React.reactRound v mods with
  | .ok st => Json.mkObj [("kind", "ok"), ("full", Json.bool st.full),
      ("chains", Json.arr (st.chains.map (fun c => Json.arr #[Json.str (String.ofList c.1), Json.str (String.ofList c.2)])).toArray),
      ("higher", Json.arr (st.higher.map (fun h => Json.str (String.ofList h))).toArray)]
  | .error e => Json.mkObj [("kind", "error"), ("what", Json.str e)]
  | .unmodelled => Json.mkObj [("kind", "unmodelled")]

def callToJson : Plan.Call → Json
  | .chir n c => Json.arr #["chir", Json.num n, Json.str (String.singleton c)]
  | .mark n p k => Json.arr #["mark", Json.num n, Json.num p, Json.num k]
  | .smiles n r => Json.arr #["smiles", Json.num n, Json.num r]
  | .root c p => Json.arr #["root", Json.num c, Json.num p]

/-- `plan`: the Model of `Merger.mark` / `Merger.merge_int` on an edge list (observed in the code, and – when the glycan text is
    given – the one the Model front-end produces), with the per-node observations `undef` (no anomer of its own) and `rings`. -/
def handlePlan (j : Json) : Json :=
  let edges : List Plan.Edge := match j.getObjVal? "edges" with
    | .ok (Json.arr a) => a.toList.filterMap (fun x => match x with
        | Json.arr #[p, c, Json.str l] => some ((p.getNat?.toOption).getD 0, (c.getNat?.toOption).getD 0, l.toList)
        | _ => none)
    | _ => []
  let undef : List Bool := match j.getObjVal? "undef" with
    | .ok (Json.arr a) => a.toList.map (fun x => match x with | Json.bool b => b | _ => false)
    | _ => []
  let rings : List Nat := match j.getObjVal? "rings" with
    | .ok (Json.arr a) => a.toList.map (fun x => (x.getNat?.toOption).getD 0)
    | _ => []
  let pe := ((j.getObjValAs? String "pe").toOption.getD "").toList
  let ns := Gen.dummyAtoms.length
  let enc (r : Option (List Plan.Call)) : Json := match r with
    | some cs => Json.arr (cs.map callToJson).toArray
    | none => Json.null
  let run (es : List Plan.Edge) : List (String × Json) :=
    let fuel := undef.length + 2
    [("mark", enc (Plan.go (Plan.markTrav (fun i => undef.getD i false) ns) es fuel 0 pe ())),
     ("merge", enc (Plan.go (Plan.mergeTrav (fun i => rings.getD i 0) ns) es fuel 0 pe 0))]
  let base := run edges
  let viaModel : List (String × Json) := match (j.getObjValAs? String "s").toOption with
    | some s => match Model.front Model.walkCfgTreeOnly true s.toList with
      | .ok st => (run st.edges).map (fun (k, v) => (k ++ "_m", v))
      | _ => [("front", "rejected")]
    | none => []
  Json.mkObj (base ++ viaModel)

def handle (line : String) : Json :=
  match Json.parse line with
  | .error e => Json.mkObj [("error", Json.str e)]
  | .ok j =>
    match (j.getObjValAs? String "op").toOption with
    | some "front" => handleFront j
    | some "accepts" =>
      let s := (j.getObjValAs? String "s").toOption.getD ""
      let r := Model.front Model.walkCfgTreeOnly true s.toList
      let n := s.length + 2
      let any1 := if s.length ≤ 60 then some (Model.acceptsAny (parseFuel n) s.toList) else none
      let any2 := if s.length ≤ 60 then some (Model.acceptsAny (2 * parseFuel n) s.toList) else none
      Json.mkObj [("accepts", Json.bool (match r with | .ok _ => true | _ => false)),
                  ("any", match any1 with | some b => Json.bool b | none => Json.null),
                  ("any2", match any2 with | some b => Json.bool b | none => Json.null),
                  ("verdict", match r with | .ok _ => "ok" | .lexError => "lex-error" | .parseError => "parse-error" | .shapeError => "shape-error")]
    | some "convert" => handleConvert j
    | some "cli" => handleCli j
    | some "gate" => handleGate j
    | some "create" => handleCreate j
    | some "enumc" => handleEnumC j
    | some "findox" => handleFindOx j
    | some "assemble" => handleAssemble j
    | some "match" => handleMatch j
    | some "start" => handleStart j
    | some "openform" => handleOpenForm j
    | some "extension" => handleExtension j
    | some "merge" => handleMerge j
    | some "observed" => handleObserved j
    | some "react" => handleReact j
    | some "plan" => handlePlan j
    | some "life" => handleLife j
    | some "ringc" => handleRingC j
    | some "count" => handleCount j
    | some "ping" => Json.mkObj [("pong", Json.bool true)]
    | _ => Json.mkObj [("error", "unknown op")]

partial def loop (hin : IO.FS.Stream) (hout : IO.FS.Stream) : IO Unit := do
  let line ← hin.getLine
  if line.isEmpty then return ()
  let t := line.trimAscii.toString
  if !t.isEmpty then
    hout.putStrLn (handle t).compress
    hout.flush
  loop hin hout

def main : IO Unit := do
  loop (← IO.getStdin) (← IO.getStdout)
