#!/bin/bash
# Offline set-up: regenerate the tables from /repo and build the Lean model, the proofs and the driver.
cd "$(dirname "$0")"
exec ./check setup
